import Swat4.Lemmas.StoreRefine
import Swat4.Lemmas.StoreDrv
/-!
# C11 — The registry behaves as a versioned map with exact query predicates

Property theorems only.  `RStore` + the writer machine (`Model/Store.lean`, `Model/StoreMachine.lean`)
is the Redis-level model of `repositories/servers`; `AbsState` (`Spec/Registry.lean`) is the
specification: a map `address ↦ (record, updatedAt)` with `add / update / remove / get /
filter / count / countByStatus`.  `Rel` relates the two; every call run alone refines its
specification, `Filter` returns exactly the records satisfying `FilterSet.pred`.
-/
namespace Swat4.C11
open Swat4 Swat4.RStore Std

/-! ## 1. abstraction relation -/

/-- `Rel st a` says: the specification's row of every key is the stored record with its `servers:updated` score -/
theorem rel_iff (st : RStore) (a : AbsState) :
    Rel st a ↔ ∀ k : Nat, a.servers[k]? = (st.items[k]?).map fun r => (⟨r, (st.updated[k]?).getD 0⟩ : SRow) :=
  ⟨fun h => h.servers, fun h => ⟨h⟩⟩

/-- a store determines the registry part of the specification state it stands for -/
theorem rel_unique {st : RStore} {a : AbsState} (h : Rel st a) : a.servers = absServers st := h.servers_eq

/-- the empty keyspace stands for the empty registry -/
theorem rel_empty : Rel {} {} := Swat4.rel_empty

/-! ## 2. writes -/

/-- **a write call refines its specification.**  From a store related to `a` with no lock cell on
the call's key, the writer machine (`SET NX EX`, `WATCH`, `GET`, `HGET`, decide, `MULTI…EXEC`,
`UNWATCH`, release) run alone for 16 commands ends in `done` with the specification's result,
in a consistent store related to the specification's next state, with the lock map as before
(in particular no lock cell on the key).

No hypothesis on the resolver is needed: both levels store the resolved record under *its own*
address (`saveBatch` / `AbsState.save`), so the refinement holds for every function, not only the
address-preserving ones.  (That the lock taken on the *caller's* address covers the key written
is C09's concern.) -/
theorem write_refines {st : RStore} {a : AbsState} (hc : Consistent st) (hrel : Rel st a) (clock : Int)
    (op : WOp) (tok fresh : Nat) (hno : st.locks[op.svr.addr.key]? = none) :
    (runWriter st clock (Writer.start op tok) fresh 16).2.pc = .done (specWrite a clock op).2 ∧
    Rel (runWriter st clock (Writer.start op tok) fresh 16).1 (specWrite a clock op).1 ∧
    Consistent (runWriter st clock (Writer.start op tok) fresh 16).1 ∧
    (runWriter st clock (Writer.start op tok) fresh 16).1.locks = st.locks ∧
    (runWriter st clock (Writer.start op tok) fresh 16).1.locks[op.svr.addr.key]? = none := by
  obtain ⟨h1, h2, h3⟩ := write_refines_aux hrel clock op tok fresh hno
  exact ⟨h1, h2, runWriter_consistent hc _ _ _ _, h3, by rw [h3]; exact hno⟩

/-- `Add`: state of `AbsState.add`; `ok` records equal, the only error is *exists* on both sides -/
theorem add_refines {st : RStore} {a : AbsState} (hrel : Rel st a) (clock : Int) (svr : Server) (res : Resolver)
    (tok fresh : Nat) (hno : st.locks[svr.addr.key]? = none) :
    Rel (runWriter st clock (Writer.start ⟨.add, svr, res⟩ tok) fresh 16).1 (a.add clock svr res).1 ∧
    (match (a.add clock svr res).2 with
     | .ok s => (runWriter st clock (Writer.start ⟨.add, svr, res⟩ tok) fresh 16).2.pc = .done (.ok (some s))
     | .error e => e = .serverExists ∧
        (runWriter st clock (Writer.start ⟨.add, svr, res⟩ tok) fresh 16).2.pc = .done (.error .exists)) := by
  obtain ⟨h1, h2, _⟩ := write_refines_aux hrel clock ⟨.add, svr, res⟩ tok fresh hno
  obtain ⟨e1, e2⟩ := specWrite_add a clock svr res
  rw [e1] at h2
  rw [e2] at h1
  refine ⟨h2, ?_⟩
  cases hr : (a.add clock svr res).2 with
  | ok s => rw [hr] at h1; exact h1
  | error e => rw [hr] at h1; exact ⟨add_error_only a clock svr res e hr, h1⟩

/-- `Update`: state of `AbsState.update`; `ok` records equal, the only error is *not found* on both sides -/
theorem update_refines {st : RStore} {a : AbsState} (hrel : Rel st a) (clock : Int) (svr : Server) (res : Resolver)
    (tok fresh : Nat) (hno : st.locks[svr.addr.key]? = none) :
    Rel (runWriter st clock (Writer.start ⟨.update, svr, res⟩ tok) fresh 16).1 (a.update clock svr res).1 ∧
    (match (a.update clock svr res).2 with
     | .ok s => (runWriter st clock (Writer.start ⟨.update, svr, res⟩ tok) fresh 16).2.pc = .done (.ok (some s))
     | .error e => e = .serverNotFound ∧
        (runWriter st clock (Writer.start ⟨.update, svr, res⟩ tok) fresh 16).2.pc = .done (.error .notFound)) := by
  obtain ⟨h1, h2, _⟩ := write_refines_aux hrel clock ⟨.update, svr, res⟩ tok fresh hno
  obtain ⟨e1, e2⟩ := specWrite_update a clock svr res
  rw [e1] at h2
  rw [e2] at h1
  refine ⟨h2, ?_⟩
  cases hr : (a.update clock svr res).2 with
  | ok s => rw [hr] at h1; exact h1
  | error e => rw [hr] at h1; exact ⟨update_error_only a clock svr res e hr, h1⟩

/-- `Remove`: state of `AbsState.remove`; both sides return nil -/
theorem remove_refines {st : RStore} {a : AbsState} (hrel : Rel st a) (clock : Int) (svr : Server) (res : Resolver)
    (tok fresh : Nat) (hno : st.locks[svr.addr.key]? = none) :
    Rel (runWriter st clock (Writer.start ⟨.remove, svr, res⟩ tok) fresh 16).1 (a.remove svr res).1 ∧
    (a.remove svr res).2 = .ok () ∧
    (runWriter st clock (Writer.start ⟨.remove, svr, res⟩ tok) fresh 16).2.pc = .done (.ok none) := by
  obtain ⟨h1, h2, _⟩ := write_refines_aux hrel clock ⟨.remove, svr, res⟩ tok fresh hno
  exact ⟨h2, remove_ok a svr res, h1⟩

/-! ## 3. `Filter` -/

/-- `ZRANGEBYSCORE`: exactly the members whose score satisfies the bound -/
theorem mem_zrangeBy (m : ExtTreeMap Nat Int) (p : Int → Bool) (k : Nat) :
    k ∈ zrangeBy m p ↔ ∃ v : Int, m[k]? = some v ∧ p v = true :=
  RStore.mem_zrangeBy m p k

/-- `SINTER` over the bits of a non-empty mask: keys of the stored records having all of them -/
theorem mem_sinter {st : RStore} (hc : Consistent st) {mask : Status} (hm : mask ≠ 0#9) (k : Nat) :
    k ∈ sinter st mask ↔ ∃ r : Server, st.items[k]? = some r ∧ Status.has r.status mask = true :=
  RStore.mem_sinter hc hm k

/-- `SUNION` over the bits of a mask: keys of the stored records having any of them -/
theorem mem_sunion {st : RStore} (hc : Consistent st) (mask : Status) (k : Nat) :
    k ∈ sunion st mask ↔ ∃ r : Server, st.items[k]? = some r ∧ Status.hasAny r.status mask = true :=
  RStore.mem_sunion hc mask k

/-- `slice.Intersection` of a non-empty list of key lists = members of all of them (duplicates ignored) -/
theorem mem_intersection (s : List Nat) (rest : List (List Nat)) (x : Nat) :
    x ∈ intersection (s :: rest) ↔ ∀ t, t ∈ s :: rest → x ∈ t :=
  RStore.mem_intersection s rest x

/-- `slice.Difference` -/
theorem mem_difference (base : List Nat) (others : List (List Nat)) (x : Nat) :
    x ∈ difference base others ↔ x ∈ base ∧ ∀ t, t ∈ others → x ∉ t :=
  RStore.mem_difference base others x

/-- `filterServerKeys` returns, without duplicates, exactly the keys of the stored records that satisfy
`FilterSet.pred` (incl. "no include criterion ⇒ all of `servers:updated`"; masks are `BitVec 9`, so all
their bits are status bits) -/
theorem mem_filterKeys {st : RStore} (hc : Consistent st) (fs : FilterSet) (k : Nat) :
    k ∈ filterKeys st fs ↔
      ∃ r : Server, st.items[k]? = some r ∧ fs.pred ⟨r, (st.updated[k]?).getD 0⟩ = true :=
  RStore.mem_filterKeys hc fs k

theorem nodup_filterKeys (st : RStore) (fs : FilterSet) : (filterKeys st fs).Nodup :=
  RStore.nodup_filterKeys st fs

/-- **`Filter` = predicate.**  On a consistent store the index pipeline + `HMGET` returns, up to
order, exactly the rows of the specification state that satisfy `FilterSet.pred` -/
theorem filter_eq_pred {st : RStore} {a : AbsState} (hc : Consistent st) (hrel : Rel st a) (fs : FilterSet) :
    (st.hmgetItems (st.filterKeys fs)).Perm (a.filter fs) :=
  RStore.filter_eq_pred hc hrel fs

/-! ## 4. `Get`, `Count`, `CountByStatus` -/

theorem get_refines {st : RStore} {a : AbsState} (hrel : Rel st a) (ad : Addr) : getM st ad = a.get ad :=
  RStore.get_refines hrel ad

/-- `HLEN servers:items` = number of rows -/
theorem count_refines {st : RStore} {a : AbsState} (hrel : Rel st a) : st.items.size = a.count :=
  RStore.count_refines hrel

/-- the nine `SCARD servers:status:<m>` = number of rows having `m`, for every member of `ds.Members()` -/
theorem countByStatus_refines {st : RStore} {a : AbsState} (hc : Consistent st) (hrel : Rel st a) :
    countByM st = Status.members.map a.countByStatus :=
  RStore.countByStatus_refines hc hrel

/-! ## 5. histories -/

/-- one call from related states: related states again and agreeing results -/
theorem C11_step {m : SeqM} {s : AbsState × Int} (h : Sim m s) (c : RCall) :
    Sim (stepM m c).1 (stepS s c).1 ∧ ResEq (stepM m c).2 (stepS s c).2 :=
  step_sim h c

/-- **C11.** For every history of registry calls (writes with arbitrary records, versions and
resolvers; `Get`, `Filter` with arbitrary filter sets, `Count`, `CountByStatus`; clock advances)
run sequentially from the empty keyspace, the Redis-level model returns item by item what the
versioned-map specification returns (`Filter` results up to order). -/
theorem C11_main (clock : Int) (fresh : Nat) (cs : List RCall) :
    HistEq (runHistM ⟨{}, clock, fresh⟩ cs) (runHistS ({}, clock) cs) :=
  runHist_sim (sim_init clock fresh) cs

/-- … and from any pair of related states -/
theorem C11_from {m : SeqM} {s : AbsState × Int} (h : Sim m s) (cs : List RCall) :
    HistEq (runHistM m cs) (runHistS s cs) :=
  runHist_sim h cs

/-- the model side of the C11 driver: `Drv.runCall` for a write (lock/WATCH machine with trace labels,
budget 200) renders exactly the specification's result and moves to a related, consistent,
lock-free store — i.e. the function the differential run compares with the Go code is the one
`write_refines` speaks about.  (Reads in `Drv.runCall` call `hmgetItems ∘ filterKeys`, `items[·]?`,
`items.size` and the per-bit member counts directly.) -/
theorem driver_write_refines {s : Drv.SeqState} {a : AbsState} (hc : Consistent s.st) (hrel : Rel s.st a)
    (hno : ∀ k : Nat, s.st.locks[k]? = none) (kind : WKind) (svr : Server) (res : Resolver) :
    (Drv.runCall s (.w kind svr res) .none).2.1 = Drv.renderWResult (specWrite a s.clock ⟨kind, svr, res⟩).2 ∧
    Rel (Drv.runCall s (.w kind svr res) .none).1.st (specWrite a s.clock ⟨kind, svr, res⟩).1 ∧
    Consistent (Drv.runCall s (.w kind svr res) .none).1.st ∧
    (∀ k : Nat, (Drv.runCall s (.w kind svr res) .none).1.st.locks[k]? = none) ∧
    (Drv.runCall s (.w kind svr res) .none).1.clock = s.clock :=
  Drv.runCall_write_refines hc hrel hno kind svr res

/-! ## non-vacuity -/

/-- the hypotheses of `C11_step` / `write_refines` are satisfiable -/
example : Sim ⟨{}, 0, 0⟩ ({}, 0) := sim_init 0 0

def demoServer : Server :=
  { addr := ⟨16843009, 10480⟩, queryPort := 10481, status := 6#9, info := [], details := ⟨[], [], []⟩,
    refreshedAt := some 7, version := 0 }

/-- a concrete write: `Add` into the empty registry stores version 1 and returns it -/
example : (specWrite {} 5 ⟨.add, demoServer, fun _ => none⟩).2 = .ok (some { demoServer with version := 1 }) := by
  simp [specWrite, AbsState.add, AbsState.getRow, AbsState.save, demoServer]

/-- … and the writer machine does the same on the empty keyspace -/
example : (runWriter {} 5 (Writer.start ⟨.add, demoServer, fun _ => none⟩ 0) 1 16).2.pc =
    .done (.ok (some { demoServer with version := 1 })) := by
  have h := (write_refines consistent_empty Swat4.rel_empty 5 ⟨.add, demoServer, fun _ => none⟩ 0 1 (by simp)).1
  rw [h]
  simp [specWrite, AbsState.add, AbsState.getRow, AbsState.save, demoServer]

end Swat4.C11
