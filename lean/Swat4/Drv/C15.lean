import Swat4.Drv.UCRun
/-!
Driver side of C15: `C15 cycle <refreshRetries> <revivalRetries> <init> <client> => eff=… calls=… res=… dump=…`

The random countdown draw of each revived server is recovered from the implementation's queue
(ready − now) and handed to the model.  Oracle on the implementation's dump, computed from the
planted registry alone (independent of the `Prog` model): the queue is the initial queue plus
exactly one probe per selected server with the exact fields; revival ready times lie in
`[now, now + countdown)` (`= now` for countdown 0) and below the expiry; the reported count is
the number of selected servers (for countdown ≤ interval: the number enqueued).
-/
namespace Swat4.Drv.C15
open Swat4 Swat4.Drv Swat4.UC Std

structure PLine where
  addr : String
  port : String
  goal : String
  retries : String
  maxr : String
  expires : String
  ready : Int

def queueOf (dump : String) : List PLine :=
  let lines := (dump.splitOn ";").map (·.splitOn ",")
  let pis := lines.filterMap fun l => match l with
    | ["PI", n, a, port, goal, retries, maxr, exp] => some (n, a, port, goal, retries, maxr, exp)
    | _ => none
  let pqs := lines.filterMap fun l => match l with
    | ["PQ", n, sc] => sc.toInt?.map fun s => (n, s)
    | _ => none
  pis.filterMap fun (n, a, port, goal, retries, maxr, exp) =>
    (pqs.lookup n).map fun r => ⟨a, port, goal, retries, maxr, exp, r⟩

def planted (ep : Int) (initS : String) : List Server × Int × Nat :=
  (initS.splitOn ",").foldl (fun (acc : List Server × Int × Nat) it =>
    if it.startsWith "adv" then (acc.1, acc.2.1 + ((it.drop 3).toInt?.getD 0), acc.2.2)
    else if it.startsWith "call|add!" then
      match (it.drop 9).toString.splitOn "!" with
      | [srv, _] => match parseServer srv with
        | some s =>
          -- `Add` on an existing address with a refusing resolver changes nothing
          if acc.1.any (fun x => x.addr.key == s.addr.key) then acc else (acc.1 ++ [{ s with version := s.version + 1 }], acc.2)
        | none => acc
      | _ => acc
    else if it.startsWith "call|update!" then
      -- `Update` with the overwriting resolver: whatever is stored, the caller's record replaces it (a history in which
      -- the refresh time of a record goes back); on a missing address it is stored as new
      match (it.drop 12).toString.splitOn "!" with
      | [srv, "over"] => match parseServer srv with
        | some s =>
          if acc.1.any (fun x => x.addr.key == s.addr.key)
          then (acc.1.map (fun x => if x.addr.key == s.addr.key then { s with version := x.version + 1 } else x), acc.2)
          else (acc.1 ++ [{ s with version := s.version + 1 }], acc.2)
        | none => acc
      | _ => acc
    else if it.startsWith "call|penq!" then (acc.1, acc.2.1, acc.2.2 + 1)
    else acc) ([], ep, 0)

/-- `cycle0`: the same with the clock started on 1970-01-02: every nanosecond is then an exact float64 score, so intervals,
countdowns and refresh times need not be multiples of 256 ns (at 2024 scores the stored precision) -/
def epoch0 : Int := 86400000000000

def handle (args out : List String) : Verdict :=
  match (match args with | "cycle0" :: rest => (epoch0, "cycle" :: rest) | a => (epoch, a)) with
  | (ep, ["cycle", rr, vr, initS, clientS]) =>
    match rr.toInt?, vr.toInt?, kv out "eff", kv out "calls", kv out "res", kv out "dump", parseSpec clientS with
    | some rr, some vr, some ieff, some icalls, some ires, some idump, some spec =>
      let cfg : UCfg := { refreshRetries := rr, revivalRetries := vr }
      let (svrs, now, preQueued) := planted ep initS
      let q := queueOf idump
      -- recover the draws from the implementation's port probes
      let draws : Nat → Int := fun k =>
        match q.find? (fun p => p.goal == "1" && (parseAddr p.addr).map Addr.key == some k && p.expires != "z") with
        | some p => p.ready - now
        -- a selected server without a probe was dropped (ready ≥ expiry): any draw ≥ interval reproduces that
        | none => match spec with | .revive iv _ _ => iv | _ => 0
      match runInit cfg { clock := ep } (if initS = "-" then [] else initS.splitOn ",") with
      | none => .bad "C15 init"
      | some s0 =>
        let start := startClients s0 [spec.prog cfg draws]
        match replay start.sys (ieff.splitOn ",") with
        | none => .bad "C15 eff"
        | some run =>
          let mcalls := start.calls ++ run.calls
          let mcallsS := if mcalls.isEmpty then "-" else ",".intercalate mcalls
          let mres := clientResults run.sys
          let mdump := ";".intercalate (dumpState run.sys.abs)
          let same := mcallsS == icalls && mres == ires && mdump == idump
          -- the declarative oracle
          let newProbes := q.filter fun p => p.expires != "z"      -- probes of this cycle carry the cycle's deadline
          let (ok, why) : Bool × String := match spec with
            | .refresh iv =>
              let sel := svrs.filter fun s => Status.has s.status Status.port && !Status.hasAny s.status Status.detailsRetry
              let exact := sel.all (fun s => (newProbes.filter fun p => p.addr == s.addr.render && p.port == toString s.queryPort && p.goal == "0" &&
                  p.retries == "0" && p.maxr == toString rr && p.ready == now && p.expires == toString (now + iv)).length == 1)
              (exact && newProbes.length == sel.length && q.length == preQueued + sel.length && ires == s!"ok:{sel.length}",
               s!"refresh:selected={sel.length}:new={newProbes.length}:queue={q.length}")
            | .revive iv scope cd =>
              let sel := svrs.filter fun s => !Status.hasAny s.status (Status.port ||| Status.portRetry) &&
                (match s.refreshedAt with | some t => decide (now - scope ≤ t) && decide (t < now - iv) | none => false)
              let mine (s : Server) := newProbes.filter fun p => p.addr == s.addr.render && p.port == toString s.addr.port && p.goal == "1" &&
                  p.retries == "0" && p.maxr == toString vr && p.expires == toString (now + iv)
              let windowOk := newProbes.all fun p => decide (now ≤ p.ready) && decide (p.ready < now + iv) &&
                  (if cd ≤ 0 then p.ready == now else decide (p.ready < now + cd))
              let atMostOne := sel.all fun s => (mine s).length ≤ 1
              let onlySel := newProbes.all fun p => sel.any fun s => p.addr == s.addr.render
              let countOk := ires == s!"ok:{sel.length}"
              let allIfSmall := decide (cd > iv) || (sel.all fun s => (mine s).length == 1) && newProbes.length == sel.length
              (windowOk && atMostOne && onlySel && countOk && allIfSmall && q.length == preQueued + newProbes.length,
               s!"revive:selected={sel.length}:new={newProbes.length}:window={windowOk}:count={countOk}")
            | _ => (false, "not-a-cycle")
          let info := (if same then "" else
              (if mcallsS != icalls then s!"model-calls={mcallsS} " else "") ++ (if mres != ires then s!"model-res={mres} " else "") ++
              (if mdump != idump then s!"model-dump={mdump} " else "")) ++ (cond ok "" why)
          verdict same ok info
    | _, _, _, _, _, _, _ => .bad "C15 parse"
  | _ => .bad "C15 shape"

end Swat4.Drv.C15
