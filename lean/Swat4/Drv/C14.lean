import Swat4.Drv.UCRun
import Swat4.Model.CleanerComponent
/-!
Driver side of C14: `C14 seq|race <init> <clients> <events> => eff=… calls=… res=… dump=…`

Oracle, computed from the history alone by a tiny bookkeeping simulator (exists / last refresh /
last write per address), independent of the `Prog` model:
* `seq`: every `list|liveness|master` result is exactly the set of existing servers whose last
  report / keepalive / successful probe is no older than `clock − liveness`; after every `clean|retention`
  exactly the servers not written since `clock − retention` are gone; after every `cleanins|retention` exactly the
  instances not written (reported) since `clock − retention` are gone (inclusive bound, as coded), whatever became of
  their servers: the final instance table (`IN`/`IU` dump lines) is exactly the bookkeeping's, and a keepalive
  succeeds exactly when its instance and the server it names are both still stored.
* `race`: the server refreshed during the cleanup pass is still stored afterwards, the other stale
  servers are removed.
-/
namespace Swat4.Drv.C14
open Swat4 Swat4.Drv Swat4.UC Std

structure Book where
  addr : String
  ip : Nat
  lastRefresh : Int
  lastWrite : Int

structure Sim where
  clock : Int
  books : List Book := []
  insts : List (Nat × String × Nat × Int) := []      -- instance id ↦ (address text, ip, last write = the report that stored it)
  bad : List String := []
  done : List Nat := []

def svAddrs (dump : String) : List String :=
  (dump.splitOn ";").filterMap fun line =>
    match line.splitOn "," with
    | "SV" :: a :: _ => some a
    | _ => none

def Sim.touch (s : Sim) (a : String) (ip : Nat) (refresh : Bool) : Sim :=
  match s.books.find? (·.addr == a) with
  | some b => { s with books := s.books.map fun x => if x.addr == a then { x with lastWrite := s.clock, lastRefresh := if refresh then s.clock else b.lastRefresh } else x }
  | none => if refresh then { s with books := s.books ++ [⟨a, ip, s.clock, s.clock⟩] } else s

/-- apply a completed use case to the bookkeeping; `result` is the implementation's rendered result -/
def Sim.apply (s : Sim) (i : Nat) (sp : USpec) (result : String) : Sim :=
  match sp with
  | .report a _ id _ _ => if result == "ok" then { (s.touch a.render a.ip true) with insts := (id, a.render, a.ip, s.clock) :: s.insts.filter (·.1 != id) } else s
  | .renew id ip =>
    -- a keepalive succeeds exactly when its instance is still stored (not removed by the instance cleaner), was reported from
    -- this ip, and the server it names is still stored (not removed by the server cleaner)
    let known := match s.insts.lookup id with
      | some (a, iip, _) => if iip == ip && s.books.any (·.addr == a) then some a else none
      | none => none
    match known, result == "ok" with
    | some a, true => s.touch a ip true
    | none, false => s
    | some a, false => { s with bad := s.bad ++ [s!"client{i}:renew-failed-with-instance-and-server-stored:{a}:{result}"] }
    | none, true => { s with bad := s.bad ++ [s!"client{i}:renew-ok-without-instance-or-server"] }
  | .probe p oc =>
    if (s.books.any (·.addr == p.addr.render)) && (result == "ok" || result == "retried" || result == "outofretries") then
      s.touch p.addr.render p.addr.ip (oc.isSome && result == "ok")
    else s
  | .list lv st =>
    if st == 2 then
      let exp := (s.books.filter fun b => decide (b.lastRefresh ≥ s.clock - lv)).map (·.addr)
      let got := if result == "ok:-" then [] else ((result.drop 3).toString.splitOn ",").map fun x => (x.splitOn "/").headD ""
      let sorted (xs : List String) := xs.foldr (fun x acc => let (lo, hi) := acc.span (· < x); lo ++ x :: hi) []
      if sorted exp == sorted got then s else { s with bad := s.bad ++ [s!"client{i}:listing:expected={sorted exp}:got={sorted got}"] }
    else s
  | .clean ret => { s with books := s.books.filter fun b => !decide (b.lastWrite < s.clock - ret) }
  -- the instance cleaner removes every instance not written since the cutoff (`Clear`'s bound is inclusive, as coded:
  -- `Swat4.C14.clean_instances_state`), whatever became of its server
  | .cleanins ret => { s with insts := s.insts.filter fun x => !decide (x.2.2.2 ≤ s.clock - ret) }
  | _ => s

/-- (instance id, address) of every stored instance of a dump -/
def inAddrs (dump : String) : List (Nat × String) :=
  (dump.splitOn ";").filterMap fun line =>
    match line.splitOn "," with
    | ["IN", id, a] => (parseIdHex id).map fun id => (id, a)
    | _ => none

/-- (instance id, last write time) of every stored instance of a dump -/
def inWrites (dump : String) : List (Nat × Int) :=
  (dump.splitOn ";").filterMap fun line =>
    match line.splitOn "," with
    | ["IU", id, t] => match parseIdHex id, t.toInt? with | some id, some t => some (id, t) | _, _ => none
    | _ => none

def sortNat {α : Type} (xs : List (Nat × α)) : List (Nat × α) :=
  xs.foldr (fun x acc => let (lo, hi) := acc.span (·.1 < x.1); lo ++ x :: hi) []

/-- planted servers other than `keep`, split by whether they were written before the cutoff -/
def othersBy (a : AbsState) (cutoff : Int) (stale : Bool) (keep : Option String) : List String :=
  (a.servers.toList.filter fun (kv : Nat × SRow) =>
    (Decidable.decide (kv.2.updatedAt < cutoff) == stale) && some kv.2.svr.addr.render != keep).map fun (kv : Nat × SRow) => kv.2.svr.addr.render

/-- (address, last write time) of every stored server of a dump -/
def svWrites (dump : String) : List (String × Int) :=
  (dump.splitOn ";").filterMap fun line =>
    match line.splitOn "," with
    | ["UP", a, t] => t.toInt?.map fun t => (a, t)
    | _ => none

def laterThan (a b : Int) : Bool := decide (b < a)

/-- `cleaner <retention> <interval> <init> <script>`: the real cleaner component ran the passes of the script, the fake clock
advancing by the interval before each (`faulttick`: the server cleaner's scan failed, that pass removes no server).
Model: after the init items, `CleanerComponent.cleanerPasses retention interval script` (`Model/CleanerComponent.lean`: per
pass advance, `cleanServers2 retention` unless faulted, `cleanInstances retention`) — the driver builds no pass of its own.
Oracle on the implementation's final dump, with the Model's staleness predicates at the model's final clock: after a healthy
last pass no server that is `CleanerComponent.staleServer` remains; after any last pass no instance that is
`CleanerComponent.staleInstance` remains.  That the MODEL's final state satisfies the same is
`Swat4.C14.cleaner_last_pass_complete`. -/
def handleCleaner (retS ivS initS script : String) (out : List String) : Verdict :=
  match retS.toInt?, ivS.toInt?, kv out "dump" with
  | some ret, some iv, some idump =>
    let idump := if idump = "-" then "" else idump
    let passes := CleanerComponent.parseScript script
    match runInit {} { clock := epoch } (if initS = "-" then [] else initS.splitOn ",") with
    | none => .bad "C14 cleaner init"
    | some s0 =>
      let s := CleanerComponent.cleanerPasses ret iv passes s0
      let mdump := ";".intercalate (dumpState s.abs)
      let stale := (svWrites idump).filter fun x => CleanerComponent.staleServer s.clock ret x.2
      let healthyLast := passes.getLast? == some true
      -- the instance cleaner runs in every pass (a failed server scan does not stop it): no instance last written at or before
      -- the last pass's cutoff remains, and an instance entry never lacks its write time or vice versa
      let staleIns := (inWrites idump).filter fun x => CleanerComponent.staleInstance s.clock ret x.2
      let insPaired := sortNat ((inAddrs idump).map fun x => (x.1, ())) == sortNat ((inWrites idump).map fun x => (x.1, ()))
      let ok := (!healthyLast || stale.isEmpty) && staleIns.isEmpty && insPaired
      verdict (mdump == idump) ok
        ((if !healthyLast || stale.isEmpty then "" else s!"sig=stale-server-survives-pass:{stale.map (·.1)} ") ++
         (if staleIns.isEmpty then "" else s!"sig=stale-instance-survives-pass:{staleIns.map (·.1)} ") ++ (cond insPaired "" "sig=instance-index-mismatch ") ++
         (if mdump == idump then "" else s!"model-dump={mdump}"))
  | _, _, _ => .bad "C14 cleaner shape"

def handle (args out : List String) : Verdict :=
  match args with
  | ["cleaner", ret, iv, initS, script] => handleCleaner ret iv initS script out
  | [op, initS, clientS, _] =>
    match kv out "eff", kv out "calls", kv out "res", kv out "dump", modelRun {} (fun _ => 0) initS clientS ((kv out "eff").getD "-") with
    | some ieff, some icalls, some ires, some idump, some m =>
      -- a raw repository call of a client (`call|update!…`: another node's write, planted as it is) does not go through the
      -- harness's recording decorator: it is not in the implementation's call list
      let rawClients : List Nat := (List.range m.specs.length).filter fun i => match m.specs[i]? with | some (USpec.raw _) => true | _ => false
      let mcalls := ",".intercalate ((m.calls.splitOn ",").filter fun c => !(rawClients.any fun i => c.startsWith s!"{i}:"))
      let (same, dinfo) := diffInfo { m with calls := if m.calls = "-" then "-" else (if mcalls = "" then "-" else mcalls) } icalls ires idump
      let results := ires.splitOn ";"
      let finalAddrs := svAddrs idump
      let (ok, why) : Bool × String :=
        if op == "seq" then
          -- every client runs to completion in one `r<i>` (contiguous `c<i>` events): apply it at its last event
          let effs := ieff.splitOn ","
          let sim := (enumFrom 0 effs).foldl (fun (s : Sim) (x : Nat × String) =>
            let ev := x.2
            if ev.startsWith "t" then { s with clock := s.clock + ((ev.drop 1).toInt?.getD 0) }
            else if ev.startsWith "c" then
              match (ev.drop 1).toNat? with
              | some i =>
                -- the last event of client i?
                if (effs.drop (x.1 + 1)).any (· == ev) || s.done.contains i then s
                else match (m.specs[i]? : Option USpec) with
                  | some sp => { (s.apply i sp (results.getD i "")) with done := i :: s.done }
                  | none => s
              | none => s
            else s) ({ clock := epoch } : Sim)
          let expFinal := sim.books.map (·.addr)
          let sorted (xs : List String) := xs.foldr (fun x acc => let (lo, hi) := acc.span (· < x); lo ++ x :: hi) []
          let finalOk := sorted expFinal == sorted finalAddrs
          -- the instance table: exactly the reported instances the instance cleaner did not remove, each with the address and
          -- the write time of the report that stored it
          let expIns := sortNat (sim.insts.map fun x => (x.1, x.2.1))
          let expInsW := sortNat (sim.insts.map fun x => (x.1, x.2.2.2))
          let insOk := expIns == sortNat (inAddrs idump) && expInsW == sortNat (inWrites idump)
          (sim.bad.isEmpty && finalOk && insOk, " ".intercalate sim.bad ++ (if finalOk then "" else s!" final-servers:expected={sorted expFinal}:got={sorted finalAddrs}") ++
            (if insOk then "" else s!" final-instances:expected={expIns}/{expInsW}:got={sortNat (inAddrs idump)}/{sortNat (inWrites idump)}"))
        else if op == "fault" then
          -- a storage fault hit one removal: at most one outdated server per fault may survive the pass
          -- — and every survivor is one of the OUTDATED planted servers (a fault never removes a fresh server, never leaves a
          -- different one behind): outdated = not written since the cutoff the pass computed at its start
          let faults := ((ieff.splitOn ",").filter fun e => e.startsWith "fault").length
          let cutoff : Int := (match (m.specs[0]? : Option USpec) with | some (USpec.clean ret) => m.s0.clock - ret | _ => 0)
          let outdated := othersBy m.s0.abs cutoff true none
          let freshOnes := othersBy m.s0.abs cutoff false none
          let strangers := finalAddrs.filter fun x => !outdated.contains x && !freshOnes.contains x
          let freshLost := freshOnes.filter fun x => !finalAddrs.contains x
          let isClean := match (m.specs[0]? : Option USpec) with | some (USpec.clean _) => true | _ => false
          (isClean && decide ((finalAddrs.filter outdated.contains).length ≤ faults) && strangers.isEmpty && freshLost.isEmpty,
           s!"fault:survivors={finalAddrs}:faults={faults}:outdated={outdated}:fresh-removed={freshLost}:not-planted={strangers}")
        else
          -- race: client 1 refreshes its server during the pass: it must survive; the other planted servers are removed
          -- exactly when they were not written since the cutoff the pass computed at its start
          let cutoff : Int := (match (m.specs[0]? : Option USpec) with | some (USpec.clean ret) => m.s0.clock - ret | _ => 0)
          let staleOthers (keep : Option String) : List String := othersBy m.s0.abs cutoff true keep
          let freshOthers (keep : Option String) : List String := othersBy m.s0.abs cutoff false keep
          match (m.specs[1]? : Option USpec) with
          | some (USpec.report a _ _ _ _) =>
            let survived := finalAddrs.contains a.render
            let othersOk := (staleOthers (some a.render)).all (fun x => !finalAddrs.contains x) && (freshOthers (some a.render)).all finalAddrs.contains
            (survived && othersOk && results.getD 1 "" == "ok", s!"race:refreshed-survives={survived}:others-as-expected={othersOk}:refresh-result={results.getD 1 ""}")
          | some (USpec.renew id _) =>
            -- the keepalive either refreshed the server (then it must survive) or found it already removed
            let a := (m.s0.abs.instances.toList.find? (·.1 == id)).map fun kv => kv.2.1.render
            let r := results.getD 1 ""
            let survived := match a with | some a => finalAddrs.contains a | none => false
            let othersOk := (staleOthers a).all (fun x => !finalAddrs.contains x) && (freshOthers a).all finalAddrs.contains
            -- any other result (not `ok`, not "the server is gone": `err:notfound` from the repository, `err:noserver` from the
            -- use case) is not understood and fails
            let gone := r == "err:notfound" || r == "err:noserver"
            ((if r == "ok" then survived else gone && !survived) && othersOk,
             s!"race:keepalive={r}:survives={survived}:others-as-expected={othersOk}")
          | some (USpec.raw _) =>
            -- another node's refresh, planted as a raw update: its refresh time is what that node's (lagging) clock said — a
            -- few hundred nanoseconds after the cutoff.  If it committed (the server was still there), the server it refreshed
            -- survives exactly when that time is after the cutoff, however small the margin
            let r := results.getD 1 ""
            if r.startsWith "ok:" then
              let parts := (r.drop 3).toString.splitOn "/"
              let a := parts.getD 0 ""
              match ((parts.getD 4 "").toInt? : Option Int) with
              | some (refreshed : Int) =>
                let survived := finalAddrs.contains a
                let must : Bool := laterThan refreshed cutoff
                let othersOk := (staleOthers (some a)).all (fun x => !finalAddrs.contains x) && (freshOthers (some a)).all finalAddrs.contains
                ((if must then survived else true) && othersOk, s!"race:raw-refresh={refreshed}:cutoff={cutoff}:survives={survived}:others-as-expected={othersOk}")
              | none => (false, s!"race:raw-refresh-result-unparsable:{r.take 120}")
            else
              -- the update found the server already removed (the pass got there first): legitimate — the server named by the
              -- raw update is then gone, the others are as expected; any other result is not understood and fails
              let a := match (m.specs[1]? : Option USpec) with | some (USpec.raw (.w _ svr _)) => some svr.addr.render | _ => none
              let survived := match a with | some a => finalAddrs.contains a | none => true
              let othersOk := (staleOthers a).all (fun x => !finalAddrs.contains x) && (freshOthers a).all finalAddrs.contains
              (r == "err:notfound" && !survived && othersOk, s!"race:raw-refresh-result={r.take 120}:survives={survived}:others-as-expected={othersOk}")
          | _ => (false, "race:unexpected-client")
      let fin := !(results.any fun r => r == "hung" || r.startsWith "panic") && !(ieff.endsWith "HUNG")
      verdict same (ok && fin) (dinfo ++ (cond (ok && fin) "" why))
    | _, _, _, _, _ => .bad "C14 parse"
  | _ => .bad "C14 shape"

end Swat4.Drv.C14
