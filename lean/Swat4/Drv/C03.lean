import Swat4.Drv.Common
import Swat4.Model.Filter
import Swat4.Spec.FilterSpec
import Swat4.Spec.FilterBridge
import Swat4.Model.Rest
/-!
Driver side of C03 (line protocol: see `harness/internal/c03/c03.go`).

```
parse <filterhex> <intent>                                  => ok <clauses> | err:<class>
match <filterhex> <intent> <info>                           => <ok|err:class> <0|1>
list  <nowK> <livK> <required> <filterhex> <intent> <srv…>  => <ok|err:class> <addrs|->
blist <nowK> <livK> <filterhex> <intent> <srv…>             => reply <addrs|->
rest  <nowK> <livK> <gv> <gver> <gt> <np> <nf> <ne> <srv…>  => <http status> <addrs|->
```

The *model* output is computed with `Swat4.Filter` (parser, matcher, `listServers`, `prepareQuery`).
The *oracle* is the specification evaluated on the implementation's output: the listed addresses must
be exactly those of the records that `FilterSpec.selected` accepts, where the clauses are the ones the
generator declared (`q:…`, checked here to be well-formed and to render to the filter bytes with
`FilterSpec.render`; `bad` = declared unparsable ⇒ no clauses), or — for strings without a declared
reading — the model's reading of the string.
-/
namespace Swat4.Drv.C03
open Swat4 Swat4.Drv Swat4.Filter Swat4.FilterSpec

/-! ### tokens -/

def opName : Op → String
  | .eq => "eq" | .ne => "ne" | .lt => "lt" | .gt => "gt"

def opOfName : String → Option Op
  | "eq" => some .eq | "ne" => some .ne | "lt" => some .lt | "gt" => some .gt | _ => none

def valTok : CVal → String
  | .int n => s!"i{n}"
  | .str s => "s" ++ Bytes.toHexTok s
  | .fld g => "f" ++ Bytes.toHexTok g

def clauseTok (c : Clause) : String := s!"{Bytes.toHexTok c.field}.{opName c.op}.{valTok c.value}"

def clausesTok (cs : List Clause) : String :=
  if cs.isEmpty then "-" else ",".intercalate (cs.map clauseTok)

def valOfTok (t : String) : Option CVal :=
  match t.toList with
  | 'i' :: r => (String.ofList r).toInt?.map .int
  | 's' :: r => (hex? (String.ofList r)).map .str
  | 'f' :: r => (hex? (String.ofList r)).map .fld
  | _ => none

def clauseOfTok (t : String) : Option Clause :=
  match t.splitOn "." with
  | [f, o, v] => do
    let f ← hex? f
    let o ← opOfName o
    let v ← valOfTok v
    pure ⟨f, o, v⟩
  | _ => none

inductive Intent where
  | none
  | bad
  | q (cs : List Clause)

def intentOfTok (t : String) : Option Intent :=
  if t = "-" then some .none
  else if t = "bad" then some .bad
  else if t.startsWith "q:" then ((t.drop 2).toString.splitOn ",").mapM clauseOfTok |>.map .q
  else Option.none

def errTok : ParseErr → String
  | .format => "err:format" | .value => "err:value" | .field => "err:field" | .op => "err:op" | .empty => "err:empty"

/-- one info value per schema field, typed by the schema's kind -/
def infoOfToks : List (Bytes × Nat) → List String → Option Info
  | [], [] => some []
  | (name, kind) :: sch, t :: ts => do
    let v ← match kind with
      | 0 => (int? t).map Value.int
      | 1 => if t = "1" then some (Value.bool true) else if t = "0" then some (Value.bool false) else Option.none
      | 2 => (hex? t).map Value.str
      | _ => Option.none
    let rest ← infoOfToks sch ts
    pure ((name, v) :: rest)
  | _, _ => Option.none

def epochNs : Int := 1704067200 * 1000000000

def timeOfK (k : Int) : Int := epochNs + 256 * k

/-- `<ip:port>,<status>,<refreshedK|z>,<info…>` -/
def recordOfTok (t : String) : Option Record :=
  match t.splitOn "," with
  | a :: st :: rf :: info => do
    let st ← nat? st
    let rf ← if rf = "z" then some FTime.zero else (int? rf).map fun k => FTime.at (timeOfK k)
    let info ← infoOfToks Facts.infoSchema info
    pure ⟨a, st, rf, info⟩
  | _ => Option.none

def addrsTok (rs : List Record) : String :=
  if rs.isEmpty then "-" else ",".intercalate (rs.map (·.addr))

/-! ### intent handling -/

/-- a declared reading must be what it claims: non-empty, well-formed, rendering to the filter bytes -/
def intentOk (bs : Bytes) : Intent → Bool
  | .none => true
  | .bad => match newFromString bs with
    | .ok _ => false
    | .error _ => true
  | .q cs => !cs.isEmpty && cs.all (fun c => decide (WfClause c)) && render cs == bs

/-- the clauses the oracle evaluates -/
def oracleClauses (bs : Bytes) : Intent → List Clause
  | .none => (browserQuery bs).map ofFilter
  | .bad => []
  | .q cs => cs

/-- the parse-class token the browser path reports (`ok` for an empty filter string: nothing is parsed) -/
def classTok (bs : Bytes) : String :=
  if bs.isEmpty then "ok"
  else match newFromString bs with
    | .ok _ => "ok"
    | .error e => errTok e

/-- class demanded by a declared reading -/
def classOk (it : Intent) (cls : String) : Bool :=
  match it with
  | .none => true
  | .bad => cls.startsWith "err:"
  | .q _ => cls == "ok"

def requiredInScope (required : Nat) : Bool := (bitsOf required).all Facts.statusMembers.contains

/-- a REST flag token: `~` = the parameter is absent, otherwise the hex of its value (`-` = empty) -/
def flagTok (t : String) : Option (Option Bytes) :=
  if t = "~" then some Option.none else (hex? t).map some

/-- gin's query binding of a `bool` field — the model's `Rest.bindBool` (`setBoolField`: absent and `""` bind as
`false`, anything else through `strconv.ParseBool` = `Rest.parseBool`); outer `none` = the token is not a flag
token, inner `none` = the binding fails -/
def parseBoolTok (t : String) : Option (Option Bool) := (flagTok t).map Rest.bindBool

def strParam (t : String) : Option Bytes := if t = "~" then some [] else hex? t

/-! ### handle -/

def handleParse (bs : Bytes) (it : Intent) (out : List String) : Verdict :=
  let model : List String :=
    match newFromString bs with
    | .ok fs => ["ok", clausesTok (fs.map ofFilter)]
    | .error e => [errTok e]
  let noPanic := !(out.any (·.startsWith "panic:"))
  let ok := noPanic && (match it with
    | .none => true
    | .bad => (out.headD "").startsWith "err:"
    | .q cs => out == ["ok", clausesTok cs])
  verdict (model == out) ok s!"model={" ".intercalate model}"

def handleMatch (bs : Bytes) (it : Intent) (info : Info) (out : List String) : Verdict :=
  let bit (b : Bool) := if b then "1" else "0"
  let model := [classTok bs, bit (queryMatch (browserQuery bs) info)]
  let expected := bit ((oracleClauses bs it).all (sat info))
  let ok := match out with
    | [cls, b] => classOk it cls && b == expected
    | _ => false
  verdict (model == out) ok s!"model={" ".intercalate model} spec={expected}"

def handleListing (head : String) (recs : List Record) (now liv : Int) (required : Nat) (q : List Filter)
    (cs : List Clause) (headOk : String → Bool) (out : List String) : Verdict :=
  let model := [head, addrsTok (listServers recs now liv required q)]
  let expected := addrsTok (recs.filter fun r => selected now liv required cs (toServer r))
  let ok := !requiredInScope required || (match out with
    | [h, l] => headOk h && l == expected
    | _ => false)
  verdict (model == out) ok s!"model={" ".intercalate model} spec={expected}"

def handle (args out : List String) : Verdict :=
  match args with
  | ["parse", f, it] =>
    match hex? f, intentOfTok it with
    | some bs, some it => if intentOk bs it then handleParse bs it out else .bad "intent"
    | _, _ => .bad "C03 parse tokens"
  | ["match", f, it, info] =>
    match hex? f, intentOfTok it, infoOfToks Facts.infoSchema (info.splitOn ",") with
    | some bs, some it, some info => if intentOk bs it then handleMatch bs it info out else .bad "intent"
    | _, _, _ => .bad "C03 match tokens"
  | "list" :: now :: liv :: req :: f :: it :: srvs =>
    match int? now, int? liv, nat? req, hex? f, intentOfTok it, srvs.mapM recordOfTok with
    | some now, some liv, some req, some bs, some it, some recs =>
      if intentOk bs it then
        handleListing (classTok bs) recs (timeOfK now) (256 * liv) req (browserQuery bs) (oracleClauses bs it) (classOk it) out
      else .bad "intent"
    | _, _, _, _, _, _ => .bad "C03 list tokens"
  | "blist" :: now :: liv :: f :: it :: srvs =>
    match int? now, int? liv, hex? f, intentOfTok it, srvs.mapM recordOfTok with
    | some now, some liv, some bs, some it, some recs =>
      if intentOk bs it then
        handleListing "reply" recs (timeOfK now) (256 * liv) Facts.statusMaster (browserQuery bs) (oracleClauses bs it) (· == "reply") out
      else .bad "intent"
    | _, _, _, _, _ => .bad "C03 blist tokens"
  | "rest" :: now :: liv :: gv :: gver :: gt :: np0 :: nf0 :: ne0 :: srvs =>
    match int? now, int? liv, strParam gv, strParam gver, strParam gt, srvs.mapM recordOfTok with
    | some now, some liv, some gv, some gver, some gt, some recs =>
      match parseBoolTok np0, parseBoolTok nf0, parseBoolTok ne0 with
      | some np, some nf, some ne =>
        match np, nf, ne with
        | some np, some nf, some ne =>
          let flags : Flags := ⟨gv, gver, gt, np, nf, ne⟩
          handleListing "200" recs (timeOfK now) (256 * liv) Facts.statusInfo (prepareQuery (toForm flags)) (flagClauses flags) (· == "200") out
        | _, _, _ =>
          -- a flag that does not parse as a bool: gin's binding fails, no listing (not a filter-string matter); the
          -- status is the model's (`Rest.listServers` on the three flag parameters: `bindListQuery` fails ⇒ 400)
          let q : Rest.ListQuery := { hidePassworded := (flagTok np0).join, hideFull := (flagTok nf0).join, hideEmpty := (flagTok ne0).join }
          let model := [toString (Rest.listServers (timeOfK now) (256 * liv) q []).status, "-"]
          verdict (out == model) (out == ["400", "-"]) s!"model={" ".intercalate model}"
      | _, _, _ => .bad "C03 rest flags"
    | _, _, _, _, _, _ => .bad "C03 rest tokens"
  | _ => .bad "C03 shape"

end Swat4.Drv.C03
