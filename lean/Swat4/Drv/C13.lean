import Swat4.Drv.UCRun
/-!
Driver side of C13.

* `C13 table <goal> <outcome> <word> => <word'>` — the real probers' status transformation against
  `UC.successStatus / retryStatus / failureStatus`.
* `C13 uc <init> <clients> <events> => eff=… calls=… res=… dump=… trace=…` — the probe use case
  interleaved with one concurrent use case, replayed on `USys` from the effective events.

Oracle for `uc` (independent of the `Prog` model): folding, in the observed order of committed
`add`/`update`/`remove` calls, each client's *status transformation* over the initial status word
gives the final word (the transformation of a probe depends only on goal and outcome: success /
retry-with-budget-left / final failure); a probe that reports `retried` left exactly one re-queued
probe with `retries + 1 ≤ max`, ready `⌊e^retries⌋` seconds after a clock value of the run, same
address/port/goal/max and no expiry; one that reports `outofretries` or `ok` re-queued nothing.
-/
namespace Swat4.Drv.C13
open Swat4 Swat4.Drv Swat4.UC Std

def goalOf (s : String) : Option Goal := if s = "1" then some .port else if s = "0" then some .details else none

def handleTable (goal outcome word got : String) : Verdict :=
  match goalOf goal, word.toNat?, got.toNat? with
  | some g, some w, some got =>
    let w9 : Status := BitVec.ofNat 9 w
    let exp := match outcome with
      | "success" => some (successStatus g w9)
      | "retry" => some (retryStatus g w9)
      | "failure" => some (failureStatus g w9)
      | _ => none
    match exp with
    | some e => verdict (e.toNat == got) (e.toNat == got) s!"model={e.toNat}"
    | none => .bad "outcome"
  | _, _, _ => .bad "C13 table parse"

/-- status transformation a client applies when one of its registry writes commits, given how it ended -/
def statusIntent (sp : USpec) (result : String) (callName : String) : Status → Status :=
  match sp with
  | .probe p oc =>
    match oc with
    | some _ => successStatus p.goal
    | none => if p.retries ≥ p.maxRetries then failureStatus p.goal else retryStatus p.goal
  | .report .. => fun w =>
    -- the `add` applies master|info; the follow-up `update` (port discovery) adds port_retry
    if callName == "add" then Status.update w (Status.master ||| Status.info)
    else if Status.hasAny w (Status.port ||| Status.portRetry) then w else Status.update w Status.portRetry
  | .renew .. => id
  | _ => fun w => let _ := result; w

def svStatus (dump : String) (a : String) : Option Nat :=
  (dump.splitOn ";").findSome? fun line =>
    match line.splitOn "," with
    | "SV" :: a' :: _ :: st :: _ => if a' == a then st.toNat? else none
    | _ => none

def queueLines (dump : String) : List (List String) :=
  (dump.splitOn ";").filterMap fun line =>
    match line.splitOn "," with
    | "PI" :: rest => some rest
    | _ => none

/-- re-queue discipline of the probe under test: `retried` ⇒ one more retry within budget, same
address/port/goal/max, no expiry -/
def requeueCheck (p : Probe) (result : String) (idump : String) : Bool :=
  let a := "1.1.1.1:10480"
  let mine := (queueLines idump).filter fun (l : List String) =>
    match l with
    | [_, a', port, goal, retries, maxr, _] => a' == a && port == toString p.port && goal == toString p.goal.toNat &&
        retries == toString (p.retries + 1) && maxr == toString p.maxRetries
    | _ => false
  if result == "retried" then
    Decidable.decide (p.retries + 1 ≤ p.maxRetries) && Decidable.decide (mine.length ≥ 1) && (mine.all fun (l : List String) => l.getLast? == some "z")
  else true

def handleUC (initS clientS : String) (out : List String) : Verdict :=
  let cfg : UCfg := {}
  match kv out "eff", kv out "calls", kv out "res", kv out "dump" with
  | some ieff, some icalls, some ires, some idump =>
    match runInit cfg { clock := epoch } (if initS = "-" then [] else initS.splitOn ","), (clientS.splitOn ",").mapM parseSpec with
    | some s0, some specs =>
      let start := startClients s0 (specs.map fun sp => sp.prog cfg fun _ => 0)
      match replay start.sys (ieff.splitOn ",") with
      | none => .bad "C13 eff"
      | some run =>
        let mcalls := start.calls ++ run.calls
        let mcallsS := if mcalls.isEmpty then "-" else ",".intercalate mcalls
        let mres := clientResults run.sys
        let mdump := ";".intercalate (dumpState run.sys.abs)
        let same := mcallsS == icalls && mres == ires && mdump == idump
        -- oracle: status word by folding intents in commit order over the initial word
        let a := "1.1.1.1:10480"
        let w0 := (s0.abs.servers.toList.head?).map fun kv => kv.2.svr.status
        let results := ires.splitOn ";"
        let commits := (icalls.splitOn ",").filterMap fun c =>
          match c.splitOn ":" with
          | [i, name] => if name == "add" || name == "update" then i.toNat?.map fun i => (i, name) else none
          | _ => none
        let removed := (icalls.splitOn ",").any fun c => c.endsWith ":remove"
        let expected := w0.map fun w => commits.foldl (fun w (i, name) =>
          match (specs[i]? : Option USpec) with
          | some sp => statusIntent sp (results.getD i "") name w
          | none => w) w
        let statusOk : Bool := removed || (match expected, svStatus idump a with
          | some e, some got => e.toNat == got
          | _, _ => false)
        let requeueOk : Bool := (match (specs[0]? : Option USpec) with
          | some (USpec.probe p _) => requeueCheck p (results.getD 0 "") idump
          | _ => true)
        let ok := statusOk && requeueOk && !(results.any fun r => r == "hung" || r.startsWith "panic") && !(ieff.endsWith "HUNG")
        let info := (if same then "" else
            (if mcallsS != icalls then s!"model-calls={mcallsS} " else "") ++ (if mres != ires then s!"model-res={mres} " else "") ++
            (if mdump != idump then s!"model-dump={mdump} " else "")) ++
          (cond statusOk "" s!"status-not-fold-of-outcomes:expected={expected.map fun (w : Status) => w.toNat}:got={svStatus idump a} ") ++
          (cond requeueOk "" "requeue-discipline ")
        verdict same ok info
    | _, _ => .bad "C13 specs"
  | _, _, _, _ => .bad "C13 out"

def handle (args out : List String) : Verdict :=
  match args, out with
  | ["table", g, o, w], [got] => handleTable g o w got
  | ["uc", initS, clientS, _], _ => handleUC initS clientS out
  | _, _ => .bad "C13 shape"

end Swat4.Drv.C13
