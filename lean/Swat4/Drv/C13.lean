import Swat4.Drv.UCRun
import Swat4.Spec.ProbeOutcome
/-!
Driver side of C13.

* `C13 table <goal> <outcome> <word> => <word'>` — the real probers' status transformation against
  `UC.successStatus / retryStatus / failureStatus`.
* `C13 uc <init> <clients> <events> => eff=… calls=… res=… dump=… trace=…` — the probe use case
  interleaved with one concurrent use case, replayed on `USys` from the effective events.

Oracle for `uc` (independent of the `Prog` model): folding, in the observed order of committed
`add`/`update`/`remove` calls, each client's *status transformation* over the initial status word
gives the final word of the record at the address of the probe under test (the transformation of a probe
depends only on goal and outcome: success / retry-with-budget-left / final failure); `requeueCheck`: the final
queue is the initial queue plus, for every probe client that reports `retried`, exactly one re-queued probe
with `retries + 1 ≤ max`, the same address/port/goal/max, no expiry and a ready time (the `PQ` score of the
item) equal to `c + ⌊e^(retries+1)⌋ s` for a clock value `c` of the run; one that reports `outofretries`
(only when `retries ≥ max`) or `ok` re-queued nothing; no other item with a retry count ≥ 1 appears and none
disappears.
-/
namespace Swat4.Drv.C13
open Swat4 Swat4.Drv Swat4.UC Std

def goalOf (s : String) : Option Goal := if s = "1" then some .port else if s = "0" then some .details else none

def outcomeOf (s : String) : Option Swat4.C13.Outcome :=
  if s = "success" then some .success else if s = "retry" then some .retry else if s = "failure" then some .failure else none

/-- op `table`.  The two arguments of the verdict differ in origin: "model = implementation" compares with the executable model
(`UC.successStatus / retryStatus / failureStatus`), the ORACLE compares the implementation's word with the declarative per-bit
specification `Swat4.C13.specWord` (`Spec/ProbeOutcome.lean`, written from the property text; proved equal to the model on every
word by `Swat4.C13.outcome_table`). -/
def handleTable (goal outcome word got : String) : Verdict :=
  match goalOf goal, word.toNat?, got.toNat?, outcomeOf outcome with
  | some g, some w, some got, some o =>
    let w9 : Status := BitVec.ofNat 9 w
    let e : Status := match o with
      | .success => successStatus g w9
      | .retry => retryStatus g w9
      | .failure => failureStatus g w9
    let spec := Swat4.C13.specWord g o w9.toNat
    verdict (e.toNat == got) (spec == got) s!"sig=outcome-table model={e.toNat} spec={spec}"
  | _, _, _, none => .bad "outcome"
  | _, _, _, _ => .bad "C13 table parse"

/-- status transformation a client applies when one of its registry writes commits, given how it ended -/
def statusIntent (sp : USpec) (result : String) (callName : String) : Status → Status :=
  match sp with
  | .probe p oc =>
    match oc with
    | some _ => successStatus p.goal
    | none => if p.retries ≥ p.maxRetries then failureStatus p.goal else retryStatus p.goal
  | .report .. => fun w =>
    -- the `add` applies master|info; the follow-up `update` (port discovery) adds port_retry
    if callName == "add" then Status.update w (Status.master ||| Status.info)
    else if Status.hasAny w (Status.port ||| Status.portRetry) then w else Status.update w Status.portRetry
  | .renew .. => id
  | _ => fun w => let _ := result; w

def svStatus (dump : String) (a : String) : Option Nat :=
  (dump.splitOn ";").findSome? fun line =>
    match line.splitOn "," with
    | "SV" :: a' :: _ :: st :: _ => if a' == a then st.toNat? else none
    | _ => none

/-- a queued probe as rendered in a keyspace dump: the `PI,<n>,…` payload joined with the ready time of `PQ,<n>,…` -/
structure QItem where
  addr : String
  port : String
  goal : String
  retries : Int
  maxr : String
  expires : String
  ready : Option Int          -- `none`: a payload without a queue entry
  deriving BEq, Repr

def queueItems (dump : String) : List QItem :=
  let lines := (dump.splitOn ";").map (·.splitOn ",")
  lines.filterMap fun l =>
    match l with
    | ["PI", n, a, port, goal, retries, maxr, exp] =>
      let ready := lines.findSome? fun l' => match l' with
        | ["PQ", n', sc] => if n' == n then sc.toInt? else none
        | _ => none
      some ⟨a, port, goal, retries.toInt?.getD (-1), maxr, exp, ready⟩
    | "PI" :: _ => some ⟨"undecodable", "", "", -1, "", "", none⟩
    | _ => none

/-- multiset difference `xs − ys` -/
def msub (xs ys : List QItem) : List QItem := ys.foldl (fun acc y => acc.erase y) xs

/-- clock values of the clients' phase: the clock after the init items, then after every tick `t<ns>` of the
effective events -/
def runClocks (initS ieff : String) : List Int :=
  let c0 := (if initS = "-" then [] else initS.splitOn ",").foldl (fun (c : Int) it =>
    if it.startsWith "adv" then c + ((it.drop 3).toInt?.getD 0) else c) epoch
  (ieff.splitOn ",").foldl (fun (acc : List Int) ev =>
    if ev.startsWith "t" then
      match (ev.drop 1).toInt?, acc.getLast? with
      | some d, some c => acc ++ [c + d]
      | _, _ => acc
    else acc) [c0]

/-- does the queued item `it` answer the retry of probe `p`: same address/port/goal/max, one more retry -/
def QItem.answers (it : QItem) (p : Probe) : Bool :=
  it.addr == p.addr.render && it.port == toString p.port && it.goal == toString p.goal.toNat &&
    it.retries == p.retries + 1 && it.maxr == toString p.maxRetries

/-- Re-queue discipline, over ALL probe clients of the case and the whole queue (initial queue `q0` → final queue `q1`).

* nothing that was queued disappears (C13 cases have no consumer);
* every NEW item with a retry count ≥ 1 (a fresh discovery probe has 0) answers exactly one probe client that failed with
  budget left (`retries < max`) and ended `retried` — or ended in an error after its enqueue call (the update then hit a removed
  server) — one item per client; it has no expiry and its ready time is `c + ⌊e^r⌋ s` for a clock value `c` of the run and the
  item's OWN recorded retry count `r` (so: never ready before now + backoff);
* every client that ended `retried` has its item, and had budget left; one that ended `outofretries` had none
  (`retries ≥ max`); one that ended `ok` had a successful outcome. -/
def requeueCheck (specs : List USpec) (results : List String) (icalls : String) (clocks : List Int) (q0 q1 : List QItem) : Bool × String :=
  let lost := msub q0 q1
  let fresh := (msub q1 q0).filter fun it => it.retries != 0
  let probes : List (Nat × Probe × Bool × String) := (specs.zipIdx.filterMap fun (sp, i) =>
    match sp with
    | .probe p oc => some (i, p, oc.isSome, results.getD i "")
    | _ => none)
  let calls := icalls.splitOn ","
  -- clients that must / may have re-queued
  let must := probes.filter fun (_, _, _, r) => r == "retried"
  let may := probes.filter fun (i, p, ok, r) => !ok && p.retries < p.maxRetries && r.startsWith "err:" && calls.contains s!"{i}:enqueue"
  -- match every fresh item to one client (mandatory ones first)
  let (unmatched, pending) := fresh.foldl (fun (acc : List QItem × List (Nat × Probe × Bool × String)) it =>
    match acc.2.find? fun (_, p, _, _) => it.answers p with
    | some c => (acc.1, acc.2.erase c)
    | none => (acc.1 ++ [it], acc.2)) (([] : List QItem), must ++ may)
  let mustLeft := pending.filter fun c => must.contains c
  let timing := fresh.all fun it =>
    it.expires == "z" && (match it.ready with
      | some rd => clocks.any fun c => rd == c + second * expFloor it.retries
      | none => false)
  let budget := probes.all fun (_, p, ok, r) =>
    (r != "retried" || (!ok && p.retries + 1 ≤ p.maxRetries)) &&
    (r != "outofretries" || (!ok && p.retries ≥ p.maxRetries)) &&
    (r != "ok" || ok)
  let why := (cond lost.isEmpty "" "queued-probe-lost ") ++ (cond unmatched.isEmpty "" s!"unexplained-requeue={unmatched.map fun it => (it.addr, it.goal, it.retries)} ") ++
    (cond mustLeft.isEmpty "" s!"retried-without-requeue=client{mustLeft.map (·.1)} ") ++
    (cond timing "" s!"requeue-ready-time-or-expiry={fresh.map fun it => (it.retries, it.ready, it.expires)}:clocks={clocks} ") ++
    (cond budget "" "retry-budget ")
  (lost.isEmpty && unmatched.isEmpty && mustLeft.isEmpty && timing && budget, why)

def handleUC (initS clientS : String) (out : List String) : Verdict :=
  let cfg : UCfg := {}
  match kv out "eff", kv out "calls", kv out "res", kv out "dump" with
  | some ieff, some icalls, some ires, some idump =>
    match runInit cfg { clock := epoch } (if initS = "-" then [] else initS.splitOn ","), (clientS.splitOn ",").mapM parseSpec with
    | some s0, some specs =>
      let start := startClients s0 (specs.map fun sp => sp.prog cfg fun _ => 0)
      match replay start.sys (ieff.splitOn ",") with
      | none => .bad "C13 eff"
      | some run =>
        let mcalls := start.calls ++ run.calls
        let mcallsS := if mcalls.isEmpty then "-" else ",".intercalate mcalls
        let mres := clientResults run.sys
        let mdump := ";".intercalate (dumpState run.sys.abs)
        let same := mcallsS == icalls && mres == ires && mdump == idump
        -- oracle: status word by folding intents in commit order over the initial word
        -- the address of the case: that of the probe under test (client 0)
        let a := match (specs[0]? : Option USpec) with
          | some (USpec.probe p _) => p.addr.render
          | _ => "1.1.1.1:10480"
        let dump0 := ";".intercalate (dumpState s0.abs)
        let w0 : Option Status := (svStatus dump0 a).map fun w => BitVec.ofNat 9 w
        let results := ires.splitOn ";"
        let commits := (icalls.splitOn ",").filterMap fun c =>
          match c.splitOn ":" with
          | [i, name] => if name == "add" || name == "update" then i.toNat?.map fun i => (i, name) else none
          | _ => none
        -- a committed `remove` makes the fold inapplicable — but only a remove OF THE PROBED ADDRESS: by a `remove` client
        -- naming it, by a raw `remove` call on it, or by a cleaner after whose pass the address is gone from the dump
        let removed := (icalls.splitOn ",").any fun c =>
          match c.splitOn ":" with
          | [i, "remove"] =>
            (match i.toNat?.bind fun i => (specs[i]? : Option USpec) with
             | some (USpec.remove _ ad) => ad.render == a
             | some (USpec.raw (.w .remove svr _)) => svr.addr.render == a
             | some (USpec.clean _) => (svStatus idump a).isNone
             | _ => false)
          | _ => false
        let expected := w0.map fun w => commits.foldl (fun w (i, name) =>
          match (specs[i]? : Option USpec) with
          | some sp => statusIntent sp (results.getD i "") name w
          | none => w) w
        let statusOk : Bool := removed || (match expected, svStatus idump a with
          | some e, some got => e.toNat == got
          | _, _ => false)
        let (requeueOk, requeueWhy) := requeueCheck specs results icalls (runClocks initS ieff) (queueItems dump0) (queueItems idump)
        let ok := statusOk && requeueOk && !(results.any fun r => r == "hung" || r.startsWith "panic") && !(ieff.endsWith "HUNG")
        let info := (if same then "" else
            (if mcallsS != icalls then s!"model-calls={mcallsS} " else "") ++ (if mres != ires then s!"model-res={mres} " else "") ++
            (if mdump != idump then s!"model-dump={mdump} " else "")) ++
          (cond statusOk "" s!"status-not-fold-of-outcomes:expected={expected.map fun (w : Status) => w.toNat}:got={svStatus idump a} ") ++
          (cond requeueOk "" s!"requeue-discipline:{requeueWhy}")
        verdict same ok info
    | _, _ => .bad "C13 specs"
  | _, _, _, _ => .bad "C13 out"

def handle (args out : List String) : Verdict :=
  match args, out with
  | ["table", g, o, w], [got] => handleTable g o w got
  | ["uc", initS, clientS, _], _ => handleUC initS clientS out
  | _, _ => .bad "C13 shape"

end Swat4.Drv.C13
