import Swat4.Drv.UCRun
import Swat4.Lemmas.BackedStrict
/-!
Driver side of C16: `C16 uc <init> <clients> <events> => eff=… calls=… res=… dump=…`

Oracle on the implementation's final dump (every surviving client has finished, leases expired):
`BackedStrict` — every server carrying `port_retry` has a queued NON-EXPIRING probe with goal port for its address,
every server carrying `details_retry` a queued non-expiring probe with goal details (`strictB`: the proved executable
`Strict.backedStrictB` on the parsed dump; `orphans`: its text-level twin, which names the orphans).  A mark without a probe
is classified PER ORPHAN (its own address and goal): if a probe of that address and goal was popped by a
prober client that then died or whose execution of that probe returned an error (it *held* the probe), the
signature is `holder-loss` (a known finding: the queue pop is destructive); if a probe of that address and goal
that a client had just enqueued was popped by a prober before that client's mark committed,
`consumed-before-mark` (a known finding: enqueue and mark are not atomic); anything else — another server,
another goal, or a history the model does not reproduce exactly — is `orphan-mark`.
-/
namespace Swat4.Drv.C16
open Swat4 Swat4.Drv Swat4.UC Std

/-- (address text, status word) of every stored server -/
def svStatuses (dump : String) : List (String × Nat) :=
  (dump.splitOn ";").filterMap fun line =>
    match line.splitOn "," with
    | "SV" :: a :: _ :: st :: _ => st.toNat?.map fun s => (a, s)
    | _ => none

/-- (address text, goal) of every queued probe THAT DOES NOT EXPIRE (expiry column `z`): a probe with an expiry (refresh,
revival) backs nothing — `PopMany` drops it silently once its deadline has passed (`Swat4.C16.expiring_backing_orphaned`);
this is the `InQS` of `Lemmas/BackedStrict.lean`, on the text of a dump -/
def queued (dump : String) : List (String × String) :=
  (dump.splitOn ";").filterMap fun line =>
    match line.splitOn "," with
    | ["PI", _, a, _, goal, _, _, exp] => if exp == "z" then some (a, goal) else none
    | _ => none

/-- the PROVED executable oracle on the implementation's dump: the dump parsed back into a raw store (`parseDump`), abstracted
(`RStore.abs`: a probe counts as queued when it is in `probes:queue` AND `probes:items`), and `Strict.backedStrictB` evaluated on
it — `Strict.backedStrictB_iff : backedStrictB s = true ↔ BackedStrict s`.  `none`: the dump does not parse (an undecodable queue
item, an unknown key). -/
def strictB (dump : String) : Option Bool := (parseDump dump).map fun st => Swat4.C16.Strict.backedStrictB st.abs

/-- marks without a queued NON-EXPIRING probe: (address, goal).  The text-level twin of `strictB` (it names the orphans, which
the classification needs, and compares the goal column literally: a queue entry of an unknown goal backs nothing); the verdict
requires BOTH to find nothing. -/
def orphans (dump : String) : List (String × String) :=
  let q := queued dump
  (svStatuses dump).flatMap fun (x : String × Nat) =>
    (if x.2 / 128 % 2 == 1 && !q.contains (x.1, "1") then [(x.1, "1")] else []) ++
    (if x.2 / 16 % 2 == 1 && !q.contains (x.1, "0") then [(x.1, "0")] else [])

/-- one effective event of the history as the model replays it: who acted, which repository calls completed, which
queue items vanished / appeared, the clock, and the registry afterwards -/
structure HStep where
  who : Nat
  names : List String
  removed : List QItem
  added : List QItem
  clock : Int
  after : AbsState

/-- the history of the case, event by event: the model (`USys.stepT`) replaying the implementation's EFFECTIVE events
(same start as `modelRun`).  Only used to ATTRIBUTE an orphaned mark to one of the two known findings — the oracle itself
(`orphans` on the implementation's dump) does not depend on it — and only trusted when model and implementation agree on
calls, results and dump (`same`). -/
def history (initS clientS ieff : String) : Option (List HStep) :=
  let cfg : UCfg := {}
  let raw := clientS.splitOn ","
  match runInit cfg { clock := epoch } (if initS = "-" then [] else initS.splitOn ","),
        raw.mapM (fun s => parseSpec (if s.startsWith "@" then (s.drop 1).toString else s)) with
  | some s0, some specs =>
    let start : USys := (specs.zip (raw.map (·.startsWith "@"))).foldl (fun (acc : USys) (x : USpec × Bool) =>
      let c0 : UClient := { prog := x.1.prog cfg fun _ => 0 }
      if x.2 then { acc with clients := acc.clients ++ [c0] }
      else
        let (a', c', _) := c0.settle acc.abs acc.clock
        { acc with abs := a', clients := acc.clients ++ [{ c' with started := true }] }) s0
    let evs := (ieff.splitOn ",").filter fun ev => !(ev = "e" || ev = "-" || ev = "HUNG")
    (evs.foldlM (fun (acc : USys × List HStep) ev =>
      (parseEff ev).map fun e =>
        let (s', names) := acc.1.stepT e
        let who := match e with | .call i => i | .crash i _ => i | .fault i _ => i | .tick _ => 0
        let ids (q : List QItem) := q.map (·.id)
        let removed := acc.1.abs.queue.filter fun q => !(ids s'.abs.queue).contains q.id
        let added := s'.abs.queue.filter fun q => !(ids acc.1.abs.queue).contains q.id
        (s', acc.2 ++ [⟨who, names, removed, added, acc.1.clock, s'.abs⟩])) (start, [])).map (·.2)
  | _, _ => none

def itemIsFor (q : QItem) (a g : String) : Bool := q.probe.addr.render == a && toString q.probe.goal.toNat == g

/-- C16-holder-loss, for the orphaned mark `(a, g)` and no other: a prober client (`pop`) took a probe of exactly this
address and goal out of the queue and ended without an outcome for it — it died (`crashed`), its `PopMany` returned a
storage error after taking effect, or the execution of THAT probe
(its position in the batch as the harness orders it) returned an error. -/
def heldAndLost (specs : List USpec) (results : List String) (hist : List HStep) (a g : String) : Bool :=
  hist.any fun st =>
    match (specs[st.who]? : Option USpec) with
    | some (USpec.pop _ _) =>
      let r := results.getD st.who ""
      -- a probe that `PopMany` dropped as expired is held by nobody: it does not count as taken by this prober
      let taken := st.removed.filter fun q => itemIsFor q a g && !q.expired st.clock
      !taken.isEmpty &&
        -- it died, or `PopMany` itself reported an error although the pop had taken effect (nothing of the batch was worked off)
        (r == "crashed" || r.startsWith "err" ||
          -- `popped:<k>:<expired>+<outcome of each probe of the batch in (address, port, goal, retries) order>`
          (let batch := sortBatch ((st.removed.filter fun q => !q.expired st.clock).map (·.probe))
           let outs := (r.splitOn "+").drop 1
           outs.length == batch.length &&
             (batch.zip outs).any fun (x : Probe × String) =>
               x.1.addr.render == a && toString x.1.goal.toNat == g && x.2.startsWith "err"))
    | _ => false

/-- C16-consumed-before-mark, for the orphaned mark `(a, g)` and no other: some client enqueued a probe of exactly this
address and goal, ANOTHER client (a prober) popped that very item, and only afterwards the enqueuing client's `update`
committed, leaving the mark `g` on `a`.  The order is additionally required of the implementation's own completion
order of repository calls (`i:enqueue … j:popmany … i:update`, `j ≠ i`). -/
def consumedBeforeMark (specs : List USpec) (icalls : String) (hist : List HStep) (a g : String) : Bool :=
  let cs := (icalls.splitOn ",").map fun c => c.splitOn ":"
  let implOrder (i j : Nat) : Bool := (enumFrom 0 cs).any fun (x : Nat × List String) =>
    x.2 == [toString i, "enqueue"] &&
      (let rest := cs.drop (x.1 + 1)
       match rest.findIdx? (fun c => c == [toString i, "update"]) with
       | some u => (rest.take u).contains [toString j, "popmany"]
       | none => false)
  let markBit : Nat := if g == "1" then 128 else 16
  (enumFrom 0 hist).any fun (e : Nat × HStep) =>
    e.2.names.contains s!"{e.2.who}:enqueue" &&
    (e.2.added.filter fun q => itemIsFor q a g).any fun q =>
      (enumFrom 0 (hist.drop (e.1 + 1))).any fun (p : Nat × HStep) =>
        p.2.who != e.2.who && (match (specs[p.2.who]? : Option USpec) with | some (USpec.pop _ _) => true | _ => false) &&
        (p.2.removed.any fun q' => q'.id == q.id) &&
        implOrder e.2.who p.2.who &&
        ((hist.drop (e.1 + 1)).drop (p.1 + 1)).any fun u =>
          u.who == e.2.who && u.names.contains s!"{u.who}:update" &&
            (u.after.servers.toList.any fun kv => kv.2.svr.addr.render == a && kv.2.svr.status.toNat / markBit % 2 == 1)

/-- `runner <offsets> <init> <n>`: the real prober component consumed the planted queue with every probe failing.
Model: one prober client popping up to `n` probes at once and failing each (`pop|n|fail`).  Oracle on the
implementation's output: the component went quiet, it created no NEW mark without a probe (marks the planted state
already had unbacked are not its doing), and its queue metrics count what was popped and what had expired. -/
def handleRunner (initS n : String) (out : List String) : Verdict :=
  -- `hold|<addr>|<ms>` items (another writer holding the lock for a while in real time) do not exist at the model's level;
  -- neither do `junk|<n>` items (queue entries of an unknown goal: popped — they count as consumed — and dropped without any effect)
  let junk : Nat := ((initS.splitOn ",").filterMap fun it => if it.startsWith "junk|" then (it.drop 5).toNat? else none).foldl (· + ·) 0
  let initS := ",".intercalate ((initS.splitOn ",").filter fun it => !it.startsWith "hold|" && !it.startsWith "junk|")
  match kv out "dump", kv out "met", modelRun {} (fun _ => 0) initS s!"pop|{n}|fail" (",".intercalate (List.replicate 400 "c0")) with
  | some idump, some imet, some m =>
    let idump := if idump = "-" then "" else idump
    let before := orphans (";".intercalate (dumpState m.s0.abs))
    let fresh := (orphans idump).filter fun o => !before.contains o
    -- the model's prober reports `popped:<k>:<expired>` first
    let mmet := match (m.res.splitOn "+").head? with
      | some t => (match t.splitOn ":" with | ["popped", k, e] => s!"{k.toNat?.getD 0 + junk}:{e}" | _ => "?")
      | none => "?"
    let quiet := out.contains "quiet"
    let same := m.dump == idump && mmet == imet
    -- the proved oracle agrees with the text one on the whole dump whenever the planted state had no orphan of its own
    let strictOk := !before.isEmpty || strictB idump == some (orphans idump).isEmpty
    let ok := fresh.isEmpty && quiet && mmet == imet && strictOk
    let why := (if fresh.isEmpty then "" else s!"sig=orphan-mark:{(fresh.map fun o => o.1 ++ ":goal" ++ o.2)} ") ++
      (cond strictOk "" s!"sig=orphan-mark-strict:backedStrictB={strictB idump}:orphans={orphans idump} ") ++
      (if quiet then "" else "sig=runner-not-quiet ") ++ (if mmet == imet then "" else s!"sig=queue-metrics model-met={mmet} impl-met={imet} ") ++
      (if m.dump == idump then "" else s!"model-dump={m.dump}")
    verdict same ok why
  | _, _, _ => .bad "C16 runner shape"

def handle (args out : List String) : Verdict :=
  match args with
  | ["runner", _, initS, n] => handleRunner initS n out
  | ["uc", initS, clientS, _] =>
    match kv out "eff", kv out "calls", kv out "res", kv out "dump", modelRun {} (fun _ => 0) initS clientS ((kv out "eff").getD "-") with
    | some ieff, some icalls, some ires, some idump, some m =>
      let (same, dinfo) := diffInfo m icalls ires idump
      let results := ires.splitOn ";"
      let orph := orphans idump
      -- attribution to a known finding: per orphan (its own address and goal), and only when the model reproduces the
      -- implementation's history exactly; every other orphan is `orphan-mark`
      let hist := if same then (history initS clientS ieff).getD [] else []
      let classified := orph.map fun (x : String × String) =>
        if heldAndLost m.specs results hist x.1 x.2 then s!"sig=holder-loss:{x.1}:goal{x.2}"
        else if consumedBeforeMark m.specs icalls hist x.1 x.2 then s!"sig=consumed-before-mark:{x.1}:goal{x.2}"
        else s!"sig=orphan-mark:{x.1}:goal{x.2}"
      let panicked := results.any fun r => r.startsWith "panic"
      let hung := (results.any fun r => r == "hung") || ieff.endsWith "HUNG"
      -- the proved oracle (`Strict.backedStrictB` on the parsed dump) must find the store `BackedStrict` exactly when the
      -- text oracle names no orphan; a dump it cannot parse, or a disagreement, fails the case under its own signature
      let strict := strictB idump
      let strictOk := strict == some orph.isEmpty
      let ok := orph.isEmpty && strictOk && !hung && !panicked
      -- report the most severe signature first: a case that panicked or did not terminate carries `sig=panic` /
      -- `sig=not-terminated` BEFORE every orphan signature, and `bin/check` accepts a failing verdict as a known finding
      -- only if EVERY signature in it is a known one — so a hung or panicked case is never excused by a `holder-loss`
      -- orphan it happens to contain as well
      let sigs := (cond panicked ["sig=panic"] []) ++ (cond hung ["sig=not-terminated"] []) ++
        (cond strictOk [] [s!"sig=orphan-mark-strict:backedStrictB={strict}:orphans={orph.length}"]) ++
        (classified.filter (·.startsWith "sig=orphan")) ++ (classified.filter (·.startsWith "sig=consumed")) ++
        (classified.filter (·.startsWith "sig=holder"))
      verdict same ok (" ".intercalate (sigs ++ (if dinfo.isEmpty then [] else [dinfo])))
    | _, _, _, _, _ => .bad "C16 parse"
  | _ => .bad "C16 shape"

end Swat4.Drv.C16
