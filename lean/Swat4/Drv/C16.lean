import Swat4.Drv.UCRun
/-!
Driver side of C16: `C16 uc <init> <clients> <events> => eff=… calls=… res=… dump=…`

Oracle on the implementation's final dump (every surviving client has finished, leases expired):
`Backed` — every server carrying `port_retry` has a queued probe with goal port for its address,
every server carrying `details_retry` a queued probe with goal details.  A mark without a probe
is classified: if the probe backing it was popped by a prober client that then died or whose use
case returned an error (it *held* the probe), the signature is `holder-loss` (a known finding:
the queue pop is destructive); if a probe a client had just enqueued was popped by a prober before that
client's mark committed, `consumed-before-mark` (a known finding: enqueue and mark are not atomic); anything
else is `orphan-mark`.
-/
namespace Swat4.Drv.C16
open Swat4 Swat4.Drv Swat4.UC Std

/-- (address text, status word) of every stored server -/
def svStatuses (dump : String) : List (String × Nat) :=
  (dump.splitOn ";").filterMap fun line =>
    match line.splitOn "," with
    | "SV" :: a :: _ :: st :: _ => st.toNat?.map fun s => (a, s)
    | _ => none

/-- (address text, goal) of every queued probe -/
def queued (dump : String) : List (String × String) :=
  (dump.splitOn ";").filterMap fun line =>
    match line.splitOn "," with
    | ["PI", _, a, _, goal, _, _, _] => some (a, goal)
    | _ => none

/-- marks without a queued probe: (address, goal) -/
def orphans (dump : String) : List (String × String) :=
  let q := queued dump
  (svStatuses dump).flatMap fun (x : String × Nat) =>
    (if x.2 / 128 % 2 == 1 && !q.contains (x.1, "1") then [(x.1, "1")] else []) ++
    (if x.2 / 16 % 2 == 1 && !q.contains (x.1, "0") then [(x.1, "0")] else [])

/-- did a prober client hold a probe for (address, goal) and end without resolving it?
Determined from the implementation's outputs: the client is a `pop` client, it completed a `popmany`
call, and it either crashed or reported an error for one of its probes. -/
def heldAndLost (specs : List USpec) (results : List String) (icalls : String) (_a _g : String) : Bool :=
  (enumFrom 0 specs).any fun (x : Nat × USpec) =>
    match x.2 with
    | .pop _ _ =>
      -- it died (possibly inside PopMany, after the pop batch took effect) or one of its probe executions returned an error
      let _ := icalls
      let r := results.getD x.1 ""
      r == "crashed" || (r.splitOn "+").any fun t => t.startsWith "err"
    | _ => false

/-- was a probe that some client had just enqueued consumed by a prober before that client's mark committed?
From the completion order of repository calls: `i:enqueue … j:popmany … i:update` with `j ≠ i`. -/
def consumedBeforeMark (icalls : String) : Bool :=
  let cs := (icalls.splitOn ",").map fun c => c.splitOn ":"
  (enumFrom 0 cs).any fun (x : Nat × List String) =>
    match x.2 with
    | [i, "enqueue"] =>
      let rest := cs.drop (x.1 + 1)
      -- position of i's next update
      match rest.findIdx? (fun c => c == [i, "update"]) with
      | some u => (rest.take u).any fun c => match c with | [j, "popmany"] => j != i | _ => false
      | none => false
    | _ => false

/-- `runner <offsets> <init> <n>`: the real prober component consumed the planted queue with every probe failing.
Model: one prober client popping up to `n` probes at once and failing each (`pop|n|fail`).  Oracle on the
implementation's output: the component went quiet, it created no NEW mark without a probe (marks the planted state
already had unbacked are not its doing), and its queue metrics count what was popped and what had expired. -/
def handleRunner (initS n : String) (out : List String) : Verdict :=
  -- `hold|<addr>|<ms>` items (another writer holding the lock for a while in real time) do not exist at the model's level
  let initS := ",".intercalate ((initS.splitOn ",").filter fun it => !it.startsWith "hold|")
  match kv out "dump", kv out "met", modelRun {} (fun _ => 0) initS s!"pop|{n}|fail" (",".intercalate (List.replicate 400 "c0")) with
  | some idump, some imet, some m =>
    let idump := if idump = "-" then "" else idump
    let before := orphans (";".intercalate (dumpState m.s0.abs))
    let fresh := (orphans idump).filter fun o => !before.contains o
    -- the model's prober reports `popped:<k>:<expired>` first
    let mmet := match (m.res.splitOn "+").head? with
      | some t => (match t.splitOn ":" with | ["popped", k, e] => s!"{k}:{e}" | _ => "?")
      | none => "?"
    let quiet := out.contains "quiet"
    let same := m.dump == idump && mmet == imet
    let ok := fresh.isEmpty && quiet && mmet == imet
    let why := (if fresh.isEmpty then "" else s!"sig=orphan-mark:{(fresh.map fun o => o.1 ++ ":goal" ++ o.2)} ") ++
      (if quiet then "" else "sig=runner-not-quiet ") ++ (if mmet == imet then "" else s!"sig=queue-metrics model-met={mmet} impl-met={imet} ") ++
      (if m.dump == idump then "" else s!"model-dump={m.dump}")
    verdict same ok why
  | _, _, _ => .bad "C16 runner shape"

def handle (args out : List String) : Verdict :=
  match args with
  | ["runner", _, initS, n] => handleRunner initS n out
  | ["uc", initS, clientS, _] =>
    match kv out "eff", kv out "calls", kv out "res", kv out "dump", modelRun {} (fun _ => 0) initS clientS ((kv out "eff").getD "-") with
    | some ieff, some icalls, some ires, some idump, some m =>
      let (same, dinfo) := diffInfo m icalls ires idump
      let results := ires.splitOn ";"
      let orph := orphans idump
      let classified := orph.map fun (x : String × String) =>
        if heldAndLost m.specs results icalls x.1 x.2 then s!"sig=holder-loss:{x.1}:goal{x.2}"
        else if consumedBeforeMark icalls then s!"sig=consumed-before-mark:{x.1}:goal{x.2}"
        else s!"sig=orphan-mark:{x.1}:goal{x.2}"
      let hung := (results.any fun r => r == "hung" || r.startsWith "panic") || ieff.endsWith "HUNG"
      let ok := orph.isEmpty && !hung
      -- report the most severe signature first
      let sigs := (classified.filter (·.startsWith "sig=orphan")) ++ (classified.filter (·.startsWith "sig=consumed")) ++
        (classified.filter (·.startsWith "sig=holder"))
      verdict same ok (dinfo ++ " ".intercalate sigs ++ (cond hung " not-terminated" ""))
    | _, _, _, _, _ => .bad "C16 parse"
  | _ => .bad "C16 shape"

end Swat4.Drv.C16
