import Swat4.Drv.StoreRun
import Swat4.Model.Prog
/-!
Driver side of C11: `C11 hist <item>,… => res=… dump=…`

Model: the Redis-level machine run sequentially.  Oracle on the implementation's results: they
equal those of the versioned-map specification (`AbsState.add/update/remove/get/filter/count`)
folded over the same history, and the final dump equals the dump of the specification's state.
-/
namespace Swat4.Drv.C11
open Swat4 Swat4.Drv Std

/-- items that are no repository call and that neither the specification nor the model reacts to: `F<addr>` (the stored JSON
of `<addr>` gets members this release does not know, as a record written by another release has: decoding ignores them)
`R<ns>` (time passes in the storage service: no data key carries a time-to-live) and `L<addr>` (the stored JSON of `<addr>` is
rewritten with the member names the released program writes: what a previous run left must read back as the same server) -/
def inert (it : String) : Bool := (it.startsWith "F" || it.startsWith "R" || it.startsWith "L") && !(it.contains '|')

def specStep (acc : AbsState × Int × List String) (it : String) : Option (AbsState × Int × List String) :=
  let (a, clock, rs) := acc
  if it.startsWith "t" && !(it.contains '|') then
    (it.drop 1).toInt?.map fun d => (a, clock + d, rs ++ ["-"])
  else if inert it then some (a, clock, rs ++ ["-"])
  else
    match parseCall it with
    | some (.w .add svr res) => let (a', r) := a.add clock svr res
      some (a', clock, rs ++ [match r with | .ok s => s!"ok:{renderServer s}" | .error .serverExists => "err:exists" | .error _ => "err:?"])
    | some (.w .update svr res) => let (a', r) := a.update clock svr res
      some (a', clock, rs ++ [match r with | .ok s => s!"ok:{renderServer s}" | .error .serverNotFound => "err:notfound" | .error _ => "err:?"])
    | some (.w .remove svr res) => let (a', _) := a.remove svr res
      some (a', clock, rs ++ ["ok"])
    | some (.get ad) => some (a, clock, rs ++ [match a.get ad with | .ok s => s!"ok:{renderServer s}" | .error _ => "err:notfound"])
    | some (.filter fs) => some (a, clock, rs ++ [s!"ok:{renderServers (a.filter fs)}"])
    | some .count => some (a, clock, rs ++ [s!"ok:{a.count}"])
    | some .countby => some (a, clock, rs ++ ["ok:" ++ ",".intercalate (Status.members.map fun b => toString (a.countByStatus b))])
    -- instance table and probe queue: the specification's step is `Call.exec`, what the use-case programs run
    | some (.q (.insAdd id ad)) => let r := (Call.insAdd ⟨id, ad⟩).exec a clock
      some (r.1, clock, rs ++ [match r.2 with | .ok _ => "ok" | .error _ => "err:?"])
    | some (.q (.insRemove id)) => let r := (Call.insRemove id).exec a clock
      some (r.1, clock, rs ++ [match r.2 with | .ok _ => "ok" | .error _ => "err:?"])
    | some (.q (.insClear b)) => let r := (Call.insClear b).exec a clock
      some (r.1, clock, rs ++ [match r.2 with | .ok n => s!"ok:{n}" | .error _ => "err:?"])
    | some (.q (.enqueue pr after before)) => let r := (Call.enqueue pr after before).exec a clock
      some (r.1, clock, rs ++ [match r.2 with | .ok _ => "ok" | .error _ => "err:?"])
    | some (.q (.popMany n)) => let r := (Call.popMany n).exec a clock
      some (r.1, clock, rs ++ [match r.2 with | .ok (ps, e) => s!"ok:{e}:{",".intercalate (ps.map renderProbe)}" | .error _ => "err:?"])
    | _ => none

def modelStep (acc : SeqState × List String) (it : String) : Option (SeqState × List String) :=
  let (s, rs) := acc
  if it.startsWith "t" && !(it.contains '|') then
    (it.drop 1).toInt?.map fun d => ({ s with clock := s.clock + d }, rs ++ ["-"])
  else if inert it then some (s, rs ++ ["-"])
  else
    (parseCall it).map fun c => let (s', r, _) := runCall s c .none; (s', rs ++ [r])

def handle (args out : List String) : Verdict :=
  match args with
  | ["hist", items] =>
    let its := items.splitOn ","
    match its.foldlM modelStep (({ clock := epoch } : SeqState), []), its.foldlM specStep (({} : AbsState), epoch, []), kv out "res", kv out "dump" with
    | some (ms, mrs), some (sa, _, srs), some ires, some idump =>
      let mres := ";".intercalate mrs
      let mdump := ";".intercalate (dumpRStore ms.st)
      let same := mres == ires && mdump == idump
      let sres := ";".intercalate srs
      let sdump := ";".intercalate (dumpState sa)
      let ok := sres == ires && sdump == idump
      let info := (if same then "" else (if mres != ires then s!"model-res={mres} " else "") ++ (if mdump != idump then s!"model-dump={mdump} " else "")) ++
        (if ok then "" else (if sres != ires then s!"spec-res={sres} " else "") ++ (if sdump != idump then s!"spec-dump={sdump}" else ""))
      verdict same ok info
    | _, _, _, _ => .bad "C11 parse"
  | _ => .bad "C11 shape"

end Swat4.Drv.C11
