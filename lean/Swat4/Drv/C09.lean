import Swat4.Drv.Common
import Swat4.Drv.Store
import Swat4.Model.StoreMachine
/-!
Driver side of C09: `C09 sched <init> <clients> <events> => trace=… res=… dump=…`

The model (`Sys`) is run on the same client calls and event list; trace, results and final
keyspace are compared.  Oracle on the implementation's output (linearizability at the observed
commit instants): folding the calls whose `exec:ok` appears in the trace, in trace order, each
applied atomically (`AbsState.add/update/remove`) to the then-current registry, must give the
records of the final dump, each committed call's result must be the atomic call's result, a call
that never committed must report a lock error or the result of a no-effect atomic call on one of
the registries the replay passes through (`idle`), no reader may fail and every record a reader
reports must be the replayed registry's record of that address at the instant of its `HMGET`
(`readersOk`), and every client must have finished.
-/
namespace Swat4.Drv.C09
open Swat4 Swat4.Drv Std

inductive Spec where
  | w (kind : WKind) (svr : Server) (res : Resolver)
  | r (fs : FilterSet)

def parseClient (s : String) : Option Spec :=
  match s.splitOn "|" with
  | kind :: srv :: [rn] =>
    match parseServer srv with
    | none => none
    | some svr =>
      match resolverOf rn svr with
      | none => none
      | some res =>
        match kind with
        | "add" => some (.w .add svr res)
        | "update" => some (.w .update svr res)
        | "remove" => some (.w .remove svr res)
        | _ => none
  | "filter" :: rest => (parseFilterSet rest).map .r
  | _ => none

def renderWResult : WResult → String
  | .ok (some s) => s!"ok:{renderServer s}"
  | .ok none => "ok"
  | .error .notFound => "err:notfound"
  | .error .exists => "err:exists"
  | .error .lockLost => "err:locklost"
  | .error .lockExhausted => "err:exhausted"

def sortByKey (xs : List Server) : List Server :=
  xs.foldr (fun x acc => let (lo, hi) := acc.partition fun y => y.addr.key ≤ x.addr.key; lo ++ x :: hi) []

def renderServers (xs : List Server) : String :=
  if xs.isEmpty then "-" else ",".intercalate ((sortByKey xs).map renderServer)

def clientResult : Client → String
  | .writer w => match w.pc with | .done r => renderWResult r | _ => "hung"
  | .reader r => match r.pc with | .done xs => s!"ok:{renderServers xs}" | _ => "hung"

def applyEvent (acc : Sys × List String) (ev : String) : Sys × List String :=
  let (s, t) := acc
  if ev = "e" then (s.expireAll, t)
  else if ev.startsWith "t" then
    match (ev.drop 1).toNat? with
    | some d => (s.step (.tick d), t)
    | none => acc
  else if ev.startsWith "s" then
    match (ev.drop 1).toNat? with
    | some i => s.stepT i t
    | none => acc
  else acc

/-- plant the initial records the way the harness does (`Add` at version − 1, clock = epoch) -/
def plant (st : RStore) (clock : Int) (svr : Server) : RStore := st.saveBatch svr clock

def epoch : Int := 1704067200000000000

def kv (out : List String) (key : String) : Option String :=
  (out.find? (·.startsWith (key ++ "="))).map fun s => (s.drop (key.length + 1)).toString

/-- core fields of the SV lines of a dump: addr ↦ "qp,status,version,refreshed" -/
def svCore (dump : String) : List (String × String) :=
  (dump.splitOn ";").filterMap fun line =>
    match line.splitOn "," with
    | "SV" :: a :: qp :: st :: ver :: rf :: _ => some (a, s!"{qp},{st},{ver},{rf}")
    | _ => none

def absCore (a : AbsState) : List (String × String) :=
  a.servers.toList.map fun (_, r) => (r.svr.addr.render, s!"{r.svr.queryPort},{r.svr.status.toNat},{r.svr.version},{renderTime r.svr.refreshedAt}")

/-- result a writer reports for an atomic call that has NO effect on the registry `a` (`none`: the call would change `a`) -/
def noEffectResult (a : AbsState) (kind : WKind) (svr : Server) (r : Resolver) : Option String :=
  match kind with
  | .add =>
    let (a', x) := a.add epoch svr r
    if absCore a' != absCore a then none else
    match x with | .ok s => some s!"ok:{renderServer s}" | .error .serverExists => some "err:exists" | .error _ => none
  | .update =>
    let (a', x) := a.update epoch svr r
    if absCore a' != absCore a then none else
    match x with | .ok s => some s!"ok:{renderServer s}" | .error .serverNotFound => some "err:notfound" | .error _ => none
  | .remove =>
    let (a', _) := a.remove svr r
    if absCore a' != absCore a then none else some "ok"

/-- the linearizability oracle (see the file header).

Driver-implemented semantics (not `Model/` or `Spec/` definitions): the replay of the committed calls (`exec:ok` trace entries)
through `AbsState.add/update/remove`, `idle` (a writer that never committed reports a lock error or the result of a
no-effect atomic call on one of the registries the replay passes through) and `readersOk` (every record a reader reports
is, field for field, the record the replayed registry holds for that address at the instant of the reader's `HMGET`). -/
def oracle (inits : List Server) (specs : List Spec) (trace res dump : String) : Bool × String :=
  let a0 : AbsState := inits.foldl (fun a s => (a.save epoch { s with version := s.version - 1 }).1) {}
  let events := (trace.splitOn ",").map (·.splitOn ":")
  let commits := events.filterMap fun e =>
    match e with
    | [i, "exec", "ok"] => i.toNat?
    | _ => none
  let results := res.splitOn ";"
  let step (acc : AbsState × Bool × String) (i : Nat) : AbsState × Bool × String :=
    let (a, ok, why) := acc
    match specs[i]? with
    | some (.w kind svr r) =>
      let (a', expect) := match kind with
        | .add => let (a', x) := a.add epoch svr r; (a', match x with | .ok s => s!"ok:{renderServer s}" | .error _ => "err")
        | .update => let (a', x) := a.update epoch svr r; (a', match x with | .ok s => s!"ok:{renderServer s}" | .error _ => "err")
        | .remove => let (a', _) := a.remove svr r; (a', "ok")
      let got := results.getD i "?"
      if got == expect then (a', ok, why) else (a', false, why ++ s!" commit-result-mismatch:client{i}:got={got}:want={expect}")
    | _ => (a, false, why ++ s!" commit-by-non-writer:{i}")
  -- one pass over the trace: the registry after every commit (`states`, oldest first) and the registry each reader's
  -- `HMGET` saw (`seen`: reader index ↦ registry at that instant)
  let pass := events.foldl (fun (acc : (AbsState × Bool × String) × List AbsState × List (Nat × AbsState)) e =>
    let (cur, states, seen) := acc
    match e with
    | [i, "exec", "ok"] =>
      match i.toNat? with
      | some i => let cur' := step cur i; (cur', states ++ [cur'.1], seen)
      | none => acc
    | [i, "hmget", _] =>
      match i.toNat? with
      | some i => (cur, states, seen ++ [(i, cur.1)])
      | none => acc
    | _ => acc) ((a0, true, ""), [a0], [])
  let ((aF, ok1, why1), states, seen) := pass
  let sameRows := absCore aF == svCore dump
  let noDup := commits.eraseDups.length == commits.length
  let finished := !(results.any fun r => r == "hung" || r.startsWith "panic")
  -- a writer that did not commit changed nothing (`sameRows`), and what it reports is a lock error or the result of a
  -- no-effect atomic call on a registry that existed during the run
  let idleBad := (List.range specs.length).filter fun i =>
    !commits.contains i &&
      match (specs[i]? : Option Spec) with
      | some (Spec.r _) => false
      | some (Spec.w kind svr r) =>
        let got := results.getD i "?"
        !(got == "err:locklost" || got == "err:exhausted" || states.any fun a => noEffectResult a kind svr r == some got)
      | none => true
  let idle := idleBad.isEmpty
  -- a reader never fails, reports no address twice, and every record it reports is exactly the committed record of that
  -- address at the instant of its fetch (so: written by one writer in full, never a mix, never half a record)
  let readersBad : List String := (List.range specs.length).filterMap fun i =>
    match (specs[i]? : Option Spec) with
    | some (Spec.r _) =>
      let got := results.getD i "?"
      if !got.startsWith "ok:" then some s!"client{i}:failed:{got}" else
      let body := (got.drop 3).toString
      let recs := if body == "-" then [] else body.splitOn ","
      let snaps := seen.filterMap fun (j, a) => if j == i then some a else none
      match snaps with
      | [a] =>
        let allowed := a.servers.toList.map fun kv => renderServer kv.2.svr
        let addrs := recs.map fun r => (r.splitOn "/").headD ""
        match recs.find? fun r => !allowed.contains r with
        | some r => some s!"client{i}:not-a-committed-record:{r}:committed-at-fetch={allowed}"
        | none => if addrs.eraseDups.length != addrs.length then some s!"client{i}:duplicate-address" else none
      | [] => if recs.isEmpty then none else some s!"client{i}:records-without-fetch"
      | _ => some s!"client{i}:fetched-twice"
    | _ => none
  let readersOk := readersBad.isEmpty
  let ok := ok1 && sameRows && noDup && finished && idle && readersOk && !(trace.endsWith "HUNG")
  (ok, s!"{why1}{if sameRows then "" else s!" final-rows:impl={svCore dump}:replayed={absCore aF}"}{if noDup then "" else " double-commit"}{if finished then "" else " not-terminated"}{if idle then "" else s!" uncommitted-call-result-not-a-no-effect-result:clients={idleBad}"}{if readersOk then "" else s!" reader:{readersBad}"}")

def handle (args out : List String) : Verdict :=
  -- `sched1`: the same operations run as goroutines of one component (one lock manager, one connection pool);
  -- the model does not distinguish the two (every acquisition has its own token, every operation its own WATCH)
  match (match args with | "sched1" :: rest => "sched" :: rest | a => a) with
  | ["sched", initS, clientS, eventS] =>
    let inits := if initS = "-" then some [] else (initS.splitOn ",").mapM parseServer
    let specs := (clientS.splitOn ",").mapM parseClient
    match inits, specs, kv out "trace", kv out "res", kv out "dump" with
    | some inits, some specs, some itrace, some ires, some idump =>
      let st0 := inits.foldl (fun st s => plant st epoch s) ({} : RStore)
      let clients := (enumFrom 0 specs).map fun (i, sp) =>
        match sp with
        | .w kind svr res => Client.writer (Writer.start ⟨kind, svr, res⟩ i)
        | .r fs => Client.reader ⟨.index fs⟩
      let s0 : Sys := { store := st0, clock := epoch, clients, nextTok := specs.length }
      let (s1, t1) := (eventS.splitOn ",").foldl applyEvent (s0, [])
      let (s2, t2) := s1.roundRobin t1 400
      let mtrace := ",".intercalate t2
      let mres := ";".intercalate (s2.clients.map clientResult)
      let mdump := ";".intercalate (dumpRStore s2.store)
      let same := mtrace == itrace && mres == ires && mdump == idump
      let (ok, why) := oracle inits specs itrace ires idump
      let info := if same then why else
        (if mtrace != itrace then s!"model-trace={mtrace} " else "") ++
        (if mres != ires then s!"model-res={mres} " else "") ++
        (if mdump != idump then s!"model-dump={mdump} " else "") ++ why
      verdict same ok info
    | _, _, _, _, _ => .bad "C09 parse"
  | _ => .bad "C09 shape"

end Swat4.Drv.C09
