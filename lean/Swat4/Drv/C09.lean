import Swat4.Drv.Common
import Swat4.Drv.Store
import Swat4.Model.StoreMachine
/-!
Driver side of C09: `C09 sched <init> <clients> <events> => trace=… res=… dump=…`

The model (`Sys`) is run on the same client calls and event list; trace, results and final
keyspace are compared.  Oracle on the implementation's output (linearizability at the observed
commit instants): folding the calls whose `exec:ok` appears in the trace, in trace order, each
applied atomically (`AbsState.add/update/remove`) to the then-current registry, must give the
records of the final dump, each committed call's result must be the atomic call's result, a call
that never committed must not report success with an effect, no reader may fail, and every
client must have finished.
-/
namespace Swat4.Drv.C09
open Swat4 Swat4.Drv Std

inductive Spec where
  | w (kind : WKind) (svr : Server) (res : Resolver)
  | r (fs : FilterSet)

def parseClient (s : String) : Option Spec :=
  match s.splitOn "|" with
  | kind :: srv :: [rn] =>
    match parseServer srv with
    | none => none
    | some svr =>
      match resolverOf rn svr with
      | none => none
      | some res =>
        match kind with
        | "add" => some (.w .add svr res)
        | "update" => some (.w .update svr res)
        | "remove" => some (.w .remove svr res)
        | _ => none
  | "filter" :: rest => (parseFilterSet rest).map .r
  | _ => none

def renderWResult : WResult → String
  | .ok (some s) => s!"ok:{renderServer s}"
  | .ok none => "ok"
  | .error .notFound => "err:notfound"
  | .error .exists => "err:exists"
  | .error .lockLost => "err:locklost"
  | .error .lockExhausted => "err:exhausted"

def sortByKey (xs : List Server) : List Server :=
  xs.foldr (fun x acc => let (lo, hi) := acc.partition fun y => y.addr.key ≤ x.addr.key; lo ++ x :: hi) []

def renderServers (xs : List Server) : String :=
  if xs.isEmpty then "-" else ",".intercalate ((sortByKey xs).map renderServer)

def clientResult : Client → String
  | .writer w => match w.pc with | .done r => renderWResult r | _ => "hung"
  | .reader r => match r.pc with | .done xs => s!"ok:{renderServers xs}" | _ => "hung"

def applyEvent (acc : Sys × List String) (ev : String) : Sys × List String :=
  let (s, t) := acc
  if ev = "e" then (s.expireAll, t)
  else if ev.startsWith "t" then
    match (ev.drop 1).toNat? with
    | some d => (s.step (.tick d), t)
    | none => acc
  else if ev.startsWith "s" then
    match (ev.drop 1).toNat? with
    | some i => s.stepT i t
    | none => acc
  else acc

/-- plant the initial records the way the harness does (`Add` at version − 1, clock = epoch) -/
def plant (st : RStore) (clock : Int) (svr : Server) : RStore := st.saveBatch svr clock

def epoch : Int := 1704067200000000000

def kv (out : List String) (key : String) : Option String :=
  (out.find? (·.startsWith (key ++ "="))).map fun s => (s.drop (key.length + 1)).toString

/-- core fields of the SV lines of a dump: addr ↦ "qp,status,version,refreshed" -/
def svCore (dump : String) : List (String × String) :=
  (dump.splitOn ";").filterMap fun line =>
    match line.splitOn "," with
    | "SV" :: a :: qp :: st :: ver :: rf :: _ => some (a, s!"{qp},{st},{ver},{rf}")
    | _ => none

def absCore (a : AbsState) : List (String × String) :=
  a.servers.toList.map fun (_, r) => (r.svr.addr.render, s!"{r.svr.queryPort},{r.svr.status.toNat},{r.svr.version},{renderTime r.svr.refreshedAt}")

/-- the linearizability oracle (see the file header) -/
def oracle (inits : List Server) (specs : List Spec) (trace res dump : String) : Bool × String :=
  let a0 : AbsState := inits.foldl (fun a s => (a.save epoch { s with version := s.version - 1 }).1) {}
  let commits := (trace.splitOn ",").filterMap fun e =>
    match e.splitOn ":" with
    | [i, "exec", "ok"] => i.toNat?
    | _ => none
  let results := res.splitOn ";"
  let step (acc : AbsState × Bool × String) (i : Nat) : AbsState × Bool × String :=
    let (a, ok, why) := acc
    match specs[i]? with
    | some (.w kind svr r) =>
      let (a', expect) := match kind with
        | .add => let (a', x) := a.add epoch svr r; (a', match x with | .ok s => s!"ok:{renderServer s}" | .error _ => "err")
        | .update => let (a', x) := a.update epoch svr r; (a', match x with | .ok s => s!"ok:{renderServer s}" | .error _ => "err")
        | .remove => let (a', _) := a.remove svr r; (a', "ok")
      let got := results.getD i "?"
      if got == expect then (a', ok, why) else (a', false, why ++ s!" commit-result-mismatch:client{i}:got={got}:want={expect}")
    | _ => (a, false, why ++ s!" commit-by-non-writer:{i}")
  let (aF, ok1, why1) := commits.foldl step (a0, true, "")
  let sameRows := absCore aF == svCore dump
  let noDup := commits.eraseDups.length == commits.length
  let finished := !(results.any fun r => r == "hung" || r.startsWith "panic")
  -- a call that did not commit changes nothing: its reported result must be an error or a no-effect success
  let idle := (List.range specs.length).all fun i =>
    commits.contains i ||
      match specs[i]? with
      | some (.r _) => (results.getD i "?").startsWith "ok"
      | some (.w .remove _ _) => true
      | some (.w _ _ _) => true
      | none => false
  let readersOk := (List.range specs.length).all fun i =>
    match specs[i]? with | some (.r _) => (results.getD i "?").startsWith "ok" | _ => true
  let ok := ok1 && sameRows && noDup && finished && idle && readersOk && !(trace.endsWith "HUNG")
  (ok, s!"{why1}{if sameRows then "" else s!" final-rows:impl={svCore dump}:replayed={absCore aF}"}{if noDup then "" else " double-commit"}{if finished then "" else " not-terminated"}{if readersOk then "" else " reader-failed"}")

def handle (args out : List String) : Verdict :=
  -- `sched1`: the same operations run as goroutines of one component (one lock manager, one connection pool);
  -- the model does not distinguish the two (every acquisition has its own token, every operation its own WATCH)
  match (match args with | "sched1" :: rest => "sched" :: rest | a => a) with
  | ["sched", initS, clientS, eventS] =>
    let inits := if initS = "-" then some [] else (initS.splitOn ",").mapM parseServer
    let specs := (clientS.splitOn ",").mapM parseClient
    match inits, specs, kv out "trace", kv out "res", kv out "dump" with
    | some inits, some specs, some itrace, some ires, some idump =>
      let st0 := inits.foldl (fun st s => plant st epoch s) ({} : RStore)
      let clients := (enumFrom 0 specs).map fun (i, sp) =>
        match sp with
        | .w kind svr res => Client.writer (Writer.start ⟨kind, svr, res⟩ i)
        | .r fs => Client.reader ⟨.index fs⟩
      let s0 : Sys := { store := st0, clock := epoch, clients, nextTok := specs.length }
      let (s1, t1) := (eventS.splitOn ",").foldl applyEvent (s0, [])
      let (s2, t2) := s1.roundRobin t1 400
      let mtrace := ",".intercalate t2
      let mres := ";".intercalate (s2.clients.map clientResult)
      let mdump := ";".intercalate (dumpRStore s2.store)
      let same := mtrace == itrace && mres == ires && mdump == idump
      let (ok, why) := oracle inits specs itrace ires idump
      let info := if same then why else
        (if mtrace != itrace then s!"model-trace={mtrace} " else "") ++
        (if mres != ires then s!"model-res={mres} " else "") ++
        (if mdump != idump then s!"model-dump={mdump} " else "") ++ why
      verdict same ok info
    | _, _, _, _, _ => .bad "C09 parse"
  | _ => .bad "C09 shape"

end Swat4.Drv.C09
