import Swat4.Drv.RepCommon
import Swat4.Model.BrowserReq06
import Swat4.Model.ReporterReach
/-!
Driver side of C06.

* `C06 hist <ops> => (<outcome> <dump>)*` — UDP half, in-process: model outcome and full dump per datagram;
  oracle on the implementation's output: no `panic` for a non-empty datagram, at most one reply (one outcome
  token, `reply:` carries one datagram), dump unchanged unless the datagram is a heartbeat/keepalive that
  reaches its use case (`reachesUseCase`) and is not answered `err`.
* `C06 tcp <k> <payloadhex|none> => <reply:<len>|closed|panic:…> <same|changed>` — TCP half over a real
  loopback connection: model = outcome class of `BrowserReq06.handle` (reply length too when the registry is
  empty, k = 0); oracle: no panic, store unchanged.
* `C06 udpsrv <hex/hex/…> => (alive|dead)* replies:<n> src=<port> per=<w1>/<w2>/…` — through the real udpserver: the server
  answered an `available` request after every datagram, and every datagram got at most one reply, exactly the one the model
  (`Heartbeat.dispatch` from `127.0.0.1:<port>`) gives it (`handleUdpSrv`).
-/
namespace Swat4.Drv.C06
open Swat4 Swat4.Drv Swat4.Drv.Rep Swat4.Heartbeat Swat4.BrowserReq06

/-- `C06.reachesUseCase`: both are names of `Heartbeat.reachesUseCase` (`Model/ReporterReach.lean`) -/
abbrev reaches (srcIp : Nat) (payload : Bytes) : Bool := Swat4.Heartbeat.reachesUseCase srcIp payload

def oracleStep (r : StepRec) : Option String :=
  if r.implOutcome.startsWith "panic" && !r.dg.payload.isEmpty then some "sig=udp-panic"
  else if r.implAfter != r.implBefore && (r.implOutcome == "err" || !reaches r.dg.srcIp r.dg.payload) then
    some "sig=malformed-changed-state"
  else none

def oracle : List StepRec → Nat → Option String
  | [], _ => none
  | r :: rs, i =>
    match oracleStep r with
    | some s => some s!"{s} step={i}"
    | none => oracle rs (i + 1)

def handleTcp (k payload : String) (out : List String) : Verdict :=
  match nat? k, (if payload = "none" then some none else (hex? payload).map some), out with
  | some k, some p, [cls, state] =>
    let m := BrowserReq06.handle p
    let same :=
      match m with
      | .reply fields => if k = 0 then cls == s!"reply:{emptyReplyLen fields}" else cls.startsWith "reply:"
      | .closed => cls == "closed"
      | .panic => cls.startsWith "panic"
    let ok := !cls.startsWith "panic" && cls != "not-closed" && state == "same"
    let why := if cls.startsWith "panic" then "sig=tcp-panic " else if cls == "not-closed" then "sig=tcp-connection-left-open "
      else if state != "same" then "sig=tcp-changed-state " else ""
    verdict same ok (why ++ s!"model={repr m}")
  | _, _, _ => .bad "C06 tcp shape"

/-- `udpsrv`: the datagrams went through the real udpserver from `127.0.0.1:<src>`, each followed by an `available`
request.  Per datagram the harness lists the replies received in its window (`per=`; the availability answer is not listed).

Oracle, per datagram: the model (`Heartbeat.dispatch`, run datagram by datagram from the empty registry at the epoch, source
`127.0.0.1:<src>`) says which single reply, if any, the datagram is answered with.  Every reply received must be the reply the
model expects for a datagram sent so far that has not been answered yet (a reply may be late — handlers run on their own
goroutines — but never early, never repeated, never different), and at the end every expected reply has arrived: so each datagram
gets at most one reply and exactly the model's.  An output without `src=`/`per=` is a `BAD-LINE` (no count-only fallback). -/
def udpBufferSize : Nat := UdpServer.defaultBufferSize

def handleUdpSrv (payloads : String) (out : List String) : Verdict :=
  let lives := out.filter fun t => t == "alive" || t == "dead"
  let replies := (out.filter (·.startsWith "replies:")).head?.bind fun t => (t.drop 8).toNat?
  let allAlive := lives.all (· == "alive")
  match replies with
  | none => .bad "C06 udpsrv shape"
  | some n =>
    match kv out "src", kv out "per" with
    | some src, some per =>
      match src.toNat?, (payloads.splitOn "/").mapM hex? with
      | some srcPort, some ps =>
        let windows := per.splitOn "/"
        if windows.length != ps.length || lives.length != ps.length then .bad "C06 udpsrv windows" else
        let loopback : Nat := 127 * 16777216 + 1
        -- (registry, expected replies not yet received, complaints)
        let fin := (ps.zip windows).zipIdx.foldl (fun (acc : AbsState × List String × List String) (x : (Bytes × String) × Nat) =>
          let (st, pending, bad) := acc
          -- the server reads a datagram into a buffer of `udpBufferSize` bytes (the harness starts it with `WithBufferSize(2048)`,
          -- the service's setting): the handler sees a longer datagram cut off there
          let (st', oc) := dispatch cfg st loopback srcPort (x.1.1.take udpBufferSize) epochNs
          let pending := pending ++ (match oc with | .reply b => [Bytes.toHexTok b] | _ => [])
          let got := if x.1.2 == "-" then [] else x.1.2.splitOn "+"
          let (pending, bad) := got.foldl (fun (a : List String × List String) r =>
            if a.1.contains r then (a.1.erase r, a.2) else (a.1, a.2 ++ [s!"datagram{x.2}:unexpected-reply:{r.take 40}:model={renderOutcome oc |>.take 60}"])) (pending, bad)
          (st', pending, bad)) (({} : AbsState), [], [])
        let (_, pending, bad) := fin
        let matched := bad.isEmpty && pending.isEmpty
        -- the harness's own total agrees with its windows
        let total := (windows.map fun w => if w == "-" then 0 else (w.splitOn "+").length).foldl (· + ·) 0
        if total != n then .bad s!"C06 udpsrv: replies:{n} but the windows list {total}" else
        let ok := allAlive && matched
        verdict ok ok ((cond allAlive "" "sig=udp-server-dead ") ++ (cond bad.isEmpty "" s!"sig=udp-reply-not-the-models:{bad} ") ++
          (cond pending.isEmpty "" s!"sig=udp-reply-missing:{pending.map (·.take 40)} "))
      | _, _ => .bad "C06 udpsrv src/payloads"
    -- the harness always prints `src=` and `per=` (`harness/internal/c06/c06.go: runUDPServer`): an output without them is
    -- not judged by a count — it is a line the driver does not understand
    | _, _ => .bad s!"C06 udpsrv: src=/per= missing (replies:{n})"

/-- `stall:<S>:<F>` of the stall measurements (`cstall`: browser port, `cstallhttp`: REST port) -/
def handleStall (out : List String) : Verdict :=
  match out with
  | [tok] =>
    (match tok.splitOn ":" with
     | ["stall", s, f] =>
       (match s.toNat?, f.toNat? with
        | some s, some f => if s < f then .agree
          else if f ≤ 8000000 then .agree   -- the reading client itself was cut short (a stalled machine): nothing to judge
          else .disagreeFails s!"sig=tcp-write-not-bounded the stalled client received the whole reply ({s} of {f} bytes)"
        | _, _ => .bad "C06 cstall numbers")
     | _ => .bad s!"C06 cstall: {tok}")
  | _ => .bad "C06 cstall shape"

def handle (args out : List String) : Verdict :=
  match args with
  | ["tcp", k, payload] => handleTcp k payload out
  -- the same request from an IPv4 peer seen through a dual-stack listener (16-byte IPv4-mapped address) and from an IPv6 peer:
  -- the handler's outcome class does not depend on the peer's address family
  | ["tcpm", k, payload] => handleTcp k payload out
  | ["tcp6", k, payload] => handleTcp k payload out
  -- through the real browser component; `idle` (nothing sent, nothing closed): the handler's read ends with the
  -- connection deadline the TCP server set, like an empty read
  -- measurement: a client that asks for a reply far larger than the socket buffers and does not read.  `stall:<S>:<F>`:
  -- F bytes to a client that reads, S bytes to one that stalls past the client timeout: the server must have given up (S < F)
  | ["cstall", _, _] => handleStall out
  | ["cstallhttp", _, _] => handleStall out
  | ["ctcp", k, payload] => handleTcp k (if payload = "idle" || payload = "idle0" then "none" else payload) out
  -- measurement: `crypt.Encrypt` under the concurrency of the connection goroutines (no model: the oracle is "no panic, every round trip exact")
  | ["encpar", _, _] =>
    match out with
    | [cls, _] => if cls == "ok" then .agree else .disagreeFails s!"sig=tcp-panic concurrent-encrypt {cls.take 120}"
    | _ => .bad "C06 encpar shape"
  | ["udpsrv", payloads] => handleUdpSrv payloads out
  | _ =>
    match records args out with
    | none => .bad "C06 shape"
    | some recs =>
      let diff := firstDiff recs 0
      let bad := oracle recs 0
      verdict diff.isNone bad.isNone ((bad.getD "") ++ " " ++ diff.getD "")

end Swat4.Drv.C06
