import Swat4.Base.Bytes
/-!
# Driver line protocol — shared helpers

A case is one line: `<prop> <op> <args…> => <impl-output tokens…>`.  The driver answers with
one line per case:

* `AGREE`                      model output = implementation output, oracle true
* `DISAGREE prop=holds <info>` outputs differ, the property's oracle is true on the implementation's output
* `DISAGREE prop=fails <info>` the oracle is false on the implementation's output
* `AGREE-BUT-FAILS <info>`     outputs agree and the oracle is false (property false of model and code alike,
                               or the input is outside a `_partial` theorem's hypotheses)
* `BAD-LINE <why>`             the line does not parse (framework error)
-/
namespace Swat4.Drv
open Swat4

inductive Verdict where
  | agree
  | disagreeHolds (info : String)
  | disagreeFails (info : String)
  | agreeButFails (info : String)
  | bad (why : String)

def Verdict.render : Verdict → String
  | .agree => "AGREE"
  | .disagreeHolds i => s!"DISAGREE prop=holds {i}"
  | .disagreeFails i => s!"DISAGREE prop=fails {i}"
  | .agreeButFails i => s!"AGREE-BUT-FAILS {i}"
  | .bad w => s!"BAD-LINE {w}"

/-- standard verdict from (model = impl?) and (oracle on impl) -/
def verdict (same : Bool) (oracle : Bool) (info : String) : Verdict :=
  match same, oracle with
  | true, true => .agree
  | true, false => .agreeButFails info
  | false, true => .disagreeHolds info
  | false, false => .disagreeFails info

/-- split the tokens of a line at `=>` -/
def splitArrow (toks : List String) : List String × List String :=
  (toks.takeWhile (· ≠ "=>"), (toks.dropWhile (· ≠ "=>")).drop 1)

def hex? (s : String) : Option Bytes := Bytes.ofHex s
def nat? (s : String) : Option Nat := s.toNat?
def int? (s : String) : Option Int := s.toInt?

def toVec? (n : Nat) (b : Bytes) : Option (Vector UInt8 n) :=
  if h : b.toArray.size = n then some ⟨b.toArray, h⟩ else none

end Swat4.Drv
