import Swat4.Drv.GS1Render
import Swat4.Drv.Store
import Swat4.Model.Details
import Swat4.Spec.Details
/-!
Driver side of C07:

* `C07 q <timeout_ms> <dgrams> => <result tokens…>`       scripted responder, then silence
* `C07 flood <timeout_ms> <dgram> => <result tokens…>`    one datagram repeated until the query returns
* `C07 dp <timeout_ms> <dgrams> => ok:<details> | err-timeout | err-query | err-parse | err-validate | …`
  the real details prober against the same responder; model: `DetailsProbe.probe`

The model result is `runQuery` over the datagrams (for `flood`: over three copies — every further
copy of the same datagram leaves `collectPayload`'s result unchanged).
-/
namespace Swat4.Drv.C07
open Swat4 Swat4.Drv Swat4.GS1 Swat4.Drv.GS1Render

/-- the oracle of C07 on the implementation's output: no panic, not late, and one of the three result classes -/
def oracle (out : List String) : Bool :=
  match out with
  | [] => false
  | h :: _ =>
    !(h.startsWith "panic:") && !(out.contains "late") && !(h.startsWith "harness-error") &&
      (h == "resp" || h == "timeout" || h.startsWith "err:")

def sigOf (out : List String) : String :=
  match out with
  | h :: _ => if h.startsWith "panic:" then "sig=panic" else if out.contains "late" then "sig=late" else "sig=class"
  | [] => "sig=empty"

/-! ## op `dp` -/

def renderProbe : DetailsProbe.ProbeResult → List String
  | .ok d => ["ok:" ++ renderDetails d]
  | .errTimeout => ["err-timeout"]
  | .errQuery => ["err-query"]
  | .errParse => ["err-parse"]
  | .errValidate => ["err-validate"]
  | .panic => ["panic:model"]
  | .hang => ["hang:model"]

/-- one rendered field value back, by kind (0 int, 1 bool, 2 string) -/
def val? (kind : Nat) (s : String) : Option Val :=
  if kind = 0 then (int? s).map .int
  else if kind = 1 then (if s = "1" then some (.bool true) else if s = "0" then some (.bool false) else none)
  else if kind = 2 then (hex? s).map .str
  else none

def fields? (kinds : List Nat) (s : String) : Option Fields :=
  let parts := s.splitOn ":"
  if parts.length = kinds.length then (kinds.zip parts).mapM fun (k, p) => val? k p else none

def slice? (kinds : List Nat) (s : String) : Option (List Fields) :=
  if s = "" then some [] else (s.splitOn "/").mapM (fields? kinds)

/-- `canon.Of(details.Details)` back: `(info):[player/…]:[objective/…]` -/
def details? (s : String) : Option Details :=
  match s.splitOn "):[" with
  | [a, rest] =>
    match rest.splitOn "]:[" with
    | [p, o] =>
      if a.startsWith "(" ∧ o.endsWith "]" then do
        let i ← fields? DetailsSpec.infoKinds (a.drop 1).toString
        let ps ← slice? DetailsSpec.playerKinds p
        let os ← slice? DetailsSpec.objectiveKinds (o.dropEnd 1).toString
        pure ⟨i, ps, os⟩
      else none
    | _ => none
  | _ => none

def dpErrClasses : List String := ["err-timeout", "err-query", "err-parse", "err-validate"]

/-- what the returned value must satisfy when the prober answers `ok:` (evaluated on the implementation's output) -/
def okAccepted (h : String) : Bool :=
  match details? (h.drop 3).toString with
  | some d => DetailsSpec.accepted d
  | none => false

/-- the oracle of C07 on the details prober's output: no panic, not late, an error class or a details value
that satisfies every validated constraint (`DetailsSpec.accepted`) -/
def dpOracle (out : List String) : Bool :=
  match out with
  | [] => false
  | h :: _ =>
    !(h.startsWith "panic:") && !(out.contains "late") && !(h.startsWith "harness-error") &&
      (dpErrClasses.contains h || h.startsWith "err-other" || (h.startsWith "ok:" && okAccepted h))

def dpSig (out : List String) : String :=
  match out with
  | h :: _ =>
    if h.startsWith "panic:" then "sig=panic" else if out.contains "late" then "sig=late"
    else if h.startsWith "ok:" then "sig=accepted-invalid" else "sig=class"
  | [] => "sig=empty"

def handleDp (ds : List Bytes) (out : List String) : Verdict :=
  let model := renderProbe (DetailsProbe.probe ds)
  verdict (model == out) (dpOracle out) s!"{dpSig out} model={" ".intercalate model}"

def handle (args out : List String) : Verdict :=
  match args with
  -- a query whose socket could not be connected: nothing was exchanged; it must come back with an error, not a panic
  -- (nor an answer: nobody was asked)
  | ["qdial", _] =>
    match out with
    | ["error"] => .agree
    | [o] => .disagreeFails (if o.startsWith "panic:" then s!"sig=query-panic {o.take 160}" else s!"sig=query-outcome {o.take 80}")
    | _ => .bad "C07 qdial shape"
  | [op, _tmo, d] =>
    match dgrams? d with
    | none => .bad "dgrams"
    | some ds =>
      if op = "dp" then handleDp ds out else
      let ds' := if op = "flood" then ds ++ ds ++ ds else ds
      if op ≠ "q" ∧ op ≠ "flood" then .bad "C07 op" else
      let model := renderQResult (runQuery ds')
      verdict (model == out) (oracle out) s!"{sigOf out} model={" ".intercalate model}"
  | _ => .bad "C07 shape"

end Swat4.Drv.C07
