import Swat4.Drv.GS1Render
/-!
Driver side of C07:

* `C07 q <timeout_ms> <dgrams> => <result tokens…>`       scripted responder, then silence
* `C07 flood <timeout_ms> <dgram> => <result tokens…>`    one datagram repeated until the query returns

The model result is `runQuery` over the datagrams (for `flood`: over three copies — every further
copy of the same datagram leaves `collectPayload`'s result unchanged).
-/
namespace Swat4.Drv.C07
open Swat4 Swat4.Drv Swat4.GS1 Swat4.Drv.GS1Render

/-- the oracle of C07 on the implementation's output: no panic, not late, and one of the three result classes -/
def oracle (out : List String) : Bool :=
  match out with
  | [] => false
  | h :: _ =>
    !(h.startsWith "panic:") && !(out.contains "late") && !(h.startsWith "harness-error") &&
      (h == "resp" || h == "timeout" || h.startsWith "err:")

def sigOf (out : List String) : String :=
  match out with
  | h :: _ => if h.startsWith "panic:" then "sig=panic" else if out.contains "late" then "sig=late" else "sig=class"
  | [] => "sig=empty"

def handle (args out : List String) : Verdict :=
  match args with
  | [op, _tmo, d] =>
    match dgrams? d with
    | none => .bad "dgrams"
    | some ds =>
      let ds' := if op = "flood" then ds ++ ds ++ ds else ds
      if op ≠ "q" ∧ op ≠ "flood" then .bad "C07 op" else
      let model := renderQResult (runQuery ds')
      verdict (model == out) (oracle out) s!"{sigOf out} model={" ".intercalate model}"
  | _ => .bad "C07 shape"

end Swat4.Drv.C07
