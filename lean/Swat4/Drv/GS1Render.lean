import Swat4.Drv.Common
import Swat4.Model.GS1
/-! Line-protocol rendering shared by the C07 and C08 drivers (mirrors `harness/internal/gs1util`). -/
namespace Swat4.Drv.GS1Render
open Swat4 Swat4.Drv Swat4.GS1

/-- `k:v;k:v` in hex, `.` for the empty list -/
def renderKVs (m : List (Bytes × Bytes)) : String :=
  if m.isEmpty then "." else ";".intercalate (m.map fun kv => kv.1.toHexTok ++ ":" ++ kv.2.toHexTok)

def renderPlayers (ps : List (List (Bytes × Bytes))) : String :=
  if ps.isEmpty then "." else "|".intercalate (ps.map renderKVs)

/-- `<ver> <fields> <players> <objectives>` -/
def renderResponse (r : Response) : List String :=
  [r.version.tag, renderKVs r.fields, renderPlayers r.players, renderKVs r.objectives]

def renderErr : Err → String
  | .incomplete => "err:incomplete"
  | .malformed => "err:malformed"

def renderQResult : QResult → List String
  | .response r => "resp" :: renderResponse r
  | .error e => [renderErr e]
  | .timeout => ["timeout"]
  | .panic => ["panic:model"]
  | .hang => ["hang:model"]

/-- datagram list token: hex joined by `,`; `_` = none at all -/
def dgrams? (s : String) : Option (List Bytes) :=
  if s = "_" then some [] else (s.splitOn ",").mapM hex?

def kvs? (s : String) : Option (List (Bytes × Bytes)) :=
  if s = "." then some []
  else (s.splitOn ";").mapM fun p =>
    match p.splitOn ":" with
    | [k, v] => do
      let k ← hex? k
      let v ← hex? v
      pure (k, v)
    | _ => none

def players? (s : String) : Option (List (List (Bytes × Bytes))) :=
  if s = "." then some [] else (s.splitOn "|").mapM kvs?

def nats? (s : String) : Option (List Nat) :=
  if s = "." then some [] else (s.splitOn ",").mapM nat?

end Swat4.Drv.GS1Render
