import Swat4.Drv.StoreRun
import Swat4.Model.USys
import Swat4.Model.UseCases.ProberRun
import Swat4.Model.HarnessCfg
/-!
Shared by the use-case level drivers (C13–C16): parsing of `ucops.Client` specs into `Prog`
programs that render their own result, replay of the harness' *effective* call-granularity
events on `USys`, and rendering.
-/
namespace Swat4.Drv
open Swat4 Swat4.UC Std

def tagRErr : RErr → String
  | .serverNotFound => "err:notfound"
  | .serverExists => "err:exists"
  | .instanceNotFound => "err:instancenotfound"
  | .queueEmpty => "err:queueempty"
  | .storage => "err:storage"

def tagUErr : UErr → String
  | .repo e => tagRErr e
  | .invalidQueryPort => "err:queryport"
  | .invalidPayload => "err:payload"
  | .unknownInstance => "err:unknowninstance"
  | .serverNotFound => "err:noserver"
  | .instanceNotFound => "err:noinstance"
  | .instanceAddrMismatch => "err:mismatch"

def tagProbeEnd : ProbeEnd → String
  | .success => "ok"
  | .retried => "retried"
  | .outOfRetries => "outofretries"
  | .error e => tagUErr e

def tagAddEnd : AddEnd → String
  | .hasDetails s => s!"details:{renderServer s}"
  | .inProgress => "inprogress"
  | .noPort => "noport"
  | .unableToCreate => "cantcreate"
  | .unableToDiscover => "cantdiscover"

/-- build a `details.Info` value list from named values; other fields are zero -/
def mkInfo (vals : List (String × Val)) : Fields :=
  (Facts.infoFieldNames.zip Facts.infoFieldKinds).map fun (n, k) =>
    match vals.lookup n with
    | some v => v
    | none => if k = 1 then .bool false else if k = 2 then .str [] else .int 0

/-- `ucops.InfoFor` -/
def infoFor (hostname : Bytes) (hostport numplayers : Int) : Fields :=
  mkInfo [("Hostname", .str hostname), ("HostPort", .int hostport), ("GameVariant", .str (Bytes.ofAscii "SWAT 4")),
          ("GameVersion", .str (Bytes.ofAscii "1.1")), ("GameType", .str (Bytes.ofAscii "VIP Escort")),
          ("NumPlayers", .int numplayers), ("MaxPlayers", .int 16), ("MapName", .str (Bytes.ofAscii "A-Bomb Nightclub"))]

/-- `ucops.DetailsFor`: an odd player count comes with one player and one objective -/
def playersFor (np : Int) : List Fields :=
  if np % 2 = 0 then [] else
  [Facts.detailsPlayerSchema.map fun (name, _, kind, _) =>
    if name = "Name" then Val.str (Bytes.ofAscii "vip")
    else if name = "Score" then Val.int np
    else if name = "VIPEscapes" then Val.int 1
    else if name = "VIPEscapes2" then Val.int 2
    else if name = "VIPKillsValid" then Val.int 3
    else if name = "VIPKillsInvalid" then Val.int 4
    else if kind = 1 then Val.bool false else if kind = 2 then Val.str [] else Val.int 0]

def objectivesFor (np : Int) : List Fields :=
  if np % 2 = 0 then [] else
  [Facts.detailsObjectiveSchema.map fun (name, _, kind, _) =>
    if name = "Name" then Val.str (Bytes.ofAscii "obj")
    else if name = "Status" then Val.int 1
    else if kind = 1 then Val.bool false else if kind = 2 then Val.str [] else Val.int 0]

def parseOutcome (s : String) : Option (Option ProbeResult) :=
  if s = "fail" then some none
  else match s.splitOn ":" with
    | ["ok", qp, hn, np] => do
      let qp ← qp.toInt?
      let hn ← Bytes.ofHex hn
      let np ← np.toInt?
      pure (some ⟨⟨infoFor hn 10480 np, playersFor np, objectivesFor np⟩, qp⟩)
    | _ => none

/-- rendering of what `UC.proberRun` (`Model/UseCases/ProberRun.lean`: the prober runner — pop `n`, order the batch,
probe each) reports, as the harness' `pop` client prints it: `popped:<k>:<expired>+<end of each probe>` or the error
of `PopMany` -/
def renderProberReport : Except RErr ProberReport → String
  | .error e => tagRErr e
  | .ok r => "+".intercalate (s!"popped:{r.popped}:{r.expired}" :: r.ends.map tagProbeEnd)

/-- the use-case retry budgets; the defaults are what the harness configured (`Model/HarnessCfg.lean`, mirroring
`harness/internal/world/world.go:71`) -/
structure UCfg where
  revivalRetries : Int := Harness.revivalRetries
  refreshRetries : Int := Harness.refreshRetries

/-- a parsed `ucops.Client` spec -/
inductive USpec where
  | report (a : Addr) (qp : Int) (id : Nat) (hn : Bytes) (np : Int)
  | renew (id : Nat) (ip : Nat)
  | remove (id : Nat) (a : Addr)
  | probe (p : Probe) (oc : Option ProbeResult)
  | refresh (iv : Int)
  | revive (iv scope cd : Int)
  | addserver (a : Addr)
  | clean (ret : Int)
  | cleanins (ret : Int)
  | pop (n : Int) (oc : Option ProbeResult)
  | list (lv : Int) (st : Nat)
  | raw (c : CallSpec)

def parseSpec (spec : String) : Option USpec :=
  match spec.splitOn "|" with
  | ["report", a, qp, id, hn, np] => do
    let a ← parseAddr a
    let qp ← qp.toInt?
    let id ← parseIdHex id
    let hn ← Bytes.ofHex hn
    let np ← np.toInt?
    pure (.report a qp id hn np)
  | ["renew", id, ip] => do
    let id ← parseIdHex id
    let ip ← parseIp ip
    pure (.renew id ip)
  | ["remove", id, a] => do
    let id ← parseIdHex id
    let a ← parseAddr a
    pure (.remove id a)
  | ["probe", a, port, goal, retries, maxr, outcome] => do
    let a ← parseAddr a
    let port ← port.toInt?
    let goal ← goal.toNat?
    let retries ← retries.toInt?
    let maxr ← maxr.toInt?
    let oc ← parseOutcome outcome
    pure (.probe ⟨a, port, if goal = 1 then .port else .details, retries, maxr⟩ oc)
  | ["refresh", iv] => do let iv ← iv.toInt?; pure (.refresh iv)
  | ["revive", iv, scope, cd] => do
    let iv ← iv.toInt?
    let scope ← scope.toInt?
    let cd ← cd.toInt?
    pure (.revive iv scope cd)
  | ["addserver", a] => do let a ← parseAddr a; pure (.addserver a)
  | ["clean", ret] => do let ret ← ret.toInt?; pure (.clean ret)
  | ["cleanins", ret] => do let ret ← ret.toInt?; pure (.cleanins ret)
  | ["pop", n, outcome] => do
    let n ← n.toInt?
    let oc ← parseOutcome outcome
    pure (.pop n oc)
  | ["list", lv, st] => do
    let lv ← lv.toInt?
    let st ← st.toNat?
    pure (.list lv st)
  | ["call", raw] => (parseCall (raw.replace "!" "|")).map .raw
  | _ => none

/-- the program of a client; `draws`: the random countdown draw per address key (recovered from the
implementation's queue by the caller) -/
def USpec.prog (cfg : UCfg) (draws : Nat → Int) : USpec → Prog String
  | .report a qp id hn np =>
    (UC.report zeroInfo cfg.revivalRetries ⟨a, qp, id, some (infoFor hn a.port np)⟩).bind fun r =>
      pure (match r with | .ok _ => "ok" | .error e => tagUErr e)
  | .renew id ip => (UC.renew id ip).bind fun r => pure (match r with | .ok _ => "ok" | .error e => tagUErr e)
  | .remove id a => (UC.remove id a).bind fun r => pure (match r with | .ok _ => "ok" | .error e => tagUErr e)
  | .probe p oc => (UC.probe p oc).bind fun e => pure (tagProbeEnd e)
  | .refresh iv => .call .now fun now => (UC.refresh cfg.refreshRetries (now + iv)).bind fun r =>
      pure (match r with | .ok n => s!"ok:{n}" | .error e => tagUErr e)
  | .revive iv scope cd => .call .now fun now =>
      (UC.revive cfg.revivalRetries (now - scope) (now - iv) now (now + cd) (now + iv) draws).bind fun r =>
        pure (match r with | .ok n => s!"ok:{n}" | .error e => tagUErr e)
  | .addserver a => (UC.addServer zeroInfo cfg.revivalRetries a).bind fun e => pure (tagAddEnd e)
  | .clean ret => (UC.cleanServers2 ret).bind fun _ => pure "ok"
  | .cleanins ret => (UC.cleanInstances ret).bind fun _ => pure "ok"
  | .pop n oc => (UC.proberRun n oc).bind fun r => pure (renderProberReport r)
  | .list lv st => (UC.listServers lv (BitVec.ofNat 9 st)).bind fun r =>
      pure (match r with | .ok xs => s!"ok:{renderServers xs}" | .error e => tagUErr e)
  | .raw c =>
    match c with
    | .w .add svr res => .call (.addServer svr res) fun r => pure (match r with | .ok s => s!"ok:{renderServer s}" | .error e => tagRErr e)
    | .w .update svr res => .call (.updateServer svr res) fun r => pure (match r with | .ok s => s!"ok:{renderServer s}" | .error e => tagRErr e)
    | .w .remove svr res => .call (.removeServer svr res) fun _ => pure "ok"
    | .q (.insAdd id a) => .call (.insAdd ⟨id, a⟩) fun _ => pure "ok"
    | .q (.enqueue p after before) => .call (.enqueue p after before) fun _ => pure "ok"
    | _ => pure "unsupported-raw-call"

def parseEff (ev : String) : Option UEv :=
  if ev.startsWith "crash" then
    match (ev.drop 5).toString.splitOn ":" with
    | [i, e] => do let i ← i.toNat?; pure (.crash i (e == "1"))
    | _ => none
  else if ev.startsWith "fault" then
    match (ev.drop 5).toString.splitOn ":" with
    | [i, e] => do let i ← i.toNat?; pure (.fault i (e == "1"))
    | _ => none
  else if ev.startsWith "c" then (ev.drop 1).toNat?.map .call

  else if ev.startsWith "t" then (ev.drop 1).toInt?.map .tick
  else none

structure UCRun where
  sys : USys
  calls : List String

/-- run the init items sequentially (each to completion at the current clock), `adv<ns>` advances the clock -/
def runInit (cfg : UCfg) (s : USys) (items : List String) : Option USys :=
  items.foldlM (fun (s : USys) it =>
    if it.startsWith "adv" then (it.drop 3).toInt?.map fun d => { s with clock := s.clock + d }
    else (parseSpec it).map fun sp => { s with abs := ((sp.prog cfg fun _ => 0).run s.abs s.clock).1 }) s

def headNameOf (s : USys) (i : Nat) : Option String :=
  match s.clients[i]? with
  | some c => if c.live then c.prog.headName else none
  | none => none

/-- replay effective events; `e` (lease expiry) has no counterpart at this level.
`Filter` of the cleaner is two storage commands in the model (`scan`, then `filter` = the fetch): a whole-call event
`c<i>` on a pending scan performs both, a half-call event `h<i>` (one storage command of a call that has not
returned) performs the scan only and is a no-op for every other call. -/
def replay (s : USys) (effs : List String) : Option UCRun :=
  effs.foldlM (fun (acc : UCRun) ev =>
    if ev = "e" || ev = "-" || ev = "HUNG" then some acc
    else if ev.startsWith "h" then
      match (ev.drop 1).toNat? with
      | none => none
      | some i =>
        -- a lazily started client begins now; only a pending scan is performed
        let (s0, n0) := acc.sys.stepT (.tick 0)
        let _ := n0
        if headNameOf s0 i == some "scan" || (match s0.clients[i]? with | some c => !c.started | none => false) then
          -- start / perform: for a not-yet-started client the first `.call` would run its first call; restrict to scans
          let started := match s0.clients[i]? with | some c => c.started | none => true
          if started then
            let (s', names) := s0.stepT (.call i)
            some { sys := s', calls := acc.calls ++ names.filter (fun (n : String) => !n.endsWith ":scan") }
          else none
        else some acc
    else (parseEff ev).map fun e =>
      let (s', names) := acc.sys.stepT e
      -- a whole `Filter` call: complete a scan by its fetch
      let (s', names) := match e with
        | .call i =>
          if names.any (·.endsWith ":scan") then
            if headNameOf s' i == some "filter" then let (s'', n2) := s'.stepT (.call i); (s'', names ++ n2)
            else (s', names.map fun (n : String) => if n.endsWith ":scan" then s!"{i}:filter" else n)   -- nothing selected: the call ends after the scan
          else (s', names)
        | _ => (s', names)
      { sys := s', calls := acc.calls ++ names.filter (fun (n : String) => !n.endsWith ":scan") }) { sys := s, calls := [] }

def startClients (s : USys) (progs : List (Prog String)) : UCRun :=
  progs.foldl (fun (acc : UCRun) p =>
    let i := acc.sys.clients.length
    let (a', c', names) := ({ prog := p } : UClient).settle acc.sys.abs acc.sys.clock
    { sys := { acc.sys with abs := a', clients := acc.sys.clients ++ [{ c' with started := true }] }, calls := acc.calls ++ names.map fun n => s!"{i}:{n}" }) { sys := s, calls := [] }

def clientResults (s : USys) : String :=
  ";".intercalate (s.clients.map fun c => if c.dead then "crashed" else (c.prog.result?).getD "hung")

end Swat4.Drv

namespace Swat4.Drv
open Swat4 Swat4.UC Std

structure ModelOut where
  s0 : USys                    -- state after the init items
  specs : List USpec
  final : USys
  calls : String
  res : String
  dump : String

/-- run the model on a use-case level case: init items, client specs (`@` = lazy start), effective events -/
def modelRun (cfg : UCfg) (draws : Nat → Int) (initS clientS ieff : String) : Option ModelOut :=
  let raw := clientS.splitOn ","
  let lazyFlags := raw.map (·.startsWith "@")
  match runInit cfg { clock := epoch } (if initS = "-" then [] else initS.splitOn ","),
        raw.mapM (fun s => parseSpec (if s.startsWith "@" then (s.drop 1).toString else s)) with
  | some s0, some specs =>
    -- eager clients run up to their first storage call at start; lazy ones when first scheduled
    let start := (specs.zip lazyFlags).foldl (fun (acc : UCRun) (x : USpec × Bool) =>
      let i := acc.sys.clients.length
      let c0 : UClient := { prog := x.1.prog cfg draws }
      if x.2 then { acc with sys := { acc.sys with clients := acc.sys.clients ++ [c0] } }
      else
        let (a', c', names) := c0.settle acc.sys.abs acc.sys.clock
        { sys := { acc.sys with abs := a', clients := acc.sys.clients ++ [{ c' with started := true }] }, calls := acc.calls ++ names.map fun n => s!"{i}:{n}" }) { sys := s0, calls := [] }
    match replay start.sys (ieff.splitOn ",") with
    | some run =>
      let calls := start.calls ++ run.calls
      some { s0 := s0, specs := specs, final := run.sys,
             calls := if calls.isEmpty then "-" else ",".intercalate calls,
             res := clientResults run.sys, dump := ";".intercalate (dumpState run.sys.abs) }
    | none => none
  | _, _ => none

def diffInfo (m : ModelOut) (icalls ires idump : String) : Bool × String :=
  let same := m.calls == icalls && m.res == ires && m.dump == idump
  (same, if same then "" else
    (if m.calls != icalls then s!"model-calls={m.calls} " else "") ++ (if m.res != ires then s!"model-res={m.res} " else "") ++
    (if m.dump != idump then s!"model-dump={m.dump} " else ""))

end Swat4.Drv
