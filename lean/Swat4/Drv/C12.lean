import Swat4.Drv.StoreRun
import Swat4.Model.QueueSys
/-!
Driver side of C12: `C12 q <clients> <events> => trace=… timeline=… res=… dump=…`

Every probe carries a unique port, so a payload identifies a probe.  Oracle on the
implementation's outputs (independent of the model):
* conservation: every probe that was enqueued (and not refused because ready ≥ expiry) is exactly one of:
  still queued, delivered to exactly one consumer, counted as expired, or lost with a consumer that died;
  nothing else appears anywhere;
* at most once; batch size ≤ n; a probe with explicit ready ≥ expiry is never queued;
* WHICH probes vanished (`vanishOk`): the probes that are neither queued nor delivered can be distributed over the consumers so
  that each live consumer gets exactly as many as it counted as expired, each of them ready and strictly past its expiry by the
  clock at which that consumer's call finished; anything left over is lost with a consumer that died — no unexpired probe vanishes;
* not early / not late (against the clock value when the delivering call started / finished);
* each batch is ordered by ready time (`PopMany` sorts the items of all its rounds by queue score before it returns;
  `Swat4.C12.batch_sorted_all`).  A violation is reported with a signature that tells the cause apart:
  `sig=late-past-ready` when a probe with a ready time already in the past was enqueued while that `PopMany` call was in
  progress and the call needed a further round (the former defect `C12-late-past-ready`, fixed: this is how a regression
  of the final sort shows), `sig=batch-unsorted` otherwise;
* the keyspace is consistent (`consistentB`).
-/
namespace Swat4.Drv.C12
open Swat4 Swat4.Drv Std

structure PSpec where
  port : String
  payload : String          -- "<addr>/<port>/<goal>/<retries>/<max>"
  after : GoTime
  before : GoTime

def parseEvents (evs : List String) : Option (List QSysEv) :=
  evs.mapM fun ev =>
    if ev.startsWith "cb" then (ev.drop 2).toNat?.map .crashBefore
    else if ev.startsWith "ca" then (ev.drop 2).toNat?.map .crashAfter
    else if ev.startsWith "s" then (ev.drop 1).toNat?.map .step
    else if ev.startsWith "r" then (ev.drop 1).toNat?.map .run
    else if ev.startsWith "t" then (ev.drop 1).toInt?.map .tick
    else none

def clientResult (c : QClient) : String :=
  if c.dead then "crashed" else
  match c.pc with
  | .done r => renderQResult c.op r
  | _ => "hung"

def stripAt (s : String) : String := if s.startsWith "@" then (s.drop 1).toString else s

def pspecOf (spec : String) : Option PSpec :=
  match (stripAt spec).splitOn "|" with
  | ["penq", a, port, goal, retries, maxr, after, before] => do
    let af ← parseTime after
    let bf ← parseTime before
    pure ⟨port, s!"{a}/{port}/{goal}/{retries}/{maxr}", af, bf⟩
  | _ => none

/-- clock value at each position of the timeline: (entry, clock when it happened) -/
def timed (timeline : String) : List (String × Int) :=
  ((timeline.splitOn ",").foldl (fun (acc : List (String × Int) × Int) e =>
    if e.startsWith "t:" then (acc.1, acc.2 + ((e.drop 2).toInt?.getD 0)) else (acc.1 ++ [(e, acc.2)], acc.2)) ([], epoch)).1

def isSortedBy (xs : List Int) : Bool := (xs.zip (xs.drop 1)).all fun p => decide (p.1 ≤ p.2)

/-- can the vanished probes `vs` be distributed so that every live consumer `(i, k)` of `caps` gets exactly the `k` probes it
counted as expired, each one `elig`ible for it, the rest being lost with a consumer that died (`canLose`)? -/
def assignVanished {α : Type} (elig : α → Nat → Bool) (canLose : α → Bool) : List α → List (Nat × Nat) → Bool
  | [], caps => caps.all fun c => c.2 == 0
  | v :: rest, caps =>
    (caps.any fun c => decide (c.2 > 0) && elig v c.1 &&
      assignVanished elig canLose rest (caps.map fun c' => if c'.1 == c.1 then (c'.1, c'.2 - 1) else c')) ||
    (canLose v && assignVanished elig canLose rest caps)

def oracle (specs : List String) (itimeline ires idump : String) : Bool × String :=
  let results := ires.splitOn ";"
  let tl := timed itimeline
  let clientTimes (i : Nat) : List Int := (tl.filter fun e => e.1.startsWith s!"{i}:").map (·.2)
  -- when did each producer's enqueue execute, and with which ready time
  let prods := (enumFrom 0 specs).filterMap fun (x : Nat × String) => (pspecOf x.2).map fun p => (x.1, p)
  let executed (i : Nat) : Bool := tl.any fun e => e.1 == s!"{i}:exec:ok" || e.1 == s!"{i}:exec:ok!crash"
  let refused (p : PSpec) : Bool := match p.after, p.before with | some a, some b => decide (a ≥ b) | _, _ => false
  let enqueued := prods.filter fun (x : Nat × PSpec) => executed x.1
  let readyOf (x : Nat × PSpec) : Int := match x.2.after with | some a => a | none => (clientTimes x.1).headD epoch
  -- deliveries and expired counts per consumer
  let consumers := (enumFrom 0 specs).filterMap fun (x : Nat × String) =>
    match (stripAt x.2).splitOn "|" with
    | ["ppop", n] => n.toInt?.map fun n => (x.1, n)
    | _ => none
  let parsePop (r : String) : Option (Nat × List String) :=
    match r.splitOn ":" with
    | "ok" :: e :: rest => e.toNat?.map fun e => (e, (":".intercalate rest).splitOn "," |>.filter (· != ""))
    | _ => none
  let deliveries := consumers.filterMap fun (x : Nat × Int) => (parsePop (results.getD x.1 "")).map fun p => (x.1, x.2, p.1, p.2)
  let delivered : List String := deliveries.flatMap fun d => d.2.2.2
  let expiredCount : Nat := (deliveries.map fun d => d.2.2.1).foldl (· + ·) 0
  let queuedPorts : List String := (idump.splitOn ";").filterMap fun l => match l.splitOn "," with | ["PI", _, _, port, _, _, _, _] => some port | _ => none
  let crashedConsumers := consumers.filter fun (x : Nat × Int) => results.getD x.1 "" == "crashed"
  let portOfPayload (p : String) : String := (p.splitOn "/").getD 1 ""
  let deliveredPorts := delivered.map portOfPayload
  -- at most once
  let amo := deliveredPorts.eraseDups.length == deliveredPorts.length && (deliveredPorts.all fun p => !queuedPorts.contains p)
  -- only enqueued probes appear; refused ones never.  A port identifies a probe, but what must come out is the WHOLE probe that
  -- went in: every delivered payload, and every payload still queued (with its expiry), equals — address, port, goal, retries,
  -- max — that of the enqueued probe carrying its port
  let queuedPayloads : List (String × String) := (idump.splitOn ";").filterMap fun l => match l.splitOn "," with
    | ["PI", _, a, port, goal, retries, maxr, exp] => some (s!"{a}/{port}/{goal}/{retries}/{maxr}", exp)
    | _ => none
  let known := (delivered.all fun p => enqueued.any fun (x : Nat × PSpec) => x.2.port == portOfPayload p && x.2.payload == p) &&
    (queuedPayloads.all fun q => enqueued.any fun (x : Nat × PSpec) => x.2.port == portOfPayload q.1 && x.2.payload == q.1 && renderTime x.2.before == q.2) &&
    queuedPayloads.length == queuedPorts.length
  let neverQueued := prods.all fun (x : Nat × PSpec) => !refused x.2 || (!executed x.1 && !queuedPorts.contains x.2.port && !deliveredPorts.contains x.2.port)
  -- conservation: enqueued = queued + delivered + expired + (lost with crashed consumers: only allowed if some consumer crashed)
  let accounted := queuedPorts.length + deliveredPorts.length + expiredCount
  let conservation := if crashedConsumers.isEmpty then accounted == enqueued.length else decide (accounted ≤ enqueued.length)
  -- batch size, order, timing
  let sizeOk := deliveries.all fun d => decide ((d.2.2.2.length : Int) ≤ max d.2.1 0)
  let readyOfPayload (p : String) : Int := match enqueued.find? fun (x : Nat × PSpec) => x.2.payload == p with | some x => readyOf x | none => 0
  let expiryOfPayload (p : String) : GoTime := match enqueued.find? fun (x : Nat × PSpec) => x.2.payload == p with | some x => x.2.before | none => none
  let unsorted := deliveries.filter fun d => !isSortedBy (d.2.2.2.map readyOfPayload)
  let timingOk := deliveries.all fun d =>
    let ts := clientTimes d.1
    let start := ts.headD epoch
    let fin := ts.getLastD epoch
    d.2.2.2.all fun p => decide (readyOfPayload p ≤ fin) && (match expiryOfPayload p with | none => true | some e => decide (e ≥ start))
  -- WHICH probes vanished (enqueued, neither queued nor delivered; a port identifies a probe): every one of them must be a probe
  -- some live consumer could count as expired — popped by it (ready ≤ the clock when its call finished) with an expiry strictly
  -- before that clock — each consumer getting exactly as many as it reported; what is left over must be explicable by a consumer
  -- that died (ready by the time it died; at most its batch size of them unexpired).  So no unexpired probe vanishes.
  let finOf (i : Nat) : Int := (clientTimes i).getLastD epoch
  let vanished := enqueued.filter fun (x : Nat × PSpec) => !queuedPorts.contains x.2.port && !deliveredPorts.contains x.2.port
  let expiredBy (x : Nat × PSpec) (t : Int) : Bool := match x.2.before with | some e => decide (e < t) | none => false
  let eligible (x : Nat × PSpec) (i : Nat) : Bool := decide (readyOf x ≤ finOf i) && expiredBy x (finOf i)
  let canLose (x : Nat × PSpec) : Bool := crashedConsumers.any fun (c : Nat × Int) => decide (readyOf x ≤ finOf c.1)
  let lostUnexpired := vanished.filter fun (x : Nat × PSpec) => !(deliveries.any fun d => eligible x d.1)
  let lossBudget : Int := (crashedConsumers.map fun (c : Nat × Int) => max c.2 0).foldl (· + ·) 0
  let vanishOk := assignVanished eligible canLose vanished (deliveries.map fun d => (d.1, d.2.2.1)) &&
    decide ((lostUnexpired.length : Int) ≤ lossBudget)
  let consistent := match parseDump idump with | some st => st.consistentB | none => false
  -- signature of the former defect C12-late-past-ready (regression of PopMany's final sort): a producer with ready < clock at its
  -- enqueue executed between two pop batches of that consumer
  let latePast := unsorted.all fun d =>
    -- from the consumer's first command of the call to its last pop batch
    let first := (enumFrom 0 tl).filterMap fun (x : Nat × (String × Int)) => if x.2.1.startsWith s!"{d.1}:" then some x.1 else none
    let idx := (enumFrom 0 tl).filterMap fun (x : Nat × (String × Int)) => if x.2.1 == s!"{d.1}:exec:ok" then some x.1 else none
    match first.head?, idx.getLast? with
    | some lo, some hi => decide (lo < hi) && ((enumFrom 0 tl).any fun (x : Nat × (String × Int)) =>
        decide (lo < x.1) && decide (x.1 < hi) && enqueued.any fun (q : Nat × PSpec) => x.2.1 == s!"{q.1}:exec:ok" && decide (readyOf q < x.2.2))
    | _, _ => false
  let hung := results.any fun r => r == "hung" || r.startsWith "panic"
  let hard := amo && known && neverQueued && conservation && sizeOk && timingOk && vanishOk && consistent && !hung
  let ok := hard && unsorted.isEmpty
  (ok, (if amo then "" else "sig=delivered-twice ") ++ (if known then "" else "sig=unknown-probe ") ++ (if neverQueued then "" else "sig=refused-probe-queued ") ++
       (if conservation then "" else s!"sig=conservation:enqueued={enqueued.length}:accounted={accounted} ") ++ (if sizeOk then "" else "sig=batch-too-large ") ++
       (if timingOk then "" else "sig=timing ") ++
       (if vanishOk then "" else s!"sig=vanished-not-expired:vanished={vanished.map fun (x : Nat × PSpec) => x.2.port}:expired-counts={deliveries.map fun d => (d.1, d.2.2.1)} ") ++ (if consistent then "" else "sig=leak ") ++ (cond hung "sig=not-terminated " "") ++
       (if unsorted.isEmpty then "" else if latePast && hard then "sig=late-past-ready" else "sig=batch-unsorted"))

def handle (args out : List String) : Verdict :=
  match args with
  | ["q", clientS, eventS] =>
    let specs := clientS.splitOn ","
    match specs.mapM (fun s => match parseCall (stripAt s) with | some (.q op) => some (op, s.startsWith "@") | _ => none),
          parseEvents ((eventS.splitOn ",").filter (· != "-")), kv out "trace", kv out "timeline", kv out "res", kv out "dump" with
    | some ops, some evs, some itrace, some itl, some ires, some idump =>
      let clients := ops.map fun (x : QOp × Bool) =>
        if x.2 then ({ op := x.1, pc := .start } : QClient) else ({ op := x.1, pc := x.1.begin, started := true, arrival := epoch } : QClient)
      let s0 : QSys := { clock := epoch, clients }
      let (s1, t1) := evs.foldl (fun (acc : QSys × List String) e => acc.1.stepT acc.2 e) (s0, [])
      let (s2, t2) := s1.finish t1 300
      let mtrace := if t2.isEmpty then "-" else ",".intercalate t2
      let mres := ";".intercalate (s2.clients.map clientResult)
      let mdump := ";".intercalate (dumpRStore s2.store)
      let itraceC := if itrace.endsWith ",HUNG" then ",".intercalate ((itrace.splitOn ",").filter (· != "HUNG")) else itrace
      -- the scheduler gave up on the case (`HUNG`: some client never finished although it was scheduled to completion):
      -- the marker is stripped for the comparison of the traces, but the case is JUDGED — it fails, with `sig=hung` first
      let hungCase := itrace.endsWith ",HUNG" || itrace == "HUNG"
      let same := mtrace == itraceC && mres == ires && mdump == idump && !hungCase
      let (ok0, why) := oracle specs itl ires idump
      let ok := ok0 && !hungCase
      let info := (cond hungCase "sig=hung " "") ++ why ++ (if same then "" else (if mtrace != itraceC then s!" model-trace={mtrace}" else "") ++ (if mres != ires then s!" model-res={mres}" else "") ++
        (if mdump != idump then s!" model-dump={mdump}" else ""))
      verdict same ok info
    | _, _, _, _, _, _ => .bad "C12 parse"
  | _ => .bad "C12 shape"

end Swat4.Drv.C12
