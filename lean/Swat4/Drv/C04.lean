import Swat4.Drv.RepCommon
import Swat4.Drv.UCRun
import Swat4.Spec.ReporterSpec
/-!
Driver side of C04: `C04 hist <ops> => (<outcome> <dump>)*`.

Correspondence: model outcome and canonical dump of the model state after EVERY datagram against
the implementation's.  Oracle (on the implementation's output): for every datagram that carries a
well-formed message (`ReporterSpec.decode?`), the observed transition — dump before → dump after, and
the reply — is the one `ReporterSpec.absStep` prescribes.
-/
namespace Swat4.Drv.C04
open Swat4 Swat4.Drv Swat4.Drv.Rep Swat4.Heartbeat Swat4.ReporterSpec

/-- `absStep` against one observed transition -/
def oracleStep (r : StepRec) : Bool :=
  match decode? r.dg.payload with
  | none => true
  | some m =>
    let (st', reply) := absStep cfg r.before r.dg.srcIp r.dg.srcPort m r.dg.now
    let replyOk :=
      match reply with
      | some b => r.implOutcome == "reply:" ++ Bytes.toHexTok b
      | none => r.implOutcome == "none" || r.implOutcome == "err"
    -- a well-formed keepalive/removal that takes effect is not answered and is not an error
    replyOk && joinDump (dumpState st') == r.implAfter

/-- the oracle needs the model's state before the step to be the implementation's: evaluate up to and
including the first step where the two differ -/
def oracle : List StepRec → Option Nat → Nat → Option Nat
  | [], _, _ => none
  | r :: rs, _, i =>
    if !oracleStep r then some i
    else if !r.same then none
    else oracle rs none (i + 1)

/-- `C04 ucf <init> <clients> <events>`: a report under storage faults (the reportserver use case driven through the
scheduler).  Oracle: a report that is acknowledged (the use case returned nil, so the handler sends the reply)
has stored the server and bound the instance id to it. -/
def handleFault (initS clientS : String) (out : List String) : Verdict :=
  match kv out "eff", kv out "calls", kv out "res", kv out "dump", modelRun {} (fun _ => 0) initS clientS ((kv out "eff").getD "-") with
  | some _, some icalls, some ires, some idump, some m =>
    let (same, dinfo) := diffInfo m icalls ires idump
    let results := ires.splitOn ";"
    let lines := (idump.splitOn ";").map (·.splitOn ",")
    let ok := (enumFrom 0 m.specs).all fun (x : Nat × USpec) =>
      match x.2 with
      | .report a _ id _ _ =>
        if results.getD x.1 "" == "ok" then
          (lines.any fun l => match l with | "SV" :: a' :: _ => a' == a.render | _ => false) &&
          (lines.any fun l => match l with | ["IN", id', a'] => id' == renderId id && a' == a.render | _ => false)
        else true
      | _ => true
    verdict same ok (dinfo ++ (cond ok "" "sig=acknowledged-but-not-registered"))
  | _, _, _, _, _ => .bad "C04 ucf parse"

/-- `wpar <k> <rounds>`: concurrent reporters against the real component; tokens `<ip>:<port>:<idhex>:<replyhex>`, one per
distinct reply a socket received.  Every reply must be `heartbeatReply` for the socket's own instance id, address and port
(the registry state after the run is not compared: the order of concurrent commits is free). -/
def handleWpar (out : List String) : Verdict :=
  let bad := out.filter fun tok =>
    match tok.splitOn ":" with
    | [ip, port, id, reply] =>
      (match Rep.parseIp ip, port.toNat?, hex? id, hex? reply with
       | some ip, some port, some id, some reply => reply != Heartbeat.heartbeatReply id ip port
       | _, _, _, _ => true)
    | _ => true
  if out.isEmpty then .bad "C04 wpar: no output"
  else if bad.isEmpty then .agree
  else .disagreeFails s!"sig=reply-not-the-senders {" ".intercalate (bad.take 3)}"

def handle (args out : List String) : Verdict :=
  match args with
  | ["wpar", _, _] => handleWpar out
  | ["ucf", initS, clientS, _] => handleFault initS clientS out
  | _ =>
  match records args out with
  | none => .bad "C04 shape"
  | some recs =>
    let diff := firstDiff recs 0
    let bad := oracle recs none 0
    let info := (match bad with | some i => s!"sig=absStep-violated step={i} " | none => "") ++ diff.getD ""
    verdict diff.isNone bad.isNone info

end Swat4.Drv.C04
