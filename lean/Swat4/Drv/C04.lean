import Swat4.Drv.RepCommon
import Swat4.Spec.ReporterSpec
/-!
Driver side of C04: `C04 hist <ops> => (<outcome> <dump>)*`.

Correspondence: model outcome and canonical dump of the model state after EVERY datagram against
the implementation's.  Oracle (on the implementation's output): for every datagram that carries a
well-formed message (`ReporterSpec.decode?`), the observed transition — dump before → dump after, and
the reply — is the one `ReporterSpec.absStep` prescribes.
-/
namespace Swat4.Drv.C04
open Swat4 Swat4.Drv Swat4.Drv.Rep Swat4.Heartbeat Swat4.ReporterSpec

/-- `absStep` against one observed transition -/
def oracleStep (r : StepRec) : Bool :=
  match decode? r.dg.payload with
  | none => true
  | some m =>
    let (st', reply) := absStep cfg r.before r.dg.srcIp r.dg.srcPort m r.dg.now
    let replyOk :=
      match reply with
      | some b => r.implOutcome == "reply:" ++ Bytes.toHexTok b
      | none => r.implOutcome == "none" || r.implOutcome == "err"
    -- a well-formed keepalive/removal that takes effect is not answered and is not an error
    replyOk && joinDump (dumpState st') == r.implAfter

/-- the oracle needs the model's state before the step to be the implementation's: evaluate up to and
including the first step where the two differ -/
def oracle : List StepRec → Option Nat → Nat → Option Nat
  | [], _, _ => none
  | r :: rs, _, i =>
    if !oracleStep r then some i
    else if !r.same then none
    else oracle rs none (i + 1)

def handle (args out : List String) : Verdict :=
  match records args out with
  | none => .bad "C04 shape"
  | some recs =>
    let diff := firstDiff recs 0
    let bad := oracle recs none 0
    let info := (match bad with | some i => s!"sig=absStep-violated step={i} " | none => "") ++ diff.getD ""
    verdict diff.isNone bad.isNone info

end Swat4.Drv.C04
