import Swat4.Drv.RepCommon
/-!
Driver side of C05: `C05 hist <ops> => (<outcome> <dump>)*` (same line format as C04).

Correspondence: outcome and full canonical dump after every datagram (which contains the per-IP
projections).  Oracle, evaluated on the IMPLEMENTATION's consecutive dumps only:
* frame: every server line (`SV`, `UP`, `RF`, `ST`) whose address IP differs from the datagram's source
  IP is the same before and after, in the same order;
* a keepalive (type 08, ≥ 5 bytes) or a removal (heartbeat that scans with `statechanged=2`) presenting an
  instance id that the dump before binds (`IN` line) to another IP is answered `err` and leaves every
  server line unchanged.
-/
namespace Swat4.Drv.C05
open Swat4 Swat4.Drv Swat4.Drv.Rep Swat4.Heartbeat

def dotted (ip : Nat) : String := s!"{ip / 16777216 % 256}.{ip / 65536 % 256}.{ip / 256 % 256}.{ip % 256}"

def ipOfAddrText (a : String) : String := (a.splitOn ":").headD ""

/-- the address of a server line, `none` for lines about instances / probes / anything else -/
def serverLineAddr (line : String) : Option String :=
  match line.splitOn "," with
  | "SV" :: a :: _ => some a
  | "UP" :: a :: _ => some a
  | "RF" :: a :: _ => some a
  | "ST" :: _ :: a :: _ => some a
  | _ => none

def serverLines (d : String) : List String := (dumpLines d).filter fun l => (serverLineAddr l).isSome

def foreignLines (src : String) (d : String) : List String :=
  (dumpLines d).filter fun l =>
    match serverLineAddr l with
    | some a => ipOfAddrText a != src
    | none => false

/-- IP the dump binds the instance id to -/
def boundIp (d : String) (idHex : String) : Option String :=
  (dumpLines d).findSome? fun l =>
    match l.splitOn "," with
    | ["IN", i, a] => if i = idHex then some (ipOfAddrText a) else none
    | _ => none

def idHexOf (payload : Bytes) : String := Bytes.toHex ((payload.drop 1).take 4)

/-- is the datagram a keepalive / a removal as far as the handlers get to the ownership check? -/
def presentsInstance (payload : Bytes) : Bool :=
  match payload with
  | [] => false
  | t :: _ =>
    if payload.length < 5 then false
    else if t = 0x08 then true
    else if t = 0x03 then
      match parseHeartbeatParams (payload.drop 5) with
      | some f => f.get? kStatechanged == some [0x32]
      | none => false
    else false

def oracleStep (r : StepRec) : Option String :=
  let src := dotted r.dg.srcIp
  if foreignLines src r.implBefore != foreignLines src r.implAfter then some "sig=foreign-row-touched"
  else if presentsInstance r.dg.payload then
    match boundIp r.implBefore (idHexOf r.dg.payload) with
    | some ip =>
      if ip != src && (r.implOutcome != "err" || serverLines r.implBefore != serverLines r.implAfter)
      then some "sig=foreign-instance-accepted" else none
    | none => none
  else none

def oracle : List StepRec → Nat → Option String
  | [], _ => none
  | r :: rs, i =>
    match oracleStep r with
    | some s => some s!"{s} step={i}"
    | none => oracle rs (i + 1)

def handle (args out : List String) : Verdict :=
  -- measurement of the socket side (no model): every handler call of the real UDP server carries one sent payload
  -- with exactly its sender's address
  if args.head? = some "udpglue" then
    (match out with
     | [ws, un, du, dl] =>
       if ws == "wrong-source:0" && un == "unknown-payload:0" && du == "duplicate:0" && dl.startsWith "delivered:" && !dl.startsWith "delivered:0/"
       then .agree else .disagreeFails s!"sig=udp-wrong-source {ws} {un} {du} {dl}"
     | _ => .bad "C05 udpglue shape")
  else
  match records args out with
  | none => .bad "C05 shape"
  | some recs =>
    let diff := firstDiff recs 0
    let bad := oracle recs 0
    verdict diff.isNone bad.isNone ((bad.getD "") ++ " " ++ diff.getD "")

end Swat4.Drv.C05
