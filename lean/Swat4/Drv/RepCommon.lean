import Swat4.Drv.Common
import Swat4.Drv.Store
import Swat4.Model.Heartbeat
import Swat4.Model.Heartbeat6
import Swat4.Model.UdpServer
import Swat4.Model.HeartbeatCfg
import Swat4.Drv.UCRun
/-!
# Driver helpers shared by the reporter properties C04, C05, C06

A history line is `Cnn hist <op> / <op> / … => <outcome> <dump> <outcome> <dump> …` with
`dg <srcip> <srcport> <payloadhex>` and `adv <ns>` (see harness/internal/reputil).  The model is
run datagram by datagram from the empty state; each datagram yields a `StepRec` holding the model's
and the implementation's view.
-/
namespace Swat4.Drv.Rep
open Swat4 Swat4.Drv Swat4.Heartbeat

/-- `world.Epoch` in ns (2024-01-01T00:00:00Z) -/
def epochNs : Int := 1704067200000000000

/-- `world.DefaultOptions().RevivalRetries`, passed to `reportserver` as `MaxProbeRetries`: the Model's
`Heartbeat.harnessCfg` (`Model/HeartbeatCfg.lean`) -/
def cfg : Cfg := Heartbeat.harnessCfg

def parseIp (s : String) : Option Nat :=
  match (s.splitOn ".").map String.toNat? with
  | [some a, some b, some c, some d] =>
    if a < 256 ∧ b < 256 ∧ c < 256 ∧ d < 256 then some (a * 16777216 + b * 65536 + c * 256 + d) else none
  | _ => none

inductive Op where
  | dg (ip port : Nat) (payload : Bytes)
  | adv (ns : Nat)
  /-- a datagram from a non-IPv4 source (`To4() = nil`): it can own no server; `src` = the 16 bytes of `connAddr.IP` -/
  | dg6 (src : Bytes) (port : Nat) (payload : Bytes)
  /-- a use case of another component run to completion in between (a probe outcome, a cleanup, …): `ucops.Client` spec -/
  | uc (spec : USpec)

/-- one `:`-separated piece of an IPv6 text address: 1..4 hex digits (two bytes) -/
def parseHexGroup (s : String) : Option Bytes :=
  if s.length = 0 ∨ s.length > 4 then none
  else
    (s.toList.foldlM (fun (acc : Nat) (c : Char) =>
      if '0' ≤ c ∧ c ≤ '9' then some (acc * 16 + (c.toNat - '0'.toNat))
      else if 'a' ≤ c ∧ c ≤ 'f' then some (acc * 16 + (c.toNat - 'a'.toNat + 10))
      else if 'A' ≤ c ∧ c ≤ 'F' then some (acc * 16 + (c.toNat - 'A'.toNat + 10))
      else none) 0).map fun n => [UInt8.ofNat (n / 256), UInt8.ofNat (n % 256)]

/-- the pieces of one side of `::` (or of the whole address): hex groups, the last one possibly a dotted quad -/
def parseIp6Groups : List String → Option Bytes
  | [] => some []
  | [g] =>
    if g.contains '.' then (parseIp g).map Heartbeat.ipBytes else parseHexGroup g
  | g :: rest => do
    let a ← parseHexGroup g
    let b ← parseIp6Groups rest
    pure (a ++ b)

/-- an IPv6 text address (`net.ParseIP` forms the generator uses: hex groups, one optional `::`, an optional
trailing dotted quad) as its 16 bytes -/
def parseIp6 (s : String) : Option Bytes :=
  let side (t : String) : Option Bytes := if t = "" then some [] else parseIp6Groups (t.splitOn ":")
  match s.splitOn "::" with
  | [all] =>
    match side all with
    | some b => if b.length = 16 then some b else none
    | none => none
  | [l, r] =>
    match side l, side r with
    | some lb, some rb =>
      if lb.length + rb.length ≤ 14 then some (lb ++ List.replicate (16 - lb.length - rb.length) 0 ++ rb) else none
    | _, _ => none
  | _ => none

def splitOps : List String → List (List String)
  | [] => [[]]
  | t :: rest =>
    match splitOps rest with
    | [] => [[t]]
    | cur :: more => if t = "/" then [] :: cur :: more else (t :: cur) :: more

def parseOp : List String → Option Op
  | ["dg", ip, port, hex] => do
    let ip ← parseIp ip
    let port ← nat? port
    let b ← hex? hex
    pure (.dg ip port b)
  | ["adv", ns] => do
    let ns ← nat? ns
    pure (.adv ns)
  -- `hold <addr> <ms>` (wire histories): another writer holds the server's lock for a moment of real time; the datagram
  -- that follows waits for it and is handled as usual — nothing at the model's level
  | ["hold", _, _] => pure (.adv 0)
  | ["dg6", ip, port, hex] => do
    let src ← parseIp6 ip
    let port ← nat? port
    let b ← hex? hex
    pure (.dg6 src port b)
  | ["uc", spec] => (parseSpec spec).map .uc
  | _ => none

def parseOps (args : List String) : Option (List Op) := (splitOps args).mapM parseOp

def renderOutcome : Outcome → String
  | .reply b => "reply:" ++ Bytes.toHexTok b
  | .silent => "none"
  | .err => "err"
  | .panic => "panic"

def joinDump (d : List String) : String := if d.isEmpty then "-" else ";".intercalate d

/-- does the implementation's outcome token equal the model's outcome? (`panic:<text>`: text ignored) -/
def sameOutcome (impl : String) (m : Outcome) : Bool :=
  match m with
  | .panic => impl.startsWith "panic:"
  | _ => impl == renderOutcome m

structure StepRec where
  dg : Dgram
  before : AbsState            -- model state before the datagram
  after : AbsState             -- model state after
  outcome : Outcome            -- model outcome
  implOutcome : String
  /-- a use case run before this datagram (an `uc` op) on which model and implementation disagreed -/
  ucDiff : Option String := none
  implBefore : String          -- implementation's dump before / after (joined)
  implAfter : String
  modelBefore : String
  modelAfter : String

/-- run the model over the ops, pairing datagrams with the output tokens -/
def runOps : List Op → List String → AbsState → Int → String → String → Option String → Option (List StepRec)
  | [], [], _, _, _, _, _ => some []
  | [], _ :: _, _, _, _, _, _ => none
  | .adv ns :: ops, out, st, now, implPrev, modelPrev, pend => runOps ops out st (now + ns) implPrev modelPrev pend
  | .uc spec :: ops, o :: d :: out, st, now, implPrev, modelPrev, pend =>
    let (st', r) := (spec.prog ({} : UCfg) fun _ => 0).run st now
    let implAfter := if d = "=" then implPrev else d
    let modelAfter := joinDump (dumpState st')
    let diff := if r == o && implAfter == modelAfter then none
      else some s!"uc-step: model-result={r} impl-result={o.take 80} model-dump={modelAfter}"
    runOps ops out st' now implAfter modelAfter (pend <|> diff)
  | .uc _ :: _, _, _, _, _, _, _ => none
  | .dg ip port payload :: ops, o :: d :: out, st, now, implPrev, modelPrev, pend =>
    let (st', oc) := dispatch cfg st ip port payload now
    let implAfter := if d = "=" then implPrev else d
    let modelAfter := joinDump (dumpState st')
    match runOps ops out st' now implAfter modelAfter none with
    | none => none
    | some recs => some ({ dg := ⟨ip, port, payload, now⟩, before := st, after := st', outcome := oc, implOutcome := o, ucDiff := pend,
                           implBefore := implPrev, implAfter := implAfter, modelBefore := modelPrev, modelAfter := modelAfter } :: recs)
  | .dg _ _ _ :: _, _, _, _, _, _, _ => none
  | .dg6 src port payload :: ops, o :: d :: out, st, now, implPrev, modelPrev, pend =>
    -- the model of the dispatcher for a source given as `connAddr.IP` bytes (Model/Heartbeat6.lean): challenge and
    -- availability requests do not look at the source; everything else from a non-IPv4 source is an error without
    -- effect (`C05.dispatch6_non_ipv4`: `addr.New` rejects it, the keepalive owner check compares against `To4() = nil`)
    let noIPv4 : Nat := 4294967296
    let (st', oc) := Heartbeat6.dispatch6 cfg st src port payload now
    let implAfter := if d = "=" then implPrev else d
    let modelAfter := joinDump (dumpState st')
    match runOps ops out st' now implAfter modelAfter none with
    | none => none
    | some recs => some ({ dg := ⟨noIPv4, port, payload, now⟩, before := st, after := st', outcome := oc, implOutcome := o, ucDiff := pend,
                           implBefore := implPrev, implAfter := implAfter, modelBefore := modelPrev, modelAfter := modelAfter } :: recs)
  | .dg6 _ _ _ :: _, _, _, _, _, _, _ => none

def records (args out : List String) : Option (List StepRec) :=
  match args with
  | "hist" :: rest =>
    match parseOps rest with
    | some ops => runOps ops out {} epochNs "-" "-" none
    | none => none
  -- `whist`: the same history through the real reporter component over real sockets.  On the wire a rejected datagram
  -- and a silently accepted one look the same (no answer): the implementation's `none` stands for either
  | "whist" :: rest =>
    match parseOps rest with
    | some ops =>
      -- the UDP server reads a datagram into a buffer of `BufferSize` bytes (2048: the component's default, which the
      -- harness configures): what does not fit is cut off before the dispatcher sees it
      -- (`UdpServer.deliver`); an empty datagram is not handed to the dispatcher at all: no answer, no effect, and the
      -- server keeps reading (the model runs the dispatcher on it, which changes nothing, and the outcome is silence)
      let ops := ops.map fun o => match o with
        | .dg ip port payload => Op.dg ip port ((UdpServer.deliver UdpServer.defaultBufferSize payload).getD [])
        | o => o
      (runOps ops out {} epochNs "-" "-" none).map fun recs => recs.map fun r =>
        if r.dg.payload.isEmpty then { r with outcome := .silent }
        else match r.outcome with
        | .err => if r.implOutcome == "none" then { r with implOutcome := "err" } else r
        | _ => r
    | none => none
  | _ => none

def StepRec.same (r : StepRec) : Bool := r.ucDiff.isNone && sameOutcome r.implOutcome r.outcome && r.implAfter == r.modelAfter

/-- index and description of the first step where model and implementation differ -/
def firstDiff : List StepRec → Nat → Option String
  | [], _ => none
  | r :: rs, i =>
    if r.same then firstDiff rs (i + 1)
    else match r.ucDiff with
      | some d => some s!"before-step={i} {d}"
      | none => some s!"step={i} model-outcome={renderOutcome r.outcome} impl-outcome={r.implOutcome.take 80} model-dump={r.modelAfter}"

/-- split a joined dump into its lines -/
def dumpLines (d : String) : List String := if d = "-" then [] else d.splitOn ";"

end Swat4.Drv.Rep
