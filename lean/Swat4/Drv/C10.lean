import Swat4.Drv.StoreRun
/-!
Driver side of C10: `C10 hist <item>,… => res=… traces=… dumps=…`

The model runs every call of the history command by command (a death before/after command `c`
cuts the call there) and renders the keyspace after every item.  Oracle on the
implementation's dumps: each one parses and satisfies `RStore.consistentB` (indexes agree with
records; every lock key carries a TTL).
-/
namespace Swat4.Drv.C10
open Swat4 Swat4.Drv Std

def parseItem (it : String) : Option (Option (CallSpec × Crash) × Option String) :=
  if it = "e" then some (none, some "e")
  else if it.startsWith "t" && !(it.contains '|') then some (none, some it)
  else
    match it.splitOn "@" with
    | [spec] => (parseCall spec).map fun c => (some (c, .none), none)
    | [spec, cr] =>
      match parseCall spec, (cr.drop 2).toNat? with
      | some c, some n =>
        if cr.startsWith "cb" then some (some (c, .before n), none)
        else if cr.startsWith "ca" then some (some (c, .after n), none)
        else none
      | _, _ => none
    | _ => none

structure Acc where
  s : SeqState
  res : List String := []
  traces : List String := []
  dumps : List String := []

def stepItem (acc : Acc) (it : String) : Option Acc :=
  match parseItem it with
  | none => none
  | some (none, some ev) =>
    let s' : SeqState :=
      if ev = "e" then { acc.s with st := (acc.s.st.locks.toList.map (·.1)).foldl (fun st k => st.lockExpire k true) acc.s.st }
      else match (ev.drop 1).toInt? with
        | some d => { acc.s with clock := acc.s.clock + d }
        | none => acc.s
    some { s := s', res := acc.res ++ ["-"], traces := acc.traces ++ ["-"], dumps := acc.dumps ++ [";".intercalate (dumpRStore s'.st)] }
  | some (some (c, crash), _) =>
    let (s', r, tr) := runCall acc.s c crash
    some { s := s', res := acc.res ++ [r], traces := acc.traces ++ [if tr.isEmpty then "-" else "+".intercalate tr],
           dumps := acc.dumps ++ [";".intercalate (dumpRStore s'.st)] }
  | _ => none

def handle (args out : List String) : Verdict :=
  match args with
  | ["hist", items] =>
    match (items.splitOn ",").foldlM stepItem { s := { clock := epoch } }, kv out "res", kv out "traces", kv out "dumps" with
    | some acc, some ires, some itraces, some idumps =>
      let mres := ";".intercalate acc.res
      let mtraces := ";".intercalate acc.traces
      let mdumps := "#".intercalate acc.dumps
      let same := mres == ires && mtraces == itraces && mdumps == idumps
      let bad := (enumFrom 0 (idumps.splitOn "#")).filterMap fun (i, d) =>
        match parseDump d with
        | none => some s!"item{i}:unparsable-dump"
        | some st => if st.consistentB then none else some s!"item{i}:inconsistent"
      let ok := bad.isEmpty && !((ires.splitOn ";").any fun r => r == "hung" || r.startsWith "panic")
      let info := (if same then "" else
          (if mres != ires then s!"model-res={mres} " else "") ++
          (if mtraces != itraces then s!"model-traces={mtraces} " else "") ++
          (if mdumps != idumps then s!"model-dumps={mdumps} " else "")) ++ " ".intercalate bad
      verdict same ok info
    | _, _, _, _ => .bad "C10 parse"
  | _ => .bad "C10 shape"

end Swat4.Drv.C10
