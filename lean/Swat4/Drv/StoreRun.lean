import Swat4.Drv.Common
import Swat4.Drv.Store
import Swat4.Model.StoreMachine
import Swat4.Model.QueueMachine
/-!
Shared by the store-level drivers (C10, C11, C12): parsing of the harness' call specs
(`storeops.RunCall`), sequential execution of a call on the Redis-level model with an optional
client death at a command boundary, rendering of results, and parsing of a raw keyspace dump.
-/
namespace Swat4.Drv
open Swat4 Std

inductive CallSpec where
  | w (kind : WKind) (svr : Server) (res : Resolver)
  | get (a : Addr)
  | filter (fs : FilterSet)
  | count
  | countby
  | q (op : QOp)

def parseIdHex (s : String) : Option Nat :=
  (Bytes.ofHex s).bind fun b => if b.length = 4 then some (b.foldl (fun acc x => acc * 256 + x.toNat) 0) else none

def parseCall (s : String) : Option CallSpec :=
  match s.splitOn "|" with
  | ["get", a] => (parseAddr a).map .get
  | ["count"] => some .count
  | ["countby"] => some .countby
  | "filter" :: rest => (parseFilterSet rest).map .filter
  | ["insadd", id, a] => do let id ← parseIdHex id; let a ← parseAddr a; pure (.q (.insAdd id a))
  | ["insrm", id] => do let id ← parseIdHex id; pure (.q (.insRemove id))
  | ["insclear", b] => do let b ← parseTime b; pure (.q (.insClear b))
  | ["penq", a, port, goal, retries, maxr, after, before] => do
    let a ← parseAddr a
    let port ← port.toInt?
    let goal ← goal.toNat?
    let retries ← retries.toInt?
    let maxr ← maxr.toInt?
    let after ← parseTime after
    let before ← parseTime before
    pure (.q (.enqueue ⟨a, port, if goal = 1 then .port else .details, retries, maxr⟩ after before))
  | ["ppop", n] => do let n ← n.toInt?; pure (.q (.popMany n))
  | [kind, srv, rn] => do
    let svr ← parseServer srv
    let res ← resolverOf rn svr
    match kind with
    | "add" => pure (.w .add svr res)
    | "update" => pure (.w .update svr res)
    | "remove" => pure (.w .remove svr res)
    | _ => none
  | _ => none

def renderWResult : WResult → String
  | .ok (some s) => s!"ok:{renderServer s}"
  | .ok none => "ok"
  | .error .notFound => "err:notfound"
  | .error .exists => "err:exists"
  | .error .lockLost => "err:locklost"
  | .error .lockExhausted => "err:exhausted"

def renderProbe (p : Probe) : String := s!"{p.addr.render}/{p.port}/{p.goal.toNat}/{p.retries}/{p.maxRetries}"

def renderQResult (op : QOp) : QResult → String
  | .unit => "ok"
  | .count n => s!"ok:{n}"
  | .probes ps e => match op with
    | .popMany _ => s!"ok:{e}:{",".intercalate (ps.map renderProbe)}"
    | _ => "ok"

def sortByKey (xs : List Server) : List Server :=
  xs.foldr (fun x acc => let (lo, hi) := acc.partition fun y => y.addr.key ≤ x.addr.key; lo ++ x :: hi) []

def renderServers (xs : List Server) : String :=
  if xs.isEmpty then "-" else ",".intercalate ((sortByKey xs).map renderServer)

/-- sequential execution state of the Redis-level model -/
structure SeqState where
  st : RStore := {}
  clock : Int
  fresh : Nat := 0        -- next lock token / probe id

inductive Crash where
  | none
  | before (c : Nat)
  | after (c : Nat)

/-- run a writer alone; `budget` = commands to run before the crash point (`none` = to completion) -/
def runWriterC (s : SeqState) (w : Writer) (crash : Crash) : Nat → Nat → List String → SeqState × String × List String
  | 0, _, tr => (s, "hung", tr)
  | fuel + 1, done, tr =>
    match wlabel s.st w with
    | Option.none => (s, match w.pc with | .done r => renderWResult r | _ => "hung", tr)
    | some l =>
      let stepIt : SeqState × Writer :=
        let (st', w', f, _) := wstep s.st s.clock s.fresh 0 w
        ({ s with st := st', fresh := if f then s.fresh + 1 else s.fresh }, w')
      match crash with
      | .before c => if done = c then (s, "crashed", tr) else let (s', w') := stepIt; runWriterC s' w' crash fuel (done + 1) (tr ++ [s!"0:{l}"])
      | .after c => if done = c then (stepIt.1, "crashed", tr ++ [s!"0:{l}!crash"]) else let (s', w') := stepIt; runWriterC s' w' crash fuel (done + 1) (tr ++ [s!"0:{l}"])
      | .none => let (s', w') := stepIt; runWriterC s' w' crash fuel (done + 1) (tr ++ [s!"0:{l}"])

def runQC (s : SeqState) (op : QOp) (pc : QPC) (crash : Crash) : Nat → Nat → List String → SeqState × String × List String
  | 0, _, tr => (s, "hung", tr)
  | fuel + 1, done, tr =>
    match pc with
    | .done r => (s, renderQResult op r, tr)
    | _ =>
      let (st', pc', used, l) := qstep s.st s.clock s.fresh op pc
      let s' : SeqState := { s with st := st', fresh := if used then s.fresh + 1 else s.fresh }
      match crash with
      | .before c => if done = c then (s, "crashed", tr) else runQC s' op pc' crash fuel (done + 1) (tr ++ [s!"0:{l}"])
      | .after c => if done = c then (s', "crashed", tr ++ [s!"0:{l}!crash"]) else runQC s' op pc' crash fuel (done + 1) (tr ++ [s!"0:{l}"])
      | .none => runQC s' op pc' crash fuel (done + 1) (tr ++ [s!"0:{l}"])

/-- run one call sequentially (reads are single atomic steps here; crash only for writes and queue calls) -/
def runCall (s : SeqState) (c : CallSpec) (crash : Crash) : SeqState × String × List String :=
  match c with
  | .w kind svr res =>
    let w := Writer.start ⟨kind, svr, res⟩ s.fresh
    runWriterC { s with fresh := s.fresh + 1 } w crash 200 0 []
  | .q op => runQC s op op.begin crash 200 0 []
  | .get a => (s, match s.st.items[a.key]? with | some r => s!"ok:{renderServer r}" | Option.none => "err:notfound", ["0:hget"])
  | .filter fs => (s, s!"ok:{renderServers (s.st.hmgetItems (s.st.filterKeys fs))}", ["0:pipe"])
  | .count => (s, s!"ok:{s.st.items.size}", ["0:hlen"])
  | .countby =>
    let members := s.st.statusSet.toList
    (s, "ok:" ++ ",".intercalate (RStore.bitIdx.map fun b => toString (members.filter fun e => e % 16 == b).length), ["0:exec"])

/-! ## parsing a raw dump back into an `RStore` (core fields; info/details are not needed by the consumers) -/

def parseKey (s : String) : Option Nat := (parseAddr s).map Addr.key

def statusIdx (name : String) : Option Nat := Status.names.idxOf? name

def parseDumpLine (st : RStore) (line : String) : Option RStore :=
  match line.splitOn "," with
  | "SV" :: a :: qp :: sts :: ver :: rf :: _ => do
    let ad ← parseAddr a
    let qp ← qp.toInt?
    let sts ← sts.toNat?
    let ver ← ver.toInt?
    let rf ← parseTime rf
    pure { st with items := st.items.insert ad.key { addr := ad, queryPort := qp, status := BitVec.ofNat 9 sts, info := [], details := ⟨[], [], []⟩, refreshedAt := rf, version := ver } }
  | ["UP", a, sc] => do let k ← parseKey a; let sc ← sc.toInt?; pure { st with updated := st.updated.insert k sc }
  | ["RF", a, sc] => do let k ← parseKey a; let sc ← sc.toInt?; pure { st with refreshed := st.refreshed.insert k sc }
  | ["ST", bit, a] => do let k ← parseKey a; let b ← statusIdx bit; pure { st with statusSet := st.statusSet.insert (RStore.stKey k b) }
  | ["LK", a, ttl] => do let k ← parseKey a; pure { st with locks := st.locks.insert k ⟨0, ttl == "ttl"⟩ }
  | ["IN", id, a] => do let id ← parseIdHex id; let a ← parseAddr a; pure { st with insItems := st.insItems.insert id a }
  | ["IU", id, sc] => do let id ← parseIdHex id; let sc ← sc.toInt?; pure { st with insUpdated := st.insUpdated.insert id sc }
  | ["PI", n, a, port, goal, retries, maxr, exp] => do
    let n ← n.toNat?
    let a ← parseAddr a
    let port ← port.toInt?
    let goal ← goal.toNat?
    let retries ← retries.toInt?
    let maxr ← maxr.toInt?
    let exp ← parseTime exp
    pure { st with pItems := st.pItems.insert n (⟨a, port, if goal = 1 then .port else .details, retries, maxr⟩, exp) }
  | ["PQ", n, sc] => do let n ← n.toNat?; let sc ← sc.toInt?; pure { st with pQueue := st.pQueue.insert n sc }
  | _ => none

/-- `none` if any line is not understood (e.g. `XX,…`, `SV-KEY-MISMATCH`, undecodable items) -/
def parseDump (dump : String) : Option RStore :=
  if dump = "" then some {} else (dump.splitOn ";").foldlM parseDumpLine {}

def kv (out : List String) (key : String) : Option String :=
  (out.find? (·.startsWith (key ++ "="))).map fun s => (s.drop (key.length + 1)).toString

def epoch : Int := 1704067200000000000

end Swat4.Drv
