import Swat4.Drv.GS1Render
import Swat4.Spec.GS1Spec
import Swat4.Model.Details
/-!
Driver side of C08:

* `C08 dec <dialect> <fields> <players> <objectives> <cuts> <order> <dgrams> => <result tokens…>`
  (players = `kvs|kvs|…`: indexes 0,1,2,… in the servers' own order — the format of the corpus files)
* `C08 decw <dialect> <fields> <players> <objectives> <wire> <cuts> <order> <dgrams> => <result tokens…>`
  (players = `<id>=kvs|<id>=kvs|…`: explicit indexes, gaps and any listing order; `<wire>` = the order
  in which the pairs are sent, as indexes into `GS1Spec.items status`; the driver insists that it is a
  wire order of the status, `GS1Spec.wireOfB`)
  The driver re-encodes the pair sequence with the Lean encoder (`GS1Spec.encodeWire`) and
  insists that it equals `<dgrams>` (otherwise the Go generator's encoder and the specification
  have drifted apart: `BAD-LINE`).  Model: `runQuery` over the delivered sequence.  Oracle (on the
  implementation's output): the delivery covers all fragments ⇒ output = `toResponse dialect status`
  (players ascending by index); otherwise ⇒ `timeout` (it must not complete before every fragment
  has arrived).
* `C08 probe <gameport> <responder>;… => chosen <k> <ver> res:<class> | failed`
  responder = `x` | `<delay_ms>/<dgrams>`; arrival order = ascending delay.  Model:
  `GS1.choose`.  Oracle: the kept answer is among the accepted ones (decodes, hostport = game
  port) and has the maximal dialect among them; `failed` iff none is accepted; the result class `res:<class>` is the one the
  kept answer's details give (`DetailsProbe.detailsOf`: `res:ok` iff they parse and validate; `res:port-mismatch` and
  `res:err-other` are never accepted).
-/
namespace Swat4.Drv.C08
open Swat4 Swat4.Drv Swat4.GS1 Swat4.GS1Spec Swat4.Drv.GS1Render

def dialect? : String → Option Dialect
  | "vanilla" => some .vanilla
  | "vanillaq" => some .vanillaq
  | "gs1" => some .gs1
  | "am" => some .am
  | "amq" => some .amq
  | "amn" => some .amn
  | _ => none

def covers (n : Nat) (order : List Nat) : Bool := (List.range n).all fun i => order.contains i

def handleDec (d : Dialect) (s : GS1Spec.Status) (w : List Item) (cuts order : List Nat) (ds : List Bytes) (out : List String) : Verdict :=
  if !wireOfB s w then .bad "wire: the pair sequence is not a wire order of the status"
  else if encodeWire d w cuts ≠ ds then .bad "encoder-mismatch: Lean encodeWire differs from the generator's datagrams"
  else
    match order.mapM fun (i : Nat) => ds[i]? with
    | none => .bad "order"
    | some seq =>
      let model := renderQResult (runQuery seq)
      let expected := if covers ds.length order then "resp" :: renderResponse (toResponse d s) else ["timeout"]
      verdict (model == out) (out == expected) s!"sig=decode model={" ".intercalate model} expected={" ".intercalate expected}"

/-- responder spec → (delay, datagrams); `x` = closed port -/
def responder? (s : String) : Option (Option (Nat × List Bytes)) :=
  -- "x": a closed port; "w": a candidate beyond 65535 (game port + offset wraps as uint16): nothing answers there either
  if s = "x" ∨ s = "w" then some none
  else
    match s.splitOn "/" with
    | [dl, dg] => do
      let dl ← nat? dl
      let dg ← dgrams? dg
      pure (some (dl, dg))
    | _ => none

def insertByDelay (x : Nat × Nat × Response) : List (Nat × Nat × Response) → List (Nat × Nat × Response)
  | [] => [x]
  | y :: t => if x.1 < y.1 then x :: y :: t else y :: insertByDelay x t

def enumFrom {α : Type} : Nat → List α → List (Nat × α)
  | _, [] => []
  | i, x :: t => (i, x) :: enumFrom (i + 1) t

def handleProbe (gamePort : Int) (rs : List (Option (Nat × List Bytes))) (out : List String) : Verdict :=
  -- answers that decode, as (delay, index, response), in arrival order
  let answered := (enumFrom 0 rs).filterMap fun (k, r) =>
    match r with
    | none => none
    | some (dl, dg) =>
      match runQuery dg with
      | .response resp => some (dl, k, resp)
      | _ => none
  let arrivals := (answered.foldl (fun acc x => insertByDelay x acc) []).map fun (_, k, resp) => (⟨(k : Int), resp⟩ : PortAnswer)
  -- what the prober makes of the answer it kept (`portprober.go:107-120`: `NewDetailsFromParams`, then `Validate`) — the
  -- post-query stage of the details prober, `DetailsProbe.detailsOf` (`Model/Details.lean`, validated against the code by C07)
  let clsOf (resp : Response) : String := match DetailsProbe.detailsOf resp with
    | .ok _ => "res:ok"
    | .errParse => "res:err-parse"
    | .errValidate => "res:err-validate"
  let model := match choose gamePort arrivals with
    | none => ["failed"]
    | some (v, k) => ["chosen", toString k, v.tag] ++ ((arrivals.find? fun a => a.port == k).map fun a => clsOf a.resp).toList
  let acc := arrivals.filter (accepted gamePort)
  let maxVer := acc.foldl (fun m a => max m a.resp.version.toNat) 0
  -- the fourth token: the class of the prober's RESULT.  It must be the class the kept answer's details give (`res:ok` exactly
  -- when they parse and validate); `res:port-mismatch` (the result names another port than the answer kept) and `res:err-other`
  -- are never right
  let kept (k v : String) : List PortAnswer := acc.filter fun a => toString a.port == k && (v == "?" || a.resp.version.tag == v) && a.resp.version.toNat == maxVer
  let choiceOk := match out with
    | ["failed"] => acc.isEmpty
    | ["chosen", k, v, _] => !(kept k v).isEmpty
    | _ => false
  let classOk := match out with
    | ["chosen", k, v, cls] => (kept k v).any fun a => clsOf a.resp == cls
    | _ => true
  let ok := choiceOk && classOk
  -- several accepted answers of the same, most capable dialect: which of them is kept depends on real arrival
  -- order ("latest wins"), i.e. on timing under load — the property fixes the dialect and membership, not the port
  let tie := ok && model.getD 0 "" == "chosen" && out.getD 0 "" == "chosen" && model.getD 2 "" == out.getD 2 ""
  -- `?` for the dialect: the harness could not read the tag off the prober's debug line (the port comes from the result)
  let sameButTag := out.getD 2 "" == "?" && model.take 2 == out.take 2 && model.drop 3 == out.drop 3
  verdict (model == out || tie || sameButTag) ok
    ((cond choiceOk "" "sig=choice ") ++ (cond classOk "" s!"sig=result-class:{out.getD 3 ""} ") ++ s!"model={" ".intercalate model}")

/-- `<id>=kvs|<id>=kvs|…` -/
def playersIds? (s : String) : Option (List (Nat × List (Bytes × Bytes))) :=
  if s = "." then some []
  else (s.splitOn "|").mapM fun p =>
    match p.splitOn "=" with
    | [i, kv] => do
      let i ← nat? i
      let kv ← kvs? kv
      pure (i, kv)
    | _ => none

def handle (args out : List String) : Verdict :=
  match args with
  | ["dec", d, f, p, o, cuts, order, dg] =>
    match dialect? d, kvs? f, players? p, kvs? o, nats? cuts, nats? order, dgrams? dg with
    | some d, some f, some p, some o, some cuts, some order, some ds =>
      let s : GS1Spec.Status := ⟨f, enumFrom 0 p, o⟩
      handleDec d s (items s) cuts order ds out
    | _, _, _, _, _, _, _ => .bad "C08 dec args"
  | ["decw", d, f, p, o, wire, cuts, order, dg] =>
    match dialect? d, kvs? f, playersIds? p, kvs? o, nats? wire, nats? cuts, nats? order, dgrams? dg with
    | some d, some f, some p, some o, some wire, some cuts, some order, some ds =>
      let s : GS1Spec.Status := ⟨f, p, o⟩
      match wire.mapM fun (i : Nat) => (items s)[i]? with
      | some w => handleDec d s w cuts order ds out
      | none => .bad "C08 decw wire index"
    | _, _, _, _, _, _, _, _ => .bad "C08 decw args"
  | ["probe", gp, rs] =>
    match int? gp, (rs.splitOn ";").mapM responder? with
    | some gp, some rs => handleProbe gp rs out
    | _, _ => .bad "C08 probe args"
  | _ => .bad "C08 shape"

end Swat4.Drv.C08
