import Swat4.Drv.Common
import Swat4.Drv.C03
import Swat4.Model.Browsing
import Swat4.Model.Filter
import Swat4.Spec.GOA
import Swat4.Spec.ServerList
import Swat4.Spec.ServerListExpected
import Swat4.Spec.FilterSpec
import Swat4.Spec.FilterBridge
import Swat4.Lemmas.BrowserEndToEnd
/-!
Driver side of C01 (see `harness/internal/c01/c01.go` for the line format):

* `C01 req <payload> => ok <filters> <fields> <challenge> | err:… | panic:…`
* `C01 reply <cliphint> <hdr7> <game1> <game2> <challenge> <filter> <rawfields> <options> <servers> [<intent>]
     => <sentpayload> <clientip> <clientport> <now> <liveness> <stored> <reply|closed>`
* `C01 replyraw <cliphint> <payload> <servers> => <clientip> <clientport> <now> <liveness> <stored> <reply|closed>`

The registry the model and the oracle work from is `<stored>` (what the repository returned
right before the request): records `a.b.c.d:port:queryport:status@<refreshed>:v1:…:vn`, each turned into a
`BrowserE2E.Stored` (the filter model's `Record` — status, `RefreshedAt`, named `Info` — plus IP, port, query port).

**Model side**: `BrowserE2E.browserHandle` — the function `C01.browser_end_to_end*` are about (2048-byte read,
`NewRequest`, the request's filter string → query, `listservers` with status `master`, the harness's clock and
liveness, `packServers`, `Encrypt`) — on the bytes the client sent; its output is compared byte for byte with the
reply.  Listing order is Go map order, which `browserHandle` takes as the parameter `order`: the driver passes the
permutation that lists the repository's result in the order the reply lists it (recovered by matching whole packed
entries; servers the reply does not list follow in registry order).

**Oracle** (on the implementation's bytes): SDK reference decryption + SDK framing decoder give exactly
`expectedList` for the requester, the known fields and the stored servers that the SPECIFICATION selects
(`FilterSpec.selected`: status `master`, refreshed at or after `now − liveness`, every clause satisfied), entries as
a multiset.  The clauses are the generator's declared reading of the filter (`<intent>`, checked against the filter
bytes with `FilterSpec.render` as in C03) or, without one, the model's reading (`BrowserE2E.clausesOf`).  A
well-formed request longer than the read buffer must get no reply (`C01_oversize_no_reply`).
-/
namespace Swat4.Drv.C01
open Swat4 Swat4.Drv Swat4.Browsing Swat4.SBList Swat4.BrowserE2E

def cfg : Cfg := Cfg.facts
def schema : Schema := Schema.facts

def hexList? (s : String) : Option (List Bytes) :=
  if s = "_" then some [] else (s.splitOn ",").mapM hex?

def hexListTok (xs : List Bytes) : String :=
  if xs.isEmpty then "_" else ",".intercalate (xs.map Bytes.toHexTok)

def u8? (s : String) : Option UInt8 :=
  match s.toNat? with
  | some n => if n < 256 then some (UInt8.ofNat n) else none
  | none => none

def ip? (s : String) : Option IPv4 :=
  match (s.splitOn ".").mapM u8? with
  | some [a, b, c, d] => some ⟨a, b, c, d⟩
  | _ => none

/-- `a.b.c.d:port:queryport:status@<refreshed UnixNano|z>:v1:…:vn` (the values typed by the Info schema, as in C03) -/
def stored? (s : String) : Option Stored :=
  match s.splitOn ":" with
  | ip :: port :: qport :: status :: vals => do
    let ipv ← ip? ip
    let p ← port.toNat?
    let q ← qport.toInt?
    let (st, rf) ← (match status.splitOn "@" with
      | [st, rf] => do
        let st ← st.toNat?
        let rf ← if rf = "z" then some FTime.zero else (int? rf).map FTime.at
        pure (st, rf)
      | _ => none)
    let info ← C03.infoOfToks Facts.infoSchema vals
    pure { row := ⟨s!"{ip}:{port}", st, rf, info⟩, ip := ipv, port := p, queryPort := q }
  | _ => none

def records? (s : String) : Option (List Stored) :=
  if s = "_" then some [] else (s.splitOn ",").mapM stored?

/-- the stored servers the SPECIFICATION selects for the clauses `cs` (`FilterSpec.selected`, status `master`);
for `cs = clausesOf filter` this is `recs.filter (matching now liveness filter)` of `browser_end_to_end` -/
def specSelected (now liveness : Int) (cs : List FilterSpec.Clause) (recs : List Stored) : List Stored :=
  recs.filter fun x => FilterSpec.selected now liveness Facts.statusMaster cs (FilterSpec.toServer x.row)

def renderOutcome : Outcome Request → List String
  | .ok r => ["ok", Bytes.toHexTok r.filters, hexListTok r.fields, Bytes.toHexTok r.challenge.toList]
  | .error .invalidFormat => ["err:invalid"]
  | .error .noFields => ["err:nofields"]
  | .error .tooManyFields => ["err:toomany"]
  | .panic => ["panic"]
  | .hang => ["hang"]

def isPanicTok (s : String) : Bool := s.startsWith "panic" || s = "handler-hung"

/-- recover the 23 header draws of `crypt.Encrypt` from the reply (as in C02) -/
def recoverRnd (secret chal out : Bytes) : Bytes :=
  (List.range 23).map fun i => out.getD i 0 ^^^ secret.getD (i % 6) 0 ^^^ chal.getD (i % 8) 0

/-- the `order` handed to `browserHandle` (Go map iteration): `pool` with the servers whose packed entries `plain`
lists first, in that order (entries are self-delimiting, so greedy whole-entry matching is exact), and the rest after
them in their own order.  Always a permutation of `pool`. -/
def orderAs (entryOf : Stored → Bytes) : Nat → Bytes → List Stored → List Stored → List Stored
  | 0, _, pool, acc => acc.reverse ++ pool
  | fuel + 1, b, pool, acc =>
    match pool.findIdx? fun s => (entryOf s).isPrefixOf b with
    | none => acc.reverse ++ pool
    | some i =>
      match pool[i]? with
      | none => acc.reverse ++ pool
      | some s => orderAs entryOf fuel (b.drop (entryOf s).length) (pool.eraseIdx i) (s :: acc)

/-- the oracle of C01 on the implementation's reply: decrypt with the SDK reference cipher, decode
with the SDK framing rules, compare with the promised content (entries as a multiset) -/
def oracle (chal : Bytes) (client : Client) (fields : List Bytes) (selected : List Server) (reply : Bytes) : Bool :=
  match GOA.refDecrypt Facts.gameEncKey chal reply with
  | none => false
  | some plain =>
    match sdkDecode plain with
    | none => false
    | some l =>
      let e := expectedList schema client fields selected
      l.clientIp == e.clientIp && l.clientPort == e.clientPort && l.fields == e.fields && l.trailing == e.trailing
        && l.entries.isPerm e.entries

/-- hypotheses of `sdkDecode_pack` / `C01_main` that depend on the registry -/
def inScope (selected : List Server) : Bool :=
  selected.all fun s => s.ip.toBytes != lastServerMarker && wellTypedB schema s.info

def wfReqB (r : ListRequest) : Bool :=
  r.header.length == 7 && r.gameName.all (· ≠ 0) && r.queryGame.all (· ≠ 0) && r.filter.all (· ≠ 0)
    && r.rawFields.all (fun f => f.all fun x => x ≠ 0 && x ≠ 0x5c) && (reqBody r).length + 2 < 65536

/-- model vs implementation for one request/registry; returns `(same, info, parsedRequest?)`.
The model is `browserHandle` on the bytes sent; the request is parsed first (from the same `take readBuffer` cut,
`browserHandle_ok` / `browserHandle_error`) because the challenge is needed to recover the header draws from the reply. -/
def compareReply (sent : Bytes) (client : Client) (recs : List Stored) (now liveness : Int) (replyTok : String) :
    Bool × String × Option Request :=
  match parseRequest cfg (sent.take readBuffer) with
  | .ok req =>
    match hex? replyTok with
    | none => (false, s!"model=reply impl={replyTok}", some req)
    | some reply =>
      if replyTok = "-" then (false, "model=reply impl=empty", some req) else
      let chal := req.challenge.toList
      let fields := if req.fields.length > 255 then req.fields.take 255 else req.fields
      let hdrLen := (packServers schema client req.fields []).length - 5
      let order : List Stored → List Stored :=
        match GOA.refDecrypt Facts.gameEncKey chal reply with
        | none => id
        | some plain => fun l => orderAs (fun x => packServer schema fields (toSel x)) l.length (plain.drop hdrLen) l []
      match toVec? 23 (recoverRnd Facts.gameEncKey chal reply) with
      | none => (false, "rnd", some req)
      | some rnd =>
        match browserHandle order recs now liveness client rnd sent with
        | .ok out =>
          if out == reply then (true, "", some req)
          else
            let listing := listStored order recs now liveness Facts.statusMaster (Filter.browserQuery req.filters)
            (false, s!"reply-bytes-differ model-plain={Bytes.toHexTok (packServers schema client req.fields (listing.map toSel))}", some req)
        | _ => (false, "model-process-failed", some req)
  | .error _ => (replyTok == "closed", s!"model=closed impl={replyTok.take 40}", none)
  | .panic => (isPanicTok replyTok, "model=panic", none)
  | .hang => (false, "model=hang", none)

def handle (args out : List String) : Verdict :=
  match args, out with
  | ["req", p], o :: rest =>
    match hex? p with
    | none => .bad "hex"
    | some p =>
      let m := parseRequest cfg p
      let same := if isPanicTok o then m == .panic else renderOutcome m == o :: rest
      -- the parser never panics on any input (parse_total)
      verdict same (!isPanicTok o) s!"model={" ".intercalate (renderOutcome m)}"
  | "reply" :: _ :: hdr :: g1 :: g2 :: chal :: filt :: raw :: opts :: _ :: intent, [sent, cip, cport, now, liv, stored, reply] =>
    let intent? : Option C03.Intent := match intent with
      | [] => some .none
      | [t] => C03.intentOfTok t
      | _ => none
    match hex? hdr, hex? g1, hex? g2, hex? chal, hex? filt, hexList? raw, hex? opts, hex? sent, ip? cip, cport.toNat?, records? stored with
    | some hdr, some g1, some g2, some chal, some filt, some raw, some opts, some sent, some cip, some cport, some recs =>
      let wf? : Option Bool := if opts = [0, 0, 0, 0] then some false else if opts = [0, 0, 0, 1] then some true else none
      match wf?, toVec? 8 chal, int? now, int? liv, intent? with
      | none, _, _, _, _ => .bad "options"
      | _, none, _, _, _ => .bad "challenge length"
      | _, _, none, _, _ => .bad "clock"
      | _, _, _, none, _ => .bad "liveness"
      | _, _, _, _, none => .bad "intent token"
      | some wf, some chalv, some now, some liv, some intent =>
        let r : ListRequest := { header := hdr, gameName := g1, queryGame := g2, challenge := chalv, filter := filt, rawFields := raw, withFields := wf }
        if encodeReq r != sent then .bad "encodeReq differs from the payload the harness sent" else
        if !C03.intentOk filt intent then .bad "intent" else
        let client : Client := { ip := cip, port := cport }
        let (same, info, _) := compareReply sent client recs now liv reply
        if isPanicTok reply then verdict same false s!"sig=handler-panic {info}" else
        let known := knownFields cfg.isQueryField r
        -- the servers the specification selects for the declared reading of the filter
        let selected := (specSelected now liv (C03.oracleClauses filt intent) recs).map toSel
        -- a well-formed request that does not fit the read buffer gets no reply (`C01_oversize_no_reply`)
        if wfReqB r && sent.length > readBuffer then verdict same (reply == "closed") s!"oversize:{sent.length} {info}" else
        -- the property speaks about well-formed requests with 1..cap known fields and storable registries
        if wfReqB r && known.length ≥ 1 && known.length ≤ cfg.maxFields && inScope selected then
          match hex? reply with
          | some rb => verdict same (reply != "closed" && reply != "-" && oracle chal client known selected rb) info
          | none => verdict same false s!"no-reply:{reply.take 40} {info}"
        else verdict same true info
    | _, _, _, _, _, _, _, _, _, _, _ => .bad "C01 reply tokens"
  | ["replyraw", _, payload, _], [cip, cport, now, liv, stored, reply] =>
    match hex? payload, ip? cip, cport.toNat?, int? now, int? liv, records? stored with
    | some payload, some cip, some cport, some now, some liv, some recs =>
      let client : Client := { ip := cip, port := cport }
      let (same, info, req) := compareReply payload client recs now liv reply
      if isPanicTok reply then verdict same false s!"sig=handler-panic {info}" else
      -- raw payloads: when the model accepts the request and the handler replied, the reply must
      -- still decode to the promised content (challenge, fields and filter string as the model parsed them)
      match req, hex? reply with
      | some req, some rb =>
        let selected := (specSelected now liv (clausesOf req.filters) recs).map toSel
        if reply != "-" && inScope selected then verdict same (oracle req.challenge.toList client req.fields selected rb) info
        else verdict same true info
      | _, _ => verdict same true info
    | _, _, _, _, _, _ => .bad "C01 replyraw tokens"
  | _, _ => .bad "C01 shape"

end Swat4.Drv.C01
