import Swat4.Drv.Common
import Swat4.Model.Browsing
import Swat4.Spec.GOA
import Swat4.Spec.ServerList
import Swat4.Spec.ServerListExpected
/-!
Driver side of C01 (see `harness/internal/c01/c01.go` for the line format):

* `C01 req <payload> => ok <filters> <fields> <challenge> | err:… | panic:…`
* `C01 reply <cliphint> <hdr7> <game1> <game2> <challenge> <filter> <rawfields> <options> <servers>
     => <sentpayload> <clientip> <clientport> <stored> <reply|closed>`
* `C01 replyraw <cliphint> <payload> <servers> => <clientip> <clientport> <stored> <reply|closed>`

The registry the model and the oracle work from is `<stored>` (what the repository returned
right before the request).  Listing order is Go map order, so the model is run on the stored
servers in the order the reply lists them (recovered by matching whole packed entries), and the
oracle compares entries as multisets.
-/
namespace Swat4.Drv.C01
open Swat4 Swat4.Drv Swat4.Browsing Swat4.SBList

def cfg : Cfg := Cfg.facts
def schema : Schema := Schema.facts

def hexList? (s : String) : Option (List Bytes) :=
  if s = "_" then some [] else (s.splitOn ",").mapM hex?

def hexListTok (xs : List Bytes) : String :=
  if xs.isEmpty then "_" else ",".intercalate (xs.map Bytes.toHexTok)

def u8? (s : String) : Option UInt8 :=
  match s.toNat? with
  | some n => if n < 256 then some (UInt8.ofNat n) else none
  | none => none

def ip? (s : String) : Option IPv4 :=
  match (s.splitOn ".").mapM u8? with
  | some [a, b, c, d] => some ⟨a, b, c, d⟩
  | _ => none

def vals? : Schema → List String → Option Info
  | [], [] => some []
  | (_, k) :: sch, t :: ts => do
    let v ← (if k = 0 then t.toInt?.map Val.int
      else if k = 1 then (if t = "1" then some (Val.bool true) else if t = "0" then some (Val.bool false) else none)
      else if k = 2 then (hex? t).map Val.str
      else none)
    let rest ← vals? sch ts
    pure (v :: rest)
  | _, _ => none

/-- `a.b.c.d:port:queryport:status:v1:…:vn` -/
def record? (s : String) : Option (Server × Nat) :=
  match s.splitOn ":" with
  | ip :: port :: qport :: status :: vals => do
    let ip ← ip? ip
    let port ← port.toNat?
    let q ← qport.toInt?
    let st ← status.toNat?
    let info ← vals? schema vals
    pure ({ ip, port, queryPort := q, info }, st)
  | _ => none

def records? (s : String) : Option (List (Server × Nat)) :=
  if s = "_" then some [] else (s.splitOn ",").mapM record?

/-- the servers the browser lists: status has the `master` bit (all planted records are fresh) -/
def selectedOf (recs : List (Server × Nat)) : List Server :=
  (recs.filter fun r => r.2 &&& 2 ≠ 0).map (·.1)

def renderOutcome : Outcome Request → List String
  | .ok r => ["ok", Bytes.toHexTok r.filters, hexListTok r.fields, Bytes.toHexTok r.challenge.toList]
  | .error .invalidFormat => ["err:invalid"]
  | .error .noFields => ["err:nofields"]
  | .error .tooManyFields => ["err:toomany"]
  | .panic => ["panic"]
  | .hang => ["hang"]

def isPanicTok (s : String) : Bool := s.startsWith "panic" || s = "handler-hung"

/-- recover the 23 header draws of `crypt.Encrypt` from the reply (as in C02) -/
def recoverRnd (secret chal out : Bytes) : Bytes :=
  (List.range 23).map fun i => out.getD i 0 ^^^ secret.getD (i % 6) 0 ^^^ chal.getD (i % 8) 0

/-- put `pool` into the order in which `plain` lists their packed entries (entries are
self-delimiting, so greedy whole-entry matching is exact); `none` if `plain` is not such a sequence -/
def orderLike (entryOf : Server → Bytes) : Nat → Bytes → List Server → List Server → Option (List Server × Bytes)
  | 0, b, _, acc => some (acc.reverse, b)
  | fuel + 1, b, pool, acc =>
    if pool.isEmpty then some (acc.reverse, b) else
    match pool.find? fun s => (entryOf s).isPrefixOf b with
    | none => none
    | some s => orderLike entryOf fuel (b.drop (entryOf s).length) (pool.erase s) (s :: acc)

/-- the oracle of C01 on the implementation's reply: decrypt with the SDK reference cipher, decode
with the SDK framing rules, compare with the promised content (entries as a multiset) -/
def oracle (chal : Bytes) (client : Client) (fields : List Bytes) (selected : List Server) (reply : Bytes) : Bool :=
  match GOA.refDecrypt Facts.gameEncKey chal reply with
  | none => false
  | some plain =>
    match sdkDecode plain with
    | none => false
    | some l =>
      let e := expectedList schema client fields selected
      l.clientIp == e.clientIp && l.clientPort == e.clientPort && l.fields == e.fields && l.trailing == e.trailing
        && l.entries.isPerm e.entries

/-- hypotheses of `sdkDecode_pack` / `C01_main` that depend on the registry -/
def inScope (selected : List Server) : Bool :=
  selected.all fun s => s.ip.toBytes != lastServerMarker && wellTypedB schema s.info

def wfReqB (r : ListRequest) : Bool :=
  r.header.length == 7 && r.gameName.all (· ≠ 0) && r.queryGame.all (· ≠ 0) && r.filter.all (· ≠ 0)
    && r.rawFields.all (fun f => f.all fun x => x ≠ 0 && x ≠ 0x5c) && (reqBody r).length + 2 < 65536

/-- model vs implementation for one request/registry; returns `(same, info, parsedRequest?)` -/
def compareReply (payload : Bytes) (client : Client) (selected : List Server) (replyTok : String) :
    Bool × String × Option Request :=
  match parseRequest cfg payload with
  | .ok req =>
    match hex? replyTok with
    | none => (false, s!"model=reply impl={replyTok}", some req)
    | some reply =>
      if replyTok = "-" then (false, "model=reply impl=empty", some req) else
      let chal := req.challenge.toList
      let fields := if req.fields.length > 255 then req.fields.take 255 else req.fields
      let hdrLen := (packServers schema client req.fields []).length - 5
      let ordered : List Server :=
        match GOA.refDecrypt Facts.gameEncKey chal reply with
        | none => selected
        | some plain =>
          match orderLike (packServer schema fields) selected.length (plain.drop hdrLen) selected [] with
          | some (o, _) => o
          | none => selected
      match toVec? 23 (recoverRnd Facts.gameEncKey chal reply) with
      | none => (false, "rnd", some req)
      | some rnd =>
        match process cfg schema gameKey client payload ordered rnd with
        | .ok out =>
          if out == reply then (true, "", some req)
          else (false, s!"reply-bytes-differ model-plain={Bytes.toHexTok (packServers schema client req.fields ordered)}", some req)
        | _ => (false, "model-process-failed", some req)
  | .error _ => (replyTok == "closed", s!"model=closed impl={replyTok.take 40}", none)
  | .panic => (isPanicTok replyTok, "model=panic", none)
  | .hang => (false, "model=hang", none)

def handle (args out : List String) : Verdict :=
  match args, out with
  | ["req", p], o :: rest =>
    match hex? p with
    | none => .bad "hex"
    | some p =>
      let m := parseRequest cfg p
      let same := if isPanicTok o then m == .panic else renderOutcome m == o :: rest
      -- the parser never panics on any input (parse_total)
      verdict same (!isPanicTok o) s!"model={" ".intercalate (renderOutcome m)}"
  | ["reply", _, hdr, g1, g2, chal, filt, raw, opts, _], [sent, cip, cport, stored, reply] =>
    match hex? hdr, hex? g1, hex? g2, hex? chal, hex? filt, hexList? raw, hex? opts, hex? sent, ip? cip, cport.toNat?, records? stored with
    | some hdr, some g1, some g2, some chal, some filt, some raw, some opts, some sent, some cip, some cport, some recs =>
      let wf? : Option Bool := if opts = [0, 0, 0, 0] then some false else if opts = [0, 0, 0, 1] then some true else none
      match wf?, toVec? 8 chal with
      | none, _ => .bad "options"
      | _, none => .bad "challenge length"
      | some wf, some chalv =>
        let r : ListRequest := { header := hdr, gameName := g1, queryGame := g2, challenge := chalv, filter := filt, rawFields := raw, withFields := wf }
        if encodeReq r != sent then .bad "encodeReq differs from the payload the harness sent" else
        let client : Client := { ip := cip, port := cport }
        let selected := selectedOf recs
        let (same, info, _) := compareReply sent client selected reply
        if isPanicTok reply then verdict same false s!"sig=handler-panic {info}" else
        let known := knownFields cfg.isQueryField r
        -- the property speaks about well-formed requests with 1..cap known fields and storable registries
        if wfReqB r && known.length ≥ 1 && known.length ≤ cfg.maxFields && inScope selected then
          match hex? reply with
          | some rb => verdict same (reply != "closed" && reply != "-" && oracle chal client known selected rb) info
          | none => verdict same false s!"no-reply:{reply.take 40} {info}"
        else verdict same true info
    | _, _, _, _, _, _, _, _, _, _, _ => .bad "C01 reply tokens"
  | ["replyraw", _, payload, _], [cip, cport, stored, reply] =>
    match hex? payload, ip? cip, cport.toNat?, records? stored with
    | some payload, some cip, some cport, some recs =>
      let client : Client := { ip := cip, port := cport }
      let selected := selectedOf recs
      let (same, info, req) := compareReply payload client selected reply
      if isPanicTok reply then verdict same false s!"sig=handler-panic {info}" else
      -- raw payloads: when the model accepts the request and the handler replied, the reply must
      -- still decode to the promised content (challenge and fields as the model parsed them)
      match req, hex? reply with
      | some req, some rb =>
        if reply != "-" && inScope selected then verdict same (oracle req.challenge.toList client req.fields selected rb) info
        else verdict same true info
      | _, _ => verdict same true info
    | _, _, _, _ => .bad "C01 replyraw tokens"
  | _, _ => .bad "C01 shape"

end Swat4.Drv.C01
