import Swat4.Spec.Registry
import Swat4.Model.Store
import Swat4.Gen.Facts
/-!
# Canonical rendering of the abstract state — must equal `world.Dump()` of the Go harness
(see harness/internal/world/world.go and harness/internal/canon).
-/
namespace Swat4.Drv
open Swat4 Std

def renderVal : Val → String
  | .int n => toString n
  | .bool b => if b then "1" else "0"
  | .str s => Bytes.toHexTok s

/-- struct: fields joined by ":" -/
def renderFields (f : Fields) : String := ":".intercalate (f.map renderVal)

def renderSlice (xs : List Fields) : String := "[" ++ "/".intercalate (xs.map renderFields) ++ "]"

/-- `canon.Of(details.Details)`: nested struct in parens, slices in brackets -/
def renderDetails (d : Details) : String :=
  "(" ++ renderFields d.info ++ "):" ++ renderSlice d.players ++ ":" ++ renderSlice d.objectives

def renderTime : GoTime → String
  | none => "z"
  | some t => toString t

def hex2 (n : Nat) : String := Bytes.toHex [UInt8.ofNat n]

/-- `instance.Identifier.Hex()` -/
def renderId (id : Nat) : String :=
  hex2 (id / 16777216) ++ hex2 (id / 65536 % 256) ++ hex2 (id / 256 % 256) ++ hex2 (id % 256)

def probePayload (q : QItem) : String :=
  s!"{q.probe.addr.render},{q.probe.port},{q.probe.goal.toNat},{q.probe.retries},{q.probe.maxRetries},{renderTime q.expires}"

/-- insertion sort by (ready, payload text) — the harness' canonical probe order -/
def insertQ (x : Int × String) : List (Int × String) → List (Int × String)
  | [] => [x]
  | y :: ys => if x.1 < y.1 ∨ (x.1 = y.1 ∧ x.2 ≤ y.2) then x :: y :: ys else y :: insertQ x ys

def sortQ (xs : List (Int × String)) : List (Int × String) := xs.foldr insertQ []

def enumFrom {α : Type} (n : Nat) : List α → List (Nat × α)
  | [] => []
  | x :: xs => (n, x) :: enumFrom (n + 1) xs

/-- the dump of a state whose indexes are consistent with its records (no lock keys) -/
def dumpState (s : AbsState) : List String :=
  let rows := s.servers.toList.map (·.2)
  let sv := rows.map fun r =>
    s!"SV,{r.svr.addr.render},{r.svr.queryPort},{r.svr.status.toNat},{r.svr.version},{renderTime r.svr.refreshedAt},{renderFields r.svr.info},{renderDetails r.svr.details}"
  let up := rows.map fun r => s!"UP,{r.svr.addr.render},{r.updatedAt}"
  let rf := rows.filterMap fun r => r.svr.refreshedAt.map fun t => s!"RF,{r.svr.addr.render},{t}"
  let st := (Status.members.zip Status.names).flatMap fun (bit, name) =>
    (rows.filter fun r => Status.has r.svr.status bit).map fun r => s!"ST,{name},{r.svr.addr.render}"
  let ins := s.instances.toList.map fun (id, a, _) => s!"IN,{renderId id},{a.render}"
  let iu := s.instances.toList.map fun (id, _, t) => s!"IU,{renderId id},{t}"
  let q := sortQ (s.queue.map fun q => (q.ready, probePayload q))
  let pq := (enumFrom 0 q).flatMap fun (n, ready, payload) => [s!"PI,{n},{payload}", s!"PQ,{n},{ready}"]
  sv ++ up ++ rf ++ st ++ ins ++ iu ++ pq

/-- zero value of a struct with the given field kinds (0 int, 1 bool, 2 string) -/
def zeroFields (kinds : List Nat) : Fields :=
  kinds.map fun k => if k = 1 then .bool false else if k = 2 then .str [] else .int 0

def zeroInfo : Fields := zeroFields Facts.infoFieldKinds

end Swat4.Drv

namespace Swat4.Drv
open Swat4 Std

def renderKey (k : Nat) : String := (Addr.mk (k / 65536) (Int.ofNat (k % 65536))).render

/-- canonical dump of a Redis-level store — equals `world.Dump()` line for line -/
def dumpRStore (st : RStore) : List String :=
  let sv := st.items.toList.map fun (k, r) =>
    s!"SV,{renderKey k},{r.queryPort},{r.status.toNat},{r.version},{renderTime r.refreshedAt},{renderFields r.info},{renderDetails r.details}"
  let up := st.updated.toList.map fun (k, t) => s!"UP,{renderKey k},{t}"
  let rf := st.refreshed.toList.map fun (k, t) => s!"RF,{renderKey k},{t}"
  let members := st.statusSet.toList
  let stl := (RStore.bitIdx.zip Status.names).flatMap fun (b, name) =>
    (members.filter fun e => e % 16 == b).map fun e => s!"ST,{name},{renderKey (e / 16)}"
  let lk := st.locks.toList.map fun (k, c) => s!"LK,{renderKey k},{if c.ttl then "ttl" else "nottl"}"
  let ins := st.insItems.toList.map fun (id, a) => s!"IN,{renderId id},{a.render}"
  let iu := st.insUpdated.toList.map fun (id, t) => s!"IU,{renderId id},{t}"
  let q := sortQ (st.pQueue.toList.filterMap fun (id, ready) =>
    (st.pItems[id]?).map fun (p, e) => (ready, probePayload ⟨id, p, ready, e⟩))
  let pq := (enumFrom 0 q).flatMap fun (n, ready, payload) => [s!"PI,{n},{payload}", s!"PQ,{n},{ready}"]
  sv ++ up ++ rf ++ stl ++ lk ++ ins ++ iu ++ pq

/-! ## parsing the harness' textual specs -/

def parseIp (s : String) : Option Nat :=
  match (s.splitOn ".").map String.toNat? with
  | [some a, some b, some c, some d] => if a < 256 ∧ b < 256 ∧ c < 256 ∧ d < 256 then some (a * 16777216 + b * 65536 + c * 256 + d) else none
  | _ => none

def parseAddr (s : String) : Option Addr :=
  match s.splitOn ":" with
  | [ip, port] => do
    let i ← parseIp ip
    let p ← port.toInt?
    pure ⟨i, p⟩
  | _ => none

def parseTime (s : String) : Option GoTime :=
  if s = "z" then some none else s.toInt?.map some

/-- player `j` of a planted record (`storeops.ParseServer`, part `p<K>`): `details.Player{Name: "p<j>@<addr>", Score: j + port % 7}`, every other
field zero, in the field order of the generated schema -/
def plantedPlayer (a : Addr) (j : Nat) : Fields :=
  Facts.detailsPlayerSchema.map fun (name, _, kind, _) =>
    if name = "Name" then Val.str (Bytes.ofAscii s!"p{j}@{a.render}")
    else if name = "Score" then Val.int (j + a.port % 7)
    else if kind = 1 then Val.bool false else if kind = 2 then Val.str [] else Val.int 0

/-- `<ip>:<port>/<queryport>/<status>/<version>/<refreshedNs|z>`; info and details are the zero values; optional `/p<K>`: K planted players -/
def parseServer (s : String) : Option Server :=
  match s.splitOn "/" with
  | [a, qp, st, ver, rf, pk] => do
    let a ← parseAddr a
    let qp ← qp.toInt?
    let st ← st.toNat?
    let ver ← ver.toInt?
    let rf ← parseTime rf
    let k ← if pk.startsWith "p" then (pk.drop 1).toNat? else none
    pure { addr := a, queryPort := qp, status := BitVec.ofNat 9 st, info := zeroInfo,
           details := ⟨zeroInfo, (List.range k).map (plantedPlayer a), []⟩, refreshedAt := rf, version := ver }
  | [a, qp, st, ver, rf] => do
    let a ← parseAddr a
    let qp ← qp.toInt?
    let st ← st.toNat?
    let ver ← ver.toInt?
    let rf ← parseTime rf
    pure { addr := a, queryPort := qp, status := BitVec.ofNat 9 st, info := zeroInfo, details := ⟨zeroInfo, [], []⟩, refreshedAt := rf, version := ver }
  | _ => none

/-- name~score of a player record, as `storeops.RenderServer` prints it -/
def renderPlayerBrief (f : Fields) : String :=
  let named := Facts.detailsPlayerSchema.map (·.1) |>.zip f
  let name := match named.lookup "Name" with | some (.str b) => Bytes.toHexTok b | _ => "?"
  let score := match named.lookup "Score" with | some (.int n) => toString n | _ => "?"
  s!"{if name = "-" then "" else name}~{score}"

def renderServer (s : Server) : String :=
  s!"{s.addr.render}/{s.queryPort}/{s.status.toNat}/{s.version}/{renderTime s.refreshedAt}" ++
    (if s.details.players.isEmpty then "" else "/players=" ++ "+".intercalate (s.details.players.map renderPlayerBrief))

/-- resolver behaviours of `storeops.Resolver` -/
def resolverOf (name : String) (caller : Server) : Option Resolver :=
  match name with
  | "refuse" => some fun _ => none
  | "accept" => some fun s => some s
  | "merge" => some fun s => some { s with queryPort := caller.queryPort, status := s.status ||| caller.status }
  | "over" => some fun s => some { caller with version := s.version }
  | _ => none

def parseFilterSet (parts : List String) : Option FilterSet :=
  match parts with
  | [ws, ns, ub, ua, ab, aa] => do
    let ws ← ws.toNat?
    let ns ← ns.toNat?
    let ub ← parseTime ub
    let ua ← parseTime ua
    let ab ← parseTime ab
    let aa ← parseTime aa
    pure { withStatus := BitVec.ofNat 9 ws, noStatus := BitVec.ofNat 9 ns, updatedBefore := ub, updatedAfter := ua, activeBefore := ab, activeAfter := aa }
  | _ => none

end Swat4.Drv
