import Swat4.Drv.Common
import Swat4.Model.Rest
import Swat4.Model.RestJson
import Swat4.Model.Styles
import Swat4.Spec.RestSpec
/-!
Driver side of C17 (see `harness/internal/c17/c17.go` for the line format):

```
C17 add    <state> <bodyhex>        => <status> <html|~> <plain|~> <effect>
C17 add-ip <state> <iphex> <port>   => …
C17 view   <state> <addrhex>        => …
C17 html   <hostnamehex>            => <hex>
C17 clean  <hostnamehex>            => <hex>
C17 addr   <stringhex>              => ok <a.b.c.d> <port> | err-ip | err-port | err-public
```
Model and implementation are compared on every input the model parses; inputs that reach Go's
IPv6 parser, JSON escapes or nested JSON values are not compared.  The oracle is evaluated on the
implementation's output for every input.
-/
namespace Swat4.Drv.C17
open Swat4 Swat4.Drv Swat4.Rest

/-- `DiscoveryRevivalRetries` of the harness world (`world.DefaultOptions().RevivalRetries`) -/
def maxProbeRetries : Nat := 2
/-- `probe.GoalPort` -/
def goalPort : Nat := 1

def chars? (b : Bytes) : Option (List Char) := (String.fromUTF8? (ByteArray.mk b.toArray)).map String.toList
def utf8 (cs : List Char) : Bytes := (String.ofList cs).toUTF8.toList
/-- bytes as Latin-1 code points: for the spec-side parsers, which only look at ASCII -/
def latin1 (b : Bytes) : List Char := b.map fun x => Char.ofNat x.toNat

def dotted (ip : IP4) : String := s!"{ip.a.toNat}.{ip.b.toNat}.{ip.c.toNat}.{ip.d.toNat}"
def addrStr (a : Addr) : String := s!"{dotted a.ip}:{a.port}"
def toQuad (ip : IP4) : RestSpec.Quad := ⟨ip.a.toNat, ip.b.toNat, ip.c.toNat, ip.d.toNat⟩

structure Planted where
  ip : IP4
  port : Int
  status : Nat
  queryPort : Int
  hostname : List Char

def parseState (s : String) : Option (Option Planted) :=
  if s = "absent" then some none
  else match s.splitOn ":" with
    | ["p", ip, port, status, qport, host] =>
      match parseIP (Bytes.ofAscii ip), port.toInt?, status.toNat?, qport.toInt?, (hex? host).bind chars? with
      | .ok ip4, some p, some w, some q, some h => some (some ⟨ip4, p, w, q, h⟩)
      | _, _, _, _, _ => none
    | _ => none

def stateFor (pl : Option Planted) (a : Addr) : SrvState :=
  match pl with
  | some p => if p.ip = a.ip ∧ p.port = a.port then .present p.status p.queryPort p.hostname else .absent
  | none => .absent

def renderEffect : Effect → String
  | .none => "none"
  | .discover created a qp w =>
    let probe := s!"probe:{addrStr a},{a.port},{goalPort},0,{maxProbeRetries}"
    if created then s!"new:{addrStr a},{qp},{w}+{probe}" else s!"{probe}+upd:{addrStr a},{qp},{w}"

def renderResp (r : Resp) : List String :=
  match r.body with
  | some (h, p) => [toString r.status, Bytes.toHexTok (utf8 h), Bytes.toHexTok (utf8 p), renderEffect r.effect]
  | none => [toString r.status, "~", "~", renderEffect r.effect]

/-! ## oracle -/

/-- addresses named by the items of an effect token -/
def effectAddrs (e : String) : List String :=
  if e = "none" then []
  else (e.splitOn "+").filterMap fun item =>
    match item.splitOn ":" with
    | [kind, ip, rest] =>
      if kind = "new" ∨ kind = "upd" ∨ kind = "probe" then some (ip ++ ":" ++ ((rest.splitOn ",").headD "")) else none
    | _ => none

def routableAddr (s : String) : Bool :=
  match RestSpec.parseAddress s.toList with
  | some (q, p) => RestSpec.routable q && RestSpec.validPort p
  | none => false

/-- nothing was stored or queued under a non-routable address (and nothing unexplained changed) -/
def effectOk (e : String) : Bool :=
  e = "none" || (!(e.splitOn "+").any (fun i => i.startsWith "x:" || i.startsWith "del:" || i = "index-only")
    && (effectAddrs e).all routableAddr && !(effectAddrs e).isEmpty)

def fieldOk (tok : String) (p : List Char → Bool) : Bool :=
  tok = "~" || (match (hex? tok).bind chars? with | some cs => p cs | none => false)

def known (pl : Option Planted) (q : RestSpec.Quad) (port : Nat) : RestSpec.Known :=
  match pl with
  | some p =>
    if toQuad p.ip = q ∧ p.port = (port : Int) then
      ⟨true, hasBit p.status 8, hasBit p.status 128 || hasBit p.status 16, hasBit p.status 256⟩
    else ⟨false, false, false, false⟩
  | none => ⟨false, false, false, false⟩

/-- oracle common to the three HTTP operations, on the implementation's four output tokens -/
def httpOracle (table : List Nat) (expected : Option Nat) (out : List String) : Bool × String :=
  match out with
  | [st, html, plain, eff] =>
    match st.toNat? with
    | some code =>
      if code ≥ 500 then (false, "sig=status-5xx")
      else if !table.contains code then (false, s!"sig=status-outside-table:{code}")
      else if expected.any (· != code) then (false, s!"sig=wrong-row:expected-{expected.getD 0}")
      else if code = 400 ∧ eff ≠ "none" then (false, "sig=store-effect-on-400")
      else if !effectOk eff then (false, "sig=stored-non-routable")
      else if !fieldOk html RestSpec.Inert then (false, "sig=html-not-inert")
      else if !fieldOk plain RestSpec.NoCodes then (false, "sig=plain-has-codes")
      else if code = 200 ∧ (html = "~" ∨ plain = "~") then (false, "sig=200-without-body")
      else (true, "")
    | none => (false, "sig=no-status")
  | _ => (false, "sig=bad-output")

def finish (model : Option (List String)) (out : List String) (orc : Bool × String) : Verdict :=
  match model with
  | some m => verdict (m == out) orc.1 s!"{orc.2} model={" ".intercalate m}"
  | none => if orc.1 then .agree else .disagreeFails s!"{orc.2} model=unmodelled"

def handle (args out : List String) : Verdict :=
  match args with
  | ["html", h] =>
    match (hex? h).bind chars?, out with
    | some cs, [o] =>
      let m := Bytes.toHexTok (utf8 (Styles.toHTML cs))
      let ok := fieldOk o RestSpec.Inert && o ≠ "~"
      verdict (m == o) ok s!"sig=html-not-inert model={m}"
    | _, _ => .bad "html: hostname is not valid UTF-8 hex / bad output"
  | ["clean", h] =>
    match (hex? h).bind chars?, out with
    | some cs, [o] =>
      let m := Bytes.toHexTok (utf8 (Styles.clean cs))
      let ok := fieldOk o RestSpec.NoCodes && o ≠ "~"
      verdict (m == o) ok s!"sig=plain-has-codes model={m}"
    | _, _ => .bad "clean: hostname is not valid UTF-8 hex / bad output"
  | ["addr", s] =>
    match hex? s with
    | some b =>
      let m : List String :=
        match andThenPublic (addrFromString b) with
        | .ok a => ["ok", dotted a.ip, toString a.port]
        | .err .invalidIP => ["err-ip"]
        | .err .invalidPort => ["err-port"]
        | .err .invalidPublicIP => ["err-public"]
        | .unmodelled => ["unmodelled"]
      -- oracle: an accepted address is routable by the independent ranges
      let ok := match out with
        | ["ok", ip, port] => routableAddr (ip ++ ":" ++ port)
        | [e] => e.startsWith "err-"
        | _ => false
      verdict (m == out) ok s!"sig=accepted-non-routable model={" ".intercalate m}"
    | none => .bad "addr hex"
  | ["add-ip", st, iph, port] =>
    match parseState st, hex? iph, port.toInt? with
    | some pl, some ipb, some p =>
      let body : Option Body := some (.obj (.str ipb) (.int p))
      let model := body.bind fun b =>
        match parseAddRequest b with
        | .ok a => some (renderResp (addExecute a (stateFor pl a)))
        | .err _ => some (renderResp badRequest)
        | .unmodelled => none
      -- which row of the table applies, decided by the spec-side parser (dotted quads only)
      let expected : Option Nat :=
        if ipb.contains 58 then none
        else match RestSpec.parseQuad (latin1 ipb) with
          | some q =>
            let valid := RestSpec.routable q && RestSpec.validSubmitPort p
            some (RestSpec.addTable valid (known pl q p.toNat))
          | none => some 400
      finish model out (httpOracle RestSpec.addStatuses expected out)
    | _, _, _ => .bad "add-ip args"
  | ["add", st, bodyh] =>
    match parseState st, hex? bodyh with
    | some pl, some body =>
      let model := (RestJson.decodeBody body).bind fun b =>
        match parseAddRequest b with
        | .ok a => some (renderResp (addExecute a (stateFor pl a)))
        | .err _ => some (renderResp badRequest)
        | .unmodelled => none
      finish model out (httpOracle RestSpec.addStatuses none out)
    | _, _ => .bad "add args"
  | ["view", st, ah] =>
    match parseState st, hex? ah with
    | some pl, some a =>
      if a.isEmpty ∨ a.contains 47 then
        -- the router answers these (301 redirect / 404 no route); only "no 5xx" applies
        match out with
        | st :: _ => if (st.toNat?.getD 599) < 500 then .agree else .disagreeFails "sig=status-5xx model=router"
        | [] => .bad "view output"
      else
        let model : Option (List String) :=
          match andThenPublic (addrFromString a) with
          | .ok ad => some (renderResp (viewExecute (stateFor pl ad)))
          | .err _ => some (renderResp badRequest)
          | .unmodelled => none
        let expected : Option Nat :=
          match RestSpec.parseAddress (latin1 a) with
          | some (q, p) => some (RestSpec.viewTable (RestSpec.routable q && RestSpec.validPort p) (known pl q p))
          | none => some 400
        let orc := httpOracle RestSpec.viewStatuses expected out
        -- a GET never changes the store
        let orc := if orc.1 ∧ out.getLast? ≠ some "none" then (false, "sig=view-changed-store") else orc
        finish model out orc
    | _, _ => .bad "view args"
  | _ => .bad "C17 shape"

end Swat4.Drv.C17
