import Swat4.Drv.Common
import Swat4.Model.Rest
import Swat4.Model.RestJson
import Swat4.Model.Styles
import Swat4.Spec.RestSpec
import Swat4.Model.HarnessCfg
/-!
Driver side of C17 (see `harness/internal/c17/c17.go` for the line format):

```
C17 add    <state> <bodyhex>        => <status> <html|~> <plain|~> <effect> <body>
C17 add-ip <state> <iphex> <port>   => …
C17 view   <state> <addrhex>        => …
C17 list   <items> <gamevariant> <gamever> <gametype> <nopassworded> <nofull> <noempty>  => …
C17 html   <hostnamehex>            => <hex>
C17 clean  <hostnamehex>            => <hex>
C17 addr   <stringhex>              => ok <a.b.c.d> <port> | err-ip | err-port | err-public
```
`<body>` is the whole response body as one canonical token (`harness/internal/c17/canon.go`): the
model's answer is rendered the same way (`renderBody`) and compared member by member (a `slug.Make`
member outside the modelled subset is rendered `?` and matches anything); the oracle checks the
implementation's body against the record planted by the case line, parsed into field values by
position (`RestSpec.Rec`) and never passed through the model (`bodyOracle`).

Model and implementation are compared on every input the model parses; inputs that reach Go's
IPv6 parser, JSON escapes or nested JSON values are not compared.  The oracle is evaluated on the
implementation's output for every input.
-/
namespace Swat4.Drv.C17
open Swat4 Swat4.Drv Swat4.Rest

/-- `DiscoveryRevivalRetries` of the harness world (`world.DefaultOptions().RevivalRetries`): `Model/HarnessCfg.lean` -/
def maxProbeRetries : Nat := Harness.revivalRetries
def chars? (b : Bytes) : Option (List Char) := (String.fromUTF8? (ByteArray.mk b.toArray)).map String.toList
def utf8 (cs : List Char) : Bytes := (String.ofList cs).toUTF8.toList
/-- bytes as Latin-1 code points: for the spec-side parsers, which only look at ASCII -/
def latin1 (b : Bytes) : List Char := b.map fun x => Char.ofNat x.toNat

def dotted (ip : IP4) : String := s!"{ip.a.toNat}.{ip.b.toNat}.{ip.c.toNat}.{ip.d.toNat}"
def addrStr (a : Addr) : String := s!"{dotted a.ip}:{a.port}"
def toQuad (ip : IP4) : RestSpec.Quad := ⟨ip.a.toNat, ip.b.toNat, ip.c.toNat, ip.d.toNat⟩

/-! ## records on a case line (`harness/internal/c17/record.go`) -/

/-- one field value by kind: 0 int (decimal), 1 bool (`0`/`1`), 2 string (hex of UTF-8) -/
def parseField (kind : Nat) (tok : String) : Option RestSpec.Field :=
  match kind with
  | 0 => tok.toInt?.map RestSpec.Field.int
  | 1 => if tok = "0" then some (RestSpec.Field.bool false) else if tok = "1" then some (RestSpec.Field.bool true) else none
  | 2 => ((hex? tok).bind chars?).map RestSpec.Field.str
  | _ => none

/-- the values of one struct, by position -/
def parseEntity (names : List String) (kinds : List Nat) (toks : List String) : Option RestSpec.Entity :=
  if names.length ≠ toks.length ∨ kinds.length ≠ toks.length then none
  else ((kinds.zip toks).mapM fun (k, t) => parseField k t).map fun vs => names.zip vs

/-- the zero value of a struct -/
def zeroEntity (names : List String) (kinds : List Nat)   : RestSpec.Entity :=
  names.zip (kinds.map fun k => match k with | 0 => RestSpec.Field.int 0 | 1 => RestSpec.Field.bool false | _ => RestSpec.Field.str [])

/-- `perturb` of the harness: every field changed (Go's `int` wraps) -/
def perturbEntity (e   : RestSpec.Entity)   : RestSpec.Entity :=
  e.map fun (n, v) => (n, match v with
    | .str s => RestSpec.Field.str (s ++ ['~'])
    | .int i => RestSpec.Field.int (if i = 9223372036854775807 then -9223372036854775808 else i + 1)
    | .bool b => RestSpec.Field.bool !b)

/-- `details.Info` from its field values in declaration order -/
def toInfo (e   : RestSpec.Entity) : Option Info :=
  match (e.map (fun x => x.2) : List RestSpec.Field) with
  | [.str hostname, .int hostPort, .str gameVariant, .str gameVersion, .str gameType, .int numPlayers, .int maxPlayers,
     .str mapName, .bool password, .bool statsEnabled, .int round, .int numRounds, .int timeLeft, .int timeSpecial,
     .int swatScore, .int suspectsScore, .int swatWon, .int suspectsWon, .int bombsDefused, .int bombsTotal,
     .str tocReports, .str weaponsSecured, .str version] =>
    some { hostname, hostPort, gameVariant, gameVersion, gameType, numPlayers, maxPlayers, mapName, password, statsEnabled,
           round, numRounds, timeLeft, timeSpecial, swatScore, suspectsScore, swatWon, suspectsWon, bombsDefused, bombsTotal,
           tocReports, weaponsSecured, version }
  | _ => none

/-- `details.Player` likewise -/
def toPlayer (e   : RestSpec.Entity) : Option Player :=
  match (e.map (fun x => x.2) : List RestSpec.Field) with
  | [.str name, .int score, .int ping, .int team, .bool vip, .int coopStatus, .int kills, .int teamKills, .int deaths,
     .int arrests, .int arrested, .int vipEscapes, .int vipEscapes2, .int vipArrests, .int vipRescues, .int vipKillsValid,
     .int vipKillsInvalid, .int bombsDefused, .bool bombsDetonated, .int caseEscapes, .int caseKills, .bool caseSecured] =>
    some { name, score, ping, team, vip, coopStatus, kills, teamKills, deaths, arrests, arrested, vipEscapes, vipEscapes2,
           vipArrests, vipRescues, vipKillsValid, vipKillsInvalid, bombsDefused, bombsDetonated, caseEscapes, caseKills,
           caseSecured }
  | _ => none

def toObjective (e   : RestSpec.Entity) : Option Objective :=
  match (e.map (fun x => x.2) : List RestSpec.Field) with
  | [.str name, .int status] => some { name, status }
  | _ => none

structure Planted where
  ip : IP4
  port : Int
  status : Nat
  queryPort : Int
  /-- the record as the case line gives it, by position: what the oracle reads -/
  spec : RestSpec.Rec
  /-- the same as the model's record -/
  stored : Stored

/-- `-` or items joined by `;`, each the fields of one struct joined by `,` -/
def parseEntities (names : List String) (kinds : List Nat) (tok : String) : Option (List RestSpec.Entity) :=
  if tok = "-" then some [] else (tok.splitOn ";").mapM fun it => parseEntity names kinds (it.splitOn ",")

def mkPlanted (ip4 : IP4) (p : Int) (w : Nat) (q : Int) (info dinfo : RestSpec.Entity)
    (players objectives : List RestSpec.Entity) : Option Planted := do
  let i ← toInfo info
  let di ← toInfo dinfo
  let ps ← players.mapM toPlayer
  let os ← objectives.mapM toObjective
  pure ⟨ip4, p, w, q, ⟨toQuad ip4, p, info, players, objectives⟩, ⟨⟨ip4, p⟩, i, di, ps, os⟩⟩

/-- a record state: `absent`, the compact form `p:…:<hostnamehex>` (everything but the hostname
zero), the extended form `P:…` (full details value) -/
def parseState (s : String) : Option (Option Planted) :=
  if s = "absent" then some none
  else match s.splitOn ":" with
    | ["p", ip, port, status, qport, host] =>
      match parseIP (Bytes.ofAscii ip), port.toInt?, status.toNat?, qport.toInt?, (hex? host).bind chars? with
      | .ok ip4, some p, some w, some q, some h =>
        let info : RestSpec.Entity :=
          (zeroEntity RestSpec.infoFieldNames RestSpec.infoFieldKinds).map fun (n, v) =>
            if n = "Hostname" then (n, RestSpec.Field.str h) else (n, v)
        (mkPlanted ip4 p w q info info [] []).map some
      | _, _, _, _, _ => none
    | ["P", ip, port, status, qport, info, players, objectives, dimode] =>
      match parseIP (Bytes.ofAscii ip), port.toInt?, status.toNat?, qport.toInt?,
        parseEntity RestSpec.infoFieldNames RestSpec.infoFieldKinds (info.splitOn ","),
        parseEntities RestSpec.playerFieldNames RestSpec.playerFieldKinds players,
        parseEntities RestSpec.objectiveFieldNames RestSpec.objectiveFieldKinds objectives with
      | .ok ip4, some p, some w, some q, some i, some ps, some os =>
        let dinfo? : Option RestSpec.Entity :=
          if dimode = "0" then some i
          else if dimode = "1" then some (zeroEntity RestSpec.infoFieldNames RestSpec.infoFieldKinds)
          else if dimode = "2" then some (perturbEntity i)
          else none
        dinfo?.bind fun di => (mkPlanted ip4 p w q i di ps os).map some
      | _, _, _, _, _, _, _ => none
    | _ => none

def stateFor (pl : Option Planted) (a : Addr) : SrvState :=
  match pl with
  | some p => if p.ip = a.ip ∧ p.port = a.port then .present p.status p.queryPort p.stored else .absent
  | none => .absent

/-- `addr,port,goal,retries,maxretries` of a queued probe -/
def renderProbe (p : ProbeFields) : String := s!"probe:{addrStr p.addr},{p.port},{p.goal},{p.retries},{p.maxRetries}"

/-- the probe is the model's (`Rest.Effect.probe` = `Rest.discoveryProbe` of the effect's address with the harness
world's retry budget); a new record is written before the probe is queued, an existing one is marked after -/
def renderEffect (e : Effect) : String :=
  match e, e.probe maxProbeRetries with
  | .discover created a qp w, some p =>
    if created then s!"new:{addrStr a},{qp},{w}+{renderProbe p}" else s!"{renderProbe p}+upd:{addrStr a},{qp},{w}"
  | _, _ => "none"

/-! ## the canonical body token (`harness/internal/c17/canon.go`) -/

def renderAtom : JAtom → String
  | .str s => "s" ++ Bytes.toHex (utf8 s)
  | .int n => "n" ++ toString n
  | .bool b => if b then "t" else "f"
  | .unmodelled => "?"

/-- an object: the members in document order -/
def renderObj (ms : List (String × JAtom)) : String :=
  "{" ++ ",".intercalate (ms.map fun (k, v) => k ++ ":" ++ renderAtom v) ++ "}"

/-- a slice that is `nil` when empty (`null`) -/
def renderNilSlice (xs : List String) : String :=
  if xs.isEmpty then "z" else "[" ++ ",".intercalate xs ++ "]"

def renderDetail (d : ServerDetailJson) : String :=
  match detailMemberNames with
  | [i, p, o] =>
    "{" ++ i ++ ":" ++ renderObj d.info.members ++ "," ++ p ++ ":" ++ renderNilSlice (d.players.map (renderObj ·.members)) ++
      "," ++ o ++ ":" ++ renderNilSlice (d.objectives.map (renderObj ·.members)) ++ "}"
  | _ => "?"

/-- the elements of the listing sorted as the harness sorts them (the order of the Go answer is that of a
map iteration); `make([]model.Server, 0, n)` is never `nil`: `[]` when empty -/
def renderList (l : List ServerJson) : String :=
  "[" ++ ",".intercalate ((l.map (renderObj ·.members)).mergeSort (· ≤ ·)) ++ "]"

def renderBody : RespBody → String
  | .server sv => renderObj sv.members
  | .detail d => renderDetail d
  | .list l => renderList l

/-- `gin.H{"error": <message>}` in the canonical body syntax -/
def errorBody (msg : String) : String := "{error:s" ++ Bytes.toHex msg.toUTF8.toList ++ "}"

/-- `emptyOn400`: the listing's 400 is `c.Status(400)`, without a body (`Rest.Resp.errorMessage` decides) -/
def renderResp (r : Resp) (emptyOn400 : Bool := false) : List String :=
  let (h, p) := match r.hostnames with
    | some (h, p) => (Bytes.toHexTok (utf8 h), Bytes.toHexTok (utf8 p))
    | none => ("~", "~")
  let body := match r.body with
    | some b => renderBody b
    | none => match r.errorMessage emptyOn400 with
      | some msg => errorBody msg
      | none => "~"
  [toString r.status, h, p, renderEffect r.effect, body]

/-- the structural characters of a canonical token are tokens by themselves, the rest are atoms / names -/
def tokenizeAux : List Char → List Char → List String → List String
  | [], cur, acc => (if cur.isEmpty then acc else String.ofList cur.reverse :: acc).reverse
  | c :: t, cur, acc =>
    if c = '{' ∨ c = '}' ∨ c = '[' ∨ c = ']' ∨ c = ',' ∨ c = ':' then
      tokenizeAux t [] (String.singleton c :: (if cur.isEmpty then acc else String.ofList cur.reverse :: acc))
    else tokenizeAux t (c :: cur) acc

def tokenize (s : String) : List String := tokenizeAux s.toList [] []

/-- compare the model's tokens with the implementation's; `?` (an unmodelled member) matches any one
token.  `none` = equal, `some k` = they differ first at the member named `k` -/
def diffToks : List String → List String → String → Option String
  | [], [], _ => none
  | m :: ms, i :: is, key =>
    if m = i ∨ (m = "?" ∧ i ≠ "{" ∧ i ≠ "[") then
      diffToks ms is (match ms with | ":" :: _ => m | _ => key)
    else some (match ms with | ":" :: _ => m | _ => key)
  | _, _, key => some key

/-- model output vs implementation output: the first four tokens literally, the body with wildcards -/
def sameOutput (m out : List String) : Bool × String :=
  match m, out with
  | [a, b, c, d, mb], [a', b', c', d', ob] =>
    if a ≠ a' ∨ b ≠ b' ∨ c ≠ c' ∨ d ≠ d' then (false, "")
    else match diffToks (tokenize mb) (tokenize ob) "" with
      | none => (true, "")
      | some k => (false, s!"body-differs-at={k} ")
  | _, _ => (m == out, "")

/-! ## oracle -/

/-- addresses named by the items of an effect token -/
def effectAddrs (e : String) : List String :=
  if e = "none" then []
  else (e.splitOn "+").filterMap fun item =>
    match item.splitOn ":" with
    | [kind, ip, rest] =>
      if kind = "new" ∨ kind = "upd" ∨ kind = "probe" then some (ip ++ ":" ++ ((rest.splitOn ",").headD "")) else none
    | _ => none

def routableAddr (s : String) : Bool :=
  match RestSpec.parseAddress s.toList with
  | some (q, p) => RestSpec.routable q && RestSpec.validPort p
  | none => false

/-- nothing was stored or queued under a non-routable address (and nothing unexplained changed) -/
def effectOk (e : String) : Bool :=
  e = "none" || (!(e.splitOn "+").any (fun i => i.startsWith "x:" || i.startsWith "del:" || i = "index-only")
    && (effectAddrs e).all routableAddr && !(effectAddrs e).isEmpty)

def fieldOk (tok : String) (p : List Char → Bool) : Bool :=
  tok = "~" || (match (hex? tok).bind chars? with | some cs => p cs | none => false)

def known (pl : Option Planted) (q : RestSpec.Quad) (port : Nat) : RestSpec.Known :=
  match pl with
  | some p =>
    if toQuad p.ip = q ∧ p.port = (port : Int) then
      ⟨true, hasBit p.status 8, hasBit p.status 128 || hasBit p.status 16, hasBit p.status 256⟩
    else ⟨false, false, false, false⟩
  | none => ⟨false, false, false, false⟩

/-! ### the body against the planted record ("200 with the stored data")

Everything below reads the implementation's canonical body token and `RestSpec.Rec` (the case line's
field values by position) only; nothing goes through `Swat4.Rest`. -/

/-- a scalar token of the canonical form -/
def atomOf (tok : String) : Option RestSpec.Atom :=
  match tok.toList with
  | ['t'] => some (.bool true)
  | ['f'] => some (.bool false)
  | ['z'] => some .null
  | 'n' :: lit => some (.num lit)
  | 's' :: hx => ((Bytes.ofHexChars hx).bind chars?).map .str
  | _ => none

abbrev Toks := List String

def expectTok (t : String) (what : String) : Toks → Except String Toks
  | h :: rest => if h = t then .ok rest else .error s!"{what}(got-{h})"
  | [] => .error s!"{what}(got-end)"

/-- the scalar members `name:atom,name:atom,…` up to the closing brace, as they come -/
def collectMembers : Nat → Toks → List (String × String) → Except String (List (String × String) × Toks)
  | 0, _, _ => .error "members:too-many"
  | fuel + 1, ts, acc =>
    match ts with
    | k :: ":" :: a :: "," :: ts' => collectMembers fuel ts' (acc ++ [(k, a)])
    | k :: ":" :: a :: ts' => .ok (acc ++ [(k, a)], ts')
    | _ => .error "members:truncated"

/-- the members of one object are exactly those of `wants`, each with a value that holds — in ANY order: the order of the
members of a JSON object carries no meaning (the order the handlers write today is pinned separately, by `facts_json_ok`) -/
def checkMembers (path : String) (ip : RestSpec.Quad) (port : Int) (e : RestSpec.Entity)
    (wants : List (String × RestSpec.Want)) (ts : Toks) : Except String Toks :=
  if wants.isEmpty then .ok ts else
  match collectMembers (wants.length + 1) ts [] with
  | .error err => .error s!"{path}{err}"
  | .ok (got, rest) =>
    match wants.find? fun (name, _) => !(got.any fun (k, _) => k == name) with
    | some (name, _) => .error s!"{path}{name}:missing"
    | none =>
      match got.find? fun (k, _) => !(wants.any fun (name, _) => name == k) with
      | some (k, _) => .error s!"{path}{k}:extra-member"
      | none =>
        if got.length ≠ wants.length then .error s!"{path}:duplicate-member"
        else match wants.find? fun (name, w) =>
            match got.find? fun (k, _) => k == name with
            | some (_, a) => (match atomOf a with | some atom => !w.holds ip port e atom | none => true)
            | none => true with
          | some (name, _) => .error s!"{path}{name}"
          | none => .ok rest

/-- `{…}` with exactly the members of `wants` -/
def checkObject (path : String) (ip : RestSpec.Quad) (port : Int) (e : RestSpec.Entity)
    (wants : List (String × RestSpec.Want)) (ts : Toks) : Except String Toks := do
  let ts ← expectTok "{" s!"{path}:not-an-object" ts
  let ts ← checkMembers path ip port e wants ts
  expectTok "}" s!"{path}:extra-member" ts

/-- `null` for no element (Go's `nil` slice), else `[obj,obj,…]`: one object per stored element, in stored order -/
def checkArray (path : String) (ip : RestSpec.Quad) (port : Int) (wants : List (String × RestSpec.Want)) :
    List RestSpec.Entity → Nat → Toks → Except String Toks
  | [], 0, ts => expectTok "z" s!"{path}:not-null-for-none" ts
  | [], _, ts => expectTok "]" s!"{path}:more-elements-than-stored" ts
  | e :: es, n, ts => do
    let ts ← expectTok (if n = 0 then "[" else ",") s!"{path}:fewer-elements-than-stored" ts
    let ts ← checkObject s!"{path}[{n}]." ip port e wants ts
    checkArray path ip port wants es (n + 1) ts

def checkServer (path : String) (r : RestSpec.Rec) (ts : Toks) : Except String Toks :=
  checkObject path r.ip r.port r.info RestSpec.serverWants ts

/-- `model.ServerDetail`: `info`, `players`, `objectives` -/
def checkDetail (r : RestSpec.Rec) (ts : Toks) : Except String Toks :=
  match RestSpec.detailMembers with
  | [i, p, o] => do
    let ts ← expectTok "{" "detail:not-an-object" ts
    let ts ← expectTok i "detail:info" ts
    let ts ← expectTok ":" "detail:info" ts
    let ts ← checkServer "info." r ts
    let ts ← expectTok "," "detail:players" ts
    let ts ← expectTok p "detail:players" ts
    let ts ← expectTok ":" "detail:players" ts
    let ts ← checkArray "players" r.ip r.port RestSpec.playerWants r.players 0 ts
    let ts ← expectTok "," "detail:objectives" ts
    let ts ← expectTok o "detail:objectives" ts
    let ts ← expectTok ":" "detail:objectives" ts
    let ts ← checkArray "objectives" r.ip r.port RestSpec.objectiveWants r.objectives 0 ts
    expectTok "}" "detail:extra-member" ts
  | _ => .error "spec"

def wholeBody (r : Except String Toks) : Bool × String :=
  match r with
  | .ok [] => (true, "")
  | .ok (t :: _) => (false, s!"sig=body:trailing({t})")
  | .error e => (false, s!"sig=body:{e}")

inductive Shape where
  | server | detail

/-- a body that carries nothing but an `error` member with a string value — whatever the text: the property fixes no
message, only that a response other than 200 carries no server data -/
def isErrorOnly (body : String) : Bool :=
  let cs := body.toList
  body.startsWith "{error:s" && body.endsWith "}" &&
    ((cs.drop 8).take (cs.length - 9)).all fun c => c.isDigit || ('a' ≤ c && c ≤ 'f')

/-- the body of an add / view answer: a 200 is the planted record, anything else carries no server data -/
def bodyOracle (shape : Shape) (pl : Option Planted) (code : Nat) (body : String) : Bool × String :=
  if code = 200 then
    match pl with
    | none => (false, "sig=body:200-without-a-stored-record")
    | some p =>
      match shape with
      | .server => wholeBody (checkServer "" p.spec (tokenize body))
      | .detail => wholeBody (checkDetail p.spec (tokenize body))
  else if body = "~" ∨ isErrorOnly body then (true, "")
  else (false, "sig=body:data-without-200")

/-- oracle common to the three HTTP operations, on the implementation's five output tokens -/
def httpOracle (table : List Nat) (expected : Option Nat) (shape : Shape) (pl : Option Planted) (out : List String) :
    Bool × String :=
  match out with
  | [st, html, plain, eff, body] =>
    match st.toNat? with
    | some code =>
      if code ≥ 500 then (false, "sig=status-5xx")
      else if !table.contains code then (false, s!"sig=status-outside-table:{code}")
      else if expected.any (· != code) then (false, s!"sig=wrong-row:expected-{expected.getD 0}")
      else if code = 400 ∧ eff ≠ "none" then (false, "sig=store-effect-on-400")
      else if !effectOk eff then (false, "sig=stored-non-routable")
      else if !fieldOk html RestSpec.Inert then (false, "sig=html-not-inert")
      else if !fieldOk plain RestSpec.NoCodes then (false, "sig=plain-has-codes")
      else if code = 200 ∧ (html = "~" ∨ plain = "~") then (false, "sig=200-without-body")
      else bodyOracle shape pl code body
    | none => (false, "sig=no-status")
  | _ => (false, "sig=bad-output")

def finish (model : Option (List String)) (out : List String) (orc : Bool × String) : Verdict :=
  match model with
  | some m =>
    let (same, where_) := sameOutput m out
    verdict same orc.1 s!"{orc.2} {where_}model={" ".intercalate m}"
  | none => if orc.1 then .agree else .disagreeFails s!"{orc.2} model=unmodelled"

/-! ### the listing -/

structure ListedItem where
  pl : Planted
  /-- seconds since the last refresh; `none`: never refreshed -/
  age : Option Int

def parseListed (tok : String) : Option (List ListedItem) :=
  if tok = "-" then some []
  else (tok.splitOn "|").mapM fun it =>
    match it.splitOn "@" with
    | [st, age] =>
      match parseState st, (if age = "z" then some none else age.toInt?.map some) with
      | some (some pl), some a => some ⟨pl, a⟩
      | _, _ => none
    | _ => none

/-- `~` absent, else the hex of the value -/
def parseParam (tok : String) : Option (Option Bytes) :=
  if tok = "~" then some none else (hex? tok).map some

def addrKey (r : RestSpec.Rec) : String :=
  Bytes.toHex (Bytes.ofAscii s!"{r.ip.a}.{r.ip.b}.{r.ip.c}.{r.ip.d}:{r.port}")

/-- every element against the record the reference selection expects at that place (elements and
expected records both sorted by address) -/
def checkListElems : List RestSpec.Rec → Nat → Toks → Except String Toks
  | [], 0, ts => (expectTok "[" "list:not-an-array" ts).bind (expectTok "]" "list:more-servers-than-selected")
  | [], _, ts => expectTok "]" "list:more-servers-than-selected" ts
  | r :: rs, n, ts => do
    let ts ← expectTok (if n = 0 then "[" else ",") "list:fewer-servers-than-selected" ts
    let ts ← checkServer s!"[{addrKey r}]." r ts
    checkListElems rs (n + 1) ts

/-- `world.DefaultOptions().Liveness` of the harness world, in seconds: `Model/HarnessCfg.lean` -/
def livenessSecs : Int := Harness.livenessSecs

def flagOf (v : Option Bytes) : Option Bool :=
  match v with
  | none => some false
  | some b =>
    let s := String.ofList (latin1 b)
    if RestSpec.flagTrue.contains s then some true else if RestSpec.flagFalse.contains s then some false else none

def listOracle (items : List ListedItem) (gv gver gt : Option (List Char)) (np nf ne : Option Bytes) (out : List String) :
    Bool × String :=
  match out with
  | [st, _, _, eff, body] =>
    match st.toNat? with
    | some code =>
      if code ≥ 500 then (false, "sig=status-5xx")
      else if eff ≠ "none" then (false, "sig=list-changed-store")
      else match flagOf np, flagOf nf, flagOf ne with
        | some p, some f, some e =>
          if code ≠ 200 then (false, s!"sig=wrong-row:expected-200")
          else
            let sel := items.filter fun it =>
              RestSpec.listedLive it.pl.status it.age livenessSecs && RestSpec.listedMatches it.pl.spec.info gv gver gt p f e
            let recs := (sel.map (·.pl.spec)).mergeSort (fun a b => addrKey a ≤ addrKey b)
            wholeBody (checkListElems recs 0 (tokenize body))
        | _, _, _ =>
          if code ≠ 400 then (false, "sig=wrong-row:expected-400")
          else if body ≠ "~" then (false, "sig=body:data-without-200")
          else (true, "")
    | none => (false, "sig=no-status")
  | _ => (false, "sig=bad-output")

def handleCore (args out : List String) : Verdict :=
  match args with
  | ["html", h] =>
    match (hex? h).bind chars?, out with
    | some cs, [o] =>
      let m := Bytes.toHexTok (utf8 (Styles.toHTML cs))
      let ok := fieldOk o RestSpec.Inert && o ≠ "~"
      verdict (m == o) ok s!"sig=html-not-inert model={m}"
    | _, _ => .bad "html: hostname is not valid UTF-8 hex / bad output"
  | ["clean", h] =>
    match (hex? h).bind chars?, out with
    | some cs, [o] =>
      let m := Bytes.toHexTok (utf8 (Styles.clean cs))
      let ok := fieldOk o RestSpec.NoCodes && o ≠ "~"
      verdict (m == o) ok s!"sig=plain-has-codes model={m}"
    | _, _ => .bad "clean: hostname is not valid UTF-8 hex / bad output"
  | ["addr", s] =>
    match hex? s with
    | some b =>
      let m : List String :=
        match andThenPublic (addrFromString b) with
        | .ok a => ["ok", dotted a.ip, toString a.port]
        | .err .invalidIP => ["err-ip"]
        | .err .invalidPort => ["err-port"]
        | .err .invalidPublicIP => ["err-public"]
        | .unmodelled => ["unmodelled"]
      -- oracle: an accepted address is routable by the independent ranges
      let ok := match out with
        | ["ok", ip, port] => routableAddr (ip ++ ":" ++ port)
        | [e] => e.startsWith "err-"
        | _ => false
      verdict (m == out) ok s!"sig=accepted-non-routable model={" ".intercalate m}"
    | none => .bad "addr hex"
  | ["add-ip", st, iph, port] =>
    match parseState st, hex? iph, port.toInt? with
    | some pl, some ipb, some p =>
      let body : Option Body := some (.obj (.str ipb) (.int p))
      let model := body.bind fun b =>
        match parseAddRequest b with
        | .ok a => some (renderResp (addExecute a (stateFor pl a)))
        | .err _ => some (renderResp badRequest)
        | .unmodelled => none
      -- which row of the table applies, decided by the spec-side parser (dotted quads only)
      let expected : Option Nat :=
        if ipb.contains 58 then none
        else match RestSpec.parseQuad (latin1 ipb) with
          | some q =>
            let valid := RestSpec.routable q && RestSpec.validSubmitPort p
            some (RestSpec.addTable valid (known pl q p.toNat))
          | none => some 400
      finish model out (httpOracle RestSpec.addStatuses expected .server pl out)
    | _, _, _ => .bad "add-ip args"
  | ["add", st, bodyh] =>
    match parseState st, hex? bodyh with
    | some pl, some body =>
      let model := (RestJson.decodeBody body).bind fun b =>
        match parseAddRequest b with
        | .ok a => some (renderResp (addExecute a (stateFor pl a)))
        | .err _ => some (renderResp badRequest)
        | .unmodelled => none
      finish model out (httpOracle RestSpec.addStatuses none .server pl out)
    | _, _ => .bad "add args"
  | ["view", st, ah] =>
    match parseState st, hex? ah with
    | some pl, some a =>
      if a.isEmpty ∨ a.contains 47 then
        -- the router answers these (301 redirect / 404 no route); only "no 5xx" applies
        match out with
        | st :: _ => if (st.toNat?.getD 599) < 500 then .agree else .disagreeFails "sig=status-5xx model=router"
        | [] => .bad "view output"
      else
        let model : Option (List String) :=
          match andThenPublic (addrFromString a) with
          | .ok ad => some (renderResp (viewExecute (stateFor pl ad)))
          | .err _ => some (renderResp badRequest)
          | .unmodelled => none
        let expected : Option Nat :=
          match RestSpec.parseAddress (latin1 a) with
          | some (q, p) => some (RestSpec.viewTable (RestSpec.routable q && RestSpec.validPort p) (known pl q p))
          | none => some 400
        let orc := httpOracle RestSpec.viewStatuses expected .detail pl out
        -- a GET never changes the store
        let orc := if orc.1 ∧ out[3]? ≠ some "none" then (false, "sig=view-changed-store") else orc
        finish model out orc
    | _, _ => .bad "view args"
  | ["list", items, gv, gver, gt, np, nf, ne] =>
    match parseListed items, parseParam gv, parseParam gver, parseParam gt, parseParam np, parseParam nf, parseParam ne with
    | some its, some gv, some gver, some gt, some np, some nf, some ne =>
      -- string parameters as code points (the generator writes valid UTF-8 only)
      let cs? (v : Option Bytes) : Option (Option (List Char)) :=
        match v with | none => some none | some b => (chars? b).map some
      match cs? gv, cs? gver, cs? gt with
      | some gv, some gver, some gt =>
        let recs : List Listed := its.map fun it => ⟨it.pl.status, it.age.map (fun a => -a * 1000000000), it.pl.stored⟩
        let r := listServers 0 (livenessSecs * 1000000000) ⟨gv, gver, gt, np, nf, ne⟩ recs
        finish (some (renderResp r true)) out (listOracle its gv gver gt np nf ne out)
      | _, _, _ => .bad "list: a string parameter is not valid UTF-8"
    | _, _, _, _, _, _, _ => .bad "list args"
  | _ => .bad "C17 shape"

/-- `%XX` decoding of a request path segment as `net/url` does it (the generator only writes valid escapes) -/
def hexVal? (c : UInt8) : Option UInt8 :=
  if 48 ≤ c ∧ c ≤ 57 then some (c - 48) else if 65 ≤ c ∧ c ≤ 70 then some (c - 55) else if 97 ≤ c ∧ c ≤ 102 then some (c - 87) else none

def pctDecode : Bytes → Option Bytes
  | [] => some []
  | 37 :: h :: l :: rest =>
    match hexVal? h, hexVal? l, pctDecode rest with
    | some h, some l, some r => some ((h * 16 + l) :: r)
    | _, _, _ => none
  | 37 :: _ => none
  | c :: rest => (pctDecode rest).map (c :: ·)

/-- `viewraw <state> <address> <wire>`: the view request as spelt on the wire with percent-escapes; the answer is that of
`view <state> <address>` (the path parameter is the DECODED segment) -/
def handle (args out : List String) : Verdict :=
  match args with
  | ["viewraw", st, ah, wh] =>
    match hex? ah, (hex? wh).bind pctDecode with
    | some a, some w => if a = w then handleCore ["view", st, ah] out else .bad "viewraw: wire does not decode to the address"
    | _, _ => .bad "viewraw args"
  | _ => handleCore args out

end Swat4.Drv.C17
