import Swat4.Drv.Common
import Swat4.Model.Crypt
import Swat4.Spec.GOA
/-! Driver side of C02: `C02 enc <secret> <challenge> <plaintext> => <ciphertext>` -/
namespace Swat4.Drv.C02
open Swat4 Swat4.Drv

/-- the oracle of C02, evaluated on the implementation's bytes: the SDK decoder recovers the
plaintext and the length is plaintext + 23 -/
def oracle (secret chal plain out : Bytes) : Bool :=
  GOA.refDecrypt secret chal out == some plain && out.length == plain.length + 23

/-- recover the 23 `RandInt` draws from the emitted header (`out[i] ^ secret[i%6] ^ chal[i%8]`);
positions 0, 1, 2, 8 are overwritten by `Encrypt` and do not influence the output -/
def recoverRnd (secret chal out : Bytes) : Bytes :=
  (List.range 23).map fun i => out.getD i 0 ^^^ secret.getD (i % 6) 0 ^^^ chal.getD (i % 8) 0

/-- does the key setup reach `shuffle`'s 12th pass (eleven rejected draws in a row) with a raw draw EQUAL to the limit?
(the SDK folds it to 0 there; a rewrite that tests `u <= limit` first keeps it) — used to find corpus cases -/
def cornerLoop (cards : Crypt.Cards) (key : Crypt.Key) (limit mask : UInt8) : Nat → Nat → UInt8 → UInt8 → Bool × UInt8 × UInt8 × UInt8
  | 0, _, rsum, keypos => (false, 0, rsum, keypos)
  | fuel + 1, retries, rsum, keypos =>
    let raw := Crypt.shuffleIter cards key limit mask 1 rsum keypos        -- retries = 1: never reduced
    let r := Crypt.shuffleIter cards key limit mask (retries + 1) rsum keypos
    let hit := retries + 1 ≥ 12 && raw.1 == limit
    if r.1 ≤ limit then (hit, r.1, r.2.1, r.2.2)
    else
      let rest := cornerLoop cards key limit mask fuel (retries + 1) r.2.1 r.2.2
      (hit || rest.1, rest.2.1, rest.2.2.1, rest.2.2.2)

def cornerInit (key : Crypt.Key) : Nat → Crypt.Cards → UInt8 → UInt8 → Bool
  | 0, _, _, _ => false
  | n + 1, cards, rsum, keypos =>
    let limit := UInt8.ofNat n
    if limit = 0 then false else
    let (hit, toswap, rsum, keypos) := cornerLoop cards key limit (Crypt.goMask limit) 13 0 rsum keypos
    let i := UInt8.ofNat n
    let ci := Crypt.cget cards i
    let ct := Crypt.cget cards toswap
    hit || cornerInit key n (Crypt.cset (Crypt.cset cards i ct) toswap ci) rsum keypos

def handle (args out : List String) : Verdict :=
  match (match args with | "encs" :: _ :: rest => "enc" :: rest | a => a), out with
  | ["encscan", _, s, c, _], [o] =>
    (match hex? s, hex? c, hex? o with
     | some s, some c, some o =>
       (match toVec? 6 s, toVec? 8 c, toVec? 23 (recoverRnd s c o) with
        | some sv, some cv, some rv => if cornerInit (Crypt.cryptKey sv cv rv) 256 Crypt.identityCards 0 0 then .disagreeHolds "corner" else .agree
        | _, _, _ => .bad "lengths")
     | _, _, _ => .bad "hex")
  | ["enc", s, c, p], [o] =>
    match hex? s, hex? c, hex? p, hex? o with
    | some s, some c, some p, some o =>
      match toVec? 6 s, toVec? 8 c, toVec? 23 (recoverRnd s c o) with
      | some sv, some cv, some rv =>
        let model := Crypt.encrypt? sv cv rv p
        -- the SDK treats the secret as a C string: the theorem's hypothesis
        let inScope := s.all (· ≠ 0)
        let ok := oracle s c p o
        if inScope then verdict (model == some o) ok s!"model={(model.map Bytes.toHexTok).getD "none"}"
        else verdict (model == some o) true "secret-with-nul:oracle-skipped"
      | _, _, _ => .bad "lengths"
    | _, _, _, _ => .bad "hex"
  | _, _ => .bad "C02 shape"

end Swat4.Drv.C02
