import Swat4.Drv.Common
import Swat4.Model.Crypt
import Swat4.Spec.GOA
/-! Driver side of C02: `C02 enc <secret> <challenge> <plaintext> => <ciphertext>` -/
namespace Swat4.Drv.C02
open Swat4 Swat4.Drv

/-- the oracle of C02, evaluated on the implementation's bytes: the SDK decoder recovers the
plaintext and the length is plaintext + 23 -/
def oracle (secret chal plain out : Bytes) : Bool :=
  GOA.refDecrypt secret chal out == some plain && out.length == plain.length + 23

/-- recover the 23 `RandInt` draws from the emitted header (`out[i] ^ secret[i%6] ^ chal[i%8]`);
positions 0, 1, 2, 8 are overwritten by `Encrypt` and do not influence the output -/
def recoverRnd (secret chal out : Bytes) : Bytes :=
  (List.range 23).map fun i => out.getD i 0 ^^^ secret.getD (i % 6) 0 ^^^ chal.getD (i % 8) 0

def handle (args out : List String) : Verdict :=
  match args, out with
  | ["enc", s, c, p], [o] =>
    match hex? s, hex? c, hex? p, hex? o with
    | some s, some c, some p, some o =>
      match toVec? 6 s, toVec? 8 c, toVec? 23 (recoverRnd s c o) with
      | some sv, some cv, some rv =>
        let model := Crypt.encrypt? sv cv rv p
        -- the SDK treats the secret as a C string: the theorem's hypothesis
        let inScope := s.all (· ≠ 0)
        let ok := oracle s c p o
        if inScope then verdict (model == some o) ok s!"model={(model.map Bytes.toHexTok).getD "none"}"
        else verdict (model == some o) true "secret-with-nul:oracle-skipped"
      | _, _, _ => .bad "lengths"
    | _, _, _, _ => .bad "hex"
  | _, _ => .bad "C02 shape"

end Swat4.Drv.C02
