import Mathlib.Analysis.Complex.ExponentialBounds
import Swat4.Model.UseCases.Discovery
/-!
# `expFloor n = ⌊e^n⌋` for the retry counts of the property's quantifier (n ≤ 5), without floating point

From Mathlib's rational bounds `2.7182818283 < e < 2.7182818286` and monotonicity of powers.
-/
namespace Swat4.C13Run
open Swat4.UC

theorem exp_nat_bounds (n : ℕ) :
    (2.7182818283 : ℝ) ^ n ≤ Real.exp n ∧ Real.exp n ≤ (2.7182818286 : ℝ) ^ n := by
  have hlo := Real.exp_one_gt_d9
  have hhi := Real.exp_one_lt_d9
  rw [← Real.exp_one_pow n]
  exact ⟨pow_le_pow_left₀ (by norm_num) hlo.le n, pow_le_pow_left₀ (Real.exp_pos 1).le hhi.le n⟩

/-- the model's table entry is the integer part of `e^n`: `expFloor n ≤ e^n < expFloor n + 1` for `n ≤ 5` -/
theorem expFloor_brackets_exp (n : ℕ) (hn : n ≤ 5) :
    ((expFloor (n : Int) : Int) : ℝ) ≤ Real.exp n ∧ Real.exp n < ((expFloor (n : Int) : Int) : ℝ) + 1 := by
  obtain ⟨hlo, hhi⟩ := exp_nat_bounds n
  have hcases : n = 0 ∨ n = 1 ∨ n = 2 ∨ n = 3 ∨ n = 4 ∨ n = 5 := by omega
  rcases hcases with rfl | rfl | rfl | rfl | rfl | rfl
  · have e : expFloor (((0 : ℕ) : Int)) = 1 := by decide
    rw [e]
    exact ⟨le_trans (by norm_num) hlo, lt_of_le_of_lt hhi (by norm_num)⟩
  · have e : expFloor (((1 : ℕ) : Int)) = 2 := by decide
    rw [e]
    exact ⟨le_trans (by norm_num) hlo, lt_of_le_of_lt hhi (by norm_num)⟩
  · have e : expFloor (((2 : ℕ) : Int)) = 7 := by decide
    rw [e]
    exact ⟨le_trans (by norm_num) hlo, lt_of_le_of_lt hhi (by norm_num)⟩
  · have e : expFloor (((3 : ℕ) : Int)) = 20 := by decide
    rw [e]
    exact ⟨le_trans (by norm_num) hlo, lt_of_le_of_lt hhi (by norm_num)⟩
  · have e : expFloor (((4 : ℕ) : Int)) = 54 := by decide
    rw [e]
    exact ⟨le_trans (by norm_num) hlo, lt_of_le_of_lt hhi (by norm_num)⟩
  · have e : expFloor (((5 : ℕ) : Int)) = 148 := by decide
    rw [e]
    exact ⟨le_trans (by norm_num) hlo, lt_of_le_of_lt hhi (by norm_num)⟩

/-- equivalently, with Mathlib's floor -/
theorem expFloor_eq_floor_exp (n : ℕ) (hn : n ≤ 5) : ⌊Real.exp n⌋ = expFloor (n : Int) := by
  obtain ⟨h1, h2⟩ := expFloor_brackets_exp n hn
  exact Int.floor_eq_iff.mpr ⟨h1, h2⟩

end Swat4.C13Run
