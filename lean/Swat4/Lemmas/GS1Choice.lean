import Swat4.Model.GS1
/-! Lemmas about the port prober's running comparison (`compareResponses` folded over arrivals). -/
namespace Swat4.GS1
open Swat4

theorem Ver.toNat_inj {a b : Ver} (h : a.toNat = b.toNat) : a = b := by
  cases a <;> cases b <;> first | rfl | cases h

/-- the surviving version is the maximum of all versions seen -/
theorem foldl_compare_ver (l : List (Ver × Int)) (b : Ver × Int) :
    (l.foldl compareResponses b).1.toNat = l.foldl (fun m x => max m x.1.toNat) b.1.toNat := by
  induction l generalizing b with
  | nil => rfl
  | cons x t ih =>
    simp only [List.foldl_cons, ih]
    congr 1
    unfold compareResponses
    split <;> omega

theorem foldl_max_ge (l : List (Ver × Int)) (m : Nat) :
    m ≤ l.foldl (fun m x => max m x.1.toNat) m ∧ ∀ x ∈ l, x.1.toNat ≤ l.foldl (fun m x => max m x.1.toNat) m := by
  induction l generalizing m with
  | nil => simp
  | cons y t ih =>
    simp only [List.foldl_cons, List.mem_cons]
    have := ih (max m y.1.toNat)
    refine ⟨by omega, ?_⟩
    intro x hx
    rcases hx with rfl | hx
    · omega
    · exact this.2 x hx

/-- the survivor is the initial candidate or one of the arrivals -/
theorem foldl_compare_mem (l : List (Ver × Int)) (b : Ver × Int) :
    l.foldl compareResponses b = b ∨ l.foldl compareResponses b ∈ l := by
  induction l generalizing b with
  | nil => exact .inl rfl
  | cons x t ih =>
    simp only [List.foldl_cons, List.mem_cons]
    rcases ih (compareResponses b x) with h | h
    · rw [h]
      unfold compareResponses
      split
      · exact .inl rfl
      · exact .inr (.inl rfl)
    · exact .inr (.inr h)

/-- starting from the zero response, the first arrival always replaces it -/
theorem compare_zero (x : Ver × Int) (p : Int) : compareResponses (.unknown, p) x = x := by
  unfold compareResponses
  have : ¬ Ver.unknown.toNat > x.1.toNat := by simp [Ver.toNat]
  simp [this]

/-- the running comparison, positionally: either the initial candidate survives and beats every
arrival strictly, or the survivor is an arrival `x` with nothing more capable before it and
nothing as capable after it ("most capable; tie → latest") -/
theorem foldl_compare_split (l : List (Ver × Int)) (b : Ver × Int) :
    (l.foldl compareResponses b = b ∧ ∀ y ∈ l, y.1.toNat < b.1.toNat) ∨
    ∃ pre x post, l = pre ++ x :: post ∧ l.foldl compareResponses b = x ∧ b.1.toNat ≤ x.1.toNat ∧
      (∀ y ∈ pre, y.1.toNat ≤ x.1.toNat) ∧ (∀ y ∈ post, y.1.toNat < x.1.toNat) := by
  induction l generalizing b with
  | nil => exact .inl ⟨rfl, by simp⟩
  | cons x t ih =>
    simp only [List.foldl_cons]
    by_cases hgt : b.1.toNat > x.1.toNat
    · have hc : compareResponses b x = b := by simp [compareResponses, hgt]
      rw [hc]
      rcases ih b with ⟨h1, h2⟩ | ⟨pre, z, post, h1, h2, h3, h4, h5⟩
      · refine .inl ⟨h1, ?_⟩
        intro y hy
        rcases List.mem_cons.mp hy with rfl | hy
        · exact hgt
        · exact h2 y hy
      · refine .inr ⟨x :: pre, z, post, by simp [h1], h2, h3, ?_, h5⟩
        intro y hy
        rcases List.mem_cons.mp hy with rfl | hy
        · omega
        · exact h4 y hy
    · have hc : compareResponses b x = x := by simp [compareResponses, hgt]
      rw [hc]
      rcases ih x with ⟨h1, h2⟩ | ⟨pre, z, post, h1, h2, h3, h4, h5⟩
      · exact .inr ⟨[], x, t, rfl, h1, by omega, by simp, h2⟩
      · refine .inr ⟨x :: pre, z, post, by simp [h1], h2, by omega, ?_, h5⟩
        intro y hy
        rcases List.mem_cons.mp hy with rfl | hy
        · exact h3
        · exact h4 y hy

end Swat4.GS1
