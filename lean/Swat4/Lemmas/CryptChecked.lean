import Swat4.Lemmas.Crypt
/-!
# The cipher's one data-dependent key index is always in range (C02 / C06, reviewer W6)

`Crypt.kget k i := k[i.toNat % 8]` makes the Go expression `cryptKey[keypos]` (state.go, `shuffle`)
total by reducing the index modulo 8.  Go does no such reduction: `cryptKey` is a `[]byte` of length
8 and an index ≥ 8 is a run-time panic.  This file repeats the key schedule with the index *checked*
(`kgetC` is `none` outside `0..7`, and that `none` propagates like the panic would) and proves that the
checked schedule is the model's on every key — so `keypos < 8` at every use, the `% 8` never changes the
index, and `newCipherState` cannot panic on `cryptKey[keypos]`.  (`kget` has no other use in the model:
`encryptByte`/`decryptByte` index only the 256-card deck with `uint8`s.)
-/
namespace Swat4.Crypt

/-- Go `cryptKey[keypos]` with the bounds check Go performs: `none` = index out of range (panic) -/
def kgetC (k : Key) (i : UInt8) : Option UInt8 := k.toList[i.toNat]?

/-- `shuffleIter` with the key index checked -/
def shuffleIterC (cards : Cards) (key : Key) (limit mask : UInt8) (retries : Nat) (rsum keypos : UInt8) :
    Option (UInt8 × UInt8 × UInt8) :=
  match kgetC key keypos with
  | none => none
  | some kv =>
    let rsum1 := cget cards rsum + kv
    let wrap : Bool := keypos + 1 ≥ 8
    let keypos' := if wrap then 0 else keypos + 1
    let rsum' := if wrap then rsum1 + 8 else rsum1
    let u := mask &&& rsum'
    some (if retries > 11 then u % limit else u, rsum', keypos')

/-- `shuffleLoop` over `shuffleIterC` (`none` = fuel exhausted *or* index out of range) -/
def shuffleLoopC (cards : Cards) (key : Key) (limit mask : UInt8) :
    Nat → Nat → UInt8 → UInt8 → Option (UInt8 × UInt8 × UInt8)
  | 0, _, _, _ => none
  | fuel + 1, retries, rsum, keypos =>
    match shuffleIterC cards key limit mask (retries + 1) rsum keypos with
    | none => none
    | some r => if r.1 ≤ limit then some r else shuffleLoopC cards key limit mask fuel (retries + 1) r.2.1 r.2.2

def shuffleC (cards : Cards) (key : Key) (limit rsum keypos : UInt8) : Option (UInt8 × UInt8 × UInt8) :=
  if limit = 0 then some (0, rsum, keypos)
  else shuffleLoopC cards key limit (goMask limit) 12 0 rsum keypos

def initLoopC (key : Key) : Nat → Cards → UInt8 → UInt8 → Option (Cards × UInt8)
  | 0, cards, rsum, _ => some (cards, rsum)
  | n + 1, cards, rsum, keypos =>
    match shuffleC cards key (UInt8.ofNat n) rsum keypos with
    | none => none
    | some (toswap, rsum, keypos) =>
      let i := UInt8.ofNat n
      let ci := cget cards i
      let ct := cget cards toswap
      let cards := cset (cset cards i ct) toswap ci
      initLoopC key n cards rsum keypos

/-- `newCipherState` with `cryptKey[keypos]` checked -/
def newCipherStateC? (key : Key) : Option CipherState :=
  match initLoopC key 256 identityCards 0 0 with
  | none => none
  | some (cards, rsum) =>
    some { cards, rotor := cget cards 1, ratchet := cget cards 3, avalanche := cget cards 5,
           lastPlain := cget cards 7, lastCipher := cget cards rsum }

/-- in range, the checked read is the model's read: the `% 8` in `kget` is the identity there -/
theorem kgetC_of_lt (k : Key) (i : UInt8) (h : i.toNat < 8) : kgetC k i = some (kget k i) := by
  unfold kgetC kget
  have hm : i.toNat % 8 = i.toNat := Nat.mod_eq_of_lt h
  rw [List.getElem?_eq_getElem (by simpa using h)]
  simp [hm]

/-- out of range the checked read fails (so the agreement below is not vacuous) -/
theorem kgetC_of_ge (k : Key) (i : UInt8) (h : 8 ≤ i.toNat) : kgetC k i = none := by
  unfold kgetC
  exact List.getElem?_eq_none (by simpa using h)

theorem shuffleIterC_eq (cards : Cards) (key : Key) (limit mask : UInt8) (tries : Nat) (rsum kp : UInt8)
    (hk : kp.toNat < 8) :
    shuffleIterC cards key limit mask tries rsum kp = some (shuffleIter cards key limit mask tries rsum kp) := by
  unfold shuffleIterC shuffleIter
  rw [kgetC_of_lt key kp hk]

theorem shuffleLoopC_eq (cards : Cards) (key : Key) (limit mask : UInt8) (fuel tries : Nat) (rsum kp : UInt8)
    (hk : kp.toNat < 8) :
    shuffleLoopC cards key limit mask fuel tries rsum kp = shuffleLoop cards key limit mask fuel tries rsum kp := by
  induction fuel generalizing tries rsum kp with
  | zero => rfl
  | succ f ih =>
    unfold shuffleLoopC shuffleLoop
    rw [shuffleIterC_eq _ _ _ _ _ _ _ hk]
    simp only
    split
    · rfl
    · exact ih _ _ _ (iter_keypos_lt cards key limit mask (tries + 1) rsum kp hk)

theorem shuffleC_eq (cards : Cards) (key : Key) (limit rsum kp : UInt8) (hk : kp.toNat < 8) :
    shuffleC cards key limit rsum kp = shuffle cards key limit rsum kp := by
  unfold shuffleC shuffle
  split
  · rfl
  · exact shuffleLoopC_eq _ _ _ _ _ _ _ _ hk

theorem initLoopC_eq (key : Key) (n : Nat) (cards : Cards) (rsum kp : UInt8) (hk : kp.toNat < 8) :
    initLoopC key n cards rsum kp = initLoop key n cards rsum kp := by
  induction n generalizing cards rsum kp with
  | zero => rfl
  | succ i ih =>
    unfold initLoopC initLoop
    rw [shuffleC_eq _ _ _ _ _ hk]
    cases hs : shuffle cards key (UInt8.ofNat i) rsum kp with
    | none => rfl
    | some r =>
      obtain ⟨t, rs, kp'⟩ := r
      exact ih _ _ _ (shuffle_keypos_lt cards key (UInt8.ofNat i) rsum kp hk _ hs)

theorem newCipherStateC?_eq (key : Key) : newCipherStateC? key = newCipherState? key := by
  unfold newCipherStateC? newCipherState?
  rw [initLoopC_eq key 256 identityCards 0 0 (by decide)]
  cases initLoop key 256 identityCards 0 0 with
  | none => rfl
  | some r => rfl

end Swat4.Crypt
