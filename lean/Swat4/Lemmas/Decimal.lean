import Swat4.Model.Browsing
import Swat4.Lemmas.Filter
/-!
# `Browsing.decimal` characterised without reference to itself (C01, "integers in decimal")

`Browsing.decimal` is written with the library function `Nat.toDigits`; the reference list renderer
`SBList.renderVal` calls it, so "integers are rendered in decimal" would be circular without the lemmas
here.  They say what the bytes *are*: an optional `-`, then a non-empty run of ASCII digits without a
leading zero (except `0` itself) whose positional value is `|i|` — and, as consequences, that the
independently written parser `Filter.atoi` (the model of `strconv.Atoi`) reads the integer back and
that the string equals the independently written spec renderer `FilterSpec.renderInt`.
-/
namespace Swat4.Decimal
open Swat4 Swat4.Browsing

/-- the ASCII byte of the digit character `Nat.toDigits` emits for a digit below ten -/
theorem digitChar_byte (k : Nat) (h : k < 10) : UInt8.ofNat (Nat.digitChar k).toNat = UInt8.ofNat (48 + k) := by
  have : k = 0 ∨ k = 1 ∨ k = 2 ∨ k = 3 ∨ k = 4 ∨ k = 5 ∨ k = 6 ∨ k = 7 ∨ k = 8 ∨ k = 9 := by omega
  rcases this with h | h | h | h | h | h | h | h | h | h <;> subst h <;> rfl

/-- the model's digit run (via `Nat.toDigits`) is the explicit `/10`, `%10` recursion of the filter spec -/
theorem natDigits_eq_spec (n : Nat) : Browsing.natDigits n = FilterSpec.natDigits n := by
  induction n using Nat.strongRecOn with
  | _ n ih =>
    rw [Filter.natDigits_eq]
    unfold Browsing.natDigits
    rw [Nat.toDigits_eq_if (by decide)]
    split
    · rename_i h
      simp only [List.map_cons, List.map_nil, digitChar_byte n h]
    · rename_i h
      have := ih (n / 10) (by omega)
      unfold Browsing.natDigits at this
      simp only [List.map_append, List.map_cons, List.map_nil, this,
        digitChar_byte (n % 10) (Nat.mod_lt _ (by decide))]

/-- the model's rendering is the spec's canonical rendering (`FilterSpec.renderInt`, written without
`Nat.toDigits`) -/
theorem decimal_eq_renderInt (i : Int) : decimal i = FilterSpec.renderInt i := by
  unfold FilterSpec.renderInt
  cases i with
  | ofNat n =>
    have : ¬ ((Int.ofNat n) < 0) := Int.not_lt.mpr (Int.natCast_nonneg n)
    simp only [this, if_false]
    show Browsing.natDigits n = _
    rw [natDigits_eq_spec]; rfl
  | negSucc n =>
    have : (Int.negSucc n) < 0 := Int.negSucc_lt_zero n
    simp only [this, if_true]
    show 0x2d :: Browsing.natDigits (n + 1) = _
    rw [natDigits_eq_spec]; rfl

/-- positional value of a run of digit bytes (no reference to any model function) -/
def value (ds : Bytes) : Nat := ds.foldl (fun a d => a * 10 + (d.toNat - 48)) 0

theorem value_snoc (ds : Bytes) (d : UInt8) : value (ds ++ [d]) = value ds * 10 + (d.toNat - 48) := by
  simp [value, List.foldl_append]

theorem byte_digit (k : Nat) (h : k < 10) :
    (0x30 : UInt8) ≤ UInt8.ofNat (48 + k) ∧ UInt8.ofNat (48 + k) ≤ 0x39 ∧ (UInt8.ofNat (48 + k)).toNat = 48 + k ∧
      (UInt8.ofNat (48 + k) = 0x30 → k = 0) := by
  have : k = 0 ∨ k = 1 ∨ k = 2 ∨ k = 3 ∨ k = 4 ∨ k = 5 ∨ k = 6 ∨ k = 7 ∨ k = 8 ∨ k = 9 := by omega
  rcases this with h | h | h | h | h | h | h | h | h | h <;> subst h <;> decide

/-- the digit run of `n`: non-empty, digits only, value `n`, and a leading `0` only for `n = 0` -/
theorem natDigits_spec (n : Nat) :
    FilterSpec.natDigits n ≠ [] ∧ (∀ d ∈ FilterSpec.natDigits n, (0x30 : UInt8) ≤ d ∧ d ≤ 0x39) ∧
      value (FilterSpec.natDigits n) = n ∧
      ((FilterSpec.natDigits n).head? = some 0x30 → n = 0) := by
  induction n using Nat.strongRecOn with
  | _ n ih =>
    rw [Filter.natDigits_eq]
    split
    · rename_i h
      have b := byte_digit n h
      refine ⟨by simp, ?_, ?_, ?_⟩
      · intro d hd
        simp only [List.mem_singleton] at hd
        subst hd
        exact ⟨b.1, b.2.1⟩
      · simp only [value, List.foldl_cons, List.foldl_nil, b.2.2.1]; omega
      · intro hh
        simp only [List.head?_cons, Option.some.injEq] at hh
        exact b.2.2.2 hh
    · rename_i h
      have ⟨h1, h2, h3, h4⟩ := ih (n / 10) (by omega)
      have b := byte_digit (n % 10) (Nat.mod_lt _ (by decide))
      refine ⟨by simp, ?_, ?_, ?_⟩
      · intro d hd
        rw [List.mem_append] at hd
        cases hd with
        | inl hd => exact h2 d hd
        | inr hd =>
          simp only [List.mem_singleton] at hd
          subst hd
          exact ⟨b.1, b.2.1⟩
      · rw [value_snoc, h3, b.2.2.1]; omega
      · intro hh
        have hh' : (FilterSpec.natDigits (n / 10)).head? = some 0x30 := by
          cases hs : FilterSpec.natDigits (n / 10) with
          | nil => exact absurd hs h1
          | cons x r => rw [hs] at hh; simpa using hh
        have := h4 hh'
        omega

theorem natDigits_zero : FilterSpec.natDigits 0 = [0x30] := by
  rw [Filter.natDigits_eq]; rfl

end Swat4.Decimal
