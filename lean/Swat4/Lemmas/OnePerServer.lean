import Swat4.Spec.Registry
/-!
# One probe per selected server (helper lemmas for C15 `refresh_one_per_server` / `revive_one_per_server`)

`Keyed s`: every registry row is stored under the key of its own address (the C10 / C09 invariant `keyed`, on the
specification state).  Under it the records a `Filter` returns have pairwise different addresses, so a list built by
mapping over them contains, for every address, exactly one element (selected) or none.
-/
namespace Swat4
open Std

/-- every registry row sits under the key of its own address: no address occurs in two rows -/
def Keyed (s : AbsState) : Prop :=
  ∀ (k : Nat) (row : SRow), s.servers[k]? = some row → row.svr.addr.key = k

/-- in a list whose `g`-images are pairwise different, the elements with image `b` are exactly one, or none -/
theorem filter_length_of_nodup {α β : Type} [DecidableEq β] (g : α → β) :
    ∀ (l : List α), (l.map g).Nodup → ∀ b : β,
      (l.filter fun x => decide (g x = b)).length = if b ∈ l.map g then 1 else 0
  | [], _, b => by simp
  | x :: xs, h, b => by
    rw [List.map_cons, List.nodup_cons] at h
    have ih := filter_length_of_nodup g xs h.2 b
    by_cases hx : g x = b
    · have hnot : b ∉ xs.map g := hx ▸ h.1
      rw [if_neg hnot] at ih
      rw [List.filter_cons_of_pos (by simpa using hx), List.length_cons, ih]
      simp [hx]
    · rw [List.filter_cons_of_neg (by simpa using hx), ih]
      have : (b ∈ (x :: xs).map g) ↔ b ∈ xs.map g := by
        simp only [List.map_cons, List.mem_cons]
        constructor
        · rintro (h' | h')
          · exact absurd h'.symm hx
          · exact h'
        · exact Or.inr
      simp only [this]

theorem nodup_keys_toList' {β : Type} (m : ExtTreeMap Nat β) : (m.toList.map (·.1)).Nodup := by
  rw [List.nodup_iff_pairwise_ne, List.pairwise_map]
  exact (ExtTreeMap.distinct_keys_toList).imp (fun h => by simpa [compare_eq_iff_eq] using h)

/-- under `Keyed` the records a filtered query returns have pairwise different addresses -/
theorem filter_addr_nodup {s : AbsState} (hk : Keyed s) (fs : FilterSet) : ((s.filter fs).map (·.addr)).Nodup := by
  have hkeys : ((s.filter fs).map fun sv => sv.addr.key).Nodup := by
    unfold AbsState.filter
    rw [List.map_map]
    have : (s.servers.toList.filter fun kv => fs.pred kv.2).map ((fun sv : Server => sv.addr.key) ∘ fun kv => kv.2.svr) =
        (s.servers.toList.filter fun kv => fs.pred kv.2).map (·.1) := by
      apply List.map_congr_left
      intro kv hkv
      have hm := (List.mem_filter.1 hkv).1
      exact hk kv.1 kv.2 ((ExtTreeMap.mem_toList_iff_getElem?_eq_some).1 hm)
    rw [this]
    exact ((List.filter_sublist (l := s.servers.toList)).map (·.1)).nodup (nodup_keys_toList' _)
  have : ((s.filter fs).map fun sv => sv.addr.key) = ((s.filter fs).map (·.addr)).map Addr.key := by
    rw [List.map_map]; rfl
  rw [this] at hkeys
  rw [List.nodup_iff_pairwise_ne] at hkeys ⊢
  exact List.Pairwise.of_map Addr.key (fun a b hne hab => hne (by rw [hab])) hkeys

end Swat4
