import Swat4.Lemmas.LockFencing
import Swat4.Lemmas.StoreRefine
/-!
# The interleaved system refines the versioned-map specification (bridge C09 ↔ C11)

`Lemmas/LockFencing.lean` shows that every accepted `EXEC` of the interleaved system `Sys` decided —
with the model function `decideOp` — on the row the sequential replay of the earlier commits leaves
(`LogInv`).  `Lemmas/StoreRefine.lean` shows that `decideOp` + batch is the specification's
`add / update / remove` (`decideApply_refines`, via the abstraction relation `Rel`).  This file
composes the two: after any schedule the store is related, by `Rel`, to the specification state
obtained by folding `specWrite` over the committed operations in commit order, and every committed
call returns the specification's result.  It also characterises what a listing can see.
-/
namespace Swat4
open Std

/-- the clock reading a batch carries (`save` stamps `servers:updated` with it; a `remove` batch carries
none, and the specification's `remove` does not use the clock) -/
def Batch.now : Batch → Int
  | .save _ now => now
  | .remove _ => 0

/-- `decideOp` passes the clock reading through to the batch unchanged (and a `remove` decision does not
depend on it): the decision can be re-stated at the batch's own clock reading -/
theorem decide_now {op : WOp} {ex : Option Server} {now : Int} {b : Batch} {r : WResult}
    (h : decideOp op ex now = .inr (b, r)) : decideOp op ex b.now = .inr (b, r) := by
  unfold decideOp at h ⊢
  split at h
  · cases h; rfl
  · split at h
    · cases h
    · rename_i r' hr
      cases h
      rfl
  · cases h
  · split at h
    · rename_i hv
      split at h
      · cases h
      · rename_i r' hr
        cases h
        simp only [hv, if_true]; rfl
    · rename_i hv
      cases h
      simp only [hv, if_false]; rfl
  · cases h
  · split at h
    · rename_i hv
      split at h
      · cases h
      · rename_i r' hr
        cases h
        simp only [hv, if_true]
    · rename_i hv
      cases h
      simp only [hv, if_false]

/-- the operation of the call behind a log entry together with the clock reading of its batch -/
def Sys.opOf (s : Sys) (c : Commit) : Option (Int × WOp) :=
  match s.clients[c.client]? with
  | some (.writer w) => some (c.batch.now, w.op)
  | _ => none

/-- the committed operations of a run in commit order, each with the clock reading its batch was stamped with -/
def Sys.committedOps (s : Sys) : List (Int × WOp) := s.log.filterMap s.opOf

/-- the specification state after a list of write operations applied one after another -/
def specFold (a0 : AbsState) (ops : List (Int × WOp)) : AbsState :=
  ops.foldl (fun a p => (specWrite a p.1 p.2).1) a0

theorem specFold_append (a0 : AbsState) (xs ys : List (Int × WOp)) :
    specFold a0 (xs ++ ys) = specFold (specFold a0 xs) ys := by
  simp [specFold, List.foldl_append]

theorem Rel.of_rows {st st' : RStore} {a : AbsState} (h : Rel st a) (hr : st'.RowsEq st) : Rel st' a :=
  h.congr hr.1 hr.2.1

/-- what the `n`-th log entry says in terms of the specification: its writer has decided, at the batch's clock
reading, exactly the specification's step on the state the first `n` committed operations produce -/
theorem loginv_entry_spec {st0 : RStore} {s : Sys} (hl : LogInv st0 s) {a : AbsState} (n : Nat) (c : Commit)
    (hn : s.log[n]? = some c) (hrel : Rel (replay st0 (s.log.take n)) a) :
    ∃ (w : Writer) (r : WResult), s.clients[c.client]? = some (.writer w) ∧ w.committed = true ∧ w.pc.fin? = some r ∧
      s.opOf c = some (c.batch.now, w.op) ∧
      Rel (c.batch.apply (replay st0 (s.log.take n))) (specWrite a c.batch.now w.op).1 ∧
      r = (specWrite a c.batch.now w.op).2 := by
  obtain ⟨w, now, r, hc, hcm, hfin, hbefore, hd, _⟩ := hl.entries n c hn
  refine ⟨w, r, hc, hcm, hfin, ?_, ?_⟩
  · simp only [Sys.opOf, hc]
  · have hd' : decideOp w.op ((replay st0 (s.log.take n)).items[w.op.svr.addr.key]?) c.batch.now = .inr (c.batch, r) := by
      have := decide_now hd
      rw [hbefore] at this
      exact this
    have href := decideApply_refines hrel c.batch.now w.op
    have heq : decideApply (replay st0 (s.log.take n)) c.batch.now w.op = (c.batch.apply (replay st0 (s.log.take n)), r) := by
      simp only [decideApply, hd']
    rw [heq] at href
    exact href

/-- the replay of the first `n` commits is related to the specification state after the first `n` committed operations -/
theorem loginv_prefix_spec {st0 : RStore} {s : Sys} (hl : LogInv st0 s) {a0 : AbsState} (hrel : Rel st0 a0) (n : Nat) :
    Rel (replay st0 (s.log.take n)) (specFold a0 ((s.log.take n).filterMap s.opOf)) := by
  induction n with
  | zero => simpa [replay, specFold] using hrel
  | succ n ih =>
    rw [List.take_add_one]
    cases hn : s.log[n]? with
    | none => simpa using ih
    | some c =>
      obtain ⟨w, r, _, _, _, hop, hrel', _⟩ := loginv_entry_spec hl n c hn ih
      simp only [Option.toList_some, replay_append, List.filterMap_append, specFold_append]
      have h1 : replay (replay st0 (s.log.take n)) [c] = c.batch.apply (replay st0 (s.log.take n)) := rfl
      have h2 : specFold (specFold a0 ((s.log.take n).filterMap s.opOf)) ([c].filterMap s.opOf) =
          (specWrite (specFold a0 ((s.log.take n).filterMap s.opOf)) c.batch.now w.op).1 := by
        simp [hop, specFold]
      rw [h1, h2]
      exact hrel'

/-- **The interleaved system refines the versioned map.**  If `LogInv st0 s` (which holds along every run from a
well-formed initial system) and the initial store is related to `a0`, the current store is related to `a0` with the
committed operations applied one after another, in commit order, each at the clock reading of its batch. -/
theorem loginv_refines_spec {st0 : RStore} {s : Sys} (hl : LogInv st0 s) {a0 : AbsState} (hrel : Rel st0 a0) :
    Rel s.store (specFold a0 s.committedOps) := by
  have h := loginv_prefix_spec hl hrel s.log.length
  rw [List.take_length] at h
  exact h.of_rows hl.rows

/-- … and the `n`-th committed call returns what the specification returns for its operation on the state the first
`n` committed operations produce -/
theorem loginv_result_spec {st0 : RStore} {s : Sys} (hl : LogInv st0 s) {a0 : AbsState} (hrel : Rel st0 a0) (n : Nat) (c : Commit)
    (hn : s.log[n]? = some c) :
    ∃ (w : Writer) (r : WResult), s.clients[c.client]? = some (.writer w) ∧ w.pc.fin? = some r ∧
      s.committedOps[n]? = some (c.batch.now, w.op) ∧
      r = (specWrite (specFold a0 (s.committedOps.take n)) c.batch.now w.op).2 := by
  have hall : ∀ c' ∈ s.log, ∃ p, s.opOf c' = some p := by
    intro c' hc'
    obtain ⟨m, hm⟩ := List.getElem?_of_mem hc'
    obtain ⟨w', _, _, hc'', _⟩ := hl.entries m c' hm
    exact ⟨(c'.batch.now, w'.op), by simp only [Sys.opOf, hc'']⟩
  -- filterMap of an everywhere-defined function commutes with take / indexing
  have htake : ∀ (L : List Commit), (∀ c' ∈ L, ∃ p, s.opOf c' = some p) → ∀ m,
      (L.filterMap s.opOf).take m = (L.take m).filterMap s.opOf := by
    intro L
    induction L with
    | nil => intro _ m; simp
    | cons x xs ih =>
      intro hx m
      obtain ⟨p, hp⟩ := hx x List.mem_cons_self
      cases m with
      | zero => simp
      | succ m =>
        simp only [List.filterMap_cons, hp, List.take_succ_cons]
        rw [ih (fun c' hc' => hx c' (List.mem_cons_of_mem _ hc')) m]
  have hidx : ∀ (L : List Commit), (∀ c' ∈ L, ∃ p, s.opOf c' = some p) → ∀ (m : Nat) (c' : Commit), L[m]? = some c' →
      (L.filterMap s.opOf)[m]? = s.opOf c' := by
    intro L
    induction L with
    | nil => intro _ m c' h; simp at h
    | cons x xs ih =>
      intro hx m c' h
      obtain ⟨p, hp⟩ := hx x List.mem_cons_self
      cases m with
      | zero =>
        simp only [List.getElem?_cons_zero, Option.some.injEq] at h
        subst h
        simp [hp]
      | succ m =>
        simp only [List.getElem?_cons_succ] at h
        simp only [List.filterMap_cons, hp, List.getElem?_cons_succ]
        exact ih (fun c' hc' => hx c' (List.mem_cons_of_mem _ hc')) m c' h
  have hpre := loginv_prefix_spec hl hrel n
  obtain ⟨w, r, hc, _, hfin, hop, _, hres⟩ := loginv_entry_spec hl n c hn hpre
  refine ⟨w, r, hc, hfin, ?_, ?_⟩
  · show (s.log.filterMap s.opOf)[n]? = _
    rw [hidx s.log hall n c hn, hop]
  · show r = (specWrite (specFold a0 ((s.log.filterMap s.opOf).take n)) c.batch.now w.op).2
    rw [htake s.log hall n]
    exact hres

/-! ## what a listing can see -/

/-- a record found in `servers:items` after a batch was either there before or is the record the batch saves -/
theorem Batch.apply_items_some {b : Batch} {st : RStore} {k : Nat} {r : Server} (h : (b.apply st).items[k]? = some r) :
    st.items[k]? = some r ∨ ∃ now, b = .save r now := by
  cases b with
  | save svr now =>
    have h' : (st.items.insert svr.addr.key svr)[k]? = some r := h
    rw [ExtTreeMap.getElem?_insert] at h'
    by_cases hk : svr.addr.key = k
    · simp [hk] at h'
      subst h'
      exact Or.inr ⟨now, rfl⟩
    · simp [hk] at h'
      exact Or.inl h'
  | remove k0 =>
    have h' : (st.items.erase k0)[k]? = some r := h
    rw [ExtTreeMap.getElem?_erase] at h'
    by_cases hk : k0 = k
    · simp [hk] at h'
    · simp [hk] at h'
      exact Or.inl h'

/-- a record found in `servers:items` of a replay was in the initial store under that key, or is the record saved by
one of the replayed commits -/
theorem replay_items_some {st0 : RStore} {L : List Commit} {k : Nat} {r : Server} (h : (replay st0 L).items[k]? = some r) :
    st0.items[k]? = some r ∨ ∃ c ∈ L, ∃ now, c.batch = .save r now := by
  induction L generalizing st0 with
  | nil => exact Or.inl h
  | cons c L ih =>
    have h' : (replay (c.batch.apply st0) L).items[k]? = some r := h
    rcases ih h' with h1 | ⟨c', hc', now, hb⟩
    · rcases Batch.apply_items_some h1 with h2 | ⟨now, hb⟩
      · exact Or.inl h2
      · exact Or.inr ⟨c, List.mem_cons_self, now, hb⟩
    · exact Or.inr ⟨c', List.mem_cons_of_mem _ hc', now, hb⟩

/-- every record an `HMGET` returns is the record an initial row held under one of the requested keys, or the record
saved by a logged commit -/
theorem loginv_listing {st0 : RStore} {s : Sys} (hl : LogInv st0 s) (keys : List Nat) :
    ∀ r ∈ s.store.hmgetItems keys,
      (∃ k ∈ keys, st0.items[k]? = some r) ∨ ∃ c ∈ s.log, ∃ now, c.batch = .save r now := by
  intro r hr
  obtain ⟨k, hk, hget⟩ := mem_hmgetItems hr
  rw [hl.rows.1] at hget
  rcases replay_items_some hget with h | h
  · exact Or.inl ⟨k, hk, h⟩
  · exact Or.inr h

end Swat4
