import Swat4.Model.Slug
import Swat4.Gen.Facts
/-!
Helper lemmas for C17, slug part: the three large closed computations of `C17.slug_facts_ok` (the
model of `slug.Make` evaluated on every Latin-1 character and on the probe strings, against what the
harness recorded from the real `NewServerFromDomain`), split off so that each `decide` stays small.
-/
namespace Swat4.Slug
open Swat4

set_option maxRecDepth 100000 in
theorem slug_table_shape : Slug.unidecodeLatin1.length = 128 ∧
    Slug.unidecodeLatin1.all (fun s => s.toList.all fun c => c.toNat < 128) = true := by decide

set_option maxRecDepth 100000 in
theorem slug_latin1 : (List.range 256).map (fun c => Slug.make ['x', Char.ofNat c, 'y']) =
    Facts.restSlugLatin1.map (fun s => some s.toList) := by decide

set_option maxRecDepth 100000 in
theorem slug_probes : Facts.restSlugProbes.map (fun s => Slug.make s.toList) =
    Facts.restSlugProbeResults.map (fun s => some s.toList) := by decide

end Swat4.Slug
