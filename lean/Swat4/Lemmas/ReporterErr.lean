import Swat4.Lemmas.ReporterUC
/-!
# A reporter use case that returns an error has not written anything (healthy storage)
-/
namespace Swat4.Rep
open Swat4 Std UC

@[simp] theorem run_pure {α : Type} (a : α) (s : AbsState) (now : Int) : (pure a : Prog α).run s now = (s, a) := rfl

theorem run_bind {α β : Type} (p : Prog α) (f : α → Prog β) :
    ∀ (s : AbsState) (now : Int), (p.bind f).run s now = (f (p.run s now).2).run (p.run s now).1 now := by
  induction p with
  | ret a => intro s now; rfl
  | call c k ih =>
    intro s now
    simp only [Prog.bind, Prog.run]
    exact ih _ _ _

theorem add_err {s : AbsState} {now : Int} {svr : Server} {res : Resolver} {e : RErr}
    (h : (s.add now svr res).2 = .error e) : (s.add now svr res).1 = s := by
  unfold AbsState.add at h ⊢
  cases hrow : s.getRow svr.addr with
  | none => rw [hrow] at h; cases h
  | some ex =>
    rw [hrow] at h
    dsimp only at h ⊢
    cases hr : res ex.svr with
    | none => rfl
    | some r => rw [hr] at h; cases h

theorem update_err {s : AbsState} {now : Int} {svr : Server} {res : Resolver} {e : RErr}
    (h : (s.update now svr res).2 = .error e) : (s.update now svr res).1 = s := by
  unfold AbsState.update at h ⊢
  cases hrow : s.getRow svr.addr with
  | none => rfl
  | some ex =>
    rw [hrow] at h
    dsimp only at h ⊢
    split at h
    · cases hr : res ex.svr with
      | none => rw [hr] at h; cases h
      | some r => rw [hr] at h; cases h
    · cases h

/-- `report`: an error means nothing was written -/
theorem report_err (zi : Fields) (mr : Int) (req : ReportReq) (s : AbsState) (now : Int) (e : UErr)
    (h : ((report zi mr req).run s now).2 = .error e) : ((report zi mr req).run s now).1 = s := by
  have hcont : ∀ (svr : Server),
      ((match req.info with
        | none => (pure (.error .invalidPayload) : Prog (Except UErr Unit))
        | some info =>
          .call .now fun now =>
          .call (.addServer (reported info now svr) fun ex => some (reported info now ex)) fun r =>
          match r with
          | .error e => pure (.error (.repo e))
          | .ok svr =>
            .call (.insAdd ⟨req.instanceId, req.addr⟩) fun r =>
            match r with
            | .error e => pure (.error (.repo e))
            | .ok _ => (maybeDiscoverPort mr svr).bind fun _ => pure (.ok ())).run s now).2 = .error e →
      ((match req.info with
        | none => (pure (.error .invalidPayload) : Prog (Except UErr Unit))
        | some info =>
          .call .now fun now =>
          .call (.addServer (reported info now svr) fun ex => some (reported info now ex)) fun r =>
          match r with
          | .error e => pure (.error (.repo e))
          | .ok svr =>
            .call (.insAdd ⟨req.instanceId, req.addr⟩) fun r =>
            match r with
            | .error e => pure (.error (.repo e))
            | .ok _ => (maybeDiscoverPort mr svr).bind fun _ => pure (.ok ())).run s now).1 = s := by
    intro svr
    cases req.info with
    | none => intro _; rfl
    | some info =>
      simp only [Prog.run, Call.exec]
      cases hadd : (s.add now (reported info now svr) fun ex => some (reported info now ex)).2 with
      | error e' =>
        intro _
        simp only [run_pure]
        exact add_err hadd
      | ok svr2 =>
        simp only [Prog.run, Call.exec, run_bind, run_pure]
        intro h'
        cases h'
  unfold report at h ⊢
  simp only [Prog.run, Call.exec] at h ⊢
  cases hg : s.get req.addr with
  | ok svr =>
    rw [hg] at h
    exact hcont svr h
  | error e' =>
    rw [hg] at h
    cases e' with
    | serverNotFound =>
      dsimp only at h ⊢
      cases hn : newServer zi req.addr req.queryPort with
      | none => rfl
      | some svr =>
        rw [hn] at h
        exact hcont svr h
    | serverExists => rfl
    | instanceNotFound => rfl
    | queueEmpty => rfl
    | storage => rfl

/-- `renew`: an error means nothing was written -/
theorem renew_err (id srcIp : Nat) (s : AbsState) (now : Int) (e : UErr)
    (h : ((renew id srcIp).run s now).2 = .error e) : ((renew id srcIp).run s now).1 = s := by
  unfold renew at h ⊢
  simp only [Prog.run, Call.exec] at h ⊢
  cases hg : s.insGet id with
  | error e' => rfl
  | ok inst =>
    rw [hg] at h
    dsimp only at h ⊢
    split
    · rfl
    · rename_i hip
      rw [if_neg hip] at h
      simp only [Prog.run, Call.exec] at h ⊢
      cases hg1 : s.get inst.addr with
      | error e' => rfl
      | ok svr =>
        rw [hg1] at h
        simp only [Prog.run, Call.exec] at h ⊢
        cases hu : (s.update now { svr with refreshedAt := some now } fun s => some { s with refreshedAt := some now }).2 with
        | error e' => simp only [run_pure]; exact update_err hu
        | ok _ => rw [hu] at h; simp only [run_pure] at h; cases h

/-- `remove`: an error means nothing was written -/
theorem remove_err (id : Nat) (a : Addr) (s : AbsState) (now : Int) (e : UErr)
    (h : ((remove id a).run s now).2 = .error e) : ((remove id a).run s now).1 = s := by
  unfold remove at h ⊢
  simp only [Prog.run, Call.exec] at h ⊢
  cases hg : s.get a with
  | error e' => cases e' <;> rfl
  | ok svr =>
    rw [hg] at h
    simp only [Prog.run, Call.exec] at h ⊢
    cases hg1 : s.insGet id with
    | error e' => cases e' <;> rfl
    | ok inst =>
      rw [hg1] at h
      dsimp only at h ⊢
      split
      · rfl
      · rename_i hip
        rw [if_neg hip] at h
        simp only [Prog.run, Call.exec] at h ⊢
        -- `Remove` never fails; the instance removal neither
        have hr : (s.remove svr fun s => some s).2 = .ok () := by
          unfold AbsState.remove
          cases s.getRow svr.addr with
          | none => rfl
          | some ex => dsimp only; split <;> rfl
        rw [hr] at h ⊢
        simp only [Prog.run, Call.exec, run_pure] at h
        cases h

end Swat4.Rep
