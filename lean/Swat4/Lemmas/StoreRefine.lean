import Swat4.Lemmas.StoreConsistent
import Swat4.Lemmas.StatusBits
/-!
# The Redis-level registry refines the versioned-map specification (helper lemmas of C11)
-/
namespace Swat4
open Std RStore

/-- abstraction relation (registry part): the specification's row of `k` is the stored record of
`k` together with its `servers:updated` score -/
structure Rel (st : RStore) (a : AbsState) : Prop where
  servers : ∀ k : Nat, a.servers[k]? = (st.items[k]?).map fun r => (⟨r, (st.updated[k]?).getD 0⟩ : SRow)

/-- the registry part of the specification state a store stands for -/
def absServers (st : RStore) : ExtTreeMap Nat SRow :=
  st.items.map fun k r => ⟨r, (st.updated[k]?).getD 0⟩

theorem Rel.servers_eq {st : RStore} {a : AbsState} (h : Rel st a) : a.servers = absServers st := by
  apply ExtTreeMap.ext_getElem?
  intro k
  rw [h.servers k, absServers, ExtTreeMap.getElem?_map]

theorem rel_absServers (st : RStore) (a : AbsState) (h : a.servers = absServers st) : Rel st a := by
  refine ⟨fun k => ?_⟩
  rw [h, absServers, ExtTreeMap.getElem?_map]

theorem rel_empty : Rel {} {} := by
  refine ⟨fun k => ?_⟩
  simp

/-! ## a writer running alone -/

/-- the specification-level effect and result of a registry write call, in the writer's result type -/
def specWrite (a : AbsState) (clock : Int) (op : WOp) : AbsState × WResult :=
  match op.kind with
  | .add =>
    match a.add clock op.svr op.res with
    | (a', .ok s) => (a', .ok (some s))
    | (a', .error _) => (a', .error .exists)
  | .update =>
    match a.update clock op.svr op.res with
    | (a', .ok s) => (a', .ok (some s))
    | (a', .error _) => (a', .error .notFound)
  | .remove => ((a.remove op.svr op.res).1, .ok none)

theorem add_error_only (a : AbsState) (clock : Int) (svr : Server) (res : Resolver) (e : RErr)
    (h : (a.add clock svr res).2 = .error e) : e = .serverExists := by
  unfold AbsState.add at h
  cases hr : a.getRow svr.addr with
  | none => simp [hr, AbsState.save] at h
  | some ex =>
    cases hres : res ex.svr with
    | none => simp only [hr, hres] at h; cases h; rfl
    | some r => simp [hr, hres, AbsState.save] at h

theorem update_error_only (a : AbsState) (clock : Int) (svr : Server) (res : Resolver) (e : RErr)
    (h : (a.update clock svr res).2 = .error e) : e = .serverNotFound := by
  unfold AbsState.update at h
  cases hr : a.getRow svr.addr with
  | none => simp only [hr] at h; cases h; rfl
  | some ex =>
    by_cases hv : ex.svr.version > svr.version
    · cases hres : res ex.svr with
      | none => simp [hr, hv, hres] at h
      | some r => simp [hr, hv, hres, AbsState.save] at h
    · simp [hr, hv, AbsState.save] at h

theorem remove_ok (a : AbsState) (svr : Server) (res : Resolver) : (a.remove svr res).2 = .ok () := by
  unfold AbsState.remove
  cases hr : a.getRow svr.addr with
  | none => rfl
  | some ex =>
    by_cases hv : ex.svr.version > svr.version
    · cases hres : res ex.svr <;> simp [hv, hres]
    · simp [hv]

theorem specWrite_add (a : AbsState) (clock : Int) (svr : Server) (res : Resolver) :
    (specWrite a clock ⟨.add, svr, res⟩).1 = (a.add clock svr res).1 ∧
    (specWrite a clock ⟨.add, svr, res⟩).2 =
      (match (a.add clock svr res).2 with | .ok s => .ok (some s) | .error _ => .error .exists) := by
  simp only [specWrite]
  rcases hx : a.add clock svr res with ⟨a', r⟩
  cases r <;> exact ⟨rfl, rfl⟩

theorem specWrite_update (a : AbsState) (clock : Int) (svr : Server) (res : Resolver) :
    (specWrite a clock ⟨.update, svr, res⟩).1 = (a.update clock svr res).1 ∧
    (specWrite a clock ⟨.update, svr, res⟩).2 =
      (match (a.update clock svr res).2 with | .ok s => .ok (some s) | .error _ => .error .notFound) := by
  simp only [specWrite]
  rcases hx : a.update clock svr res with ⟨a', r⟩
  cases r <;> exact ⟨rfl, rfl⟩

/-- store after the lock round trip `SET NX` … `DEL` around a batch (ghost version counters aside, the lock map is as before) -/
theorem locks_insert_erase {m : ExtTreeMap Nat LockCell} {k : Nat} {c : LockCell} (h : m[k]? = none) :
    (m.insert k c).erase k = m := by
  apply ExtTreeMap.ext_getElem?
  intro k'
  rw [ExtTreeMap.getElem?_erase, ExtTreeMap.getElem?_insert]
  by_cases hk : k = k'
  · subst hk; simp [h]
  · simp [hk]

theorem Batch.apply_locks (b : Batch) (st : RStore) : (b.apply st).locks = st.locks := by
  cases b <;> rfl

theorem Batch.apply_verOf (b : Batch) (st : RStore) (k : Nat) : (b.apply st).verOf k = st.verOf k := by
  cases b <;> rfl

/-- sequential run of a write call from a state without a lock cell on its key: ten or eleven
commands, no retry, and the result is what `decideOp` computed from the stored record -/
theorem runWriter_alone (st : RStore) (clock : Int) (op : WOp) (tok fresh : Nat)
    (hno : st.locks[op.svr.addr.key]? = none) :
    runWriter st clock (Writer.start op tok) fresh 16 =
      match decideOp op (st.items[op.svr.addr.key]?) clock with
      | .inl r => (((st.lockSetNX op.svr.addr.key tok).1).lockDel op.svr.addr.key,
                    { op, pc := .done r, tok, attemptsLeft := 4, committed := false })
      | .inr (b, r) => ((b.apply (st.lockSetNX op.svr.addr.key tok).1).lockDel op.svr.addr.key,
                    { op, pc := .done r, tok, attemptsLeft := 4, committed := true }) := by
  have h1 : st.lockSetNX op.svr.addr.key tok =
      ({ st.touchLock op.svr.addr.key (some tok) with locks := st.locks.insert op.svr.addr.key ⟨tok, true⟩ }, true) := by
    simp [lockSetNX, hno, leaseHasTTL_eq]
  cases hd : decideOp op (st.items[op.svr.addr.key]?) clock with
  | inl r =>
    simp [runWriter, wstep, Writer.start, h1, hd, touchLock]
  | inr br =>
    obtain ⟨b, r⟩ := br
    simp [runWriter, wstep, Writer.start, h1, hd, touchLock, Batch.apply_locks]

/-! ## `decideOp` + batch against the specification -/

theorem Rel.congr {st st' : RStore} {a : AbsState} (h : Rel st a) (hi : st'.items = st.items)
    (hu : st'.updated = st.updated) : Rel st' a := by
  refine ⟨fun k => ?_⟩
  rw [hi, hu]; exact h.servers k

theorem rel_save {st : RStore} {a : AbsState} (h : Rel st a) (s : Server) (now : Int) :
    Rel (st.saveBatch s now) { a with servers := a.servers.insert s.addr.key ⟨s, now⟩ } := by
  refine ⟨fun k => ?_⟩
  show (a.servers.insert s.addr.key ⟨s, now⟩)[k]? =
    ((st.items.insert s.addr.key s)[k]?).map fun r => (⟨r, ((st.updated.insert s.addr.key now)[k]?).getD 0⟩ : SRow)
  simp only [ExtTreeMap.getElem?_insert, compare_eq_iff_eq]
  by_cases hk : s.addr.key = k
  · simp [hk]
  · simp only [hk, if_false]; exact h.servers k

theorem rel_remove {st : RStore} {a : AbsState} (h : Rel st a) (k : Nat) :
    Rel (st.removeBatch k) { a with servers := a.servers.erase k } := by
  refine ⟨fun k' => ?_⟩
  show (a.servers.erase k)[k']? =
    ((st.items.erase k)[k']?).map fun r => (⟨r, ((st.updated.erase k)[k']?).getD 0⟩ : SRow)
  simp only [ExtTreeMap.getElem?_erase, compare_eq_iff_eq]
  by_cases hk : k = k'
  · simp [hk]
  · simp only [hk, if_false]; exact h.servers k'

/-- what `decideOp` (after the `HGET`) plus the batch it chooses do to the store -/
def decideApply (st : RStore) (clock : Int) (op : WOp) : RStore × WResult :=
  match decideOp op (st.items[op.svr.addr.key]?) clock with
  | .inl r => (st, r)
  | .inr (b, r) => (b.apply st, r)

/-- the atomic core of a write call refines `AbsState.add/update/remove`: same result, related states -/
theorem decideApply_refines {st : RStore} {a : AbsState} (h : Rel st a) (clock : Int) (op : WOp) :
    Rel (decideApply st clock op).1 (specWrite a clock op).1 ∧
      (decideApply st clock op).2 = (specWrite a clock op).2 := by
  have hrow : a.getRow op.svr.addr = (st.items[op.svr.addr.key]?).map fun r =>
      (⟨r, (st.updated[op.svr.addr.key]?).getD 0⟩ : SRow) := h.servers _
  unfold decideApply specWrite decideOp
  cases hk : op.kind with
  | add =>
    cases hex : st.items[op.svr.addr.key]? with
    | none =>
      simp only [AbsState.add, hrow, hex, Option.map_none, AbsState.save]
      exact ⟨rel_save h _ _, by first | rfl | trivial⟩
    | some ex =>
      simp only [AbsState.add, hrow, hex, Option.map_some, AbsState.save]
      cases hr : op.res ex with
      | none => exact ⟨h, by first | rfl | trivial⟩
      | some r => exact ⟨rel_save h _ _, by first | rfl | trivial⟩
  | update =>
    cases hex : st.items[op.svr.addr.key]? with
    | none =>
      simp only [AbsState.update, hrow, hex, Option.map_none]
      exact ⟨h, by first | rfl | trivial⟩
    | some ex =>
      simp only [AbsState.update, hrow, hex, Option.map_some, AbsState.save]
      by_cases hv : ex.version > op.svr.version
      · simp only [hv, if_true]
        cases hr : op.res ex with
        | none => exact ⟨h, by first | rfl | trivial⟩
        | some r => exact ⟨rel_save h _ _, by first | rfl | trivial⟩
      · simp only [hv, if_false]
        exact ⟨rel_save h _ _, by first | rfl | trivial⟩
  | remove =>
    cases hex : st.items[op.svr.addr.key]? with
    | none =>
      simp only [AbsState.remove, hrow, hex, Option.map_none]
      exact ⟨h, by first | rfl | trivial⟩
    | some ex =>
      simp only [AbsState.remove, hrow, hex, Option.map_some]
      by_cases hv : ex.version > op.svr.version
      · simp only [hv, if_true]
        cases hr : op.res ex with
        | none => exact ⟨h, by first | rfl | trivial⟩
        | some r => exact ⟨rel_remove h _, by first | rfl | trivial⟩
      · simp only [hv, if_false]
        exact ⟨rel_remove h _, by first | rfl | trivial⟩

/-! ## the whole call: lock, decide, batch, release -/

theorem lockSetNX_items (st : RStore) (k tok : Nat) : (st.lockSetNX k tok).1.items = st.items := by
  unfold lockSetNX; split <;> rfl

theorem lockSetNX_updated (st : RStore) (k tok : Nat) : (st.lockSetNX k tok).1.updated = st.updated := by
  unfold lockSetNX; split <;> rfl

theorem lockDel_items (st : RStore) (k : Nat) : (st.lockDel k).items = st.items := by
  unfold lockDel; split <;> rfl

theorem lockDel_updated (st : RStore) (k : Nat) : (st.lockDel k).updated = st.updated := by
  unfold lockDel; split <;> rfl

theorem Batch.apply_items_congr (b : Batch) {st st' : RStore} (h : st'.items = st.items) :
    (b.apply st').items = (b.apply st).items := by
  cases b <;> simp [Batch.apply, saveBatch, removeBatch, h]

theorem Batch.apply_updated_congr (b : Batch) {st st' : RStore} (h : st'.updated = st.updated) :
    (b.apply st').updated = (b.apply st).updated := by
  cases b <;> simp [Batch.apply, saveBatch, removeBatch, h]

theorem lockRound_locks (st : RStore) (k tok : Nat) (hno : st.locks[k]? = none) :
    (((st.lockSetNX k tok).1).lockDel k).locks = st.locks := by
  simp [lockSetNX, hno, lockDel, touchLock, locks_insert_erase hno]

theorem lockRound_batch_locks (st : RStore) (b : Batch) (k tok : Nat) (hno : st.locks[k]? = none) :
    ((b.apply (st.lockSetNX k tok).1).lockDel k).locks = st.locks := by
  simp [lockSetNX, hno, lockDel, touchLock, locks_insert_erase hno, Batch.apply_locks]

/-- a write call run alone from a store without a lock cell on its key ends in `done` with the
specification's result, in a store related to the specification's state, and gives the lock back -/
theorem write_refines_aux {st : RStore} {a : AbsState} (hrel : Rel st a) (clock : Int) (op : WOp)
    (tok fresh : Nat) (hno : st.locks[op.svr.addr.key]? = none) :
    (runWriter st clock (Writer.start op tok) fresh 16).2.pc = .done (specWrite a clock op).2 ∧
    Rel (runWriter st clock (Writer.start op tok) fresh 16).1 (specWrite a clock op).1 ∧
    (runWriter st clock (Writer.start op tok) fresh 16).1.locks = st.locks := by
  have href := decideApply_refines hrel clock op
  rw [runWriter_alone st clock op tok fresh hno]
  unfold decideApply at href
  cases hd : decideOp op (st.items[op.svr.addr.key]?) clock with
  | inl r =>
    rw [hd] at href
    refine ⟨by rw [← href.2], ?_, lockRound_locks st _ tok hno⟩
    refine href.1.congr ?_ ?_
    · show (((st.lockSetNX op.svr.addr.key tok).1).lockDel op.svr.addr.key).items = st.items
      rw [lockDel_items, lockSetNX_items]
    · show (((st.lockSetNX op.svr.addr.key tok).1).lockDel op.svr.addr.key).updated = st.updated
      rw [lockDel_updated, lockSetNX_updated]
  | inr br =>
    obtain ⟨b, r⟩ := br
    rw [hd] at href
    refine ⟨by rw [← href.2], ?_, lockRound_batch_locks st b _ tok hno⟩
    refine href.1.congr ?_ ?_
    · show ((b.apply (st.lockSetNX op.svr.addr.key tok).1).lockDel op.svr.addr.key).items = (b.apply st).items
      rw [lockDel_items, b.apply_items_congr (lockSetNX_items st _ tok)]
    · show ((b.apply (st.lockSetNX op.svr.addr.key tok).1).lockDel op.svr.addr.key).updated = (b.apply st).updated
      rw [lockDel_updated, b.apply_updated_congr (lockSetNX_updated st _ tok)]

/-! ## list and bit-vector helpers -/

theorem nodup_eraseDups_aux : ∀ (n : Nat) (l : List Nat), l.length ≤ n → l.eraseDups.Nodup
  | _, [], _ => by simp
  | 0, _ :: _, h => by simp at h
  | n + 1, a :: as, h => by
    rw [List.eraseDups_cons, List.nodup_cons]
    refine ⟨?_, nodup_eraseDups_aux n _ ?_⟩
    · simp [List.mem_eraseDups]
    · have := List.length_filter_le (fun b => !b == a) as
      simp only [List.length_cons] at h
      omega

theorem nodup_eraseDups (l : List Nat) : l.eraseDups.Nodup := nodup_eraseDups_aux l.length l (Nat.le_refl _)

theorem filterMap_eq_map_of_some {α β : Type} (f : α → Option β) (g : α → β) (l : List α)
    (h : ∀ x, x ∈ l → f x = some (g x)) : l.filterMap f = l.map g := by
  induction l with
  | nil => rfl
  | cons x xs ih =>
    rw [List.filterMap_cons, h x List.mem_cons_self, List.map_cons,
      ih (fun y hy => h y (List.mem_cons_of_mem _ hy))]

theorem nodup_keys_toList {β : Type} (m : ExtTreeMap Nat β) : (m.toList.map (·.1)).Nodup := by
  rw [List.nodup_iff_pairwise_ne, List.pairwise_map]
  exact (ExtTreeMap.distinct_keys_toList).imp (fun h => by simpa [compare_eq_iff_eq] using h)

theorem nodup_set_toList (m : ExtTreeSet Nat) : m.toList.Nodup := by
  rw [List.nodup_iff_pairwise_ne]
  exact (ExtTreeSet.distinct_toList).imp (fun h => by simpa [compare_eq_iff_eq] using h)

theorem mem_keys_toList {β : Type} (m : ExtTreeMap Nat β) (k : Nat) : k ∈ m.toList.map (·.1) ↔ k ∈ m := by
  simp only [List.mem_map]
  constructor
  · rintro ⟨⟨k', v⟩, hm, rfl⟩
    have := (ExtTreeMap.mem_toList_iff_getElem?_eq_some).1 hm
    rw [ExtTreeMap.mem_iff_isSome_getElem?, this]; rfl
  · intro hk
    rw [ExtTreeMap.mem_iff_isSome_getElem?] at hk
    cases hv : m[k]? with
    | none => rw [hv] at hk; cases hk
    | some v => exact ⟨(k, v), (ExtTreeMap.mem_toList_iff_getElem?_eq_some).2 hv, rfl⟩

/-! ## index reads -/

namespace RStore

/-- `ZRANGEBYSCORE`: exactly the members whose score satisfies the bound -/
theorem mem_zrangeBy (m : ExtTreeMap Nat Int) (p : Int → Bool) (k : Nat) :
    k ∈ zrangeBy m p ↔ ∃ v : Int, m[k]? = some v ∧ p v = true := by
  unfold zrangeBy
  simp only [List.mem_map, List.mem_filter]
  constructor
  · rintro ⟨⟨k', v⟩, ⟨hm, hp⟩, rfl⟩
    exact ⟨v, (ExtTreeMap.mem_toList_iff_getElem?_eq_some).1 hm, hp⟩
  · rintro ⟨v, hv, hp⟩
    exact ⟨(k, v), ⟨(ExtTreeMap.mem_toList_iff_getElem?_eq_some).2 hv, hp⟩, rfl⟩

theorem nodup_zrangeBy (m : ExtTreeMap Nat Int) (p : Int → Bool) : (zrangeBy m p).Nodup := by
  unfold zrangeBy
  exact ((List.filter_sublist (l := m.toList)).map (·.1)).nodup (nodup_keys_toList m)

theorem mem_cands (st : RStore) (k : Nat) :
    k ∈ (st.statusSet.toList.map (· / 16)).eraseDups ↔ ∃ e, e ∈ st.statusSet ∧ e / 16 = k := by
  simp only [List.mem_eraseDups, List.mem_map, ExtTreeSet.mem_toList]

theorem all_bits_iff (mask : Status) (q : Nat → Bool) :
    ((bitIdx.filter (hasBit mask)).all q) = true ↔ ∀ b, b < 9 → hasBit mask b = true → q b = true := by
  simp only [List.all_eq_true, List.mem_filter, mem_bitIdx]
  constructor
  · intro h b hb hm; exact h b ⟨hb, hm⟩
  · intro h b hb; exact h b hb.1 hb.2

theorem any_bits_iff (mask : Status) (q : Nat → Bool) :
    ((bitIdx.filter (hasBit mask)).any q) = true ↔ ∃ b, b < 9 ∧ hasBit mask b = true ∧ q b = true := by
  simp only [List.any_eq_true, List.mem_filter, mem_bitIdx]
  constructor
  · rintro ⟨b, ⟨hb, hm⟩, hq⟩; exact ⟨b, hb, hm, hq⟩
  · rintro ⟨b, hb, hm, hq⟩; exact ⟨b, ⟨hb, hm⟩, hq⟩

/-- `SINTER` of the status sets of a non-empty mask: the stored records having all its bits -/
theorem mem_sinter {st : RStore} (hc : Consistent st) {mask : Status} (hm : mask ≠ 0#9) (k : Nat) :
    k ∈ sinter st mask ↔ ∃ r : Server, st.items[k]? = some r ∧ Status.has r.status mask = true := by
  unfold sinter
  simp only [List.mem_filter, mem_cands, all_bits_iff, ← ExtTreeSet.mem_iff_contains]
  obtain ⟨b0, hb0, hmb0⟩ := (ne_zero_iff_bit mask).1 hm
  constructor
  · rintro ⟨_, hall⟩
    obtain ⟨r, hr, _⟩ := (hc.sts k b0 hb0).1 (hall b0 hb0 hmb0)
    refine ⟨r, hr, (has_iff_bits _ _).2 ?_⟩
    intro b hb hmb
    obtain ⟨r', hr', hbit⟩ := (hc.sts k b hb).1 (hall b hb hmb)
    rw [hr] at hr'; cases hr'; exact hbit
  · rintro ⟨r, hr, hhas⟩
    have hall : ∀ b, b < 9 → hasBit mask b = true → stKey k b ∈ st.statusSet := by
      intro b hb hmb
      exact (hc.sts k b hb).2 ⟨r, hr, (has_iff_bits _ _).1 hhas b hb hmb⟩
    exact ⟨⟨stKey k b0, hall b0 hb0 hmb0, stKey_div (by omega)⟩, hall⟩

/-- `SUNION` of the status sets of a mask: the stored records having any of its bits -/
theorem mem_sunion {st : RStore} (hc : Consistent st) (mask : Status) (k : Nat) :
    k ∈ sunion st mask ↔ ∃ r : Server, st.items[k]? = some r ∧ Status.hasAny r.status mask = true := by
  unfold sunion
  simp only [List.mem_filter, mem_cands, any_bits_iff, ← ExtTreeSet.mem_iff_contains]
  constructor
  · rintro ⟨_, b, hb, hmb, hmem⟩
    obtain ⟨r, hr, hbit⟩ := (hc.sts k b hb).1 hmem
    exact ⟨r, hr, (hasAny_iff_bits _ _).2 ⟨b, hb, hmb, hbit⟩⟩
  · rintro ⟨r, hr, hany⟩
    obtain ⟨b, hb, hmb, hbit⟩ := (hasAny_iff_bits _ _).1 hany
    have hmem : stKey k b ∈ st.statusSet := (hc.sts k b hb).2 ⟨r, hr, hbit⟩
    exact ⟨⟨stKey k b, hmem, stKey_div (by omega)⟩, b, hb, hmb, hmem⟩

theorem nodup_sinter (st : RStore) (mask : Status) : (sinter st mask).Nodup :=
  (List.filter_sublist).nodup (nodup_eraseDups _)

/-- `slice.Intersection` of a non-empty list of lists: the members of all of them -/
theorem mem_intersection (s : List Nat) (rest : List (List Nat)) (x : Nat) :
    x ∈ intersection (s :: rest) ↔ ∀ t, t ∈ s :: rest → x ∈ t := by
  simp only [intersection, List.mem_filter, List.mem_eraseDups, List.all_eq_true, List.contains_iff_mem,
    List.mem_cons, forall_eq_or_imp]

theorem nodup_intersection (ls : List (List Nat)) : (intersection ls).Nodup := by
  cases ls with
  | nil => simp [intersection]
  | cons s rest => exact (List.filter_sublist).nodup (nodup_eraseDups _)

/-- `slice.Difference` -/
theorem mem_difference (base : List Nat) (others : List (List Nat)) (x : Nat) :
    x ∈ difference base others ↔ x ∈ base ∧ ∀ t, t ∈ others → x ∉ t := by
  simp only [difference, List.mem_filter, Bool.not_eq_true', List.any_eq_false, List.contains_iff_mem]

theorem nodup_difference {base : List Nat} (h : base.Nodup) (others : List (List Nat)) :
    (difference base others).Nodup :=
  (List.filter_sublist).nodup h

/-! ## `filterServerKeys` -/

/-- the include lists of `filterServerKeys` before the "no criterion ⇒ everything" default -/
def incList (st : RStore) (fs : FilterSet) : List (List Nat) :=
  (match fs.activeBefore with | some b => [zrangeBy st.refreshed fun s => s < b] | none => []) ++
  (match fs.activeAfter with | some a => [zrangeBy st.refreshed fun s => a ≤ s] | none => []) ++
  (match fs.updatedBefore with | some b => [zrangeBy st.updated fun s => s < b] | none => []) ++
  (match fs.updatedAfter with | some a => [zrangeBy st.updated fun s => a ≤ s] | none => []) ++
  (if fs.withStatus ≠ 0#9 then [sinter st fs.withStatus] else [])

def excList (st : RStore) (fs : FilterSet) : List (List Nat) :=
  if fs.noStatus ≠ 0#9 then [sunion st fs.noStatus] else []

theorem filterKeys_eq (st : RStore) (fs : FilterSet) :
    filterKeys st fs =
      difference (intersection (if (incList st fs).isEmpty then [st.updated.toList.map (·.1)] else incList st fs))
        (excList st fs) := rfl

theorem forall_mem_incList (st : RStore) (fs : FilterSet) (x : Nat) :
    (∀ t, t ∈ incList st fs → x ∈ t) ↔
      (match fs.activeBefore with | some b => x ∈ zrangeBy st.refreshed (fun s => s < b) | none => True) ∧
      (match fs.activeAfter with | some a => x ∈ zrangeBy st.refreshed (fun s => a ≤ s) | none => True) ∧
      (match fs.updatedBefore with | some b => x ∈ zrangeBy st.updated (fun s => s < b) | none => True) ∧
      (match fs.updatedAfter with | some a => x ∈ zrangeBy st.updated (fun s => a ≤ s) | none => True) ∧
      (fs.withStatus ≠ 0#9 → x ∈ sinter st fs.withStatus) := by
  obtain ⟨ws, ns, ub, ua, ab, aa⟩ := fs
  unfold incList
  by_cases hw : ws = 0#9 <;> cases ab <;> cases aa <;> cases ub <;> cases ua <;>
    simp [hw]

/-- every include list only returns keys of stored records -/
theorem incList_subset {st : RStore} (hc : Consistent st) (fs : FilterSet) :
    ∀ t, t ∈ incList st fs → ∀ x, x ∈ t → x ∈ st.items := by
  have href : ∀ (p : Int → Bool) (x : Nat), x ∈ zrangeBy st.refreshed p → x ∈ st.items := by
    intro p x hx
    obtain ⟨v, hv, _⟩ := (mem_zrangeBy _ _ _).1 hx
    obtain ⟨r, hr, _⟩ := (hc.ref x v).1 hv
    rw [ExtTreeMap.mem_iff_isSome_getElem?, hr]; rfl
  have hupd : ∀ (p : Int → Bool) (x : Nat), x ∈ zrangeBy st.updated p → x ∈ st.items := by
    intro p x hx
    obtain ⟨v, hv, _⟩ := (mem_zrangeBy _ _ _).1 hx
    apply (hc.upd x).1
    rw [ExtTreeMap.mem_iff_isSome_getElem?, hv]; rfl
  intro t ht x hx
  unfold incList at ht
  simp only [List.mem_append] at ht
  rcases ht with (((ht | ht) | ht) | ht) | ht
  · cases hb : fs.activeBefore with
    | none => simp [hb] at ht
    | some b => simp only [hb, List.mem_singleton] at ht; subst ht; exact href _ x hx
  · cases hb : fs.activeAfter with
    | none => simp [hb] at ht
    | some b => simp only [hb, List.mem_singleton] at ht; subst ht; exact href _ x hx
  · cases hb : fs.updatedBefore with
    | none => simp [hb] at ht
    | some b => simp only [hb, List.mem_singleton] at ht; subst ht; exact hupd _ x hx
  · cases hb : fs.updatedAfter with
    | none => simp [hb] at ht
    | some b => simp only [hb, List.mem_singleton] at ht; subst ht; exact hupd _ x hx
  · by_cases hw : fs.withStatus = 0#9
    · simp [hw] at ht
    · simp only [ne_eq, hw, not_false_eq_true, if_true, List.mem_singleton] at ht
      subst ht
      obtain ⟨r, hr, _⟩ := (mem_sinter hc hw x).1 hx
      rw [ExtTreeMap.mem_iff_isSome_getElem?, hr]; rfl

/-- membership in the include intersection, default included: a stored key satisfying every include criterion -/
theorem mem_incKeys {st : RStore} (hc : Consistent st) (fs : FilterSet) (x : Nat) :
    x ∈ intersection (if (incList st fs).isEmpty then [st.updated.toList.map (·.1)] else incList st fs) ↔
      x ∈ st.items ∧ ∀ t, t ∈ incList st fs → x ∈ t := by
  cases hl : incList st fs with
  | nil =>
    simp only [List.isEmpty_nil, if_true, mem_intersection, List.mem_singleton, forall_eq, mem_keys_toList,
      hc.upd x, List.not_mem_nil, false_imp_iff, implies_true, and_true]
  | cons s rest =>
    simp only [List.isEmpty_cons, Bool.false_eq_true, if_false, mem_intersection]
    constructor
    · intro h
      refine ⟨?_, h⟩
      exact incList_subset hc fs s (by rw [hl]; exact List.mem_cons_self) x (h s List.mem_cons_self)
    · intro h; exact h.2

/-- **`filterServerKeys` selects exactly the keys of the stored records that satisfy the predicate** -/
theorem mem_filterKeys {st : RStore} (hc : Consistent st) (fs : FilterSet) (k : Nat) :
    k ∈ filterKeys st fs ↔
      ∃ r : Server, st.items[k]? = some r ∧ fs.pred ⟨r, (st.updated[k]?).getD 0⟩ = true := by
  rw [filterKeys_eq, mem_difference, mem_incKeys hc, forall_mem_incList]
  constructor
  · rintro ⟨⟨hk, h1, h2, h3, h4, h5⟩, hex⟩
    rw [ExtTreeMap.mem_iff_isSome_getElem?] at hk
    cases hr : st.items[k]? with
    | none => rw [hr] at hk; cases hk
    | some r =>
      refine ⟨r, rfl, ?_⟩
      have hu : k ∈ st.updated := (hc.upd k).2 (by rw [ExtTreeMap.mem_iff_isSome_getElem?, hr]; rfl)
      rw [ExtTreeMap.mem_iff_isSome_getElem?] at hu
      cases hv : st.updated[k]? with
      | none => rw [hv] at hu; cases hu
      | some v =>
        unfold FilterSet.pred
        simp only [Bool.and_eq_true, Option.getD_some]
        refine ⟨⟨⟨⟨⟨?_, ?_⟩, ?_⟩, ?_⟩, ?_⟩, ?_⟩
        · by_cases hw : fs.withStatus = 0#9
          · rw [hw]; exact has_zero _
          · obtain ⟨r', hr', hh⟩ := (mem_sinter hc hw k).1 (h5 hw)
            rw [hr] at hr'; cases hr'; exact hh
        · by_cases hn : fs.noStatus = 0#9
          · rw [hn, hasAny_zero]; rfl
          · have hnot := hex (sunion st fs.noStatus) (by simp [excList, hn])
            cases ha : Status.hasAny r.status fs.noStatus with
            | false => rfl
            | true => exact absurd ((mem_sunion hc _ k).2 ⟨r, hr, ha⟩) hnot
        · cases hb : fs.activeBefore with
          | none => rfl
          | some b =>
            rw [hb] at h1
            obtain ⟨t, ht, hp⟩ := (mem_zrangeBy _ _ _).1 h1
            obtain ⟨r', hr', hrt⟩ := (hc.ref k t).1 ht
            rw [hr] at hr'; cases hr'
            simp only [hrt]; exact hp
        · cases hb : fs.activeAfter with
          | none => rfl
          | some b =>
            rw [hb] at h2
            obtain ⟨t, ht, hp⟩ := (mem_zrangeBy _ _ _).1 h2
            obtain ⟨r', hr', hrt⟩ := (hc.ref k t).1 ht
            rw [hr] at hr'; cases hr'
            simp only [hrt]; exact hp
        · cases hb : fs.updatedBefore with
          | none => rfl
          | some b =>
            rw [hb] at h3
            obtain ⟨t, ht, hp⟩ := (mem_zrangeBy _ _ _).1 h3
            rw [hv] at ht; cases ht; exact hp
        · cases hb : fs.updatedAfter with
          | none => rfl
          | some b =>
            rw [hb] at h4
            obtain ⟨t, ht, hp⟩ := (mem_zrangeBy _ _ _).1 h4
            rw [hv] at ht; cases ht; exact hp
  · rintro ⟨r, hr, hp⟩
    have hk : k ∈ st.items := by rw [ExtTreeMap.mem_iff_isSome_getElem?, hr]; rfl
    have hu : k ∈ st.updated := (hc.upd k).2 hk
    rw [ExtTreeMap.mem_iff_isSome_getElem?] at hu
    cases hv : st.updated[k]? with
    | none => rw [hv] at hu; cases hu
    | some v =>
      rw [hv] at hp
      unfold FilterSet.pred at hp
      simp only [Bool.and_eq_true, Option.getD_some] at hp
      obtain ⟨⟨⟨⟨⟨p1, p2⟩, p3⟩, p4⟩, p5⟩, p6⟩ := hp
      refine ⟨⟨hk, ?_, ?_, ?_, ?_, ?_⟩, ?_⟩
      · cases hb : fs.activeBefore with
        | none => trivial
        | some b =>
          rw [hb] at p3
          cases hrt : r.refreshedAt with
          | none => rw [hrt] at p3; cases p3
          | some t =>
            rw [hrt] at p3
            exact (mem_zrangeBy _ _ _).2 ⟨t, (hc.ref k t).2 ⟨r, hr, hrt⟩, p3⟩
      · cases hb : fs.activeAfter with
        | none => trivial
        | some b =>
          rw [hb] at p4
          cases hrt : r.refreshedAt with
          | none => rw [hrt] at p4; cases p4
          | some t =>
            rw [hrt] at p4
            exact (mem_zrangeBy _ _ _).2 ⟨t, (hc.ref k t).2 ⟨r, hr, hrt⟩, p4⟩
      · cases hb : fs.updatedBefore with
        | none => trivial
        | some b => rw [hb] at p5; exact (mem_zrangeBy _ _ _).2 ⟨v, hv, p5⟩
      · cases hb : fs.updatedAfter with
        | none => trivial
        | some b => rw [hb] at p6; exact (mem_zrangeBy _ _ _).2 ⟨v, hv, p6⟩
      · intro hw; exact (mem_sinter hc hw k).2 ⟨r, hr, p1⟩
      · intro t ht
        unfold excList at ht
        by_cases hn : fs.noStatus = 0#9
        · simp [hn] at ht
        · simp only [ne_eq, hn, not_false_eq_true, if_true, List.mem_singleton] at ht
          subst ht
          intro hmem
          obtain ⟨r', hr', ha⟩ := (mem_sunion hc _ k).1 hmem
          rw [hr] at hr'; cases hr'
          rw [ha] at p2; cases p2

theorem nodup_filterKeys (st : RStore) (fs : FilterSet) : (filterKeys st fs).Nodup := by
  rw [filterKeys_eq]
  exact nodup_difference (nodup_intersection _) _

/-! ## `Filter`, `Get`, `Count`, `CountByStatus` against the specification -/

theorem absServers_toList (st : RStore) :
    (absServers st).toList = st.items.toList.map fun p => (p.1, (⟨p.2, (st.updated[p.1]?).getD 0⟩ : SRow)) := by
  unfold absServers; rw [ExtTreeMap.toList_map]

/-- the specification's `filter`, computed on the stored records -/
theorem abs_filter_eq {st : RStore} {a : AbsState} (hrel : Rel st a) (fs : FilterSet) :
    a.filter fs =
      (st.items.toList.filter fun p => fs.pred ⟨p.2, (st.updated[p.1]?).getD 0⟩).map (·.2) := by
  unfold AbsState.filter
  rw [hrel.servers_eq, absServers_toList, List.filter_map, List.map_map]
  rfl

/-- **`Filter` returns exactly the stored records satisfying `FilterSet.pred`** (as a multiset: the
implementation's order is that of Go map iteration in `slice.Intersection`) -/
theorem filter_eq_pred {st : RStore} {a : AbsState} (hc : Consistent st) (hrel : Rel st a) (fs : FilterSet) :
    (st.hmgetItems (st.filterKeys fs)).Perm (a.filter fs) := by
  rw [abs_filter_eq hrel]
  let P : Nat × Server → Bool := fun p => fs.pred ⟨p.2, (st.updated[p.1]?).getD 0⟩
  show (st.hmgetItems (st.filterKeys fs)).Perm ((st.items.toList.filter P).map (·.2))
  have hkeys : (st.filterKeys fs).Perm ((st.items.toList.filter P).map (·.1)) := by
    rw [List.perm_ext_iff_of_nodup (nodup_filterKeys st fs)
      (((List.filter_sublist (l := st.items.toList)).map (·.1)).nodup (nodup_keys_toList _))]
    intro k
    rw [mem_filterKeys hc]
    simp only [List.mem_map, List.mem_filter]
    constructor
    · rintro ⟨r, hr, hp⟩
      exact ⟨(k, r), ⟨(ExtTreeMap.mem_toList_iff_getElem?_eq_some).2 hr, hp⟩, rfl⟩
    · rintro ⟨⟨k', r⟩, ⟨hm, hp⟩, rfl⟩
      exact ⟨r, (ExtTreeMap.mem_toList_iff_getElem?_eq_some).1 hm, hp⟩
  have h1 := hkeys.filterMap (fun k => st.items[k]?)
  unfold hmgetItems
  refine h1.trans ?_
  rw [List.filterMap_map]
  have : ∀ p, p ∈ st.items.toList.filter P → ((fun k => st.items[k]?) ∘ fun x => x.1) p = some p.2 := by
    intro p hp
    exact (ExtTreeMap.mem_toList_iff_getElem?_eq_some).1 (List.mem_filter.1 hp).1
  rw [filterMap_eq_map_of_some _ _ _ this]

/-- `Get` at the Redis level (`HGET servers:items`) -/
def getM (st : RStore) (a : Addr) : Except RErr Server :=
  match st.items[a.key]? with
  | some r => .ok r
  | none => .error .serverNotFound

theorem get_refines {st : RStore} {a : AbsState} (hrel : Rel st a) (ad : Addr) : getM st ad = a.get ad := by
  unfold getM AbsState.get AbsState.getRow
  rw [hrel.servers ad.key]
  cases st.items[ad.key]? <;> rfl

/-- `Count` = `HLEN servers:items` -/
theorem count_refines {st : RStore} {a : AbsState} (hrel : Rel st a) : st.items.size = a.count := by
  unfold AbsState.count
  rw [hrel.servers_eq, absServers, ExtTreeMap.size_map]

/-- `CountByStatus` at the Redis level: one `SCARD` per member of `ds.Members()` -/
def countByM (st : RStore) : List Nat :=
  bitIdx.map fun b => (st.statusSet.toList.filter fun e => e % 16 == b).length

theorem abs_countByStatus_eq {st : RStore} {a : AbsState} (hrel : Rel st a) (m : Status) :
    a.countByStatus m = (st.items.toList.filter fun p => Status.has p.2.status m).length := by
  unfold AbsState.countByStatus
  rw [hrel.servers_eq, absServers_toList, List.filter_map, List.length_map]
  rfl

theorem scard_eq {st : RStore} (hc : Consistent st) {b : Nat} (hb : b < 9) :
    (st.statusSet.toList.filter fun e => e % 16 == b).length =
      (st.items.toList.filter fun p => hasBit p.2.status b).length := by
  let K := (st.items.toList.filter fun p => hasBit p.2.status b).map (·.1)
  have hK : K.Nodup := ((List.filter_sublist (l := st.items.toList)).map (·.1)).nodup (nodup_keys_toList _)
  have hKmem : ∀ k, k ∈ K ↔ ∃ r : Server, st.items[k]? = some r ∧ hasBit r.status b = true := by
    intro k
    simp only [K, List.mem_map, List.mem_filter]
    constructor
    · rintro ⟨⟨k', r⟩, ⟨hm, hp⟩, rfl⟩
      exact ⟨r, (ExtTreeMap.mem_toList_iff_getElem?_eq_some).1 hm, hp⟩
    · rintro ⟨r, hr, hp⟩
      exact ⟨(k, r), ⟨(ExtTreeMap.mem_toList_iff_getElem?_eq_some).2 hr, hp⟩, rfl⟩
  have hperm : (st.statusSet.toList.filter fun e => e % 16 == b).Perm (K.map fun k => stKey k b) := by
    rw [List.perm_ext_iff_of_nodup ((List.filter_sublist).nodup (nodup_set_toList _))
      (hK.map (f := fun k => stKey k b) (fun x y hxy he => hxy ((stKey_inj (by omega) (by omega)).1 he).1))]
    intro e
    simp only [List.mem_filter, ExtTreeSet.mem_toList, beq_iff_eq, List.mem_map, hKmem]
    constructor
    · rintro ⟨hmem, hmod⟩
      have he : stKey (e / 16) b = e := by rw [← hmod]; exact stKey_div_mod e
      rw [← he] at hmem
      exact ⟨e / 16, (hc.sts (e / 16) b hb).1 hmem, he⟩
    · rintro ⟨k, hk, rfl⟩
      exact ⟨(hc.sts k b hb).2 hk, stKey_mod (by omega)⟩
  rw [hperm.length_eq, List.length_map, List.length_map]

/-- `CountByStatus`: every `SCARD servers:status:<m>` is the number of stored records having `m` -/
theorem countByStatus_refines {st : RStore} {a : AbsState} (hc : Consistent st) (hrel : Rel st a) :
    countByM st = Status.members.map a.countByStatus := by
  unfold countByM
  rw [members_eq, List.map_map]
  apply List.map_congr_left
  intro b hb
  have hb9 : b < 9 := mem_bitIdx.1 hb
  simp only [Function.comp, abs_countByStatus_eq hrel, has_member _ hb9]
  exact scard_eq hc hb9

end RStore

/-! ## histories of registry calls -/

/-- a registry call (or a clock advance between calls) -/
inductive RCall where
  | write (op : WOp)
  | get (a : Addr)
  | filter (fs : FilterSet)
  | count
  | countBy
  | tick (d : Int)

inductive RRes where
  | write (r : WResult)
  | hung                              -- the writer did not finish within its command budget
  | get (r : Except RErr Server)
  | servers (l : List Server)
  | count (n : Nat)
  | counts (l : List Nat)
  | none

/-- results agree: `Filter` results as multisets (the implementation's order is unspecified), everything else exactly -/
inductive ResEq : RRes → RRes → Prop where
  | write (r : WResult) : ResEq (.write r) (.write r)
  | get (r : Except RErr Server) : ResEq (.get r) (.get r)
  | servers {l l' : List Server} (h : l.Perm l') : ResEq (.servers l) (.servers l')
  | count (n : Nat) : ResEq (.count n) (.count n)
  | counts (l : List Nat) : ResEq (.counts l) (.counts l)
  | none : ResEq .none .none

/-- result lists agree item by item -/
inductive HistEq : List RRes → List RRes → Prop where
  | nil : HistEq [] []
  | cons {r r' : RRes} {rs rs' : List RRes} (h : ResEq r r') (t : HistEq rs rs') : HistEq (r :: rs) (r' :: rs')

/-- sequential state of the Redis-level model (as `Drv.SeqState`): keyspace, clock, next lock token -/
structure SeqM where
  st : RStore
  clock : Int
  fresh : Nat

/-- one call on the Redis-level model: writes run the lock/WATCH writer machine to completion
(16 commands suffice), reads are the index pipeline + `HMGET` / `HGET` / `HLEN` / nine `SCARD` -/
def stepM (s : SeqM) : RCall → SeqM × RRes
  | .write op =>
    let out := runWriter s.st s.clock (Writer.start op s.fresh) (s.fresh + 1) 16
    ({ s with st := out.1, fresh := s.fresh + 1 }, match out.2.pc with | .done r => .write r | _ => .hung)
  | .get a => (s, .get (RStore.getM s.st a))
  | .filter fs => (s, .servers (s.st.hmgetItems (s.st.filterKeys fs)))
  | .count => (s, .count s.st.items.size)
  | .countBy => (s, .counts (RStore.countByM s.st))
  | .tick d => ({ s with clock := s.clock + d }, .none)

/-- one call on the specification -/
def stepS (s : AbsState × Int) : RCall → (AbsState × Int) × RRes
  | .write op => let out := specWrite s.1 s.2 op; ((out.1, s.2), .write out.2)
  | .get a => (s, .get (s.1.get a))
  | .filter fs => (s, .servers (s.1.filter fs))
  | .count => (s, .count s.1.count)
  | .countBy => (s, .counts (Status.members.map s.1.countByStatus))
  | .tick d => ((s.1, s.2 + d), .none)

def runHistM : SeqM → List RCall → List RRes
  | _, [] => []
  | s, c :: cs => (stepM s c).2 :: runHistM (stepM s c).1 cs

def runHistS : AbsState × Int → List RCall → List RRes
  | _, [] => []
  | s, c :: cs => (stepS s c).2 :: runHistS (stepS s c).1 cs

/-- the simulation invariant between calls: indexes consistent, states related, no lock cell left behind, same clock -/
structure Sim (m : SeqM) (s : AbsState × Int) : Prop where
  cons : Consistent m.st
  rel : Rel m.st s.1
  nolock : ∀ k : Nat, m.st.locks[k]? = none
  clock : m.clock = s.2

theorem step_sim {m : SeqM} {s : AbsState × Int} (h : Sim m s) (c : RCall) :
    Sim (stepM m c).1 (stepS s c).1 ∧ ResEq (stepM m c).2 (stepS s c).2 := by
  cases c with
  | write op =>
    obtain ⟨h1, h2, h3⟩ := write_refines_aux h.rel m.clock op m.fresh (m.fresh + 1) (h.nolock _)
    simp only [stepM, stepS]
    rw [h1, ← h.clock]
    refine ⟨⟨runWriter_consistent h.cons _ _ _ _, h2, ?_, rfl⟩, ResEq.write _⟩
    intro k
    show (runWriter m.st m.clock (Writer.start op m.fresh) (m.fresh + 1) 16).1.locks[k]? = none
    rw [h3]; exact h.nolock k
  | get a =>
    refine ⟨h, ?_⟩
    simp only [stepM, stepS, RStore.get_refines h.rel]
    exact ResEq.get _
  | filter fs => exact ⟨h, ResEq.servers (RStore.filter_eq_pred h.cons h.rel fs)⟩
  | count =>
    refine ⟨h, ?_⟩
    simp only [stepM, stepS, RStore.count_refines h.rel]
    exact ResEq.count _
  | countBy =>
    refine ⟨h, ?_⟩
    simp only [stepM, stepS, RStore.countByStatus_refines h.cons h.rel]
    exact ResEq.counts _
  | tick d =>
    refine ⟨⟨h.cons, h.rel, h.nolock, ?_⟩, ResEq.none⟩
    show m.clock + d = s.2 + d
    rw [h.clock]

theorem runHist_sim {m : SeqM} {s : AbsState × Int} (h : Sim m s) (cs : List RCall) :
    HistEq (runHistM m cs) (runHistS s cs) := by
  induction cs generalizing m s with
  | nil => exact HistEq.nil
  | cons c cs ih =>
    have := step_sim h c
    exact HistEq.cons this.2 (ih this.1)

theorem sim_init (clock : Int) (fresh : Nat) : Sim ⟨{}, clock, fresh⟩ ({}, clock) :=
  ⟨consistent_empty, rel_empty, fun k => by simp, rfl⟩

end Swat4
