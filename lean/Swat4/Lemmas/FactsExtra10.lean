import Swat4.Gen.Facts
/-!
# C10 — finer regenerated facts: which command goes on which pipeline, with which key; what reaches `SetNX`
-/
namespace Swat4.C10
open Swat4

/-- **`facts_batches_atomic`, per command and including the reads.**  Supports the batch steps of Model/Store
(`saveBatch`, `removeBatch`, `insAddBatch`, `insRemoveBatch`, `insClearBatch`, `enqueueBatch`, `popBatch` — one atomic
step each in `Consistent`'s preservation proofs and in C12's `QueueSys.pop`).  Every Redis command call site of the
three repositories and `redislock.go`, with the receiver it is called on and whether that receiver is the `pipe` of a
`TxPipelined` (MULTI…EXEC) closure, of a plain `Pipelined` closure, or neither (`bare` = a command of its own; the
`pipe` of `buildTimestampFilters` / `buildStatusFilters` is the parameter of the returned builder, which
`filterServerKeys` calls inside its read-only `Pipelined`).
*Edit detected:* `result = pipe.HMGet(ctx, dataKey, keys...)` of `probes.pop` moved out of the transaction
(`r.client.HMGet` before the `TxPipelined`): two consumers can then both read an item before either deletes it, which
breaks C12 `at_most_once`; `facts_batches_atomic` does not see it because HMGET is a read. -/
theorem facts_batches_atomic_sites :
    Facts.storeCmdSites =
      [("servers", "remove", "pipe redis.Pipeliner", "HDel", "write", "TxPipelined on tx *redis.Tx"),
       ("servers", "remove", "pipe redis.Pipeliner", "ZRem", "write", "TxPipelined on tx *redis.Tx"),
       ("servers", "remove", "pipe redis.Pipeliner", "ZRem", "write", "TxPipelined on tx *redis.Tx"),
       ("servers", "remove", "pipe redis.Pipeliner", "SRem", "write", "TxPipelined on tx *redis.Tx"),
       ("servers", "Filter", "r.client", "HMGet", "read", "bare"),
       ("servers", "filterServerKeys", "pipe redis.Pipeliner", "ZRange", "read", "Pipelined on r.client"),
       ("servers", "buildTimestampFilters", "pipe redis.Pipeliner", "ZRangeArgs", "read", "bare"),
       ("servers", "buildTimestampFilters", "pipe redis.Pipeliner", "ZRangeArgs", "read", "bare"),
       ("servers", "buildTimestampFilters", "pipe redis.Pipeliner", "ZRangeArgs", "read", "bare"),
       ("servers", "buildTimestampFilters", "pipe redis.Pipeliner", "ZRangeArgs", "read", "bare"),
       ("servers", "buildStatusFilters", "pipe redis.Pipeliner", "SInter", "read", "bare"),
       ("servers", "buildStatusFilters", "pipe redis.Pipeliner", "SUnion", "read", "bare"),
       ("servers", "Count", "r.client", "HLen", "read", "bare"),
       ("servers", "CountByStatus", "pipe redis.Pipeliner", "SCard", "read", "TxPipelined on r.client"),
       ("servers", "get", "r.client", "HGet", "read", "bare"),
       ("servers", "save", "pipe redis.Pipeliner", "HSet", "write", "TxPipelined on tx *redis.Tx"),
       ("servers", "save", "pipe redis.Pipeliner", "ZAdd", "write", "TxPipelined on tx *redis.Tx"),
       ("servers", "save", "pipe redis.Pipeliner", "ZRem", "write", "TxPipelined on tx *redis.Tx"),
       ("servers", "save", "pipe redis.Pipeliner", "ZAdd", "write", "TxPipelined on tx *redis.Tx"),
       ("servers", "save", "pipe redis.Pipeliner", "SAdd", "write", "TxPipelined on tx *redis.Tx"),
       ("servers", "save", "pipe redis.Pipeliner", "SRem", "write", "TxPipelined on tx *redis.Tx"),
       ("instances", "Add", "pipe redis.Pipeliner", "HSet", "write", "TxPipelined on r.client"),
       ("instances", "Add", "pipe redis.Pipeliner", "ZAdd", "write", "TxPipelined on r.client"),
       ("instances", "Get", "r.client", "HGet", "read", "bare"),
       ("instances", "Remove", "pipe redis.Pipeliner", "HDel", "write", "TxPipelined on r.client"),
       ("instances", "Remove", "pipe redis.Pipeliner", "ZRem", "write", "TxPipelined on r.client"),
       ("instances", "Clear", "r.client", "ZRangeArgs", "read", "bare"),
       ("instances", "Clear", "pipe redis.Pipeliner", "ZRem", "write", "TxPipelined on r.client"),
       ("instances", "Clear", "pipe redis.Pipeliner", "HDel", "write", "TxPipelined on r.client"),
       ("instances", "Count", "r.client", "HLen", "read", "bare"),
       ("probes", "enqueue", "pipe redis.Pipeliner", "HSet", "write", "TxPipelined on r.client"),
       ("probes", "enqueue", "pipe redis.Pipeliner", "ZAdd", "write", "TxPipelined on r.client"),
       ("probes", "Peek", "r.client", "ZRange", "read", "bare"),
       ("probes", "Peek", "r.client", "HGet", "read", "bare"),
       ("probes", "pop", "r.client", "ZRangeArgsWithScores", "read", "bare"),
       ("probes", "pop", "pipe redis.Pipeliner", "ZRem", "write", "TxPipelined on r.client"),
       ("probes", "pop", "pipe redis.Pipeliner", "HMGet", "read", "TxPipelined on r.client"),
       ("probes", "pop", "pipe redis.Pipeliner", "HDel", "write", "TxPipelined on r.client"),
       ("probes", "Count", "r.client", "ZCard", "read", "bare"),
       ("redislock", "Guard", "m.client", "SetNX", "write", "bare"),
       ("redislock", "Guard", "tx *redis.Tx", "Get", "read", "bare"),
       ("redislock", "release", "tx *redis.Tx", "Get", "read", "bare"),
       ("redislock", "release", "tx *redis.Tx", "Del", "write", "bare")] := by
  decide

/-- **Keys and members of every command** (file, function, command, key, other arguments).  Supports the row / index
correspondence of `Consistent` (`items` ↔ `updated` / `refreshed` / `status:*`, `probes:items` ↔ `probes:queue`,
`instances:items` ↔ `instances:updated`): each batch writes the SAME member under the keys the model names.
*Edit detected:* a `ZRem`/`ZAdd` sent to another key, a different member expression, a changed score expression or
range bound. -/
theorem facts_batch_keys :
    Facts.storeCmdKeys =
      [("servers", "remove", "HDel", "itemsKey", "svrAddr"),
       ("servers", "remove", "ZRem", "updatesKey", "svrAddr"),
       ("servers", "remove", "ZRem", "refreshesKey", "svrAddr"),
       ("servers", "remove", "SRem", "fmt.Sprintf(statusKeyFmt, status)", "svrAddr"),
       ("servers", "Filter", "HMGet", "itemsKey", "keys..."),
       ("servers", "filterServerKeys", "ZRange", "updatesKey", "0, -1"),
       ("servers", "buildTimestampFilters", "ZRangeArgs", "redis.ZRangeArgs{ Key: refreshesKey, ByScore: true, Start: \"-inf\", Stop: fmt.Sprintf(\"(%d\", activeBefore.UnixNano()), }", ""),
       ("servers", "buildTimestampFilters", "ZRangeArgs", "redis.ZRangeArgs{ Key: refreshesKey, ByScore: true, Start: strconv.FormatInt(activeAfter.UnixNano(), 10), Stop: \"+inf\", }", ""),
       ("servers", "buildTimestampFilters", "ZRangeArgs", "redis.ZRangeArgs{ Key: updatesKey, ByScore: true, Start: \"-inf\", Stop: fmt.Sprintf(\"(%d\", updatedBefore.UnixNano()), }", ""),
       ("servers", "buildTimestampFilters", "ZRangeArgs", "redis.ZRangeArgs{ Key: updatesKey, ByScore: true, Start: strconv.FormatInt(updatedAfter.UnixNano(), 10), Stop: \"+inf\", }", ""),
       ("servers", "buildStatusFilters", "SInter", "keys", "..."),
       ("servers", "buildStatusFilters", "SUnion", "keys", "..."),
       ("servers", "Count", "HLen", "itemsKey", ""),
       ("servers", "CountByStatus", "SCard", "fmt.Sprintf(statusKeyFmt, status)", ""),
       ("servers", "get", "HGet", "itemsKey", "svrAddr.String()"),
       ("servers", "save", "HSet", "itemsKey", "svrAddr, item"),
       ("servers", "save", "ZAdd", "updatesKey", "redis.Z{ Score: float64(r.clock.Now().UnixNano()), Member: svrAddr, }"),
       ("servers", "save", "ZRem", "refreshesKey", "svrAddr"),
       ("servers", "save", "ZAdd", "refreshesKey", "redis.Z{ Score: float64(svr.RefreshedAt.UnixNano()), Member: svrAddr, }"),
       ("servers", "save", "SAdd", "fmt.Sprintf(statusKeyFmt, status)", "svrAddr"),
       ("servers", "save", "SRem", "fmt.Sprintf(statusKeyFmt, status)", "svrAddr"),
       ("instances", "Add", "HSet", "itemsKey", "ins.ID.Hex(), item"),
       ("instances", "Add", "ZAdd", "updatesKey", "redis.Z{ Score: float64(r.clock.Now().UnixNano()), Member: ins.ID.Hex(), }"),
       ("instances", "Get", "HGet", "itemsKey", "id.Hex()"),
       ("instances", "Remove", "HDel", "itemsKey", "id.Hex()"),
       ("instances", "Remove", "ZRem", "updatesKey", "id.Hex()"),
       ("instances", "Clear", "ZRangeArgs", "redis.ZRangeArgs{ Key: updatesKey, ByScore: true, Start: \"-inf\", Stop: stop, }", ""),
       ("instances", "Clear", "ZRem", "updatesKey", "redisutils.KeysToMembers(keys)..."),
       ("instances", "Clear", "HDel", "itemsKey", "keys..."),
       ("instances", "Count", "HLen", "itemsKey", ""),
       ("probes", "enqueue", "HSet", "dataKey", "itemID, item"),
       ("probes", "enqueue", "ZAdd", "queueKey", "redis.Z{ Score: float64(itemReadyAt.UnixNano()), Member: itemID, }"),
       ("probes", "Peek", "ZRange", "queueKey", "0, 1"),
       ("probes", "Peek", "HGet", "dataKey", "keys[0]"),
       ("probes", "pop", "ZRangeArgsWithScores", "redis.ZRangeArgs{ Key: queueKey, ByScore: true, Start: \"-inf\", Stop: strconv.FormatInt(r.clock.Now().UnixNano(), 10), Count: int64(count), }", ""),
       ("probes", "pop", "ZRem", "queueKey", "redisutils.KeysToMembers(keys)..."),
       ("probes", "pop", "HMGet", "dataKey", "keys..."),
       ("probes", "pop", "HDel", "dataKey", "keys..."),
       ("probes", "Count", "ZCard", "queueKey", ""),
       ("redislock", "Guard", "SetNX", "key", "token, ttl"),
       ("redislock", "Guard", "Get", "key", ""),
       ("redislock", "release", "Get", "key", ""),
       ("redislock", "release", "Del", "key", "")] := by
  rfl

/-- **`facts_lock_ttl`, finer: what reaches `SetNX`.**  Supports `lock_ttl` / `Consistent.ttl` (every lock cell has an
expiry) and `AStep.lockSetNX` carrying the lease.  For the three non-context arguments of the only `SetNX`
(`facts_lock_ttl`): `key` and `ttl` are `Guard`'s parameters and are never assigned, incremented or address-taken in
`Guard`; `token` has the single definition `uuid.NewString()`.
*Edit detected:* `ttl = 0` (or `ttl *= …`, `key = …`) slipped in before `m.client.SetNX(ctx, key, token, ttl)` — a
lock that never expires — which leaves the argument text `ttl time.Duration` of `facts_lock_ttl` unchanged. -/
theorem facts_lock_ttl_defs :
    Facts.lockSetNXArgDefs =
      [("Guard", "key", "param string"),
       ("Guard", "token", ":= uuid.NewString()"),
       ("Guard", "ttl", "param time.Duration")] := by
  decide

end Swat4.C10
