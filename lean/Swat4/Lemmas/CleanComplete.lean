import Swat4.Model.UseCases.Discovery
import Swat4.Lemmas.Prog
/-!
Helper lemmas for C14, "a cleanup pass removes every stale record": the exact effect of the deletions of a pass
(`UC.removeAll`) whose scanned copies are still the stored records.
-/
namespace Swat4.CleanComplete
open Swat4 Swat4.UC Std

/-- `Repository.Remove` never reports an error on healthy storage -/
theorem remove_ok (s : AbsState) (sv : Server) (res : Resolver) : (s.remove sv res).2 = .ok () := by
  unfold AbsState.remove
  cases s.getRow sv.addr with
  | none => rfl
  | some ex =>
    simp only
    split
    · cases res ex.svr <;> rfl
    · rfl

/-- `Repository.Remove` touches the registry only -/
theorem remove_frame (s : AbsState) (sv : Server) (res : Resolver) :
    (s.remove sv res).1.instances = s.instances ∧ (s.remove sv res).1.queue = s.queue ∧
    (s.remove sv res).1.nextId = s.nextId := by
  unfold AbsState.remove
  cases s.getRow sv.addr with
  | none => exact ⟨rfl, rfl, rfl⟩
  | some ex =>
    simp only
    split
    · cases res ex.svr <;> exact ⟨rfl, rfl, rfl⟩
    · exact ⟨rfl, rfl, rfl⟩

/-- one deletion of the pass, with a scanned copy that is still the stored record (or whose record is already gone):
the row under the copy's key is gone, every other row is untouched -/
theorem remove_scanned (s : AbsState) (res : Resolver) (sv : Server)
    (h : ∀ row, s.servers[sv.addr.key]? = some row → row.svr = sv) (k : Nat) :
    (s.remove sv res).1.servers[k]? = if k = sv.addr.key then none else s.servers[k]? := by
  unfold AbsState.remove
  cases hrow : s.getRow sv.addr with
  | none =>
    have hrow' : s.servers[sv.addr.key]? = none := hrow
    by_cases hk : k = sv.addr.key
    · rw [if_pos hk, hk]; exact hrow'
    · rw [if_neg hk]
  | some ex =>
    have hrow' : s.servers[sv.addr.key]? = some ex := hrow
    have hsame := h ex hrow'
    have hv : ¬ ex.svr.version > sv.version := by rw [hsame]; omega
    simp only [hv, if_false, ExtTreeMap.getElem?_erase]
    by_cases hk : k = sv.addr.key
    · simp [hk]
    · rw [if_neg hk, if_neg]
      simp only [compare_eq_iff_eq]
      exact fun e => hk e.symm

/-- **all deletions of a pass** over scanned copies that are the stored records: exactly the rows under the scanned keys
are gone, every other row is untouched, instances and queue are untouched, every deletion counts as removed -/
theorem removeAll_scanned (cutoff now : Int) : ∀ (svrs : List Server) (s : AbsState) (removed errors : Nat),
    (∀ sv ∈ svrs, ∀ row, s.servers[sv.addr.key]? = some row → row.svr = sv) →
    (∀ k, ((removeAll cutoff svrs removed errors).run s now).1.servers[k]? =
      if k ∈ svrs.map (·.addr.key) then none else s.servers[k]?) ∧
    ((removeAll cutoff svrs removed errors).run s now).1.instances = s.instances ∧
    ((removeAll cutoff svrs removed errors).run s now).1.queue = s.queue ∧
    ((removeAll cutoff svrs removed errors).run s now).1.nextId = s.nextId ∧
    ((removeAll cutoff svrs removed errors).run s now).2 = (removed + svrs.length, errors) := by
  intro svrs
  induction svrs with
  | nil => intro s removed errors _; simp [removeAll]
  | cons sv rest ih =>
    intro s removed errors h
    simp only [removeAll, Prog.run_call, Call.exec]
    rw [remove_ok]
    simp only
    have h1 := remove_scanned s (cleanResolver cutoff) sv (h sv (by simp))
    have hf := remove_frame s sv (cleanResolver cutoff)
    have hrest : ∀ sv' ∈ rest, ∀ row, (s.remove sv (cleanResolver cutoff)).1.servers[sv'.addr.key]? = some row → row.svr = sv' := by
      intro sv' hm row hr
      rw [h1] at hr
      split at hr
      · cases hr
      · exact h sv' (by simp [hm]) row hr
    obtain ⟨i1, i2, i3, i4, i5⟩ := ih (s.remove sv (cleanResolver cutoff)).1 (removed + 1) errors hrest
    refine ⟨?_, by rw [i2, hf.1], by rw [i3, hf.2.1], by rw [i4, hf.2.2], ?_⟩
    · intro k
      rw [i1 k, h1 k]
      by_cases hk : k = sv.addr.key
      · simp [hk]
      · by_cases hm : k ∈ rest.map (·.addr.key)
        · rw [if_pos hm, if_pos (by simp only [List.map_cons, List.mem_cons]; exact Or.inr hm)]
        · rw [if_neg hm, if_neg hk, if_neg (by simp only [List.map_cons, List.mem_cons]; rintro (e | e); exact hk e; exact hm e)]
    · rw [i5]; simp only [List.length_cons, Prod.mk.injEq, and_true]; omega

/-- the records a scan selects, in a store where every row sits under its own address key: each scanned copy is
the stored record of its key, and the scanned keys are exactly the keys of the selected rows -/
theorem filter_scanned (s : AbsState) (fs : FilterSet)
    (hk : ∀ (k : Nat) (row : SRow), s.servers[k]? = some row → row.svr.addr.key = k) :
    (∀ sv ∈ s.filter fs, ∀ row, s.servers[sv.addr.key]? = some row → row.svr = sv) ∧
    (∀ k, k ∈ (s.filter fs).map (·.addr.key) ↔ ∃ row, s.servers[k]? = some row ∧ fs.pred row = true) := by
  unfold AbsState.filter
  constructor
  · intro sv hsv row hrow
    simp only [List.mem_map, List.mem_filter] at hsv
    obtain ⟨kv, ⟨hm, _⟩, rfl⟩ := hsv
    have hr : s.servers[kv.1]? = some kv.2 := ExtTreeMap.mem_toList_iff_getElem?_eq_some.1 hm
    have := hk _ _ hr
    rw [this, hr] at hrow
    cases hrow; rfl
  · intro k
    simp only [List.mem_map, List.mem_filter]
    constructor
    · rintro ⟨sv, ⟨kv, ⟨hm, hp⟩, rfl⟩, rfl⟩
      have hr : s.servers[kv.1]? = some kv.2 := ExtTreeMap.mem_toList_iff_getElem?_eq_some.1 hm
      rw [hk _ _ hr]
      exact ⟨kv.2, hr, hp⟩
    · rintro ⟨row, hr, hp⟩
      exact ⟨row.svr, ⟨(k, row), ⟨ExtTreeMap.mem_toList_iff_getElem?_eq_some.2 hr, hp⟩, rfl⟩, hk _ _ hr⟩

/-- in a sequential pass the record fetch returns the scanned copies themselves -/
theorem fetch_scanned (s : AbsState) (svrs : List Server)
    (h : ∀ sv ∈ svrs, ∃ row, s.servers[sv.addr.key]? = some row ∧ row.svr = sv) :
    (svrs.map (·.addr)).filterMap (fun a => (s.getRow a).map (·.svr)) = svrs := by
  induction svrs with
  | nil => rfl
  | cons sv rest ih =>
    obtain ⟨row, hr, hs⟩ := h sv (by simp)
    have : s.getRow sv.addr = some row := hr
    simp only [List.map_cons, List.filterMap_cons, this, Option.map_some, hs]
    rw [ih (fun sv' hm => h sv' (by simp [hm]))]

end Swat4.CleanComplete
