import Swat4.Lemmas.Backed
import Swat4.Lemmas.BackedSys
/-!
# C16 with expiry taken into account: `BackedStrict` (reviewer W3)

`Backed` (`Lemmas/Backed.lean`) counts a retry mark as backed by *any* queued probe of the same address and goal.
Queued probes can carry an `expires` time: the refresher and the reviver pass `before = deadline`
(`refreshservers.go`, `reviveservers.go`), and `PopMany` silently drops an item whose deadline has passed.  A mark
backed only by such a probe would be orphaned by the drop.  `BackedStrict` demands a backing item with
`expires = none`.

The use cases that *set* a mark enqueue with no expiry: `probeserver.retry` (`AddBetween(prb, now+delay, NC)`),
`reportserver.maybeDiscoverPort` and `addserver.discoverServer` (`AddBetween(prb, NC, NC)`); refresh and revival set no
mark.  So everything `Lemmas/Backed.lean` and `Lemmas/BackedSys.lean` prove for `Backed` holds for `BackedStrict`.

This file is the same development with the two definitions that mention the queue changed: `InQS` (the backing item
has no expiry) and `learnES` (an accepted enqueue teaches the client "a non-expiring probe is queued" only when it was
enqueued with `before = none`).  Everything that does not mention them (`CallOK`, `WriteOK`, `ResOK`, `learnR`,
`ReplyOk`, `Keyed`, the status algebra, the run lemmas) is reused from `Swat4.C16`; names of the re-proved lemmas are
the same as there, inside the namespace `Swat4.C16.Strict`.
-/
namespace Swat4.C16.Strict
open Swat4 Swat4.UC Std Swat4.C16

/-- a probe of goal `g` for address `a` is queued -/
def InQS (s : AbsState) (a : Addr) (g : Goal) : Prop := ∃ q ∈ s.queue, q.expires = none ∧ q.probe.addr = a ∧ q.probe.goal = g

/-- every stored server that carries the retry mark of a goal has a queued probe of that goal for its address -/
def BackedStrict (s : AbsState) : Prop :=
  ∀ (k : Nat) (row : SRow) (g : Goal), s.servers[k]? = some row → Status.has row.svr.status (retryMark g) = true →
    ∃ q ∈ s.queue, q.expires = none ∧ q.probe.addr = row.svr.addr ∧ q.probe.goal = g


/-- `BackedStrict` up to an excepted set `X` of marks (marks whose probe somebody holds) -/
def BackedExS (X : Addr → Goal → Prop) (s : AbsState) : Prop :=
  ∀ (k : Nat) (row : SRow) (g : Goal), s.servers[k]? = some row → Marked row.svr g → X row.svr.addr g ∨ InQS s row.svr.addr g

/-- every mark is backed except possibly the mark `(a, g)` -/
def BackedExceptS (s : AbsState) (a : Addr) (g : Goal) : Prop := BackedExS (fun a' g' => a' = a ∧ g' = g) s

theorem backed_iff (s : AbsState) : BackedStrict s ↔ BackedExS (fun _ _ => False) s := by
  constructor
  · intro h k row g hr hm; exact Or.inr (h k row g hr hm)
  · intro h k row g hr hm
    rcases h k row g hr hm with hf | hq
    · exact hf.elim
    · exact hq

theorem BackedExS.mono {X Y : Addr → Goal → Prop} {s : AbsState} (h : BackedExS X s) (hxy : ∀ a g, X a g → Y a g) : BackedExS Y s := by
  intro k row g hr hm
  rcases h k row g hr hm with hx | hq
  · exact Or.inl (hxy _ _ hx)
  · exact Or.inr hq

theorem BackedStrict.except {s : AbsState} (h : BackedStrict s) (a : Addr) (g : Goal) : BackedExceptS s a g :=
  ((backed_iff s).1 h).mono (fun _ _ hf => hf.elim)


/-- probes a reply tells the client about: the marks of a record the store returned are backed, an accepted
enqueue is queued -/
def learnES : {β : Type} → Call β → β → Addr → Goal → Prop
  | _, .getServer _, r, a, g => learnSvrE r a g
  | _, .addServer _ _, r, a, g => learnSvrE r a g
  | _, .updateServer _ _, r, a, g => learnSvrE r a g
  | _, .updateServerT _ _, r, a, g => learnSvrE r a g
  | _, .enqueue p _ before, .ok _, a, g => before = none ∧ a = p.addr ∧ g = p.goal
  | _, _, _, _, _ => False

/-- `GoodS C E R p`: along every path of `p` (whatever the replies, as long as they are `ReplyOk`) every call meets
its obligations under the knowledge accumulated so far -/
inductive GoodS (C : Addr → Prop) {α : Type} : (Addr → Goal → Prop) → (Addr → Prop) → Prog α → Prop where
  | ret (E R) (a : α) : GoodS C E R (.ret a)
  | call (E R) {β : Type} (c : Call β) (k : β → Prog α) :
      CallOK E R c →
      (∀ b, ReplyOk c b → GoodS C (fun a g => E a g ∨ learnES c b a g) (fun a => R a ∨ learnR C c b a) (k b)) →
      GoodS C E R (.call c k)

theorem GoodS.pure {C : Addr → Prop} {α : Type} (E R) (a : α) : GoodS C E R (pure a : Prog α) := GoodS.ret E R a

/-- sequencing: the continuation must be good under every larger knowledge -/
theorem GoodS.bind {C : Addr → Prop} {α β : Type} {E R} {p : Prog α} {f : α → Prog β} (hp : GoodS C E R p)
    (hf : ∀ a (E' : Addr → Goal → Prop) (R' : Addr → Prop), (∀ x g, E x g → E' x g) → (∀ x, R x → R' x) → GoodS C E' R' (f a)) :
    GoodS C E R (p.bind f) := by
  induction hp with
  | ret E R a => exact hf a E R (fun _ _ h => h) (fun _ h => h)
  | call E R c k hc _ ih =>
    refine GoodS.call E R c _ hc (fun b hb => ?_)
    exact ih b hb (fun a E' R' hE hR => hf a E' R' (fun x g h => hE x g (Or.inl h)) (fun x h => hR x (Or.inl h)))

/-! ## the invariant of one client's view -/

structure KInvS (C : Addr → Prop) (X : Addr → Goal → Prop) (E : Addr → Goal → Prop) (R : Addr → Prop) (s : AbsState) : Prop where
  backed : BackedExS X s
  keyed : Keyed s
  hE : ∀ a g, E a g → X a g ∨ InQS s a g
  hR : ∀ a, R a → ∀ (row : SRow), s.servers[a.key]? = some row → row.svr.addr = a
  /-- every stored and every known address satisfies the side condition (`True`, or `Addr.PortOk`) -/
  rowsC : ∀ (k : Nat) (row : SRow), s.servers[k]? = some row → C row.svr.addr
  hRC : ∀ a, R a → C a

variable {C : Addr → Prop} {X : Addr → Goal → Prop} {E : Addr → Goal → Prop} {R : Addr → Prop}

theorem KInvS.weaken {E' : Addr → Goal → Prop} {R' : Addr → Prop} {s : AbsState} (h : KInvS C X E R s)
    (hE : ∀ a g, E' a g → E a g) (hR : ∀ a, R' a → R a) : KInvS C X E' R' s :=
  ⟨h.backed, h.keyed, fun a g he => h.hE a g (hE a g he), fun a hr => h.hR a (hR a hr), h.rowsC, fun a hr => h.hRC a (hR a hr)⟩

theorem KInvS.addFalse {s : AbsState} {F : Addr → Goal → Prop} {G : Addr → Prop} (h : KInvS C X E R s)
    (hF : ∀ a g, ¬ F a g) (hG : ∀ a, ¬ G a) : KInvS C X (fun a g => E a g ∨ F a g) (fun a => R a ∨ G a) s :=
  h.weaken (fun a g he => he.elim id (fun hf => (hF a g hf).elim)) (fun a hr => hr.elim id (fun hg => (hG a hg).elim))

/-- the state changed, but neither the rows nor (downwards) the queue -/
theorem KInvS.queue_mono {s s' : AbsState} (h : KInvS C X E R s) (hs : s'.servers = s.servers)
    (hq : ∀ q ∈ s.queue, q ∈ s'.queue) : KInvS C X E R s' := by
  have hin : ∀ a g, InQS s a g → InQS s' a g := fun a g ⟨q, hm, hp⟩ => ⟨q, hq q hm, hp⟩
  refine ⟨?_, ?_, ?_, ?_, ?_, h.hRC⟩
  · intro k row g hr hm
    rw [hs] at hr
    exact (h.backed k row g hr hm).imp id (hin _ _)
  · intro k row hr; rw [hs] at hr; exact h.keyed k row hr
  · intro a g he; exact (h.hE a g he).imp id (hin _ _)
  · intro a hr row hrow; rw [hs] at hrow; exact h.hR a hr row hrow
  · intro k row hr; rw [hs] at hr; exact h.rowsC k row hr

/-- a returned record that is stored under its own key adds sound knowledge -/
theorem KInvS.learn_row {s : AbsState} (h : KInvS C X E R s) (r : Server) (t : Int)
    (hrow : s.servers[r.addr.key]? = some ⟨r, t⟩) :
    KInvS C X (fun a g => E a g ∨ (a = r.addr ∧ Marked r g)) (fun a => R a ∨ a = r.addr) s := by
  refine ⟨h.backed, h.keyed, ?_, ?_, h.rowsC, ?_⟩
  · intro a g he
    rcases he with he | ⟨rfl, hm⟩
    · exact h.hE a g he
    · exact h.backed _ _ g hrow hm
  · intro a hr row hrow'
    rcases hr with hr | rfl
    · exact h.hR a hr row hrow'
    · rw [hrow] at hrow'; cases hrow'; rfl
  · intro a hr
    rcases hr with hr | rfl
    · exact h.hRC a hr
    · exact h.rowsC _ _ hrow

theorem erase_kinv {s : AbsState} (h : KInvS C X E R s) (k0 : Nat) : KInvS C X E R { s with servers := s.servers.erase k0 } := by
  refine ⟨?_, ?_, h.hE, ?_, ?_, h.hRC⟩
  · intro k row g hr hm
    simp only [ExtTreeMap.getElem?_erase] at hr
    split at hr
    · cases hr
    · exact h.backed k row g hr hm
  · intro k row hr
    simp only [ExtTreeMap.getElem?_erase] at hr
    split at hr
    · cases hr
    · exact h.keyed k row hr
  · intro a hr row hrow
    simp only [ExtTreeMap.getElem?_erase] at hrow
    split at hrow
    · cases hrow
    · exact h.hR a hr row hrow
  · intro k row hr
    simp only [ExtTreeMap.getElem?_erase] at hr
    split at hr
    · cases hr
    · exact h.rowsC k row hr

/-- `save` of a record whose marks are backed and whose address is the one known for its key -/
theorem save_kinv {s : AbsState} (h : KInvS C X E R s) (now : Int) (svr : Server)
    (hm : ∀ g, Marked svr g → X svr.addr g ∨ InQS s svr.addr g)
    (hR : ∀ a, R a → a.key = svr.addr.key → a = svr.addr) (hC : C svr.addr) :
    KInvS C X E R (s.save now svr).1 ∧
      (s.save now svr).1.servers[(s.save now svr).2.addr.key]? = some ⟨(s.save now svr).2, now⟩ ∧
      (s.save now svr).2.addr = svr.addr := by
  refine ⟨⟨?_, ?_, h.hE, ?_, ?_, h.hRC⟩, ?_, rfl⟩
  · intro k row g hr hmk
    simp only [AbsState.save, ExtTreeMap.getElem?_insert] at hr
    split at hr
    · cases hr; exact hm g hmk
    · exact h.backed k row g hr hmk
  · intro k row hr
    simp only [AbsState.save, ExtTreeMap.getElem?_insert] at hr
    split at hr
    · rename_i hk
      cases hr
      simpa using hk
    · exact h.keyed k row hr
  · intro a hr row hrow
    simp only [AbsState.save, ExtTreeMap.getElem?_insert] at hrow
    split at hrow
    · rename_i hk
      cases hrow
      have hk' : svr.addr.key = a.key := by simpa using hk
      exact (hR a hr hk'.symm).symm
    · exact h.hR a hr row hrow
  · intro k row hr
    simp only [AbsState.save, ExtTreeMap.getElem?_insert] at hr
    split at hr
    · cases hr; exact hC
    · exact h.rowsC k row hr
  · simp [AbsState.save]

/-! ## one call -/

theorem inj_of_row {s : AbsState} (h : KInvS C X E R s) (svr : Server) (hRs : R svr.addr) (ex : SRow)
    (hrow : s.servers[svr.addr.key]? = some ex) : ∀ a, R a → a.key = svr.addr.key → a = svr.addr := by
  intro a ha hk
  have h1 := h.hR a ha ex (by rw [hk]; exact hrow)
  have h2 := h.hR svr.addr hRs ex hrow
  rw [← h1, h2]

theorem write_marks {s : AbsState} (h : KInvS C X E R s) (svr : Server) (hw : WriteOK E R svr)
    (hinj : ∀ a, R a → a.key = svr.addr.key → a = svr.addr) :
    ∀ g, Marked svr g → X svr.addr g ∨ InQS s svr.addr g := by
  intro g hm
  obtain ⟨a, ha, hk, he⟩ := hw g hm
  have := hinj a ha hk
  subst this
  exact h.hE _ _ he

/-- saving the caller's record -/
theorem direct_kinv {s : AbsState} (h : KInvS C X E R s) (now : Int) (svr : Server) (hRs : R svr.addr)
    (hinj : ∀ a, R a → a.key = svr.addr.key → a = svr.addr) (hw : WriteOK E R svr) :
    KInvS C X (fun a g => E a g ∨ learnSvrE (.ok (s.save now svr).2) a g) (fun a => R a ∨ learnSvrR (.ok (s.save now svr).2) a)
      (s.save now svr).1 ∧ replySvrOk svr.addr.key (.ok (s.save now svr).2) := by
  obtain ⟨h1, h2, h3⟩ := save_kinv h now svr (write_marks h svr hw hinj) hinj (h.hRC _ hRs)
  exact ⟨h1.learn_row _ now h2, by simp only [replySvrOk, h3]⟩

/-- saving what the conflict callback made of the stored record -/
theorem resolved_kinv {s : AbsState} (h : KInvS C X E R s) (now : Int) (svr : Server) (hRs : R svr.addr) (ex : SRow)
    (hrow : s.servers[svr.addr.key]? = some ex) (res : Resolver) (hres : ResOK E R svr res) (r : Server)
    (hr : res ex.svr = some r) :
    KInvS C X (fun a g => E a g ∨ learnSvrE (.ok (s.save now r).2) a g) (fun a => R a ∨ learnSvrR (.ok (s.save now r).2) a)
      (s.save now r).1 ∧ replySvrOk svr.addr.key (.ok (s.save now r).2) := by
  obtain ⟨hra, hrm⟩ := hres ex.svr r hr
  have hex : ex.svr.addr = svr.addr := h.hR _ hRs ex hrow
  have hrs : r.addr = svr.addr := hra.trans hex
  have hinj0 := inj_of_row h svr hRs ex hrow
  have hinj : ∀ a, R a → a.key = r.addr.key → a = r.addr := by rw [hrs]; exact hinj0
  have hm : ∀ g, Marked r g → X r.addr g ∨ InQS s r.addr g := by
    intro g hg
    rcases hrm g hg with hexm | ⟨a, ha, hk, he⟩
    · have := h.backed _ ex g hrow hexm
      rwa [hex, ← hrs] at this
    · have := hinj0 a ha hk
      subst this
      rw [hrs]; exact h.hE _ _ he
  obtain ⟨h1, h2, h3⟩ := save_kinv h now r hm hinj (by rw [hrs]; exact h.hRC _ hRs)
  exact ⟨h1.learn_row _ now h2, by simp only [replySvrOk, h3, hrs]⟩

/-- the state is unchanged and the reply is the stored row -/
theorem stored_kinv {s : AbsState} (h : KInvS C X E R s) (k : Nat) (ex : SRow) (hrow : s.servers[k]? = some ex) :
    KInvS C X (fun a g => E a g ∨ learnSvrE (.ok ex.svr) a g) (fun a => R a ∨ learnSvrR (.ok ex.svr) a) s ∧
      replySvrOk k (.ok ex.svr) := by
  have hk := h.keyed k ex hrow
  refine ⟨?_, hk⟩
  have : s.servers[ex.svr.addr.key]? = some ⟨ex.svr, ex.updatedAt⟩ := by rw [hk]; exact hrow
  exact h.learn_row _ _ this

theorem error_kinv {s : AbsState} (h : KInvS C X E R s) (e : RErr) (k : Nat) :
    KInvS C X (fun a g => E a g ∨ learnSvrE (.error e) a g) (fun a => R a ∨ learnSvrR (.error e) a) s ∧
      replySvrOk k (.error e) :=
  ⟨h.addFalse (fun _ _ hf => hf) (fun _ hf => hf), trivial⟩

theorem update_kinv {s : AbsState} (h : KInvS C X E R s) (now : Int) (svr : Server) (res : Resolver)
    (hRs : R svr.addr) (hw : WriteOK E R svr) (hres : ResOK E R svr res) :
    KInvS C X (fun a g => E a g ∨ learnSvrE (s.update now svr res).2 a g) (fun a => R a ∨ learnSvrR (s.update now svr res).2 a)
      (s.update now svr res).1 ∧ replySvrOk svr.addr.key (s.update now svr res).2 := by
  unfold AbsState.update
  cases hrow : s.getRow svr.addr with
  | none => exact error_kinv h _ _
  | some ex =>
    have hrow' : s.servers[svr.addr.key]? = some ex := hrow
    dsimp only
    split
    · cases hr : res ex.svr with
      | none => exact stored_kinv h _ ex hrow'
      | some r => exact resolved_kinv h now svr hRs ex hrow' res hres r hr
    · exact direct_kinv h now svr hRs (inj_of_row h svr hRs ex hrow') hw

theorem add_kinv {s : AbsState} (h : KInvS C X E R s) (now : Int) (svr : Server) (res : Resolver)
    (hRs : R svr.addr) (hinj : ∀ b, R b → b.key = svr.addr.key → b = svr.addr) (hw : WriteOK E R svr) (hres : ResOK E R svr res) :
    KInvS C X (fun a g => E a g ∨ learnSvrE (s.add now svr res).2 a g) (fun a => R a ∨ learnSvrR (s.add now svr res).2 a)
      (s.add now svr res).1 ∧ replySvrOk svr.addr.key (s.add now svr res).2 := by
  unfold AbsState.add
  cases hrow : s.getRow svr.addr with
  | none => exact direct_kinv h now svr hRs hinj hw
  | some ex =>
    have hrow' : s.servers[svr.addr.key]? = some ex := hrow
    dsimp only
    cases hr : res ex.svr with
    | none => exact error_kinv h _ _
    | some r => exact resolved_kinv h now svr hRs ex hrow' res hres r hr

theorem remove_kinv {s : AbsState} (h : KInvS C X E R s) (svr : Server) (res : Resolver) : KInvS C X E R (s.remove svr res).1 := by
  unfold AbsState.remove
  cases hrow : s.getRow svr.addr with
  | none => exact h
  | some ex =>
    dsimp only
    split
    · cases res ex.svr with
      | none => exact h
      | some r => exact erase_kinv h _
    · exact erase_kinv h _

/-- an enqueue without an expiry is never dropped, and the queued item never expires -/
theorem enqueue_inq (s : AbsState) (now : Int) (p : Probe) (after before : GoTime) (h : before = none) :
    InQS (s.enqueue now p after before) p.addr p.goal := by
  subst h
  have : ∃ r, (s.enqueue now p after none).queue = s.queue ++ [⟨s.nextId, p, r, none⟩] := by
    cases after <;> exact ⟨_, rfl⟩
  obtain ⟨r, hr⟩ := this
  exact ⟨⟨s.nextId, p, r, none⟩, by rw [hr]; simp, rfl, rfl, rfl⟩

/-- **one call.**  A call that meets its obligations keeps the invariant, and what the client learns from the
reply is sound in the new state. -/
theorem exec_kinv {β : Type} (c : Call β) (s : AbsState) (now : Int) (hc : CallOK E R c) (h : KInvS C X E R s) :
    KInvS C X (fun a g => E a g ∨ learnES c (c.exec s now).2 a g) (fun a => R a ∨ learnR C c (c.exec s now).2 a) (c.exec s now).1 ∧
      ReplyOk c (c.exec s now).2 := by
  cases c with
  | now => exact ⟨h.addFalse (fun _ _ hf => hf) (fun _ hf => hf), trivial⟩
  | filterServers fs => exact ⟨h.addFalse (fun _ _ hf => hf) (fun _ hf => hf), trivial⟩
  | scanServers fs => exact ⟨h.addFalse (fun _ _ hf => hf) (fun _ hf => hf), trivial⟩
  | fetchServers as => exact ⟨h.addFalse (fun _ _ hf => hf) (fun _ hf => hf), trivial⟩
  | insGet id => exact ⟨h.addFalse (fun _ _ hf => hf) (fun _ hf => hf), trivial⟩
  | insAdd i =>
    exact ⟨(h.queue_mono (s' := s.insAdd now i) rfl (fun _ hq => hq)).addFalse (fun _ _ hf => hf) (fun _ hf => hf), trivial⟩
  | insRemove id =>
    exact ⟨(h.queue_mono (s' := s.insRemove id) rfl (fun _ hq => hq)).addFalse (fun _ _ hf => hf) (fun _ hf => hf), trivial⟩
  | insClear b =>
    exact ⟨(h.queue_mono (s' := (s.insClear b).1) rfl (fun _ hq => hq)).addFalse (fun _ _ hf => hf) (fun _ hf => hf), trivial⟩
  | popMany n => exact hc.elim
  | removeServer svr res =>
    exact ⟨(remove_kinv h svr res).addFalse (fun _ _ hf => hf) (fun _ hf => hf), trivial⟩
  | enqueue p after before =>
    have h' := h.queue_mono (s' := s.enqueue now p after before) (enqueue_servers s now p after before)
      (enqueue_queue_mono s now p after before)
    refine ⟨⟨h'.backed, h'.keyed, ?_, ?_, h'.rowsC, ?_⟩, trivial⟩
    · intro a g he
      rcases he with he | ⟨hab, rfl, rfl⟩
      · exact h'.hE a g he
      · exact Or.inr (enqueue_inq s now p after before hab)
    · intro a hr
      rcases hr with hr | hf
      · exact h'.hR a hr
      · exact hf.elim
    · intro a hr
      rcases hr with hr | hf
      · exact h'.hRC a hr
      · exact hf.elim
  | getServer x =>
    simp only [Call.exec, AbsState.get]
    cases hrow : s.getRow x with
    | none =>
      refine ⟨⟨h.backed, h.keyed, ?_, ?_, h.rowsC, ?_⟩, trivial⟩
      · intro a g he
        rcases he with he | hf
        · exact h.hE a g he
        · exact hf.elim
      · intro a hr row hrow'
        rcases hr with hr | ⟨rfl, _⟩
        · exact h.hR a hr row hrow'
        · have : s.servers[a.key]? = none := hrow
          rw [this] at hrow'; cases hrow'
      · intro a hr
        rcases hr with hr | ⟨rfl, hc⟩
        · exact h.hRC a hr
        · exact hc
    | some ex =>
      have hrow' : s.servers[x.key]? = some ex := hrow
      have := stored_kinv h x.key ex hrow'
      exact ⟨this.1, this.2⟩
  | addServer svr res =>
    obtain ⟨hRs, hinj, hw, hres⟩ := hc
    exact add_kinv h now svr res hRs hinj hw hres
  | updateServer svr res =>
    obtain ⟨hRs, hw, hres⟩ := hc
    exact update_kinv h now svr res hRs hw hres
  | updateServerT svr res =>
    obtain ⟨hRs, hw, hres⟩ := hc
    exact update_kinv h now svr (res now) hRs hw (hres now)

/-! ## every crash / fault prefix of a run -/

/-- a storage error teaches nothing (and is an admissible reply) -/
theorem fault_learn (C : Addr → Prop) {β : Type} (c : Call β) (e : β) (he : c.faultReply = some e) :
    (∀ a g, ¬ learnES c e a g) ∧ (∀ a, ¬ learnR C c e a) ∧ ReplyOk c e := by
  cases c <;> simp [Call.faultReply] at he <;> subst he <;>
    simp [learnES, learnR, ReplyOk, learnSvrE, learnSvrR, replySvrOk]

/-- **every prefix of every faulty run** of a `GoodS` program keeps `BackedExS X` and `Keyed` -/
theorem GoodS.runChoices_kinv {α : Type} {E R} {p : Prog α} (hp : GoodS C E R p) :
    ∀ (cs : List Choice) (s : AbsState) (now : Int), KInvS C X E R s →
      BackedExS X (p.runChoices cs s now) ∧ Keyed (p.runChoices cs s now) := by
  induction hp with
  | ret E R a => intro cs s now h; cases cs <;> exact ⟨h.backed, h.keyed⟩
  | call E R c k hc hk ih =>
    intro cs s now h
    cases cs with
    | nil => exact ⟨h.backed, h.keyed⟩
    | cons ch cs =>
      have hex := exec_kinv c s now hc h
      cases hf : c.faultReply with
      | none =>
        cases ch
        · simp only [Prog.runChoices]
          exact ih _ hex.2 cs _ now hex.1
        · simp only [Prog.runChoices, hf]
          exact ih _ hex.2 cs _ now hex.1
        · simp only [Prog.runChoices, hf]
          exact ih _ hex.2 cs _ now hex.1
      | some e =>
        obtain ⟨f1, f2, f3⟩ := fault_learn C c e hf
        cases ch
        · simp only [Prog.runChoices]
          exact ih _ hex.2 cs _ now hex.1
        · simp only [Prog.runChoices, hf]
          exact ih e f3 cs s now (h.addFalse f1 f2)
        · simp only [Prog.runChoices, hf]
          exact ih e f3 cs _ now ((hex.1.weaken (fun a g he => Or.inl he) (fun a hr => Or.inl hr)).addFalse f1 f2)

/-- the initial knowledge is empty -/
theorem KInvS.init {s : AbsState} (hb : BackedExS X s) (hk : Keyed s)
    (hrows : ∀ (k : Nat) (row : SRow), s.servers[k]? = some row → C row.svr.addr) :
    KInvS C X (fun _ _ => False) (fun _ => False) s :=
  ⟨hb, hk, fun _ _ hf => hf.elim, fun _ hf => hf.elim, hrows, fun _ hf => hf.elim⟩

/-! ## the use cases are `GoodS` -/

section good
variable (C : Addr → Prop)

theorem maybeDiscoverPort_good (maxRetries : Int) (svr : Server) {E R} (hR : R svr.addr)
    (hE : ∀ g, Marked svr g → E svr.addr g) : GoodS C E R (maybeDiscoverPort maxRetries svr) := by
  unfold maybeDiscoverPort
  split
  · exact GoodS.pure _ _ _
  · refine GoodS.call _ _ _ _ trivial (fun r _ => ?_)
    cases r with
    | error e => exact GoodS.pure _ _ _
    | ok u =>
      refine GoodS.call _ _ _ _ ⟨Or.inl hR, ?_, ?_⟩ (fun _ _ => GoodS.pure _ _ _)
      · intro g hg
        refine ⟨svr.addr, Or.inl hR, rfl, ?_⟩
        rcases mark_update_portRetry _ g hg with h | rfl
        · exact Or.inl (hE g h)
        · exact Or.inr ⟨rfl, rfl, rfl⟩
      · intro ex r hr
        dsimp only at hr
        split at hr
        · cases hr
        · cases hr
          refine ⟨rfl, fun g hg => ?_⟩
          rcases mark_update_portRetry _ g hg with h | rfl
          · exact Or.inl h
          · exact Or.inr ⟨svr.addr, Or.inl hR, rfl, Or.inr ⟨rfl, rfl, rfl⟩⟩


theorem reportCont_good (maxRetries : Int) (req : ReportReq) (svr : Server) {E R} (hR : R svr.addr)
    (hinj : ∀ b, R b → b.key = svr.addr.key → b = svr.addr) (hE : ∀ g, Marked svr g → E svr.addr g) :
    GoodS C E R (reportCont maxRetries req svr) := by
  unfold reportCont
  split
  · exact GoodS.pure _ _ _
  · rename_i info _
    refine GoodS.call _ _ _ _ trivial (fun now _ => ?_)
    refine GoodS.call _ _ _ _ ⟨Or.inl hR, ?_, ?_, ?_⟩ (fun r hr => ?_)
    · intro b hb hk
      rcases hb with hb | hf
      · exact hinj b hb hk
      · exact hf.elim
    · intro g hg
      exact ⟨svr.addr, Or.inl hR, rfl, Or.inl (hE g (mark_reported _ g hg))⟩
    · intro ex r hr
      cases hr
      exact ⟨rfl, fun g hg => Or.inl (mark_reported _ g hg)⟩
    · cases r with
      | error e => exact GoodS.pure _ _ _
      | ok svr' =>
        refine GoodS.call _ _ _ _ trivial (fun r _ => ?_)
        cases r with
        | error e => exact GoodS.pure _ _ _
        | ok u =>
          refine GoodS.bind (maybeDiscoverPort_good C maxRetries svr' ?_ ?_) (fun _ _ _ _ _ => GoodS.pure _ _ _)
          · exact Or.inl (Or.inr rfl)
          · intro g hg
            exact Or.inl (Or.inr ⟨rfl, hg⟩)

theorem report_good (zeroInfo : Fields) (maxRetries : Int) (req : ReportReq) (hC : C req.addr) :
    GoodS C (fun _ _ => False) (fun _ => False) (UC.report zeroInfo maxRetries req) := by
  rw [report_eq]
  refine GoodS.call _ _ _ _ trivial (fun r hr => ?_)
  split
  · rename_i svr
    refine reportCont_good C maxRetries req svr (Or.inr rfl) ?_ ?_
    · intro b hb _
      rcases hb with hf | hb
      · exact hf.elim
      · exact hb
    · intro g hg; exact Or.inr ⟨rfl, hg⟩
  · split
    · exact GoodS.pure _ _ _
    · rename_i svr hs
      obtain ⟨ha, hst⟩ := newServer_spec hs
      refine reportCont_good C maxRetries req svr (Or.inr ⟨ha, hC⟩) ?_ ?_
      · intro b hb _
        rcases hb with hf | hb
        · exact hf.elim
        · rw [ha]; exact hb.1
      · intro g hg
        have : Status.has svr.status (retryMark g) = true := hg
        rw [hst, mark_new] at this
        cases this
  · exact GoodS.pure _ _ _

theorem discoverServer_good (maxRetries : Int) (svr : Server) {E R} (hR : R svr.addr)
    (hE : ∀ g, Marked svr g → E svr.addr g) : GoodS C E R (discoverServer maxRetries svr) := by
  unfold discoverServer
  refine GoodS.call _ _ _ _ trivial (fun r _ => ?_)
  cases r with
  | error e => exact GoodS.pure _ _ _
  | ok u =>
    refine GoodS.call _ _ _ _ ⟨Or.inl hR, ?_, ?_⟩ (fun r _ => ?_)
    · intro g hg
      refine ⟨svr.addr, Or.inl hR, rfl, ?_⟩
      rcases mark_update_portRetry _ g hg with h | rfl
      · exact Or.inl (hE g h)
      · exact Or.inr ⟨rfl, rfl, rfl⟩
    · intro ex r hr
      dsimp only at hr
      split at hr
      · cases hr
      · cases hr
        refine ⟨rfl, fun g hg => ?_⟩
        rcases mark_update_portRetry _ g hg with h | rfl
        · exact Or.inl h
        · exact Or.inr ⟨svr.addr, Or.inl hR, rfl, Or.inr ⟨rfl, rfl, rfl⟩⟩
    · cases r <;> exact GoodS.pure _ _ _

theorem maybeDiscoverServer_good (maxRetries : Int) (svr : Server) {E R} (hR : R svr.addr)
    (hE : ∀ g, Marked svr g → E svr.addr g) : GoodS C E R (maybeDiscoverServer maxRetries svr) := by
  unfold maybeDiscoverServer
  split
  · exact GoodS.pure _ _ _
  · split
    · exact GoodS.pure _ _ _
    · split
      · exact GoodS.pure _ _ _
      · exact GoodS.bind (discoverServer_good C maxRetries svr hR hE) (fun _ _ _ _ _ => GoodS.pure _ _ _)

theorem addServer_good (zeroInfo : Fields) (maxRetries : Int) (a : Addr) (hC : C a) :
    GoodS C (fun _ _ => False) (fun _ => False) (UC.addServer zeroInfo maxRetries a) := by
  unfold UC.addServer
  refine GoodS.call _ _ _ _ trivial (fun r hr => ?_)
  split
  · rename_i svr
    exact maybeDiscoverServer_good C maxRetries svr (Or.inr rfl) (fun g hg => Or.inr ⟨rfl, hg⟩)
  · split
    · exact GoodS.pure _ _ _
    · rename_i svr hs
      obtain ⟨ha, hst⟩ := newServer_spec hs
      refine GoodS.call _ _ _ _ ⟨Or.inr ⟨ha, hC⟩, ?_, ?_, ?_⟩ (fun r _ => ?_)
      · intro b hb _
        rcases hb with hf | hb
        · exact hf.elim
        · rw [ha]; exact hb.1
      · intro g hg
        have : Status.has svr.status (retryMark g) = true := hg
        rw [hst, mark_new] at this
        cases this
      · intro ex r hr; cases hr
      · cases r with
        | error e => exact GoodS.pure _ _ _
        | ok svr' =>
          exact maybeDiscoverServer_good C maxRetries svr' (Or.inr rfl) (fun g hg => Or.inr ⟨rfl, hg⟩)
  · exact GoodS.pure _ _ _

/-! ### the prober's outcome handling; the client knows the probe's address to be the stored one -/

theorem probeFail_good (g : Goal) (svr : Server) {E R} (hR : R svr.addr) (hE : ∀ g', Marked svr g' → E svr.addr g') :
    GoodS C E R (probeFail g svr) := by
  unfold probeFail
  refine GoodS.call _ _ _ _ ⟨hR, ?_, ?_⟩ (fun r _ => ?_)
  · intro g' hg
    exact ⟨svr.addr, hR, rfl, hE g' (mark_failureStatus g _ g' hg).1⟩
  · intro ex r hr
    cases hr
    exact ⟨rfl, fun g' hg => Or.inl (mark_failureStatus g _ g' hg).1⟩
  · cases r <;> exact GoodS.pure _ _ _

theorem probeRetry_good (prb : Probe) (svr : Server) {E R} (hR : R svr.addr) (hRp : R prb.addr)
    (hk : svr.addr.key = prb.addr.key) (hE : ∀ g', Marked svr g' → E svr.addr g') :
    GoodS C E R (probeRetry prb svr) := by
  unfold probeRetry
  have hinc : prb.incRetries.1.addr = prb.addr ∧ prb.incRetries.1.goal = prb.goal := by
    unfold Probe.incRetries; split <;> exact ⟨rfl, rfl⟩
  generalize prb.incRetries = inc at hinc
  obtain ⟨prb', retries, ok⟩ := inc
  dsimp only at hinc ⊢
  split
  · exact probeFail_good C prb.goal svr hR hE
  · refine GoodS.call _ _ _ _ trivial (fun now _ => ?_)
    refine GoodS.call _ _ _ _ trivial (fun r _ => ?_)
    cases r with
    | error e => exact GoodS.pure _ _ _
    | ok u =>
      have hq : ∀ a g, (a = prb.addr ∧ g = prb.goal) →
          learnES (Call.enqueue prb' (some (now + second * expFloor retries)) none) (Except.ok u) a g := by
        rintro a g ⟨rfl, rfl⟩
        exact ⟨rfl, hinc.1.symm, hinc.2.symm⟩
      refine GoodS.call _ _ _ _ ⟨Or.inl (Or.inl hR), ?_, ?_⟩ (fun r _ => ?_)
      · intro g' hg
        rcases mark_retryStatus prb.goal _ g' hg with h | rfl
        · exact ⟨svr.addr, Or.inl (Or.inl hR), rfl, Or.inl (Or.inl (hE g' h))⟩
        · exact ⟨prb.addr, Or.inl (Or.inl hRp), hk.symm, Or.inr (hq _ _ ⟨rfl, rfl⟩)⟩
      · intro ex r hr
        cases hr
        refine ⟨rfl, fun g' hg => ?_⟩
        rcases mark_retryStatus prb.goal _ g' hg with h | rfl
        · exact Or.inl h
        · exact Or.inr ⟨prb.addr, Or.inl (Or.inl hRp), hk.symm, Or.inr (hq _ _ ⟨rfl, rfl⟩)⟩
      · cases r <;> exact GoodS.pure _ _ _

theorem probe_good (prb : Probe) (outcome : Option ProbeResult) {E R} (hRp : R prb.addr) :
    GoodS C E R (UC.probe prb outcome) := by
  unfold UC.probe
  refine GoodS.call _ _ _ _ trivial (fun r hr => ?_)
  cases r with
  | error e => exact GoodS.pure _ _ _
  | ok svr =>
    have hk : svr.addr.key = prb.addr.key := hr
    have hR' : (fun a => R a ∨ learnR C (Call.getServer prb.addr) (Except.ok svr) a) svr.addr := Or.inr rfl
    have hE' : ∀ g', Marked svr g' →
        (fun a g => E a g ∨ learnES (Call.getServer prb.addr) (Except.ok svr) a g) svr.addr g' :=
      fun g' hg => Or.inr ⟨rfl, hg⟩
    cases outcome with
    | none => exact probeRetry_good C prb svr hR' (Or.inl hRp) hk hE'
    | some res =>
      dsimp only
      refine GoodS.call _ _ _ _ trivial (fun now _ => ?_)
      refine GoodS.call _ _ _ _ ⟨?_, ?_, ?_⟩ (fun r _ => ?_)
      · rw [handleSuccess_addr]; exact Or.inl hR'
      · intro g' hg
        have hg' : Status.has (handleSuccess prb.goal res now svr).status (retryMark g') = true := hg
        rw [handleSuccess_status] at hg'
        refine ⟨svr.addr, Or.inl hR', by rw [handleSuccess_addr], Or.inl (hE' g' (mark_successStatus _ _ g' hg').1)⟩
      · intro t ex r hr
        cases hr
        refine ⟨handleSuccess_addr _ _ _ _, fun g' hg => Or.inl ?_⟩
        have hg' : Status.has (handleSuccess prb.goal res t ex).status (retryMark g') = true := hg
        rw [handleSuccess_status] at hg'
        exact (mark_successStatus _ _ g' hg').1
      · cases r <;> exact GoodS.pure _ _ _

/-! ### refresh, revive: enqueues only -/

theorem enqueueAll_good (mk : Server → Probe × GoTime × GoTime) (l : List Server) (n : Nat) {E R} :
    GoodS C E R (enqueueAll mk l n) := by
  induction l generalizing n E R with
  | nil => exact GoodS.pure _ _ _
  | cons s rest ih =>
    unfold enqueueAll
    refine GoodS.call _ _ _ _ trivial (fun r _ => ?_)
    cases r with
    | error e => exact ih _
    | ok u => exact ih _

theorem refresh_good (maxRetries deadline : Int) {E R} : GoodS C E R (UC.refresh maxRetries deadline) := by
  unfold UC.refresh
  refine GoodS.call _ _ _ _ trivial (fun r _ => ?_)
  cases r with
  | error e => exact GoodS.pure _ _ _
  | ok svrs => exact GoodS.bind (enqueueAll_good C _ svrs 0) (fun _ _ _ _ _ => GoodS.pure _ _ _)

theorem revive_good (maxRetries minScope maxScope minCountdown maxCountdown deadline : Int) (draws : Nat → Int) {E R} :
    GoodS C E R (UC.revive maxRetries minScope maxScope minCountdown maxCountdown deadline draws) := by
  unfold UC.revive
  refine GoodS.call _ _ _ _ trivial (fun r _ => ?_)
  cases r with
  | error e => exact GoodS.pure _ _ _
  | ok svrs => exact GoodS.bind (enqueueAll_good C _ svrs 0) (fun _ _ _ _ _ => GoodS.pure _ _ _)

/-! ### keepalive, removal -/

theorem renew_good (instanceId srcIp : Nat) {E R} : GoodS C E R (UC.renew instanceId srcIp) := by
  unfold UC.renew
  refine GoodS.call _ _ _ _ trivial (fun r _ => ?_)
  cases r with
  | error e => exact GoodS.pure _ _ _
  | ok inst =>
    dsimp only
    split
    · exact GoodS.pure _ _ _
    · refine GoodS.call _ _ _ _ trivial (fun r _ => ?_)
      cases r with
      | error e => exact GoodS.pure _ _ _
      | ok svr =>
        refine GoodS.call _ _ _ _ trivial (fun now _ => ?_)
        refine GoodS.call _ _ _ _ ⟨Or.inl (Or.inr rfl), ?_, ?_⟩ (fun r _ => ?_)
        · intro g hg
          exact ⟨svr.addr, Or.inl (Or.inr rfl), rfl, Or.inl (Or.inr ⟨rfl, hg⟩)⟩
        · intro ex r hr
          cases hr
          exact ⟨rfl, fun g hg => Or.inl hg⟩
        · cases r <;> exact GoodS.pure _ _ _

theorem remove_good (instanceId : Nat) (a : Addr) {E R} : GoodS C E R (UC.remove instanceId a) := by
  unfold UC.remove
  refine GoodS.call _ _ _ _ trivial (fun r _ => ?_)
  split
  · exact GoodS.pure _ _ _
  · exact GoodS.pure _ _ _
  · refine GoodS.call _ _ _ _ trivial (fun r _ => ?_)
    split
    · exact GoodS.pure _ _ _
    · exact GoodS.pure _ _ _
    · split
      · exact GoodS.pure _ _ _
      · refine GoodS.call _ _ _ _ trivial (fun r _ => ?_)
        cases r with
        | error e => exact GoodS.pure _ _ _
        | ok u =>
          refine GoodS.call _ _ _ _ trivial (fun r _ => ?_)
          cases r <;> exact GoodS.pure _ _ _

end good

/-! ## packaging for the property file -/

/-- a program that is `GoodS` from empty knowledge keeps `BackedStrict` and `Keyed` at every crash point, under every fault placement -/
theorem GoodS.backed {α : Type} {p : Prog α} (hp : GoodS (fun _ => True) (fun _ _ => False) (fun _ => False) p)
    (cs : List Choice) (s : AbsState) (now : Int) (hb : BackedStrict s) (hk : Keyed s) :
    BackedStrict (p.runChoices cs s now) ∧ Keyed (p.runChoices cs s now) := by
  have := hp.runChoices_kinv (X := fun _ _ => False) cs s now (KInvS.init ((backed_iff s).1 hb) hk (fun _ _ _ => trivial))
  exact ⟨(backed_iff _).2 this.1, this.2⟩

/-- the same for a holder of the probe `(a, g)`: knowledge = "`a` is the address stored under its key" -/
theorem GoodS.backedExcept {α : Type} {p : Prog α} {a : Addr} {g : Goal}
    (hp : GoodS (fun _ => True) (fun _ _ => False) (fun x => x = a) p)
    (cs : List Choice) (s : AbsState) (now : Int) (hb : BackedExceptS s a g) (hk : Keyed s)
    (hcanon : ∀ (row : SRow), s.servers[a.key]? = some row → row.svr.addr = a) :
    BackedExceptS (p.runChoices cs s now) a g ∧ Keyed (p.runChoices cs s now) :=
  hp.runChoices_kinv (X := fun a' g' => a' = a ∧ g' = g) cs s now
    ⟨hb, hk, fun _ _ hf => hf.elim, fun x hx row hrow => by subst hx; exact hcanon row hrow, fun _ _ _ => trivial, fun _ _ => trivial⟩

theorem backed_of_except_inq {s : AbsState} {a : Addr} {g : Goal} (h : BackedExceptS s a g) (hq : InQS s a g) : BackedStrict s := by
  intro k row g' hr hm
  rcases h k row g' hr hm with ⟨ha, hg⟩ | hq'
  · rw [ha, hg]; exact hq
  · exact hq'

theorem backed_of_except_unmarked {s : AbsState} {a : Addr} {g : Goal} (h : BackedExceptS s a g) (hk : Keyed s)
    (hu : ∀ (row : SRow), s.servers[a.key]? = some row → Status.has row.svr.status (retryMark g) = false) : BackedStrict s := by
  intro k row g' hr hm
  rcases h k row g' hr hm with ⟨ha, hg⟩ | hq'
  · have hkk := hk k row hr
    rw [ha] at hkk
    subst hkk; subst hg
    rw [hu row hr] at hm
    cases hm
  · exact hq'

theorem probe_run_retry (prb : Probe) (s : AbsState) (now : Int) (ex : SRow)
    (hrow : s.servers[prb.addr.key]? = some ex) (hout : prb.retries < prb.maxRetries) :
    InQS ((UC.probe prb none).run s now).1 prb.addr prb.goal := by
  have hg : s.getRow prb.addr = some ex := hrow
  have hout' : ¬ prb.retries ≥ prb.maxRetries := by omega
  simp only [UC.probe, Prog.run_call, Call.exec, AbsState.get, hg, probeRetry, Probe.incRetries, hout', if_false,
    Bool.not_true]
  simp only [Bool.false_eq_true, if_false, Prog.run_call, Call.exec]
  have hq := enqueue_inq s now { prb with retries := prb.retries + 1 } (some (now + second * expFloor (prb.retries + 1))) none rfl
  obtain ⟨q, hm, hp⟩ := hq
  split <;> exact ⟨q, by simp only [Prog.run_pure, update_queue]; exact hm, hp⟩

/-- **the holder ran to completion without faults**: whatever the outcome, the mark it was responsible for is
cleared (success, final failure) or backed again by the re-queued probe (retry) -/
theorem probe_run_backed (prb : Probe) (outcome : Option ProbeResult) (s : AbsState) (now : Int)
    (hb : BackedExceptS s prb.addr prb.goal) (hk : Keyed s)
    (hcanon : ∀ (row : SRow), s.servers[prb.addr.key]? = some row → row.svr.addr = prb.addr) :
    BackedStrict ((UC.probe prb outcome).run s now).1 := by
  have hfin := (probe_good (fun _ => True) prb outcome (E := fun _ _ => False) (R := fun x => x = prb.addr) rfl).backedExcept
    (List.replicate ((UC.probe prb outcome).runSteps s now) .ok) s now hb hk hcanon
  rw [runChoices_all_ok _ _ _ _ (Nat.le_refl _)] at hfin
  cases hrow : s.servers[prb.addr.key]? with
  | none =>
    rw [probe_run_none _ _ _ _ hrow]
    exact backed_of_except_unmarked hb hk (fun row hr => by rw [hrow] at hr; cases hr)
  | some ex =>
    have hkey := hk _ _ hrow
    cases outcome with
    | some res =>
      refine backed_of_except_unmarked hfin.1 hfin.2 (fun row hr => ?_)
      rw [probe_run_success _ _ _ _ ex hrow hk] at hr
      have hkey' : (handleSuccess prb.goal res now ex.svr).addr.key = prb.addr.key := by rw [handleSuccess_addr]; exact hkey
      rw [← hkey', save_row] at hr
      cases hr
      show Status.has (handleSuccess prb.goal res now ex.svr).status (retryMark prb.goal) = false
      rw [handleSuccess_status]
      exact unmark_success _ _
    | none =>
      by_cases hout : prb.retries < prb.maxRetries
      · exact backed_of_except_inq hfin.1 (probe_run_retry prb s now ex hrow hout)
      · refine backed_of_except_unmarked hfin.1 hfin.2 (fun row hr => ?_)
        rw [probe_run_fail _ _ _ ex hrow hk (by omega)] at hr
        have hkey' : (handleFailure prb.goal ex.svr).addr.key = prb.addr.key := hkey
        rw [← hkey', save_row] at hr
        cases hr
        exact unmark_failure _ _

/-! # interleaved (the strict copy of `Lemmas/BackedSys.lean`) -/

/-- the view of one client: its program is `GoodS` for knowledge that is sound in `s` -/
def CInvS {α : Type} (s : AbsState) (p : Prog α) : Prop :=
  ∃ (E : Addr → Goal → Prop) (R : Addr → Prop), GoodS Addr.PortOk E R p ∧ (∀ a g, E a g → InQS s a g) ∧ (∀ a, R a → a.PortOk)

theorem CInvS.mono {α : Type} {s s' : AbsState} {p : Prog α} (h : CInvS s p) (hq : ∀ q ∈ s.queue, q ∈ s'.queue) : CInvS s' p := by
  obtain ⟨E, R, hg, hE, hR⟩ := h
  exact ⟨E, R, hg, fun a g he => let ⟨q, hm, hp⟩ := hE a g he; ⟨q, hq q hm, hp⟩, hR⟩

theorem kinv_of {s : AbsState} {E : Addr → Goal → Prop} {R : Addr → Prop} (hb : BackedStrict s) (hk : KeyedOk s)
    (hE : ∀ a g, E a g → InQS s a g) (hR : ∀ a, R a → a.PortOk) : KInvS Addr.PortOk (fun _ _ => False) E R s :=
  ⟨(backed_iff s).1 hb, fun k row h => (hk k row h).1, fun a g he => Or.inr (hE a g he),
   fun a ha _ hrow => Addr.key_inj (hk _ _ hrow).2 (hR a ha) (hk _ _ hrow).1, fun k row h => (hk k row h).2, hR⟩

theorem of_kinv {s : AbsState} {E : Addr → Goal → Prop} {R : Addr → Prop} (h : KInvS Addr.PortOk (fun _ _ => False) E R s) :
    BackedStrict s ∧ KeyedOk s ∧ (∀ a g, E a g → InQS s a g) ∧ (∀ a, R a → a.PortOk) :=
  ⟨(backed_iff s).2 h.backed, fun k row hr => ⟨h.keyed k row hr, h.rowsC k row hr⟩,
   fun a g he => (h.hE a g he).elim False.elim id, h.hRC⟩


/-! ## one move of one client -/

/-- what a client's move needs and re-establishes -/
def LInvS {α : Type} (s : AbsState) (p : Prog α) : Prop := BackedStrict s ∧ KeyedOk s ∧ CInvS s p

/-- the head call succeeds -/
theorem call_linv {α β : Type} (c : Call β) (k : β → Prog α) (s : AbsState) (now : Int) (h : LInvS s (.call c k)) :
    LInvS (c.exec s now).1 (k (c.exec s now).2) ∧ ∀ q ∈ s.queue, q ∈ (c.exec s now).1.queue := by
  obtain ⟨hb, hk, E, R, hg, hE, hR⟩ := h
  cases hg with
  | call _ _ _ _ hc hcont =>
    have hex := exec_kinv (C := Addr.PortOk) c s now hc (kinv_of hb hk hE hR)
    obtain ⟨hb', hk', hE', hR'⟩ := of_kinv hex.1
    exact ⟨⟨hb', hk', _, _, hcont _ hex.2, hE', hR'⟩, exec_queue_mono c s now hc⟩

/-- the head call fails with the storage error, having taken effect or not -/
theorem fault_linv {α β : Type} (c : Call β) (k : β → Prog α) (s : AbsState) (now : Int) (e : β) (he : c.faultReply = some e)
    (effect : Bool) (h : LInvS s (.call c k)) :
    LInvS (if effect then (c.exec s now).1 else s) (k e) ∧ ∀ q ∈ s.queue, q ∈ (if effect then (c.exec s now).1 else s).queue := by
  obtain ⟨hb, hk, E, R, hg, hE, hR⟩ := h
  cases hg with
  | call _ _ _ _ hc hcont =>
    obtain ⟨f1, f2, f3⟩ := fault_learn Addr.PortOk c e he
    have h0 := kinv_of hb hk hE hR
    cases effect with
    | false =>
      obtain ⟨hb', hk', hE', hR'⟩ := of_kinv (h0.addFalse f1 f2)
      exact ⟨⟨hb', hk', _, _, hcont e f3, hE', hR'⟩, fun q hq => hq⟩
    | true =>
      have hex := exec_kinv (C := Addr.PortOk) c s now hc h0
      obtain ⟨hb', hk', hE', hR'⟩ := of_kinv ((hex.1.weaken (fun a g he => Or.inl he) (fun a hr => Or.inl hr)).addFalse f1 f2)
      exact ⟨⟨hb', hk', _, _, hcont e f3, hE', hR'⟩, exec_queue_mono c s now hc⟩

theorem step1_linv {α : Type} (p : Prog α) (s : AbsState) (now : Int) (h : LInvS s p) :
    LInvS (p.step1 s now).1 (p.step1 s now).2 ∧ ∀ q ∈ s.queue, q ∈ (p.step1 s now).1.queue := by
  cases p with
  | ret a => exact ⟨h, fun q hq => hq⟩
  | call c k => exact call_linv c k s now h

theorem stepFault_linv {α : Type} (effect : Bool) (p : Prog α) (s : AbsState) (now : Int) (h : LInvS s p) :
    LInvS (p.stepFault effect s now).1 (p.stepFault effect s now).2 ∧ ∀ q ∈ s.queue, q ∈ (p.stepFault effect s now).1.queue := by
  cases p with
  | ret a => exact ⟨h, fun q hq => hq⟩
  | call c k =>
    simp only [Prog.stepFault]
    cases he : c.faultReply with
    | none => exact call_linv c k s now h
    | some e =>
      have := fault_linv c k s now e he effect h
      cases effect <;> exact this

theorem skipSilent_linv {α : Type} : ∀ (fuel : Nat) (p : Prog α) (s : AbsState) (now : Int) (names : List String), LInvS s p →
    LInvS (Prog.skipSilent fuel p s now names).1 (Prog.skipSilent fuel p s now names).2.1 ∧
      ∀ q ∈ s.queue, q ∈ (Prog.skipSilent fuel p s now names).1.queue := by
  intro fuel
  induction fuel with
  | zero => intro p s now names h; exact ⟨h, fun q hq => hq⟩
  | succ fuel ih =>
    intro p s now names h
    cases p with
    | ret a => exact ⟨h, fun q hq => hq⟩
    | call c k =>
      simp only [Prog.skipSilent]
      split
      · have h1 := call_linv c k s now h
        exact ⟨(ih (k (c.exec s now).2) (c.exec s now).1 now _ h1.1).1,
          fun q hq => (ih (k (c.exec s now).2) (c.exec s now).1 now _ h1.1).2 q (h1.2 q hq)⟩
      · exact ⟨h, fun q hq => hq⟩


/-! ## the system -/

/-- the system invariant: the store is backed and well keyed, every client (alive, finished or dead) has a
`GoodS` remaining program for knowledge that is sound in the current store -/
structure SysInvS (u : USys) : Prop where
  backed : BackedStrict u.abs
  keyed : KeyedOk u.abs
  clients : ∀ c ∈ u.clients, CInvS u.abs c.prog

theorem SysInvS.update {u : USys} (h : SysInvS u) (i : Nat) (c2 : UClient) (a2 : AbsState) (clock : Int)
    (hl : LInvS a2 c2.prog) (hmono : ∀ q ∈ u.abs.queue, q ∈ a2.queue) :
    SysInvS { u with abs := a2, clock := clock, clients := u.clients.set i c2 } := by
  refine ⟨hl.1, hl.2.1, fun c hc => ?_⟩
  rcases List.mem_or_eq_of_mem_set hc with hm | rfl
  · exact (h.clients c hm).mono hmono
  · exact hl.2.2

theorem settle_linv (c : UClient) (s : AbsState) (clock : Int) (h : LInvS s c.prog) :
    LInvS (c.settle s clock).1 (c.settle s clock).2.1.prog ∧ ∀ q ∈ s.queue, q ∈ (c.settle s clock).1.queue :=
  skipSilent_linv 64 c.prog s clock [] h

/-- the arrival of a lazily started client -/
theorem arrive_linv (c : UClient) (s : AbsState) (clock : Int) (h : LInvS s c.prog) :
    LInvS (if c.started then (s, c, ([] : List String)) else c.settle s clock).1
         (if c.started then (s, c, ([] : List String)) else c.settle s clock).2.1.prog ∧
      ∀ q ∈ s.queue, q ∈ (if c.started then (s, c, ([] : List String)) else c.settle s clock).1.queue := by
  cases c.started with
  | true => exact ⟨h, fun q hq => hq⟩
  | false => exact settle_linv c s clock h

theorem step_sysinv (u : USys) (e : UEv) (h : SysInvS u) :
    SysInvS (u.step e) ∧ ∀ q ∈ u.abs.queue, q ∈ (u.step e).abs.queue := by
  cases e with
  | tick d => exact ⟨⟨h.backed, h.keyed, h.clients⟩, fun _ hq => hq⟩
  | call i =>
    simp only [USys.step, USys.stepT]
    cases hc : u.clients[i]? with
    | none => exact ⟨h, fun _ hq => hq⟩
    | some c =>
      have hl0 : LInvS u.abs c.prog := ⟨h.backed, h.keyed, h.clients c (List.mem_of_getElem? hc)⟩
      dsimp only
      split
      · exact ⟨h, fun _ hq => hq⟩
      · have hpre := arrive_linv c u.abs u.clock hl0
        generalize (if c.started then (u.abs, c, ([] : List String)) else c.settle u.abs u.clock) = pre at hpre
        obtain ⟨a0, c0, n0⟩ := pre
        dsimp only at hpre ⊢
        split
        · exact ⟨h.update i _ a0 u.clock hpre.1 hpre.2, hpre.2⟩
        · have h1 := step1_linv c0.prog a0 (({ c0 with started := true } : UClient).callClock u.clock) hpre.1
          have h2 := settle_linv ({ c0 with started := true, prog := (c0.prog.step1 a0 (({ c0 with started := true } : UClient).callClock u.clock)).2 } : UClient)
            (c0.prog.step1 a0 (({ c0 with started := true } : UClient).callClock u.clock)).1 u.clock h1.1
          exact ⟨h.update i _ _ u.clock h2.1 (fun q hq => h2.2 q (h1.2 q (hpre.2 q hq))), fun q hq => h2.2 q (h1.2 q (hpre.2 q hq))⟩
  | crash i effect =>
    simp only [USys.step, USys.stepT]
    cases hc : u.clients[i]? with
    | none => exact ⟨h, fun _ hq => hq⟩
    | some c =>
      have hl0 : LInvS u.abs c.prog := ⟨h.backed, h.keyed, h.clients c (List.mem_of_getElem? hc)⟩
      dsimp only
      split
      · exact ⟨h, fun _ hq => hq⟩
      · have hpre := arrive_linv c u.abs u.clock hl0
        generalize (if c.started then (u.abs, c, ([] : List String)) else c.settle u.abs u.clock) = pre at hpre
        obtain ⟨a0, c0, n0⟩ := pre
        dsimp only at hpre ⊢
        cases effect with
        | false => exact ⟨h.update i _ a0 u.clock hpre.1 hpre.2, hpre.2⟩
        | true =>
          have h1 := step1_linv c0.prog a0 (c0.callClock u.clock) hpre.1
          exact ⟨h.update i _ _ u.clock ⟨h1.1.1, h1.1.2.1, hpre.1.2.2.mono h1.2⟩ (fun q hq => h1.2 q (hpre.2 q hq)),
            fun q hq => h1.2 q (hpre.2 q hq)⟩
  | fault i effect =>
    simp only [USys.step, USys.stepT]
    cases hc : u.clients[i]? with
    | none => exact ⟨h, fun _ hq => hq⟩
    | some c =>
      have hl0 : LInvS u.abs c.prog := ⟨h.backed, h.keyed, h.clients c (List.mem_of_getElem? hc)⟩
      dsimp only
      split
      · exact ⟨h, fun _ hq => hq⟩
      · have hpre := arrive_linv c u.abs u.clock hl0
        generalize (if c.started then (u.abs, c, ([] : List String)) else c.settle u.abs u.clock) = pre at hpre
        obtain ⟨a0, c0, n0⟩ := pre
        dsimp only at hpre ⊢
        have h1 := stepFault_linv effect c0.prog a0 (({ c0 with started := true } : UClient).callClock u.clock) hpre.1
        have h2 := settle_linv ({ c0 with started := true, prog := (c0.prog.stepFault effect a0 (({ c0 with started := true } : UClient).callClock u.clock)).2 } : UClient)
          (c0.prog.stepFault effect a0 (({ c0 with started := true } : UClient).callClock u.clock)).1 u.clock h1.1
        exact ⟨h.update i _ _ u.clock h2.1 (fun q hq => h2.2 q (h1.2 q (hpre.2 q hq))), fun q hq => h2.2 q (h1.2 q (hpre.2 q hq))⟩

theorem run_sysinv (es : List UEv) : ∀ (u : USys), SysInvS u →
    SysInvS (u.run es) ∧ ∀ q ∈ u.abs.queue, q ∈ (u.run es).abs.queue := by
  induction es with
  | nil => intro u h; exact ⟨h, fun _ hq => hq⟩
  | cons e es ih =>
    intro u h
    have h1 := step_sysinv u e h
    have h2 := ih _ h1.1
    exact ⟨h2.1, fun q hq => h2.2 q (h1.2 q hq)⟩


/-! ## the clients: every component but the prober -/

theorem removeAll_good (C : Addr → Prop) (cleanUntil : Int) (l : List Server) (removed errors : Nat) {E R} :
    GoodS C E R (removeAll cleanUntil l removed errors) := by
  induction l generalizing removed errors E R with
  | nil => exact GoodS.pure _ _ _
  | cons s rest ih =>
    unfold removeAll
    refine GoodS.call _ _ _ _ trivial (fun r _ => ?_)
    cases r with
    | error e => exact ih _ _
    | ok u => exact ih _ _

theorem cleanServers_good (C : Addr → Prop) (retention : Int) {E R} : GoodS C E R (UC.cleanServers retention) := by
  unfold UC.cleanServers
  refine GoodS.call _ _ _ _ trivial (fun now _ => ?_)
  refine GoodS.call _ _ _ _ trivial (fun r _ => ?_)
  cases r with
  | error e => exact GoodS.pure _ _ _
  | ok svrs => exact removeAll_good C _ svrs 0 0

/-- the cleaner at storage-command granularity (index scan, record fetch, guarded removes — what the running cleaner
and the driver's cleaner client execute): reads and removals only, so every call meets its obligations -/
theorem cleanServers2_good (C : Addr → Prop) (retention : Int) {E R} : GoodS C E R (UC.cleanServers2 retention) := by
  unfold UC.cleanServers2
  refine GoodS.call _ _ _ _ trivial (fun now _ => ?_)
  refine GoodS.call _ _ _ _ trivial (fun r _ => ?_)
  cases r with
  | error e => exact GoodS.pure _ _ _
  | ok scanned =>
    dsimp only
    split
    · exact GoodS.pure _ _ _
    · refine GoodS.call _ _ _ _ trivial (fun r _ => ?_)
      cases r with
      | error e => exact GoodS.pure _ _ _
      | ok svrs => exact removeAll_good C _ _ 0 0

theorem cleanInstances_good (C : Addr → Prop) (retention : Int) {E R} : GoodS C E R (UC.cleanInstances retention) := by
  unfold UC.cleanInstances
  refine GoodS.call _ _ _ _ trivial (fun now _ => ?_)
  refine GoodS.call _ _ _ _ trivial (fun r _ => ?_)
  cases r <;> exact GoodS.pure _ _ _

theorem listServers_good (C : Addr → Prop) (liveness : Int) (status : Status) {E R} : GoodS C E R (UC.listServers liveness status) := by
  unfold UC.listServers
  refine GoodS.call _ _ _ _ trivial (fun now _ => ?_)
  refine GoodS.call _ _ _ _ trivial (fun r _ => ?_)
  cases r <;> exact GoodS.pure _ _ _

/-- the programs of the components that never pop: the reporter (heartbeat, keepalive, removal), the REST
submission, the refresher, the reviver, the cleaners, the listing; possibly after a clock read and followed by a
rendering of the result (as the system model's clients are) -/

theorem client_good {α : Type} {p : Prog α} (h : Client p) : GoodS Addr.PortOk (fun _ _ => False) (fun _ => False) p := by
  induction h with
  | report z m req hp => exact report_good _ z m req hp
  | addServer z m a hp => exact addServer_good _ z m a hp
  | refresh m d => exact refresh_good _ m d
  | revive m a b c d e f => exact revive_good _ m a b c d e f
  | renew i sip => exact renew_good _ i sip
  | remove i a => exact remove_good _ i a
  | cleanServers r => exact cleanServers_good _ r
  | cleanServers2 r => exact cleanServers2_good _ r
  | cleanInstances r => exact cleanInstances_good _ r
  | listServers l st => exact listServers_good _ l st
  | now k _ ih =>
    refine GoodS.call _ _ _ _ trivial (fun t _ => ?_)
    have h1 : (fun (a : Addr) (g : Goal) => False ∨ learnES Call.now t a g) = (fun _ _ => False) := by
      funext a g; simp [learnES]
    have h2 : (fun (a : Addr) => False ∨ learnR Addr.PortOk Call.now t a) = (fun _ => False) := by
      funext a; simp [learnR]
    rw [h1, h2]
    exact ih t
  | map p f _ ih => exact GoodS.bind ih (fun _ _ _ _ _ => GoodS.pure _ _ _)

theorem client_cinv {α : Type} {p : Prog α} (h : Client p) (s : AbsState) : CInvS s p :=
  ⟨_, _, client_good h, fun _ _ hf => hf.elim, fun _ hf => hf.elim⟩

/-- **`BackedStrict` is an invariant of every system of non-popping clients**, under any interleaving of their calls,
deaths (before or after the pending call took effect), storage faults (with or without effect) and clock ticks;
and the queue only grows -/
theorem sys_backed (u : USys) (es : List UEv) (hb : BackedStrict u.abs) (hk : KeyedOk u.abs)
    (hc : ∀ c ∈ u.clients, Client c.prog) :
    BackedStrict (u.run es).abs ∧ KeyedOk (u.run es).abs ∧ ∀ q ∈ u.abs.queue, q ∈ (u.run es).abs.queue := by
  have := run_sysinv es u ⟨hb, hk, fun c hm => client_cinv (hc c hm) _⟩
  exact ⟨this.1.backed, this.1.keyed, this.2⟩



/-! # relation to `Backed`, executable version, the witness of the difference -/

theorem BackedStrict.backed {s : AbsState} (h : BackedStrict s) : Backed s := by
  intro k row g hr hm
  obtain ⟨q, hq, _, hp⟩ := h k row g hr hm
  exact ⟨q, hq, hp⟩

/-- executable version of `BackedStrict` -/
def backedStrictB (s : AbsState) : Bool :=
  s.servers.toList.all fun kv => [Goal.details, Goal.port].all fun g =>
    !Status.has kv.2.svr.status (retryMark g) ||
      s.queue.any fun q => q.expires == none && (q.probe.addr == kv.2.svr.addr && q.probe.goal == g)

theorem backedStrictB_iff (s : AbsState) : backedStrictB s = true ↔ BackedStrict s := by
  unfold backedStrictB BackedStrict
  simp only [List.all_eq_true, List.any_eq_true, Bool.or_eq_true, Bool.not_eq_true', Bool.and_eq_true, beq_iff_eq]
  constructor
  · intro h k row g hr hm
    have hmem : (k, row) ∈ s.servers.toList := ExtTreeMap.mem_toList_iff_getElem?_eq_some.2 hr
    have := h (k, row) hmem g (by cases g <;> simp)
    rcases this with hf | hq
    · rw [hm] at hf; cases hf
    · exact hq
  · intro h kv hmem g _
    have hr : s.servers[kv.1]? = some kv.2 := ExtTreeMap.mem_toList_iff_getElem?_eq_some.1 hmem
    cases hm : Status.has kv.2.svr.status (retryMark g) with
    | false => exact Or.inl rfl
    | true => exact Or.inr (h kv.1 kv.2 g hr hm)

namespace W
/-- server A carries `details_retry`; the only queued details probe for it is a refresh probe that expires at 10 -/
def expiring : AbsState :=
  { servers := (∅ : ExtTreeMap Nat SRow).insert C16.W.A.key ⟨{ C16.W.svr with status := Status.master ||| Status.info ||| Status.port ||| Status.detailsRetry }, 0⟩,
    queue := [⟨0, ⟨C16.W.A, 10481, .details, 0, 4⟩, 0, some 10⟩], nextId := 1 }
end W

end Swat4.C16.Strict
