import Swat4.Lemmas.RowInv
import Swat4.Lemmas.USysInd
/-!
# `refreshedAt ≤ updatedAt ≤ clock` as an invariant of the system model (C14, reviewer item 8)

`RowInv.Pres now R p` walks a program with the clock **fixed** at `now`.  In the system model (`USys`) the clock may tick
between any two calls of a use case: a heartbeat reads the clock (`t1`), builds its record (refreshed at `t1`), and its `Add`
commits later (`t2 ≥ t1`, update score `t2`).  `TPres T p` is the walk for a clock that starts at `T` and never goes back:

* at every later clock value `T'` the call's own record and whatever its conflict callback makes of a stored record are
  refreshed no later than `T'` (`RowInv.CallOK T' (refRow T')`),
* the continuation is walked from every later clock value, for every reply that clock value allows.

`usecases_tpres`: every use case walks; `rules` + `USysInd.run_sysInv`: `Keyed ∧ refreshedAt ≤ updatedAt ≤ clock` is an
invariant of every `USys` run (any clients that walk, any interleaving of calls, crashes, faults, non-negative ticks).
-/
namespace Swat4.TimedInv
open Swat4 Swat4.UC Std RowInv

/-- the row predicate: written no later than `now`, refreshed no later than written (`C14.refRow`) -/
def refRow (now : Int) (row : SRow) : Prop :=
  row.updatedAt ≤ now ∧ ∀ t, row.svr.refreshedAt = some t → t ≤ row.updatedAt

theorem refRow_closed (now : Int) : Closed now (refRow now) where
  fld := by
    intro sv sv' u _ hr h
    exact ⟨h.1, fun t ht => h.2 t (by rw [← hr]; exact ht)⟩
  read := by
    intro sv u h
    exact ⟨Int.le_refl _, fun t ht => Int.le_trans (h.2 t ht) h.1⟩

/-- the record was refreshed no later than `T` (or never) -/
def RefLe (T : Int) (sv : Server) : Prop := ∀ t, sv.refreshedAt = some t → t ≤ T

theorem held_iff (T : Int) (sv : Server) : Held T (refRow T) sv ↔ RefLe T sv :=
  ⟨fun h => h.2, fun h => ⟨Int.le_refl _, h⟩⟩

theorem RefLe.mono {T T' : Int} {sv : Server} (h : RefLe T sv) (hle : T ≤ T') : RefLe T' sv :=
  fun t ht => Int.le_trans (h t ht) hle

theorem RefLe.of_eq {T : Int} {sv sv' : Server} (h : RefLe T sv) (he : sv'.refreshedAt = sv.refreshedAt) : RefLe T sv' :=
  fun t ht => h t (he ▸ ht)

theorem refLe_some {T t : Int} {sv : Server} (h : sv.refreshedAt = some t) (hle : t ≤ T) : RefLe T sv := by
  intro t' ht'; rw [h] at ht'; cases ht'; exact hle

theorem refLe_none {T : Int} {sv : Server} (h : sv.refreshedAt = none) : RefLe T sv := by
  intro t' ht'; rw [h] at ht'; cases ht'

/-- `CallOK` of a registry write from `RefLe` facts -/
theorem callOK_add {T : Int} {svr : Server} {res : Resolver} (h1 : RefLe T svr)
    (h2 : ∀ x r, RefLe T x → res x = some r → RefLe T r) : CallOK T (refRow T) (.addServer svr res) :=
  ⟨(held_iff T svr).2 h1, fun x r hx _ hr => (held_iff T r).2 (h2 x r ((held_iff T x).1 hx) hr)⟩

theorem callOK_update {T : Int} {svr : Server} {res : Resolver} (h1 : RefLe T svr)
    (h2 : ∀ x r, RefLe T x → res x = some r → RefLe T r) : CallOK T (refRow T) (.updateServer svr res) :=
  ⟨(held_iff T svr).2 h1, fun x r hx _ hr => (held_iff T r).2 (h2 x r ((held_iff T x).1 hx) hr)⟩

theorem callOK_updateT {T : Int} {svr : Server} {res : Int → Resolver} (h1 : RefLe T svr)
    (h2 : ∀ x r, RefLe T x → res T x = some r → RefLe T r) : CallOK T (refRow T) (.updateServerT svr res) :=
  ⟨(held_iff T svr).2 h1, fun x r hx _ hr => (held_iff T r).2 (h2 x r ((held_iff T x).1 hx) hr)⟩

/-! ## the timed walk -/

inductive TPres {α : Type} : Int → Prog α → Prop where
  | ret (T : Int) (a : α) : TPres T (.ret a)
  | call (T : Int) {β : Type} (c : Call β) (k : β → Prog α) :
      (∀ T', T ≤ T' → CallOK T' (refRow T') c) →
      (∀ T', T ≤ T' → ∀ b, ReplyOK T' (refRow T') c b → TPres T' (k b)) → TPres T (.call c k)

theorem TPres.pure {α : Type} (T : Int) (a : α) : TPres T (pure a : Prog α) := TPres.ret T a

theorem TPres.mono {α : Type} {T T' : Int} {p : Prog α} (h : TPres T p) (hle : T ≤ T') : TPres T' p := by
  cases h with
  | ret _ a => exact TPres.ret T' a
  | call _ c k hc hk =>
    exact TPres.call T' c k (fun T'' h' => hc T'' (Int.le_trans hle h')) (fun T'' h' => hk T'' (Int.le_trans hle h'))

theorem TPres.bind {α β : Type} {T : Int} {p : Prog α} {f : α → Prog β} (hp : TPres T p) (hf : ∀ T' a, T ≤ T' → TPres T' (f a)) :
    TPres T (p.bind f) := by
  induction hp with
  | ret T a => exact hf T a (Int.le_refl _)
  | call T c k hc _ ih =>
    exact TPres.call T c _ hc fun T' h b hb => ih T' h b hb fun T'' a h' => hf T'' a (Int.le_trans h h')

/-- a call that is not a registry `Add` / `Update`: nothing to show about what it writes -/
theorem TPres.step {α : Type} {T : Int} {β : Type} (c : Call β) (k : β → Prog α) (hc : ∀ T', CallOK T' (refRow T') c)
    (hk : ∀ T', T ≤ T' → ∀ b, ReplyOK T' (refRow T') c b → TPres T' (k b)) : TPres T (.call c k) :=
  TPres.call T c k (fun T' _ => hc T') hk

/-! ## the use cases -/

theorem maybeDiscoverPort_tpres (T : Int) (maxRetries : Int) (svr : Server) (hs : RefLe T svr) :
    TPres T (maybeDiscoverPort maxRetries svr) := by
  unfold maybeDiscoverPort
  split
  · exact TPres.pure _ _
  · refine TPres.step _ _ (fun _ => trivial) fun T1 h1 b _ => ?_
    cases b with
    | error e => exact TPres.pure _ _
    | ok u =>
      refine TPres.call _ _ _ (fun T2 h2 => callOK_update ((hs.mono (Int.le_trans h1 h2)).of_eq rfl) ?_) fun _ _ _ _ => TPres.pure _ _
      intro x r hx hres
      split at hres
      · cases hres
      · cases hres; exact hx.of_eq rfl

theorem report_tpres (T : Int) (zeroInfo : Fields) (maxRetries : Int) (req : ReportReq) : TPres T (UC.report zeroInfo maxRetries req) := by
  have cont : ∀ (T0 : Int) (svr : Server),
      TPres T0 (match req.info with
        | none => (pure (.error .invalidPayload) : Prog (Except UErr Unit))
        | some info =>
          .call .now fun now' =>
          .call (.addServer (reported info now' svr) fun ex => some (reported info now' ex)) fun r =>
          match r with
          | .error e => pure (.error (.repo e))
          | .ok svr =>
            .call (.insAdd ⟨req.instanceId, req.addr⟩) fun r =>
            match r with
            | .error e => pure (.error (.repo e))
            | .ok _ => (maybeDiscoverPort maxRetries svr).bind fun _ => pure (.ok ())) := by
    intro T0 svr
    cases req.info with
    | none => exact TPres.pure _ _
    | some info =>
      refine TPres.step _ _ (fun _ => trivial) fun T1 h1 t ht => ?_
      have ht' : t = T1 := ht
      subst ht'
      refine TPres.call _ _ _ (fun T2 h2 => callOK_add (refLe_some (t := t) rfl h2) fun x r _ hr => ?_) fun T2 h2 b hb => ?_
      · cases hr; exact refLe_some (t := t) rfl h2
      · cases b with
        | error e => exact TPres.pure _ _
        | ok sv =>
          have hsv : RefLe T2 sv := (held_iff T2 sv).1 (hb sv rfl)
          refine TPres.step _ _ (fun _ => trivial) fun T3 h3 b _ => ?_
          cases b with
          | error e => exact TPres.pure _ _
          | ok u => exact TPres.bind (maybeDiscoverPort_tpres T3 maxRetries sv (hsv.mono h3)) fun _ _ _ => TPres.pure _ _
  unfold UC.report
  refine TPres.step _ _ (fun _ => trivial) fun T1 _ b _ => ?_
  cases b with
  | ok svr => exact cont T1 svr
  | error e =>
    cases e with
    | serverNotFound =>
      simp only
      cases newServer zeroInfo req.addr req.queryPort with
      | none => exact TPres.pure _ _
      | some svr => exact cont T1 svr
    | serverExists => exact TPres.pure _ _
    | instanceNotFound => exact TPres.pure _ _
    | queueEmpty => exact TPres.pure _ _
    | storage => exact TPres.pure _ _

theorem renew_tpres (T : Int) (instanceId srcIp : Nat) : TPres T (UC.renew instanceId srcIp) := by
  unfold UC.renew
  refine TPres.step _ _ (fun _ => trivial) fun T1 _ b _ => ?_
  cases b with
  | error e => exact TPres.pure _ _
  | ok inst =>
    simp only
    split
    · exact TPres.pure _ _
    · refine TPres.step _ _ (fun _ => trivial) fun T2 _ b _ => ?_
      cases b with
      | error e => exact TPres.pure _ _
      | ok svr =>
        refine TPres.step _ _ (fun _ => trivial) fun T3 _ t ht => ?_
        have ht' : t = T3 := ht
        subst ht'
        refine TPres.call _ _ _ (fun T4 h4 => callOK_update (refLe_some (t := t) rfl h4) fun x r _ hr => ?_) fun _ _ b _ => ?_
        · cases hr; exact refLe_some (t := t) rfl h4
        · cases b <;> exact TPres.pure _ _

theorem remove_tpres (T : Int) (instanceId : Nat) (a : Addr) : TPres T (UC.remove instanceId a) := by
  unfold UC.remove
  refine TPres.step _ _ (fun _ => trivial) fun T1 _ b _ => ?_
  cases b with
  | error e => cases e <;> exact TPres.pure _ _
  | ok svr =>
    refine TPres.step _ _ (fun _ => trivial) fun T2 _ b _ => ?_
    cases b with
    | error e => cases e <;> exact TPres.pure _ _
    | ok inst =>
      simp only
      split
      · exact TPres.pure _ _
      · refine TPres.step _ _ (fun _ => trivial) fun T3 _ b _ => ?_
        cases b with
        | error e => exact TPres.pure _ _
        | ok u =>
          refine TPres.step _ _ (fun _ => trivial) fun T4 _ b _ => ?_
          cases b <;> exact TPres.pure _ _

theorem probeFail_tpres (T : Int) (g : Goal) (svr : Server) (hs : RefLe T svr) : TPres T (probeFail g svr) := by
  unfold probeFail
  refine TPres.call _ _ _ (fun T1 h1 => callOK_update ((hs.mono h1).of_eq rfl) fun x r hx hr => ?_) fun _ _ b _ => ?_
  · cases hr; exact hx.of_eq rfl
  · cases b <;> exact TPres.pure _ _

theorem probeRetry_tpres (T : Int) (prb : Probe) (svr : Server) (hs : RefLe T svr) : TPres T (probeRetry prb svr) := by
  unfold probeRetry
  simp only
  split
  · exact probeFail_tpres T _ svr hs
  · refine TPres.step _ _ (fun _ => trivial) fun T1 h1 t _ => ?_
    refine TPres.step _ _ (fun _ => trivial) fun T2 h2 b _ => ?_
    cases b with
    | error e => exact TPres.pure _ _
    | ok u =>
      refine TPres.call _ _ _ (fun T3 h3 => callOK_update ((hs.mono (Int.le_trans h1 (Int.le_trans h2 h3))).of_eq rfl) fun x r hx hr => ?_)
        fun _ _ b _ => ?_
      · cases hr; exact hx.of_eq rfl
      · cases b <;> exact TPres.pure _ _

theorem handleSuccess_refreshed (g : Goal) (res : ProbeResult) (t : Int) (s : Server) :
    (handleSuccess g res t s).refreshedAt = some t := by cases g <;> rfl

theorem probe_tpres (T : Int) (prb : Probe) (outcome : Option ProbeResult) : TPres T (UC.probe prb outcome) := by
  unfold UC.probe
  refine TPres.step _ _ (fun _ => trivial) fun T1 _ b hb => ?_
  cases b with
  | error e => exact TPres.pure _ _
  | ok svr =>
    have hs : RefLe T1 svr := (held_iff T1 svr).1 (hb svr rfl).1
    cases outcome with
    | none => exact probeRetry_tpres T1 prb svr hs
    | some res =>
      refine TPres.step _ _ (fun _ => trivial) fun T2 _ t ht => ?_
      have ht' : t = T2 := ht
      subst ht'
      refine TPres.call _ _ _ (fun T3 h3 => callOK_updateT (refLe_some (handleSuccess_refreshed _ _ _ _) h3) fun x r _ hr => ?_)
        fun _ _ b _ => ?_
      · cases hr; exact refLe_some (handleSuccess_refreshed _ _ _ _) (Int.le_refl _)
      · cases b <;> exact TPres.pure _ _

theorem enqueueAll_tpres (T : Int) (mk : Server → Probe × GoTime × GoTime) : ∀ (l : List Server) (n : Nat) (T' : Int), T ≤ T' →
    TPres T' (enqueueAll mk l n) := by
  intro l
  induction l with
  | nil => intro n T' _; exact TPres.pure _ _
  | cons sv rest ih =>
    intro n T' h
    unfold enqueueAll
    refine TPres.step _ _ (fun _ => trivial) fun T1 h1 b _ => ?_
    cases b with
    | error e => exact ih n T1 (Int.le_trans h h1)
    | ok u => exact ih (n + 1) T1 (Int.le_trans h h1)

theorem refresh_tpres (T : Int) (maxRetries deadline : Int) : TPres T (UC.refresh maxRetries deadline) := by
  unfold UC.refresh
  refine TPres.step _ _ (fun _ => trivial) fun T1 _ b _ => ?_
  cases b with
  | error e => exact TPres.pure _ _
  | ok l => exact TPres.bind (enqueueAll_tpres T1 _ l 0 T1 (Int.le_refl _)) fun _ _ _ => TPres.pure _ _

theorem revive_tpres (T : Int) (maxRetries minScope maxScope minCountdown maxCountdown deadline : Int) (draws : Nat → Int) :
    TPres T (UC.revive maxRetries minScope maxScope minCountdown maxCountdown deadline draws) := by
  unfold UC.revive
  refine TPres.step _ _ (fun _ => trivial) fun T1 _ b _ => ?_
  cases b with
  | error e => exact TPres.pure _ _
  | ok l => exact TPres.bind (enqueueAll_tpres T1 _ l 0 T1 (Int.le_refl _)) fun _ _ _ => TPres.pure _ _

theorem discoverServer_tpres (T : Int) (maxRetries : Int) (svr : Server) (hs : RefLe T svr) :
    TPres T (discoverServer maxRetries svr) := by
  unfold discoverServer
  refine TPres.step _ _ (fun _ => trivial) fun T1 h1 b _ => ?_
  cases b with
  | error e => exact TPres.pure _ _
  | ok u =>
    refine TPres.call _ _ _ (fun T2 h2 => callOK_update ((hs.mono (Int.le_trans h1 h2)).of_eq rfl) fun x r hx hr => ?_) fun _ _ b _ => ?_
    · split at hr
      · cases hr
      · cases hr; exact hx.of_eq rfl
    · cases b <;> exact TPres.pure _ _

theorem maybeDiscoverServer_tpres (T : Int) (maxRetries : Int) (svr : Server) (hs : RefLe T svr) :
    TPres T (maybeDiscoverServer maxRetries svr) := by
  unfold maybeDiscoverServer
  split
  · exact TPres.pure _ _
  · split
    · exact TPres.pure _ _
    · split
      · exact TPres.pure _ _
      · exact TPres.bind (discoverServer_tpres T maxRetries svr hs) fun _ _ _ => TPres.pure _ _

theorem addServer_tpres (T : Int) (zeroInfo : Fields) (maxRetries : Int) (a : Addr) : TPres T (UC.addServer zeroInfo maxRetries a) := by
  rw [addServer_eq]
  refine TPres.step _ _ (fun _ => trivial) fun T1 _ b hb => ?_
  cases b with
  | ok svr => exact maybeDiscoverServer_tpres T1 maxRetries svr ((held_iff T1 svr).1 (hb svr rfl).1)
  | error e =>
    cases e with
    | serverNotFound =>
      show TPres T1 (addServerNew zeroInfo maxRetries a)
      unfold addServerNew
      cases hn : newServer zeroInfo a (min (a.port + 1) 65535) with
      | none => exact TPres.pure _ _
      | some svr =>
        have hnone : svr.refreshedAt = none := by
          unfold newServer at hn
          split at hn
          · cases hn
          · cases hn; rfl
        refine TPres.call _ _ _ (fun T2 _ => callOK_add (refLe_none hnone) fun x r _ hr => by cases hr) fun T2 _ b hb' => ?_
        cases b with
        | error e => exact TPres.pure _ _
        | ok sv => exact maybeDiscoverServer_tpres T2 maxRetries sv ((held_iff T2 sv).1 (hb' sv rfl))
    | serverExists => exact TPres.pure _ _
    | instanceNotFound => exact TPres.pure _ _
    | queueEmpty => exact TPres.pure _ _
    | storage => exact TPres.pure _ _

theorem removeAll_tpres (cutoff : Int) : ∀ (l : List Server) (removed errors : Nat) (T : Int),
    TPres T (removeAll cutoff l removed errors) := by
  intro l
  induction l with
  | nil => intro _ _ T; exact TPres.pure _ _
  | cons sv rest ih =>
    intro removed errors T
    unfold removeAll
    refine TPres.step _ _ (fun _ => trivial) fun T1 _ b _ => ?_
    cases b with
    | error e => exact ih _ _ T1
    | ok u => exact ih _ _ T1

theorem cleanServers_tpres (T : Int) (retention : Int) : TPres T (cleanServers retention) := by
  unfold cleanServers
  refine TPres.step _ _ (fun _ => trivial) fun T1 _ t _ => ?_
  refine TPres.step _ _ (fun _ => trivial) fun T2 _ b _ => ?_
  cases b with
  | error e => exact TPres.pure _ _
  | ok l => exact removeAll_tpres _ l 0 0 T2

theorem cleanServers2_tpres (T : Int) (retention : Int) : TPres T (cleanServers2 retention) := by
  unfold cleanServers2
  refine TPres.step _ _ (fun _ => trivial) fun T1 _ t _ => ?_
  refine TPres.step _ _ (fun _ => trivial) fun T2 _ b _ => ?_
  cases b with
  | error e => exact TPres.pure _ _
  | ok l =>
    simp only
    split
    · exact TPres.pure _ _
    · refine TPres.step _ _ (fun _ => trivial) fun T3 _ b _ => ?_
      cases b with
      | error e => exact TPres.pure _ _
      | ok l' => exact removeAll_tpres _ _ 0 0 T3

theorem cleanInstances_tpres (T : Int) (retention : Int) : TPres T (cleanInstances retention) := by
  unfold cleanInstances
  refine TPres.step _ _ (fun _ => trivial) fun T1 _ t _ => ?_
  refine TPres.step _ _ (fun _ => trivial) fun T2 _ b _ => ?_
  cases b <;> exact TPres.pure _ _

theorem listServers_tpres (T : Int) (liveness : Int) (status : Status) : TPres T (listServers liveness status) := by
  unfold listServers
  refine TPres.step _ _ (fun _ => trivial) fun T1 _ t _ => ?_
  refine TPres.step _ _ (fun _ => trivial) fun T2 _ b _ => ?_
  cases b <;> exact TPres.pure _ _

/-- a client of the system model: a use case, possibly after a clock read, followed by a rendering of its result -/
theorem tpres_rendered {α : Type} {T : Int} {p : Prog α} (hp : TPres T p) (g : α → String) : TPres T (p.bind fun a => pure (g a)) :=
  TPres.bind hp fun _ _ _ => TPres.pure _ _

theorem tpres_afterNow {α : Type} {T : Int} (k : Int → Prog α) (hk : ∀ T' t, T ≤ T' → TPres T' (k t)) : TPres T (.call .now k) :=
  TPres.step _ _ (fun _ => trivial) fun T' h t _ => hk T' t h

/-! ## the system model -/

/-- the store invariant at clock value `t`: rows under their keys, `refreshedAt ≤ updatedAt ≤ t` for every row -/
def Inv (s : AbsState) (t : Int) : Prop := Keyed s ∧ AllRows (refRow t) s

theorem rules : USysInd.Rules Inv (fun t p => TPres t p) where
  exec := by
    intro β c k s t tc hp hinv htc
    cases hp with
    | call _ _ _ hc hk =>
      have key : ∀ (hs : (c.exec s tc).1.servers = s.servers) (hr : ReplyOK t (refRow t) c (c.exec s tc).2),
          Inv (c.exec s tc).1 t ∧ TPres t (k (c.exec s tc).2) :=
        fun hs hr => ⟨⟨keyed_of_servers hs hinv.1, allRows_of_servers hs hinv.2⟩, hk t (Int.le_refl _) _ hr⟩
      have main : tc = t → Inv (c.exec s tc).1 t ∧ TPres t (k (c.exec s tc).2) := by
        intro h; subst h
        obtain ⟨a, b, d⟩ := exec_inv (refRow_closed tc) c s (hc tc (Int.le_refl _)) hinv.1 hinv.2
        exact ⟨⟨a, b⟩, hk tc (Int.le_refl _) _ d⟩
      cases c with
      | enqueue p a b => exact key (enqueue_servers s tc p a b) trivial
      | insAdd i => exact key rfl trivial
      | popMany n => exact key (popMany_servers s tc n) trivial
      | _ => exact main (htc rfl)
  fault := by
    intro β c k t e he hp
    cases hp with
    | call _ _ _ _ hk => exact hk t (Int.le_refl _) e (fault_reply c e he)
  tickInv := by
    intro s t d hd h
    exact ⟨h.1, fun k row hrow => ⟨by have := (h.2 k row hrow).1; omega, (h.2 k row hrow).2⟩⟩
  tickP := fun p t d hd h => h.mono (by omega)

/-- **`Keyed ∧ refreshedAt ≤ updatedAt ≤ clock` holds in every reachable state of the system model**: for every event list
(calls, crashes, faults with or without effect of any clients, clock ticks with non-negative advance) from a state in which it
holds, provided every client's program walks (`TPres`; `usecases_tpres`: every use case does, rendered or not) -/
theorem usys_inv (u : USys) (es : List UEv) (hes : ∀ e ∈ es, USysInd.EvOK (fun _ => True) e) (h : Inv u.abs u.clock)
    (hcl : ∀ c ∈ u.clients, TPres u.clock c.prog) :
    Inv (u.run es).abs (u.run es).clock ∧ ∀ c ∈ (u.run es).clients, TPres (u.run es).clock c.prog := by
  have := USysInd.run_sysInv rules es u hes ⟨h, fun j c _ hc => hcl c (List.mem_of_getElem? hc)⟩
  refine ⟨this.inv, fun c hc => ?_⟩
  obtain ⟨j, hj⟩ := List.getElem?_of_mem hc
  exact this.clients j c trivial hj

end Swat4.TimedInv
