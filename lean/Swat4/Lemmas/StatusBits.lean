import Swat4.Model.Store
/-!
# Bit-level facts about `ds.DiscoveryStatus` masks (helper lemmas of C11)
-/
namespace Swat4
open Std RStore

theorem ne_zero_iff_bit : ∀ m : Status, m ≠ 0#9 ↔ ∃ b, b < 9 ∧ hasBit m b = true := by
  unfold hasBit; decide

theorem has_iff_bits (s m : Status) :
    Status.has s m = true ↔ ∀ b, b < 9 → hasBit m b = true → hasBit s b = true := by
  unfold Status.has hasBit
  rw [beq_iff_eq]
  constructor
  · intro h b _ hm
    have := congrArg (fun x => BitVec.getLsbD x b) h
    simp only [BitVec.getLsbD_and, hm, Bool.and_true] at this
    exact this
  · intro h
    apply BitVec.eq_of_getLsbD_eq
    intro i hi
    rw [BitVec.getLsbD_and]
    cases hm : m.getLsbD i with
    | false => simp
    | true => simp [h i hi hm]

theorem hasAny_iff_bits (s m : Status) :
    Status.hasAny s m = true ↔ ∃ b, b < 9 ∧ hasBit m b = true ∧ hasBit s b = true := by
  unfold Status.hasAny
  rw [bne_iff_ne, ne_zero_iff_bit]
  unfold hasBit
  simp only [BitVec.getLsbD_and, Bool.and_eq_true]
  constructor
  · rintro ⟨b, hb, h1, h2⟩; exact ⟨b, hb, h2, h1⟩
  · rintro ⟨b, hb, h1, h2⟩; exact ⟨b, hb, h2, h1⟩

theorem has_zero (s : Status) : Status.has s 0#9 = true := by
  rw [has_iff_bits]; intro b _ h; simp [hasBit] at h

theorem hasAny_zero (s : Status) : Status.hasAny s 0#9 = false := by
  cases h : Status.hasAny s 0#9 with
  | false => rfl
  | true =>
    rw [hasAny_iff_bits] at h
    obtain ⟨b, _, h, _⟩ := h
    simp [hasBit] at h

/-- `ds.Members()[b]` is bit `b` -/
theorem members_has : ∀ s : Status, Status.members.map (Status.has s) = bitIdx.map (hasBit s) := by
  unfold Status.members Status.has hasBit bitIdx; decide

/-- the `b`-th member of `ds.Members()` -/
def memberOf (b : Nat) : Status := 1#9 <<< b

theorem members_eq : Status.members = bitIdx.map memberOf := by decide

theorem memberOf_bit : ∀ b, b < 9 → ∀ i, i < 9 → (hasBit (memberOf b) i = true ↔ i = b) := by
  unfold memberOf hasBit; decide

theorem has_member (s : Status) {b : Nat} (hb : b < 9) : Status.has s (memberOf b) = hasBit s b := by
  rw [Bool.eq_iff_iff, has_iff_bits]
  constructor
  · intro h; exact h b hb ((memberOf_bit b hb b hb).2 rfl)
  · intro h i hi hm
    rw [(memberOf_bit b hb i hi).1 hm]; exact h

end Swat4
