import Swat4.Lemmas.Backed
import Swat4.Lemmas.Reporter
/-!
# C16, interleaved: `Backed` is an invariant of every system of non-popping clients

Clients take turns at repository-call granularity (`USys`), may die at any call boundary, any call may fail
with or without effect, the clock may tick.  As long as nobody pops, the queue only grows, so what a client
knows to be queued stays queued while the others run; each registry write keeps a row's marks or adds a mark
for which the same client enqueued a probe before (`Good`).  Addresses are valid (`Addr.PortOk`), which makes
`Addr.key` injective — the interleaved statement needs it (see `key_collision` in the property file's notes).
-/
namespace Swat4.C16
open Swat4 Swat4.UC Std

/-- every row is stored under its own address key and its address is valid -/
def KeyedOk (s : AbsState) : Prop :=
  ∀ (k : Nat) (row : SRow), s.servers[k]? = some row → row.svr.addr.key = k ∧ row.svr.addr.PortOk

/-- the view of one client: its program is `Good` for knowledge that is sound in `s` -/
def CInv {α : Type} (s : AbsState) (p : Prog α) : Prop :=
  ∃ (E : Addr → Goal → Prop) (R : Addr → Prop), Good Addr.PortOk E R p ∧ (∀ a g, E a g → InQ s a g) ∧ (∀ a, R a → a.PortOk)

theorem CInv.mono {α : Type} {s s' : AbsState} {p : Prog α} (h : CInv s p) (hq : ∀ q ∈ s.queue, q ∈ s'.queue) : CInv s' p := by
  obtain ⟨E, R, hg, hE, hR⟩ := h
  exact ⟨E, R, hg, fun a g he => let ⟨q, hm, hp⟩ := hE a g he; ⟨q, hq q hm, hp⟩, hR⟩

theorem kinv_of {s : AbsState} {E : Addr → Goal → Prop} {R : Addr → Prop} (hb : Backed s) (hk : KeyedOk s)
    (hE : ∀ a g, E a g → InQ s a g) (hR : ∀ a, R a → a.PortOk) : KInv Addr.PortOk (fun _ _ => False) E R s :=
  ⟨(backed_iff s).1 hb, fun k row h => (hk k row h).1, fun a g he => Or.inr (hE a g he),
   fun a ha _ hrow => Addr.key_inj (hk _ _ hrow).2 (hR a ha) (hk _ _ hrow).1, fun k row h => (hk k row h).2, hR⟩

theorem of_kinv {s : AbsState} {E : Addr → Goal → Prop} {R : Addr → Prop} (h : KInv Addr.PortOk (fun _ _ => False) E R s) :
    Backed s ∧ KeyedOk s ∧ (∀ a g, E a g → InQ s a g) ∧ (∀ a, R a → a.PortOk) :=
  ⟨(backed_iff s).2 h.backed, fun k row hr => ⟨h.keyed k row hr, h.rowsC k row hr⟩,
   fun a g he => (h.hE a g he).elim False.elim id, h.hRC⟩

/-! ## the queue only grows -/

theorem add_queue (s : AbsState) (now : Int) (svr : Server) (res : Resolver) : (s.add now svr res).1.queue = s.queue := by
  unfold AbsState.add
  cases s.getRow svr.addr with
  | none => rfl
  | some ex =>
    dsimp only
    cases res ex.svr <;> rfl

theorem remove_queue (s : AbsState) (svr : Server) (res : Resolver) : (s.remove svr res).1.queue = s.queue := by
  unfold AbsState.remove
  cases s.getRow svr.addr with
  | none => rfl
  | some ex =>
    dsimp only
    split
    · cases res ex.svr <;> rfl
    · rfl

theorem exec_queue_mono {E : Addr → Goal → Prop} {R : Addr → Prop} {β : Type} (c : Call β) (s : AbsState) (now : Int)
    (hc : CallOK E R c) : ∀ q ∈ s.queue, q ∈ (c.exec s now).1.queue := by
  intro q hq
  cases c with
  | popMany n => exact hc.elim
  | enqueue p a b => exact enqueue_queue_mono s now p a b q hq
  | addServer svr res => simp only [Call.exec, add_queue]; exact hq
  | updateServer svr res => simp only [Call.exec, update_queue]; exact hq
  | updateServerT svr res => simp only [Call.exec, update_queue]; exact hq
  | removeServer svr res => simp only [Call.exec, remove_queue]; exact hq
  | _ => exact hq

/-! ## one move of one client -/

/-- what a client's move needs and re-establishes -/
def LInv {α : Type} (s : AbsState) (p : Prog α) : Prop := Backed s ∧ KeyedOk s ∧ CInv s p

/-- the head call succeeds -/
theorem call_linv {α β : Type} (c : Call β) (k : β → Prog α) (s : AbsState) (now : Int) (h : LInv s (.call c k)) :
    LInv (c.exec s now).1 (k (c.exec s now).2) ∧ ∀ q ∈ s.queue, q ∈ (c.exec s now).1.queue := by
  obtain ⟨hb, hk, E, R, hg, hE, hR⟩ := h
  cases hg with
  | call _ _ _ _ hc hcont =>
    have hex := exec_kinv (C := Addr.PortOk) c s now hc (kinv_of hb hk hE hR)
    obtain ⟨hb', hk', hE', hR'⟩ := of_kinv hex.1
    exact ⟨⟨hb', hk', _, _, hcont _ hex.2, hE', hR'⟩, exec_queue_mono c s now hc⟩

/-- the head call fails with the storage error, having taken effect or not -/
theorem fault_linv {α β : Type} (c : Call β) (k : β → Prog α) (s : AbsState) (now : Int) (e : β) (he : c.faultReply = some e)
    (effect : Bool) (h : LInv s (.call c k)) :
    LInv (if effect then (c.exec s now).1 else s) (k e) ∧ ∀ q ∈ s.queue, q ∈ (if effect then (c.exec s now).1 else s).queue := by
  obtain ⟨hb, hk, E, R, hg, hE, hR⟩ := h
  cases hg with
  | call _ _ _ _ hc hcont =>
    obtain ⟨f1, f2, f3⟩ := fault_learn Addr.PortOk c e he
    have h0 := kinv_of hb hk hE hR
    cases effect with
    | false =>
      obtain ⟨hb', hk', hE', hR'⟩ := of_kinv (h0.addFalse f1 f2)
      exact ⟨⟨hb', hk', _, _, hcont e f3, hE', hR'⟩, fun q hq => hq⟩
    | true =>
      have hex := exec_kinv (C := Addr.PortOk) c s now hc h0
      obtain ⟨hb', hk', hE', hR'⟩ := of_kinv ((hex.1.weaken (fun a g he => Or.inl he) (fun a hr => Or.inl hr)).addFalse f1 f2)
      exact ⟨⟨hb', hk', _, _, hcont e f3, hE', hR'⟩, exec_queue_mono c s now hc⟩

theorem step1_linv {α : Type} (p : Prog α) (s : AbsState) (now : Int) (h : LInv s p) :
    LInv (p.step1 s now).1 (p.step1 s now).2 ∧ ∀ q ∈ s.queue, q ∈ (p.step1 s now).1.queue := by
  cases p with
  | ret a => exact ⟨h, fun q hq => hq⟩
  | call c k => exact call_linv c k s now h

theorem stepFault_linv {α : Type} (effect : Bool) (p : Prog α) (s : AbsState) (now : Int) (h : LInv s p) :
    LInv (p.stepFault effect s now).1 (p.stepFault effect s now).2 ∧ ∀ q ∈ s.queue, q ∈ (p.stepFault effect s now).1.queue := by
  cases p with
  | ret a => exact ⟨h, fun q hq => hq⟩
  | call c k =>
    simp only [Prog.stepFault]
    cases he : c.faultReply with
    | none => exact call_linv c k s now h
    | some e =>
      have := fault_linv c k s now e he effect h
      cases effect <;> exact this

theorem skipSilent_linv {α : Type} : ∀ (fuel : Nat) (p : Prog α) (s : AbsState) (now : Int) (names : List String), LInv s p →
    LInv (Prog.skipSilent fuel p s now names).1 (Prog.skipSilent fuel p s now names).2.1 ∧
      ∀ q ∈ s.queue, q ∈ (Prog.skipSilent fuel p s now names).1.queue := by
  intro fuel
  induction fuel with
  | zero => intro p s now names h; exact ⟨h, fun q hq => hq⟩
  | succ fuel ih =>
    intro p s now names h
    cases p with
    | ret a => exact ⟨h, fun q hq => hq⟩
    | call c k =>
      simp only [Prog.skipSilent]
      split
      · have h1 := call_linv c k s now h
        exact ⟨(ih (k (c.exec s now).2) (c.exec s now).1 now _ h1.1).1,
          fun q hq => (ih (k (c.exec s now).2) (c.exec s now).1 now _ h1.1).2 q (h1.2 q hq)⟩
      · exact ⟨h, fun q hq => hq⟩


/-! ## the system -/

/-- the system invariant: the store is backed and well keyed, every client (alive, finished or dead) has a
`Good` remaining program for knowledge that is sound in the current store -/
structure SysInv (u : USys) : Prop where
  backed : Backed u.abs
  keyed : KeyedOk u.abs
  clients : ∀ c ∈ u.clients, CInv u.abs c.prog

theorem SysInv.update {u : USys} (h : SysInv u) (i : Nat) (c2 : UClient) (a2 : AbsState) (clock : Int)
    (hl : LInv a2 c2.prog) (hmono : ∀ q ∈ u.abs.queue, q ∈ a2.queue) :
    SysInv { u with abs := a2, clock := clock, clients := u.clients.set i c2 } := by
  refine ⟨hl.1, hl.2.1, fun c hc => ?_⟩
  rcases List.mem_or_eq_of_mem_set hc with hm | rfl
  · exact (h.clients c hm).mono hmono
  · exact hl.2.2

theorem settle_linv (c : UClient) (s : AbsState) (clock : Int) (h : LInv s c.prog) :
    LInv (c.settle s clock).1 (c.settle s clock).2.1.prog ∧ ∀ q ∈ s.queue, q ∈ (c.settle s clock).1.queue :=
  skipSilent_linv 64 c.prog s clock [] h

/-- the arrival of a lazily started client -/
theorem arrive_linv (c : UClient) (s : AbsState) (clock : Int) (h : LInv s c.prog) :
    LInv (if c.started then (s, c, ([] : List String)) else c.settle s clock).1
         (if c.started then (s, c, ([] : List String)) else c.settle s clock).2.1.prog ∧
      ∀ q ∈ s.queue, q ∈ (if c.started then (s, c, ([] : List String)) else c.settle s clock).1.queue := by
  cases c.started with
  | true => exact ⟨h, fun q hq => hq⟩
  | false => exact settle_linv c s clock h

theorem step_sysinv (u : USys) (e : UEv) (h : SysInv u) :
    SysInv (u.step e) ∧ ∀ q ∈ u.abs.queue, q ∈ (u.step e).abs.queue := by
  cases e with
  | tick d => exact ⟨⟨h.backed, h.keyed, h.clients⟩, fun _ hq => hq⟩
  | call i =>
    simp only [USys.step, USys.stepT]
    cases hc : u.clients[i]? with
    | none => exact ⟨h, fun _ hq => hq⟩
    | some c =>
      have hl0 : LInv u.abs c.prog := ⟨h.backed, h.keyed, h.clients c (List.mem_of_getElem? hc)⟩
      dsimp only
      split
      · exact ⟨h, fun _ hq => hq⟩
      · have hpre := arrive_linv c u.abs u.clock hl0
        generalize (if c.started then (u.abs, c, ([] : List String)) else c.settle u.abs u.clock) = pre at hpre
        obtain ⟨a0, c0, n0⟩ := pre
        dsimp only at hpre ⊢
        split
        · exact ⟨h.update i _ a0 u.clock hpre.1 hpre.2, hpre.2⟩
        · have h1 := step1_linv c0.prog a0 (({ c0 with started := true } : UClient).callClock u.clock) hpre.1
          have h2 := settle_linv ({ c0 with started := true, prog := (c0.prog.step1 a0 (({ c0 with started := true } : UClient).callClock u.clock)).2 } : UClient)
            (c0.prog.step1 a0 (({ c0 with started := true } : UClient).callClock u.clock)).1 u.clock h1.1
          exact ⟨h.update i _ _ u.clock h2.1 (fun q hq => h2.2 q (h1.2 q (hpre.2 q hq))), fun q hq => h2.2 q (h1.2 q (hpre.2 q hq))⟩
  | crash i effect =>
    simp only [USys.step, USys.stepT]
    cases hc : u.clients[i]? with
    | none => exact ⟨h, fun _ hq => hq⟩
    | some c =>
      have hl0 : LInv u.abs c.prog := ⟨h.backed, h.keyed, h.clients c (List.mem_of_getElem? hc)⟩
      dsimp only
      split
      · exact ⟨h, fun _ hq => hq⟩
      · have hpre := arrive_linv c u.abs u.clock hl0
        generalize (if c.started then (u.abs, c, ([] : List String)) else c.settle u.abs u.clock) = pre at hpre
        obtain ⟨a0, c0, n0⟩ := pre
        dsimp only at hpre ⊢
        cases effect with
        | false => exact ⟨h.update i _ a0 u.clock hpre.1 hpre.2, hpre.2⟩
        | true =>
          have h1 := step1_linv c0.prog a0 (c0.callClock u.clock) hpre.1
          exact ⟨h.update i _ _ u.clock ⟨h1.1.1, h1.1.2.1, hpre.1.2.2.mono h1.2⟩ (fun q hq => h1.2 q (hpre.2 q hq)),
            fun q hq => h1.2 q (hpre.2 q hq)⟩
  | fault i effect =>
    simp only [USys.step, USys.stepT]
    cases hc : u.clients[i]? with
    | none => exact ⟨h, fun _ hq => hq⟩
    | some c =>
      have hl0 : LInv u.abs c.prog := ⟨h.backed, h.keyed, h.clients c (List.mem_of_getElem? hc)⟩
      dsimp only
      split
      · exact ⟨h, fun _ hq => hq⟩
      · have hpre := arrive_linv c u.abs u.clock hl0
        generalize (if c.started then (u.abs, c, ([] : List String)) else c.settle u.abs u.clock) = pre at hpre
        obtain ⟨a0, c0, n0⟩ := pre
        dsimp only at hpre ⊢
        have h1 := stepFault_linv effect c0.prog a0 (({ c0 with started := true } : UClient).callClock u.clock) hpre.1
        have h2 := settle_linv ({ c0 with started := true, prog := (c0.prog.stepFault effect a0 (({ c0 with started := true } : UClient).callClock u.clock)).2 } : UClient)
          (c0.prog.stepFault effect a0 (({ c0 with started := true } : UClient).callClock u.clock)).1 u.clock h1.1
        exact ⟨h.update i _ _ u.clock h2.1 (fun q hq => h2.2 q (h1.2 q (hpre.2 q hq))), fun q hq => h2.2 q (h1.2 q (hpre.2 q hq))⟩

theorem run_sysinv (es : List UEv) : ∀ (u : USys), SysInv u →
    SysInv (u.run es) ∧ ∀ q ∈ u.abs.queue, q ∈ (u.run es).abs.queue := by
  induction es with
  | nil => intro u h; exact ⟨h, fun _ hq => hq⟩
  | cons e es ih =>
    intro u h
    have h1 := step_sysinv u e h
    have h2 := ih _ h1.1
    exact ⟨h2.1, fun q hq => h2.2 q (h1.2 q hq)⟩

/-! ## the clients: every component but the prober -/

theorem removeAll_good (C : Addr → Prop) (cleanUntil : Int) (l : List Server) (removed errors : Nat) {E R} :
    Good C E R (removeAll cleanUntil l removed errors) := by
  induction l generalizing removed errors E R with
  | nil => exact Good.pure _ _ _
  | cons s rest ih =>
    unfold removeAll
    refine Good.call _ _ _ _ trivial (fun r _ => ?_)
    cases r with
    | error e => exact ih _ _
    | ok u => exact ih _ _

theorem cleanServers_good (C : Addr → Prop) (retention : Int) {E R} : Good C E R (UC.cleanServers retention) := by
  unfold UC.cleanServers
  refine Good.call _ _ _ _ trivial (fun now _ => ?_)
  refine Good.call _ _ _ _ trivial (fun r _ => ?_)
  cases r with
  | error e => exact Good.pure _ _ _
  | ok svrs => exact removeAll_good C _ svrs 0 0

/-- the cleaner at storage-command granularity (index scan, record fetch, guarded removes — what the running cleaner
and the driver's cleaner client execute): reads and removals only, so every call meets its obligations -/
theorem cleanServers2_good (C : Addr → Prop) (retention : Int) {E R} : Good C E R (UC.cleanServers2 retention) := by
  unfold UC.cleanServers2
  refine Good.call _ _ _ _ trivial (fun now _ => ?_)
  refine Good.call _ _ _ _ trivial (fun r _ => ?_)
  cases r with
  | error e => exact Good.pure _ _ _
  | ok scanned =>
    dsimp only
    split
    · exact Good.pure _ _ _
    · refine Good.call _ _ _ _ trivial (fun r _ => ?_)
      cases r with
      | error e => exact Good.pure _ _ _
      | ok svrs => exact removeAll_good C _ _ 0 0

theorem cleanInstances_good (C : Addr → Prop) (retention : Int) {E R} : Good C E R (UC.cleanInstances retention) := by
  unfold UC.cleanInstances
  refine Good.call _ _ _ _ trivial (fun now _ => ?_)
  refine Good.call _ _ _ _ trivial (fun r _ => ?_)
  cases r <;> exact Good.pure _ _ _

theorem listServers_good (C : Addr → Prop) (liveness : Int) (status : Status) {E R} : Good C E R (UC.listServers liveness status) := by
  unfold UC.listServers
  refine Good.call _ _ _ _ trivial (fun now _ => ?_)
  refine Good.call _ _ _ _ trivial (fun r _ => ?_)
  cases r <;> exact Good.pure _ _ _

/-- the programs of the components that never pop: the reporter (heartbeat, keepalive, removal), the REST
submission, the refresher, the reviver, the cleaners, the listing; possibly after a clock read and followed by a
rendering of the result (as the system model's clients are) -/
inductive Client : {α : Type} → Prog α → Prop where
  | report (zeroInfo : Fields) (maxRetries : Int) (req : ReportReq) : req.addr.PortOk → Client (UC.report zeroInfo maxRetries req)
  | addServer (zeroInfo : Fields) (maxRetries : Int) (a : Addr) : a.PortOk → Client (UC.addServer zeroInfo maxRetries a)
  | refresh (maxRetries deadline : Int) : Client (UC.refresh maxRetries deadline)
  | revive (maxRetries minScope maxScope minCountdown maxCountdown deadline : Int) (draws : Nat → Int) :
      Client (UC.revive maxRetries minScope maxScope minCountdown maxCountdown deadline draws)
  | renew (instanceId srcIp : Nat) : Client (UC.renew instanceId srcIp)
  | remove (instanceId : Nat) (a : Addr) : Client (UC.remove instanceId a)
  | cleanServers (retention : Int) : Client (UC.cleanServers retention)
  /-- the two-step cleaner (`Filter` as index scan + record fetch, then the guarded removes): the program the
  driver's cleaner client and `ServerCleaner.Clean` run -/
  | cleanServers2 (retention : Int) : Client (UC.cleanServers2 retention)
  | cleanInstances (retention : Int) : Client (UC.cleanInstances retention)
  | listServers (liveness : Int) (status : Status) : Client (UC.listServers liveness status)
  | now {α : Type} (k : Int → Prog α) : (∀ t, Client (k t)) → Client (.call .now k)
  | map {α β : Type} (p : Prog α) (f : α → β) : Client p → Client (p.bind fun a => pure (f a))

theorem Client.good {α : Type} {p : Prog α} (h : Client p) : Good Addr.PortOk (fun _ _ => False) (fun _ => False) p := by
  induction h with
  | report z m req hp => exact report_good _ z m req hp
  | addServer z m a hp => exact addServer_good _ z m a hp
  | refresh m d => exact refresh_good _ m d
  | revive m a b c d e f => exact revive_good _ m a b c d e f
  | renew i sip => exact renew_good _ i sip
  | remove i a => exact remove_good _ i a
  | cleanServers r => exact cleanServers_good _ r
  | cleanServers2 r => exact cleanServers2_good _ r
  | cleanInstances r => exact cleanInstances_good _ r
  | listServers l st => exact listServers_good _ l st
  | now k _ ih =>
    refine Good.call _ _ _ _ trivial (fun t _ => ?_)
    have h1 : (fun (a : Addr) (g : Goal) => False ∨ learnE Call.now t a g) = (fun _ _ => False) := by
      funext a g; simp [learnE]
    have h2 : (fun (a : Addr) => False ∨ learnR Addr.PortOk Call.now t a) = (fun _ => False) := by
      funext a; simp [learnR]
    rw [h1, h2]
    exact ih t
  | map p f _ ih => exact Good.bind ih (fun _ _ _ _ _ => Good.pure _ _ _)

theorem Client.cinv {α : Type} {p : Prog α} (h : Client p) (s : AbsState) : CInv s p :=
  ⟨_, _, h.good, fun _ _ hf => hf.elim, fun _ hf => hf.elim⟩

/-- **`Backed` is an invariant of every system of non-popping clients**, under any interleaving of their calls,
deaths (before or after the pending call took effect), storage faults (with or without effect) and clock ticks;
and the queue only grows -/
theorem sys_backed (u : USys) (es : List UEv) (hb : Backed u.abs) (hk : KeyedOk u.abs)
    (hc : ∀ c ∈ u.clients, Client c.prog) :
    Backed (u.run es).abs ∧ KeyedOk (u.run es).abs ∧ ∀ q ∈ u.abs.queue, q ∈ (u.run es).abs.queue := by
  have := run_sysinv es u ⟨hb, hk, fun c hm => (hc c hm).cinv _⟩
  exact ⟨this.1.backed, this.1.keyed, this.2⟩


/-! ## witnesses: why the address hypotheses are there, and a race that needs a popper -/

namespace W
/-- an address with an out-of-range port … -/
def badA : Addr := ⟨0, 65541⟩
/-- … that shares its `Addr.key` with a valid one (the model's key is injective only on ports 1..65535; the real
key, `Addr.String()`, is injective, and `addr.New` rejects such ports) -/
def goodA : Addr := ⟨1, 5⟩

/-- a backed, keyed store whose only row has the out-of-range address -/
def badState : AbsState := { servers := (∅ : ExtTreeMap Nat SRow).insert badA.key ⟨{ addr := badA, queryPort := 1, status := Status.master, info := [], details := ⟨[], [], []⟩, refreshedAt := some 0, version := 1 }, 0⟩ }

/-- a client as the system model runs it: the use case followed by a rendering of its result -/
def client {α : Type} (p : Prog α) : UClient := { prog := p.bind fun _ => pure "done" }

/-- reporter of `badA`, a cleaner that removes everything, two reporters of `goodA` -/
def collisionSys : USys := { clock := 1000, clients := [
  client (UC.report [] 2 ⟨badA, 1, 7, some []⟩),
  client (UC.cleanServers (-100)),
  client (UC.report [] 2 ⟨goodA, 6, 8, some []⟩),
  client (UC.report [] 2 ⟨goodA, 6, 9, some []⟩)] }

/-- `badA`'s reporter creates the row and enqueues; the cleaner removes the row; the first `goodA` reporter creates
a row under the same key, the second one rewrites it; then the first reporter's mark lands on it -/
def collisionEvents : List UEv :=
  [.call 0, .call 0, .call 0, .call 0, .call 1, .call 1, .call 2, .call 2, .call 3, .call 3, .call 0]

/-- a minimal prober: pop one probe, execute it with a failed outcome -/
def popper : Prog String := .call (.popMany 1) fun r =>
  match r with
  | .error _ => pure "err"
  | .ok (ps, _) => match ps with | [p] => (UC.probe p none).bind fun _ => pure "probed" | _ => pure "none"

/-- A is marked `port_retry` and its probe is queued: fully backed -/
def staleState : AbsState := { state with queue := [⟨0, probe, 0, none⟩] }

/-- a reporter of A, a cleaner, a prober -/
def staleSys : USys := { abs := staleState, clock := 1000, clients := [
  client (UC.report [] 2 ⟨A, 10481, 7, some []⟩), client (UC.cleanServers (-100)), { prog := popper }] }

/-- the reporter looks A up (marked copy); the cleaner scans and removes A; the prober pops A's probe and finds no
server; the reporter adds its stale copy — mark included — as a new row and, seeing the mark, enqueues nothing -/
def staleEvents : List UEv := [.call 0, .call 1, .call 1, .call 2, .call 2, .call 0, .call 0, .call 0]
end W

end Swat4.C16
