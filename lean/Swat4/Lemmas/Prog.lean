import Swat4.Model.Prog
/-! Basic laws of `Prog`. -/
namespace Swat4
namespace Prog

theorem run_bind {α β : Type} (p : Prog α) (f : α → Prog β) (s : AbsState) (now : Int) :
    (p.bind f).run s now = (f (p.run s now).2).run (p.run s now).1 now := by
  induction p generalizing s with
  | ret a => rfl
  | call c k ih =>
    simp only [Prog.bind, Prog.run]
    exact ih _ _

@[simp] theorem run_ret {α : Type} (a : α) (s : AbsState) (now : Int) : (Prog.ret a).run s now = (s, a) := rfl

@[simp] theorem run_pure {α : Type} (a : α) (s : AbsState) (now : Int) : (pure a : Prog α).run s now = (s, a) := rfl

@[simp] theorem run_call {α β : Type} (c : Call β) (k : β → Prog α) (s : AbsState) (now : Int) :
    (Prog.call c k).run s now = (k (c.exec s now).2).run (c.exec s now).1 now := rfl

end Prog
end Swat4
