import Swat4.Model.Filter
import Swat4.Spec.FilterSpec
import Swat4.Spec.FilterBridge
/-!
# Lemmas about the filter model (C03)
-/
namespace Swat4.Filter
open Swat4 Swat4.FilterSpec

/-! ## matching: model vs. denotational `sat` -/

theorem cmpInt_rel (op : Op) (v : Value) (n : Int) :
    (match compareToInt op v n with | .ok true => true | _ => false) =
      (match asInt v with | some a => intRel op a n | none => false) := by
  cases v with
  | int a => cases op <;> simp [compareToInt, asInt, intRel] <;> (try split <;> simp_all)
  | bool b => cases b <;> cases op <;> simp [compareToInt, asInt, intRel] <;> (try split <;> simp_all)
  | str s => simp [compareToInt, asInt]

theorem cmpStr_rel (op : Op) (v : Value) (s : Bytes) :
    (match compareToString op v s with | .ok true => true | _ => false) =
      (match asStr v with | some a => strRel op a s | none => false) := by
  cases v with
  | int a => simp [compareToString, asStr]
  | bool b => simp [compareToString, asStr]
  | str a => cases op <;> simp [compareToString, asStr, strRel] <;> (try split <;> simp_all)

theorem matchOne_sat (i : Info) (c : Clause) : matchOne (toFilter c) i = sat i c := by
  unfold matchOne filterMatch sat getStructField toFilter
  cases hl : List.lookup c.field i with
  | none => simp
  | some v =>
    cases hv : c.value with
    | int n => simp only [toFVal, operand]; exact cmpInt_rel c.op v n
    | str s => simp only [toFVal, operand]; exact cmpStr_rel c.op v s
    | fld g =>
      simp only [toFVal, operand]
      cases hg : List.lookup g i with
      | none => simp
      | some w =>
        cases w with
        | int n => exact cmpInt_rel c.op v n
        | str s => exact cmpStr_rel c.op v s
        | bool b => simp

theorem queryMatch_sat (i : Info) (q : List Clause) : queryMatch (q.map toFilter) i = q.all (sat i) := by
  unfold queryMatch
  induction q with
  | nil => rfl
  | cons c q ih => simp only [List.map_cons, List.all_cons, ih, matchOne_sat]

/-! ## status sets -/

theorem hasStatus_two_pow (s i : Nat) : hasStatus s (2 ^ i) = s.testBit i := by
  unfold hasStatus
  rw [Bool.eq_iff_iff, beq_iff_eq]
  constructor
  · intro h
    have := congrArg (fun x => x.testBit i) h
    simpa [Nat.testBit_and, Nat.testBit_two_pow] using this
  · intro h
    apply Nat.eq_of_testBit_eq
    intro j
    rw [Nat.testBit_and, Nat.testBit_two_pow]
    by_cases hij : i = j
    · subst hij; simp [h]
    · simp [hij]

theorem and_eq_iff_testBit (s r : Nat) : s &&& r = r ↔ ∀ i, r.testBit i = true → s.testBit i = true := by
  constructor
  · intro h i hi
    have := congrArg (fun x => x.testBit i) h
    simp only [Nat.testBit_and, hi, Bool.and_true] at this
    exact this
  · intro h
    apply Nat.eq_of_testBit_eq
    intro i
    rw [Nat.testBit_and]
    cases hr : r.testBit i with
    | false => simp
    | true => simp [h i hr]

theorem mem_bitsOf (ds b : Nat) : b ∈ bitsOf ds ↔ ∃ i, ds.testBit i = true ∧ b = 2 ^ i := by
  unfold bitsOf
  simp only [List.mem_map, List.mem_filter, List.mem_range]
  constructor
  · rintro ⟨i, ⟨_, hi⟩, rfl⟩; exact ⟨i, hi, rfl⟩
  · rintro ⟨i, hi, rfl⟩
    refine ⟨i, ⟨?_, hi⟩, rfl⟩
    have h1 := Nat.ge_two_pow_of_testBit hi
    have h2 : i < 2 ^ i := Nat.lt_two_pow_self
    omega

/-- the `SINTER` of the status sets of `required.Bits()` holds exactly the servers whose status word
contains `required`, provided every bit of `required` has an index set -/
theorem statusSets_eq (required : Nat) (hreq : ∀ b ∈ bitsOf required, b ∈ Facts.statusMembers) (r : Record) :
    (bitsOf required).all (inStatusSet · r) = decide (r.status &&& required = required) := by
  rw [Bool.eq_iff_iff, List.all_eq_true, decide_eq_true_iff, and_eq_iff_testBit]
  constructor
  · intro h i hi
    have hb : 2 ^ i ∈ bitsOf required := (mem_bitsOf _ _).2 ⟨i, hi, rfl⟩
    have := h _ hb
    unfold inStatusSet at this
    rw [Bool.and_eq_true, hasStatus_two_pow] at this
    exact this.2
  · intro h b hb
    obtain ⟨i, hi, rfl⟩ := (mem_bitsOf _ _).1 hb
    unfold inStatusSet
    rw [Bool.and_eq_true, hasStatus_two_pow]
    exact ⟨List.contains_iff_mem.2 (hreq _ hb), h i hi⟩

/-- the model's selection is the specification's predicate, record by record -/
theorem select_eq (now liveness : Int) (required : Nat) (hreq : ∀ b ∈ bitsOf required, b ∈ Facts.statusMembers)
    (q : List Clause) (r : Record) :
    (queryMatch (q.map toFilter) r.info &&
      (inRefreshedFrom (now - liveness) r && (bitsOf required).all (inStatusSet · r))) =
    selected now liveness required q (toServer r) := by
  rw [statusSets_eq required hreq, queryMatch_sat]
  unfold selected toServer inRefreshedFrom
  cases r.refreshedAt with
  | zero => simp
  | «at» t =>
    simp only [ge_iff_le]
    cases decide (r.status &&& required = required) <;> cases decide (now - liveness ≤ t) <;> simp

/-! ## the loop of `NewFromString` -/

theorem scanFilter_snd_le (s : Bytes) : (scanFilter s).2.length ≤ s.length := by
  induction s with
  | nil => simp [scanFilter]
  | cons b rest ih =>
    unfold scanFilter
    split
    · simp only [List.length_drop, List.length_cons]; omega
    · simp only [List.length_cons]; omega

theorem scanFilter_snd_lt (s : Bytes) (h : s ≠ []) : (scanFilter s).2.length < s.length := by
  cases s with
  | nil => exact absurd rfl h
  | cons b rest =>
    unfold scanFilter
    split
    · simp only [List.length_drop, List.length_cons]; omega
    · have := scanFilter_snd_le rest
      simp only [List.length_cons]; omega

theorem rawFiltersFuel_irrel : ∀ (n m : Nat) (s : Bytes), s.length ≤ n → s.length ≤ m →
    rawFiltersFuel n s = rawFiltersFuel m s := by
  intro n
  induction n with
  | zero =>
    intro m s hn _
    have : s = [] := List.length_eq_zero_iff.1 (by omega)
    subst this
    cases m <;> simp [rawFiltersFuel]
  | succ n ih =>
    intro m s hn hm
    cases m with
    | zero =>
      have : s = [] := List.length_eq_zero_iff.1 (by omega)
      subst this
      simp [rawFiltersFuel]
    | succ m =>
      unfold rawFiltersFuel
      by_cases hs : s.isEmpty = true
      · simp [hs]
      · simp only [hs]
        have hne : s ≠ [] := by intro h; subst h; simp at hs
        have := scanFilter_snd_lt s hne
        rw [ih m _ (by omega) (by omega)]

/-- **the fuel is never exhausted**: `rawFilters` satisfies the equation of the Go loop
`for len(unscanned) > 0 { rawFilter, unscanned = scanFilter(unscanned); … }` -/
theorem rawFilters_eq (s : Bytes) :
    rawFilters s = if s.isEmpty then [] else (scanFilter s).1 :: rawFilters (scanFilter s).2 := by
  unfold rawFilters
  cases s with
  | nil => simp [rawFiltersFuel]
  | cons b rest =>
    have hlt := scanFilter_snd_lt (b :: rest) (by simp)
    simp only [List.length_cons] at hlt ⊢
    rw [rawFiltersFuel]
    simp only [List.isEmpty_cons, Bool.false_eq_true, if_false]
    rw [rawFiltersFuel_irrel rest.length (scanFilter (b :: rest)).2.length _ (by omega) (Nat.le_refl _)]

/-! ## `strconv.Atoi` reads back the canonical decimal rendering -/

theorem digit_byte : ∀ d : Fin 10, isDigit (UInt8.ofNat (48 + d.val)) = true ∧ (UInt8.ofNat (48 + d.val)).toNat - 48 = d.val := by
  decide

theorem digit_byte' (d : Nat) (h : d < 10) : isDigit (UInt8.ofNat (48 + d)) = true ∧ (UInt8.ofNat (48 + d)).toNat - 48 = d :=
  digit_byte ⟨d, h⟩

theorem digitsAcc_snoc (xs : Bytes) (d : UInt8) (acc : Nat) :
    digitsAcc acc (xs ++ [d]) =
      (digitsAcc acc xs).bind fun m => if isDigit d then some (m * 10 + (d.toNat - 48)) else none := by
  induction xs generalizing acc with
  | nil => simp [digitsAcc]
  | cons x xs ih =>
    simp only [List.cons_append, digitsAcc]
    split
    · exact ih _
    · rfl

theorem natDigits_eq (n : Nat) :
    natDigits n = if n < 10 then [UInt8.ofNat (48 + n)] else natDigits (n / 10) ++ [UInt8.ofNat (48 + n % 10)] := by
  rw [natDigits]

theorem digitsAcc_natDigits (n : Nat) : digitsAcc 0 (natDigits n) = some n := by
  induction n using Nat.strongRecOn with
  | _ n ih =>
    rw [natDigits_eq]
    split
    · rename_i h
      have := digit_byte' n h
      have e : digitsAcc 0 [UInt8.ofNat (48 + n)] = if isDigit (UInt8.ofNat (48 + n)) then
          some (0 * 10 + ((UInt8.ofNat (48 + n)).toNat - 48)) else none := rfl
      rw [e, this.1, this.2]
      simp
    · rename_i h
      have hd := digit_byte' (n % 10) (Nat.mod_lt _ (by decide))
      rw [digitsAcc_snoc, ih (n / 10) (by omega)]
      simp only [Option.bind_some, hd.1, hd.2, if_true]
      congr 1
      omega

theorem natDigits_all_digits (n : Nat) : ∀ b ∈ natDigits n, isDigit b = true := by
  induction n using Nat.strongRecOn with
  | _ n ih =>
    rw [natDigits_eq]
    split
    · rename_i h
      intro b hb
      simp only [List.mem_singleton] at hb
      subst hb
      exact (digit_byte' n h).1
    · intro b hb
      rw [List.mem_append] at hb
      cases hb with
      | inl hb => exact ih (n / 10) (by omega) b hb
      | inr hb =>
        simp only [List.mem_singleton] at hb
        subst hb
        exact (digit_byte' (n % 10) (Nat.mod_lt _ (by decide))).1

theorem natDigits_ne_nil (n : Nat) : natDigits n ≠ [] := by
  rw [natDigits_eq]
  split <;> simp

theorem isDigit_not_sign (b : UInt8) (h : isDigit b = true) : (b == 0x2d) = false ∧ (b == 0x2b) = false := by
  unfold isDigit at h
  simp only [Bool.and_eq_true, decide_eq_true_iff] at h
  have h1 : b ≠ 0x2d := by intro hb; subst hb; exact absurd h.1 (by decide)
  have h2 : b ≠ 0x2b := by intro hb; subst hb; exact absurd h.1 (by decide)
  simp [h1, h2]

theorem isDigit_not_op (b : UInt8) (h : isDigit b = true) : isOpByte b = false := by
  unfold isDigit at h
  simp only [Bool.and_eq_true, decide_eq_true_iff] at h
  unfold isOpByte
  have h1 : b ≠ 0x21 := by intro hb; subst hb; exact absurd h.1 (by decide)
  have h2 : b ≠ 0x3d := by intro hb; subst hb; exact absurd h.2 (by decide)
  have h3 : b ≠ 0x3c := by intro hb; subst hb; exact absurd h.2 (by decide)
  have h4 : b ≠ 0x3e := by intro hb; subst hb; exact absurd h.2 (by decide)
  simp [h1, h2, h3, h4]

theorem atoi_natDigits (n : Nat) (h : n < 2 ^ 63) : atoi (natDigits n) = some (n : Int) := by
  have hne := natDigits_ne_nil n
  have hall := natDigits_all_digits n
  have hd := digitsAcc_natDigits n
  cases hs : natDigits n with
  | nil => exact absurd hs hne
  | cons b r =>
    rw [hs] at hall hd
    have hb : isDigit b = true := hall b (by simp)
    have hsign := isDigit_not_sign b hb
    unfold atoi
    simp only [hsign.1, hsign.2, Bool.or_self, Bool.false_eq_true, if_false, List.isEmpty_cons, hd, h, if_true]

theorem atoi_neg_natDigits (n : Nat) (h : n ≤ 2 ^ 63) : atoi (0x2d :: natDigits n) = some (-(n : Int)) := by
  have hne := natDigits_ne_nil n
  have hd := digitsAcc_natDigits n
  unfold atoi
  have : (natDigits n).isEmpty = false := by cases hh : natDigits n <;> simp_all
  simp [this, hd, h]

theorem atoi_renderInt (n : Int) (h1 : -(2 : Int) ^ 63 ≤ n) (h2 : n < (2 : Int) ^ 63) : atoi (renderInt n) = some n := by
  unfold renderInt
  split
  · rename_i hneg
    rw [atoi_neg_natDigits _ (by omega)]
    congr 1; omega
  · rename_i hpos
    rw [atoi_natDigits _ (by omega)]
    congr 1; omega
/-! ## the scanner reads back the rendered grammar -/

/-- `takeWhile`/`dropWhile` split `a ++ b` at the seam when `p` holds throughout `a` and fails at the head of `b` -/
theorem span_seam {α} (p : α → Bool) (a b : List α) (ha : ∀ x ∈ a, p x = true)
    (hb : ∀ x, b.head? = some x → p x = false) :
    (a ++ b).takeWhile p = a ∧ (a ++ b).dropWhile p = b := by
  rw [List.takeWhile_append_of_pos ha, List.dropWhile_append_of_pos ha]
  cases b with
  | nil => simp
  | cons x b =>
    have := hb x rfl
    simp [this]

theorem renderOp_spec (op : Op) : renderOp op ≠ [] ∧ (∀ b ∈ renderOp op, isOpByte b = true) ∧ opOfRaw (renderOp op) = some op := by
  cases op <;> decide

theorem parseValue_str (s : Bytes) (hs : s ≠ []) : parseValue ([0x27] ++ s ++ [0x27]) = .ok (.str s) := by
  have hat : atoi ([0x27] ++ s ++ [0x27]) = none := by
    simp [atoi, digitsAcc, isDigit]
  unfold parseValue
  rw [hat]
  have hlen : decide (([0x27] ++ s ++ [0x27] : Bytes).length > 2) = true := by
    cases s with
    | nil => exact absurd rfl hs
    | cons x s => simp
  have hhead : ([0x27] ++ s ++ [0x27] : Bytes).head? = some 0x27 := by simp
  have hlast : ([0x27] ++ s ++ [0x27] : Bytes).getLast? = some 0x27 := by
    rw [List.getLast?_append]; rfl
  have hin : (([0x27] ++ s ++ [0x27] : Bytes).drop 1).dropLast = s := by
    simp
  simp only [hlen, hhead, hlast, hin, beq_self_eq_true, Bool.and_self, if_true]


/-- the facts about query-field names the round trip needs (discharged by `decide` on the generated list) -/
def QueryFieldsOk : Prop :=
  ∀ g ∈ Facts.queryFields, g ≠ [] ∧ (∀ b ∈ g, isOpByte b = false) ∧ atoi g = none ∧ g.head? ≠ some 0x27

instance : Decidable QueryFieldsOk := by unfold QueryFieldsOk; exact inferInstance

theorem parseValue_fld (hq : QueryFieldsOk) (g : Bytes) (hg : g ∈ Facts.queryFields) : parseValue g = .ok (.fld g) := by
  obtain ⟨_, _, hat, hhead⟩ := hq g hg
  unfold parseValue
  rw [hat]
  have h1 : (g.head? == some 0x27) = false := by
    cases h : g.head? == some 0x27
    · rfl
    · exact absurd (beq_iff_eq.1 h) hhead
  have h2 : isQueryField g = true := List.contains_iff_mem.2 hg
  simp [h1, h2]

theorem parseValue_int (n : Int) (h1 : -(2 : Int) ^ 63 ≤ n) (h2 : n < (2 : Int) ^ 63) :
    parseValue (renderInt n) = .ok (.int n) := by
  unfold parseValue
  rw [atoi_renderInt n h1 h2]

/-- the value-side part of `WfClause` -/
def WfVal : CVal → Prop
  | .int n => -(2 : Int) ^ 63 ≤ n ∧ n < (2 : Int) ^ 63
  | .str s => s ≠ []
  | .fld g => g ∈ Facts.queryFields

theorem parseValue_renderVal (hq : QueryFieldsOk) (v : CVal) (hv : WfVal v) : parseValue (renderVal v) = .ok (toFVal v) := by
  cases v with
  | int n => exact parseValue_int n hv.1 hv.2
  | str s => exact parseValue_str s hv
  | fld g => exact parseValue_fld hq g hv

theorem renderVal_head (hq : QueryFieldsOk) (v : CVal) (hv : WfVal v) :
    renderVal v ≠ [] ∧ ∀ x, (renderVal v).head? = some x → isOpByte x = false := by
  cases v with
  | int n =>
    show renderInt n ≠ [] ∧ ∀ x, (renderInt n).head? = some x → isOpByte x = false
    unfold renderInt
    by_cases hneg : n < 0
    · simp only [hneg, if_true]
      refine ⟨by simp, ?_⟩
      intro x hx
      simp only [List.head?_cons, Option.some.injEq] at hx
      subst hx
      decide
    · simp only [hneg, if_false]
      refine ⟨natDigits_ne_nil _, ?_⟩
      intro x hx
      have hall := natDigits_all_digits n.toNat
      cases hs : natDigits n.toNat with
      | nil => rw [hs] at hx; cases hx
      | cons b r =>
        rw [hs] at hx hall
        simp only [List.head?_cons, Option.some.injEq] at hx
        subst hx
        exact isDigit_not_op _ (hall _ (by simp))
  | str s =>
    refine ⟨by simp [renderVal], ?_⟩
    intro x hx
    simp only [renderVal, List.cons_append, List.nil_append, List.head?_cons, Option.some.injEq] at hx
    subst hx
    decide
  | fld g =>
    obtain ⟨hne, hop, _, _⟩ := hq g hv
    refine ⟨hne, ?_⟩
    intro x hx
    cases g with
    | nil => cases hx
    | cons b r =>
      simp only [renderVal, List.head?_cons, Option.some.injEq] at hx
      subst hx
      exact hop _ (by simp)

theorem parse_renderClause (hq : QueryFieldsOk) (c : Clause) (hf : c.field ∈ Facts.queryFields) (hv : WfVal c.value) :
    parse (renderClause c) = .ok (toFilter c) := by
  obtain ⟨hfne, hfop, _, _⟩ := hq c.field hf
  obtain ⟨hone, hoall, horaw⟩ := renderOp_spec c.op
  obtain ⟨hvne, hvhead⟩ := renderVal_head hq c.value hv
  have s1 := span_seam (fun b => !isOpByte b) c.field (renderOp c.op ++ renderVal c.value)
    (fun x hx => by simp [hfop x hx])
    (fun x hx => by
      cases ho : renderOp c.op with
      | nil => exact absurd ho hone
      | cons o os =>
        rw [ho] at hx hoall
        simp only [List.cons_append, List.head?_cons, Option.some.injEq] at hx
        subst hx
        have : isOpByte o = true := hoall o (by simp)
        simp [this])
  have s2 := span_seam isOpByte (renderOp c.op) (renderVal c.value) hoall hvhead
  unfold parse renderClause
  rw [List.append_assoc]
  simp only [s1.1, s1.2, s2.1, s2.2]
  have e1 : c.field.isEmpty = false := by cases h : c.field <;> simp_all
  have e2 : (renderVal c.value).isEmpty = false := by cases h : renderVal c.value <;> simp_all
  simp only [e1, e2, Bool.or_self, Bool.false_eq_true, if_false, parseValue_renderVal hq c.value hv]
  unfold newFilter
  have : isQueryField c.field = true := List.contains_iff_mem.2 hf
  simp [this, horaw, toFilter]


/-! ### `scanFilter` on rendered queries -/

theorem isPrefixOf_append_of_le (p l m : Bytes) (h : p.length ≤ l.length) :
    p.isPrefixOf (l ++ m) = p.isPrefixOf l := by
  induction p generalizing l with
  | nil => simp [List.isPrefixOf]
  | cons a p ih =>
    cases l with
    | nil => simp at h
    | cons b l =>
      simp only [List.cons_append, List.isPrefixOf]
      rw [ih l (by simpa using h)]

theorem scanFilter_sepFree_end (r : Bytes) (h : sepFree r = true) : scanFilter r = (r, []) := by
  induction r with
  | nil => rfl
  | cons b r ih =>
    unfold sepFree at h
    rw [Bool.and_eq_true, Bool.not_eq_true'] at h
    have hnp : andSep.isPrefixOf (b :: r) = false := by
      cases hp : andSep.isPrefixOf (b :: r)
      · rfl
      · have h1 : andSep <+: b :: r := List.isPrefixOf_iff_prefix.1 hp
        have h2 : andSep <+: b :: r ++ andSep := List.prefix_append_of_prefix h1
        have := List.isPrefixOf_iff_prefix.2 h2
        rw [this] at h
        exact absurd h.1 (by simp)
    unfold scanFilter
    simp only [hnp, Bool.false_eq_true, if_false, ih h.2]

theorem scanFilter_sepFree_sep (r rest : Bytes) (h : sepFree r = true) :
    scanFilter (r ++ andSep ++ rest) = (r, rest) := by
  induction r with
  | nil => simp [scanFilter, andSep, List.isPrefixOf]
  | cons b r ih =>
    unfold sepFree at h
    rw [Bool.and_eq_true, Bool.not_eq_true'] at h
    have hnp : andSep.isPrefixOf (b :: r ++ andSep ++ rest) = false := by
      rw [isPrefixOf_append_of_le _ _ _ (by simp [andSep])]
      exact h.1
    have e : b :: r ++ andSep ++ rest = b :: (r ++ andSep ++ rest) := by simp
    rw [e] at hnp ⊢
    unfold scanFilter
    simp only [hnp, Bool.false_eq_true, if_false, ih h.2]

theorem render_cons_ne_nil (c : Clause) (q : List Clause) (h : renderClause c ≠ []) : render (c :: q) ≠ [] := by
  cases q with
  | nil => exact h
  | cons c' q =>
    unfold render
    cases hr : renderClause c with
    | nil => exact absurd hr h
    | cons x xs => simp

theorem rawFilters_render (q : List Clause)
    (h : ∀ c ∈ q, sepFree (renderClause c) = true ∧ renderClause c ≠ []) :
    rawFilters (render q) = q.map renderClause := by
  induction q with
  | nil => simp [render, rawFilters, rawFiltersFuel]
  | cons c q ih =>
    have hc := h c (by simp)
    cases q with
    | nil =>
      rw [rawFilters_eq]
      have : (render [c]).isEmpty = false := by
        show (renderClause c).isEmpty = false
        cases hr : renderClause c <;> simp_all
      simp only [this, Bool.false_eq_true, if_false]
      show (scanFilter (renderClause c)).1 :: rawFilters (scanFilter (renderClause c)).2 = _
      rw [scanFilter_sepFree_end _ hc.1]
      simp [rawFilters, rawFiltersFuel]
    | cons c' q =>
      have hc' := h c' (by simp)
      rw [rawFilters_eq]
      have hne : (render (c :: c' :: q)).isEmpty = false := by
        have := render_cons_ne_nil c (c' :: q) hc.2
        cases hr : render (c :: c' :: q) <;> simp_all
      simp only [hne, Bool.false_eq_true, if_false]
      show (scanFilter (renderClause c ++ andSep ++ render (c' :: q))).1 ::
        rawFilters (scanFilter (renderClause c ++ andSep ++ render (c' :: q))).2 = _
      rw [scanFilter_sepFree_sep _ _ hc.1]
      simp only [List.map_cons]
      rw [ih (fun d hd => h d (by simp only [List.mem_cons] at hd ⊢; exact .inr hd))]
      simp

theorem parseAll_map (q : List Clause) (h : ∀ c ∈ q, parse (renderClause c) = .ok (toFilter c)) :
    parseAll (q.map renderClause) = .ok (q.map toFilter) := by
  induction q with
  | nil => rfl
  | cons c q ih =>
    simp only [List.map_cons, parseAll]
    rw [h c (by simp), ih (fun d hd => h d (by simp [hd]))]

end Swat4.Filter
