import Swat4.Model.Filter
import Swat4.Spec.FilterSpec
import Swat4.Spec.FilterBridge
/-!
# Lemmas about the filter model (C03)
-/
namespace Swat4.Filter
open Swat4 Swat4.FilterSpec

/-! ## matching: model vs. denotational `sat` -/

theorem cmpInt_rel (op : Op) (v : Value) (n : Int) :
    (match compareToInt op v n with | .ok true => true | _ => false) =
      (match asInt v with | some a => intRel op a n | none => false) := by
  cases v with
  | int a => cases op <;> simp [compareToInt, asInt, intRel] <;> (try split <;> simp_all)
  | bool b => cases b <;> cases op <;> simp [compareToInt, asInt, intRel] <;> (try split <;> simp_all)
  | str s => simp [compareToInt, asInt]

theorem cmpStr_rel (op : Op) (v : Value) (s : Bytes) :
    (match compareToString op v s with | .ok true => true | _ => false) =
      (match asStr v with | some a => strRel op a s | none => false) := by
  cases v with
  | int a => simp [compareToString, asStr]
  | bool b => simp [compareToString, asStr]
  | str a => cases op <;> simp [compareToString, asStr, strRel] <;> (try split <;> simp_all)

theorem matchOne_sat (i : Info) (c : Clause) : matchOne (toFilter c) i = sat i c := by
  unfold matchOne filterMatch sat getStructField toFilter
  cases hl : List.lookup c.field i with
  | none => simp
  | some v =>
    cases hv : c.value with
    | int n => simp only [toFVal, operand]; exact cmpInt_rel c.op v n
    | str s => simp only [toFVal, operand]; exact cmpStr_rel c.op v s
    | fld g =>
      simp only [toFVal, operand]
      cases hg : List.lookup g i with
      | none => simp
      | some w =>
        cases w with
        | int n => exact cmpInt_rel c.op v n
        | str s => exact cmpStr_rel c.op v s
        | bool b => simp

theorem queryMatch_sat (i : Info) (q : List Clause) : queryMatch (q.map toFilter) i = q.all (sat i) := by
  unfold queryMatch
  induction q with
  | nil => rfl
  | cons c q ih => simp only [List.map_cons, List.all_cons, ih, matchOne_sat]

/-! ## status sets -/

theorem hasStatus_two_pow (s i : Nat) : hasStatus s (2 ^ i) = s.testBit i := by
  unfold hasStatus
  rw [Bool.eq_iff_iff, beq_iff_eq]
  constructor
  · intro h
    have := congrArg (fun x => x.testBit i) h
    simpa [Nat.testBit_and, Nat.testBit_two_pow] using this
  · intro h
    apply Nat.eq_of_testBit_eq
    intro j
    rw [Nat.testBit_and, Nat.testBit_two_pow]
    by_cases hij : i = j
    · subst hij; simp [h]
    · simp [hij]

theorem and_eq_iff_testBit (s r : Nat) : s &&& r = r ↔ ∀ i, r.testBit i = true → s.testBit i = true := by
  constructor
  · intro h i hi
    have := congrArg (fun x => x.testBit i) h
    simp only [Nat.testBit_and, hi, Bool.and_true] at this
    exact this
  · intro h
    apply Nat.eq_of_testBit_eq
    intro i
    rw [Nat.testBit_and]
    cases hr : r.testBit i with
    | false => simp
    | true => simp [h i hr]

theorem mem_bitsOf (ds b : Nat) : b ∈ bitsOf ds ↔ ∃ i, ds.testBit i = true ∧ b = 2 ^ i := by
  unfold bitsOf
  simp only [List.mem_map, List.mem_filter, List.mem_range]
  constructor
  · rintro ⟨i, ⟨_, hi⟩, rfl⟩; exact ⟨i, hi, rfl⟩
  · rintro ⟨i, hi, rfl⟩
    refine ⟨i, ⟨?_, hi⟩, rfl⟩
    have h1 := Nat.ge_two_pow_of_testBit hi
    have h2 : i < 2 ^ i := Nat.lt_two_pow_self
    omega

/-- the `SINTER` of the status sets of `required.Bits()` holds exactly the servers whose status word
contains `required`, provided every bit of `required` has an index set -/
theorem statusSets_eq (required : Nat) (hreq : ∀ b ∈ bitsOf required, b ∈ Facts.statusMembers) (r : Record) :
    (bitsOf required).all (inStatusSet · r) = decide (r.status &&& required = required) := by
  rw [Bool.eq_iff_iff, List.all_eq_true, decide_eq_true_iff, and_eq_iff_testBit]
  constructor
  · intro h i hi
    have hb : 2 ^ i ∈ bitsOf required := (mem_bitsOf _ _).2 ⟨i, hi, rfl⟩
    have := h _ hb
    unfold inStatusSet at this
    rw [Bool.and_eq_true, hasStatus_two_pow] at this
    exact this.2
  · intro h b hb
    obtain ⟨i, hi, rfl⟩ := (mem_bitsOf _ _).1 hb
    unfold inStatusSet
    rw [Bool.and_eq_true, hasStatus_two_pow]
    exact ⟨List.contains_iff_mem.2 (hreq _ hb), h i hi⟩

/-- the model's selection is the specification's predicate, record by record -/
theorem select_eq (now liveness : Int) (required : Nat) (hreq : ∀ b ∈ bitsOf required, b ∈ Facts.statusMembers)
    (q : List Clause) (r : Record) :
    (queryMatch (q.map toFilter) r.info &&
      (inRefreshedFrom (now - liveness) r && (bitsOf required).all (inStatusSet · r))) =
    selected now liveness required q (toServer r) := by
  rw [statusSets_eq required hreq, queryMatch_sat]
  unfold selected toServer inRefreshedFrom
  cases r.refreshedAt with
  | zero => simp
  | «at» t =>
    simp only [ge_iff_le]
    cases decide (r.status &&& required = required) <;> cases decide (now - liveness ≤ t) <;> simp

/-! ## the loop of `NewFromString` -/

theorem scanFilter_snd_le (s : Bytes) : (scanFilter s).2.length ≤ s.length := by
  induction s with
  | nil => simp [scanFilter]
  | cons b rest ih =>
    unfold scanFilter
    split
    · simp only [List.length_drop, List.length_cons]; omega
    · simp only [List.length_cons]; omega

theorem scanFilter_snd_lt (s : Bytes) (h : s ≠ []) : (scanFilter s).2.length < s.length := by
  cases s with
  | nil => exact absurd rfl h
  | cons b rest =>
    unfold scanFilter
    split
    · simp only [List.length_drop, List.length_cons]; omega
    · have := scanFilter_snd_le rest
      simp only [List.length_cons]; omega

theorem rawFiltersFuel_irrel : ∀ (n m : Nat) (s : Bytes), s.length ≤ n → s.length ≤ m →
    rawFiltersFuel n s = rawFiltersFuel m s := by
  intro n
  induction n with
  | zero =>
    intro m s hn _
    have : s = [] := List.length_eq_zero_iff.1 (by omega)
    subst this
    cases m <;> simp [rawFiltersFuel]
  | succ n ih =>
    intro m s hn hm
    cases m with
    | zero =>
      have : s = [] := List.length_eq_zero_iff.1 (by omega)
      subst this
      simp [rawFiltersFuel]
    | succ m =>
      unfold rawFiltersFuel
      by_cases hs : s.isEmpty = true
      · simp [hs]
      · simp only [hs]
        have hne : s ≠ [] := by intro h; subst h; simp at hs
        have := scanFilter_snd_lt s hne
        rw [ih m _ (by omega) (by omega)]

/-- **the fuel is never exhausted**: `rawFilters` satisfies the equation of the Go loop
`for len(unscanned) > 0 { rawFilter, unscanned = scanFilter(unscanned); … }` -/
theorem rawFilters_eq (s : Bytes) :
    rawFilters s = if s.isEmpty then [] else (scanFilter s).1 :: rawFilters (scanFilter s).2 := by
  unfold rawFilters
  cases s with
  | nil => simp [rawFiltersFuel]
  | cons b rest =>
    have hlt := scanFilter_snd_lt (b :: rest) (by simp)
    simp only [List.length_cons] at hlt ⊢
    rw [rawFiltersFuel]
    simp only [List.isEmpty_cons, Bool.false_eq_true, if_false]
    rw [rawFiltersFuel_irrel rest.length (scanFilter (b :: rest)).2.length _ (by omega) (Nat.le_refl _)]

end Swat4.Filter
