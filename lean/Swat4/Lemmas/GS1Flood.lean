import Swat4.Lemmas.GS1Collect
/-!
# A responder that repeats its datagrams: `getResponse` stabilises after two passes

`getResponse` (`Model/GS1.lean` `feed` / `runQueryFrom`) re-inspects EVERY datagram received so far on each read.  What
that loop computes from the list of datagrams is a `CState` (`count` = number of the last final fragment, `version` =
dialect of the last fragment, `ordered` = the map number ↦ data, `size` = the allocated capacity).  Whether the read loop
goes on, and what it returns, depends on `count`, `version` and `ordered` only (`outcomeSt_congr`), and feeding a list of
fragments `X` a second time right after itself changes none of the three (`foldl_step_idem`): the last final fragment is
the same, the last fragment is the same, every number holds the data of its last occurrence in `X`.  So the `k`-th read of
pass 3, 4, … sees the state the `k`-th read of pass 2 saw.  Pass 2 is NOT pass 1: in pass 2 the map already holds every
number of `X` while `count` walks through the finals of `X` again.
-/
namespace Swat4.GS1
open Swat4

/-! ## the state modulo `size` -/

/-- equal up to the allocated capacity -/
def CState.Eqv (a b : CState) : Prop := a.count = b.count ∧ a.version = b.version ∧ a.ordered = b.ordered

theorem CState.Eqv.refl (a : CState) : a.Eqv a := ⟨rfl, rfl, rfl⟩
theorem CState.Eqv.symm {a b : CState} (h : a.Eqv b) : b.Eqv a := ⟨h.1.symm, h.2.1.symm, h.2.2.symm⟩
theorem CState.Eqv.trans {a b c : CState} (h : a.Eqv b) (h' : b.Eqv c) : a.Eqv c :=
  ⟨h.1.trans h'.1, h.2.1.trans h'.2.1, h.2.2.trans h'.2.2⟩

theorem CState.Eqv.step {a b : CState} (h : a.Eqv b) (f : Fragment) : (a.step f).Eqv (b.step f) := by
  obtain ⟨h1, h2, h3⟩ := h
  simp only [CState.Eqv, CState.step, h1, h3, and_self]

theorem CState.Eqv.foldl {a b : CState} (h : a.Eqv b) (fs : List Fragment) :
    (fs.foldl CState.step a).Eqv (fs.foldl CState.step b) := by
  induction fs generalizing a b with
  | nil => exact h
  | cons f t ih => exact ih (h.step f)

/-! ## feeding a list of fragments twice -/

theorem insertKV_overwrite {α : Type} (k : Int) (v v' : α) (m : List (Int × α)) :
    insertKV k v (insertKV k v' m) = insertKV k v m := by
  induction m with
  | nil => simp [insertKV]
  | cons hd t ih =>
    obtain ⟨k', w⟩ := hd
    simp only [insertKV]
    split
    · simp [insertKV]
    · split
      · simp [insertKV]
      · rename_i h1 h2
        simp only [insertKV, h1, h2, if_false, ih]

/-- an insertion at `k` before a run of insertions is invisible once `k` is inserted again after the run -/
theorem foldl_insert_absorb (fs : List Fragment) (k : Int) (v v' : Bytes) (m : List (Int × Bytes)) :
    insertKV k v (fs.foldl (fun m f => insertKV f.order f.data m) (insertKV k v' m)) =
      insertKV k v (fs.foldl (fun m f => insertKV f.order f.data m) m) := by
  induction fs generalizing m v' with
  | nil => exact insertKV_overwrite k v v' m
  | cons g t ih =>
    simp only [List.foldl_cons]
    by_cases hk : g.order = k
    · rw [hk, insertKV_overwrite]
    · rw [insertKV_comm g.order k g.data v' m hk]
      exact ih _ _

theorem foldl_insert_idem_aux (n : Nat) : ∀ (fs : List Fragment), fs.length = n → ∀ (m : List (Int × Bytes)),
    fs.foldl (fun m f => insertKV f.order f.data m) (fs.foldl (fun m f => insertKV f.order f.data m) m) =
      fs.foldl (fun m f => insertKV f.order f.data m) m := by
  induction n with
  | zero =>
    intro fs h m
    have : fs = [] := List.eq_nil_of_length_eq_zero h
    subst this; rfl
  | succ n ih =>
    intro fs h m
    rcases List.eq_nil_or_concat fs with rfl | ⟨t, f, rfl⟩
    · rfl
    · have ht : t.length = n := by simp at h; exact h
      simp only [List.concat_eq_append, List.foldl_append, List.foldl_cons, List.foldl_nil]
      rw [foldl_insert_absorb, ih t ht]

theorem foldl_insert_idem (fs : List Fragment) (m : List (Int × Bytes)) :
    fs.foldl (fun m f => insertKV f.order f.data m) (fs.foldl (fun m f => insertKV f.order f.data m) m) =
      fs.foldl (fun m f => insertKV f.order f.data m) m :=
  foldl_insert_idem_aux fs.length fs rfl m

/-- **feeding `X` again right after `X` changes nothing but the capacity** -/
theorem foldl_step_idem (fs : List Fragment) (st : CState) :
    (fs.foldl CState.step (fs.foldl CState.step st)).Eqv (fs.foldl CState.step st) := by
  refine ⟨?_, ?_, ?_⟩
  · rw [foldl_step_count, foldl_step_count]
    cases lastFinal fs <;> rfl
  · rcases List.eq_nil_or_concat fs with rfl | ⟨t, f, rfl⟩
    · rfl
    · simp only [List.concat_eq_append, List.foldl_append, List.foldl_cons, List.foldl_nil, CState.step]
  · rw [foldl_step_ordered, foldl_step_ordered, foldl_insert_idem]

/-! ## one read of `getResponse` as a function of the received list -/

/-- what the read loop does once the received datagrams all inspect: go on, answer, or fail -/
def outcomeSt (st : CState) : Step :=
  if st.count = -1 ∨ st.count ≠ (st.ordered.length : Int) then .incomplete
  else
    match expandPayload
        ((List.range st.count.toNat).map fun (i : Nat) => orderedAt st.ordered ((i : Int) + 1)).flatten st.version with
    | .ok r => .response r
    | .err e => .error e
    | .panic => .panic
    | .hang => .hang

theorem outcomeSt_congr {a b : CState} (h : a.Eqv b) : outcomeSt a = outcomeSt b := by
  obtain ⟨h1, h2, h3⟩ := h
  simp only [outcomeSt, h1, h2, h3]

/-- the loop state after the datagrams `l` -/
def stateOf (l : List Bytes) : CState := (l.filterMap insp).foldl CState.step CState.init

/-- do all datagrams of `l` inspect? -/
def allInsp (l : List Bytes) : Bool := l.all fun r => (insp r).isSome

/-- the read that has `l` (already cut, the newest last) in hand -/
def outcome (l : List Bytes) : Step :=
  if allInsp l then outcomeSt (stateOf l) else .error .malformed

theorem collectPayload_eq (l : List Bytes) :
    collectPayload l = if allInsp l then (stateOf l).finish else .err .malformed := by
  unfold collectPayload allInsp stateOf
  rw [collectLoop_eq]
  split
  · rfl
  · rfl

theorem feed_eq (frs : List Bytes) (d : Bytes) :
    feed frs d =
      if (d.take bufferSize).length = 0 then .error .incomplete else outcome (frs ++ [d.take bufferSize]) := by
  unfold feed
  simp only
  split
  · rfl
  · rw [collectPayload_eq]
    unfold outcome
    by_cases h : allInsp (frs ++ [d.take bufferSize]) = true
    · simp only [h, if_true]
      unfold CState.finish outcomeSt
      by_cases h2 : (stateOf (frs ++ [d.take bufferSize])).count = -1 ∨
          (stateOf (frs ++ [d.take bufferSize])).count ≠ ((stateOf (frs ++ [d.take bufferSize])).ordered.length : Int)
      · simp only [h2, if_true]
      · simp only [h2, if_false]
        rfl
    · simp only [h, Bool.false_eq_true, if_false]

/-- two received lists the read loop cannot tell apart, now or after any further datagrams -/
def Rel (l1 l2 : List Bytes) : Prop := allInsp l1 = allInsp l2 ∧ (stateOf l1).Eqv (stateOf l2)

theorem Rel.refl (l : List Bytes) : Rel l l := ⟨rfl, CState.Eqv.refl _⟩
theorem Rel.symm {a b : List Bytes} (h : Rel a b) : Rel b a := ⟨h.1.symm, h.2.symm⟩
theorem Rel.trans {a b c : List Bytes} (h : Rel a b) (h' : Rel b c) : Rel a c := ⟨h.1.trans h'.1, h.2.trans h'.2⟩

theorem Rel.append {a b : List Bytes} (h : Rel a b) (t : List Bytes) : Rel (a ++ t) (b ++ t) := by
  refine ⟨?_, ?_⟩
  · have h1 := h.1
    simp only [allInsp] at h1
    simp only [allInsp, List.all_append]
    rw [h1]
  · simp only [stateOf, List.filterMap_append, List.foldl_append]
    exact h.2.foldl _

theorem Rel.outcome {a b : List Bytes} (h : Rel a b) : outcome a = outcome b := by
  unfold GS1.outcome
  rw [h.1, outcomeSt_congr h.2]

/-- **a second copy of `x` at the end of the received list is invisible** -/
theorem rel_idem (g x : List Bytes) : Rel (g ++ x ++ x) (g ++ x) := by
  refine ⟨?_, ?_⟩
  · simp only [allInsp, List.all_append, Bool.and_assoc, Bool.and_self]
  · simp only [stateOf, List.filterMap_append, List.foldl_append]
    exact foldl_step_idem _ _

/-! ## the read loop over a concatenation -/

/-- the first read over `ds` at which the loop returns, `none` if it is still reading after `ds` -/
def firstStop : List Bytes → List Bytes → Option QResult
  | _, [] => none
  | frs, d :: ds =>
    match feed frs d with
    | .incomplete => firstStop (frs ++ [d.take bufferSize]) ds
    | .response r => some (.response r)
    | .error e => some (.error e)
    | .panic => some .panic
    | .hang => some .hang

/-- the datagrams as the read buffer cuts them -/
def cutAll (ds : List Bytes) : List Bytes := ds.map fun d => d.take bufferSize

theorem runQueryFrom_append (frs a b : List Bytes) :
    runQueryFrom frs (a ++ b) =
      match firstStop frs a with
      | some r => r
      | none => runQueryFrom (frs ++ cutAll a) b := by
  induction a generalizing frs with
  | nil => simp [firstStop, cutAll]
  | cons d t ih =>
    simp only [List.cons_append, runQueryFrom, firstStop]
    cases feed frs d with
    | incomplete =>
      simp only
      rw [ih]
      simp [cutAll, List.append_assoc]
    | response r => rfl
    | error e => rfl
    | panic => rfl
    | hang => rfl

theorem runQueryFrom_eq_firstStop (frs a : List Bytes) : runQueryFrom frs a = (firstStop frs a).getD .timeout := by
  have := runQueryFrom_append frs a []
  rw [List.append_nil] at this
  rw [this]
  cases firstStop frs a <;> rfl

theorem Rel.feed {a b : List Bytes} (h : Rel a b) (d : Bytes) : feed a d = feed b d := by
  rw [feed_eq, feed_eq, (h.append _).outcome]

theorem Rel.firstStop {a b : List Bytes} (h : Rel a b) (ds : List Bytes) : firstStop a ds = firstStop b ds := by
  induction ds generalizing a b with
  | nil => rfl
  | cons d t ih =>
    simp only [GS1.firstStop, h.feed d]
    cases GS1.feed b d with
    | incomplete => exact ih (h.append _)
    | response r => rfl
    | error e => rfl
    | panic => rfl
    | hang => rfl

/-- `k` copies of a list, one after the other -/
def rep (k : Nat) (x : List Bytes) : List Bytes := (List.replicate k x).flatten

theorem rep_succ (k : Nat) (x : List Bytes) : rep (k + 1) x = x ++ rep k x := by
  simp [rep, List.replicate_succ]

/-- once the received list ends with a whole pass of `x` and a further pass of `x` is read through without returning,
every later pass is read through without returning -/
theorem passes_timeout (x : List Bytes) (j : Nat) : ∀ (g : List Bytes), Rel (g ++ cutAll x) g → firstStop g x = none →
    runQueryFrom g (rep j x) = .timeout := by
  induction j with
  | zero => intro g _ _; rfl
  | succ j ih =>
    intro g hst hnone
    rw [rep_succ, runQueryFrom_append, hnone]
    refine ih (g ++ cutAll x) (rel_idem g (cutAll x)) ?_
    rw [hst.firstStop x]
    exact hnone

/-- **two passes decide**: from any received list `frs`, reading `n + 2` passes of `x` returns what reading two passes
returns -/
theorem runQueryFrom_rep (frs x : List Bytes) (n : Nat) :
    runQueryFrom frs (rep (n + 2) x) = runQueryFrom frs (x ++ x) := by
  have key : ∀ j, runQueryFrom frs (rep (j + 2) x) =
      match firstStop frs x with
      | some r => r
      | none => match firstStop (frs ++ cutAll x) x with
        | some r => r
        | none => .timeout := by
    intro j
    rw [rep_succ, rep_succ, runQueryFrom_append]
    cases h1 : firstStop frs x with
    | some r => rfl
    | none =>
      simp only
      rw [runQueryFrom_append]
      cases h2 : firstStop (frs ++ cutAll x) x with
      | some r => rfl
      | none =>
        simp only
        have hrel := rel_idem frs (cutAll x)
        refine passes_timeout x j _ (rel_idem (frs ++ cutAll x) (cutAll x)) ?_
        rw [hrel.firstStop x]
        exact h2
  have h0 := key 0
  have e0 : rep 2 x = x ++ x := by simp [rep, List.replicate_succ]
  rw [e0] at h0
  rw [key n, h0]

/-- **one datagram, repeated: the first read decides** (a single datagram `d` is its own last final fragment, its own last
fragment and the only number, already in pass 1) -/
theorem runQueryFrom_replicate_single (d : Bytes) (n : Nat) :
    runQueryFrom [] (List.replicate (n + 1) d) = runQueryFrom [] [d] := by
  have hr : ∀ k, List.replicate k d = rep k [d] := by
    intro k
    induction k with
    | zero => rfl
    | succ k ih => rw [rep_succ, ← ih]; rfl
  rw [hr, rep_succ, runQueryFrom_append, runQueryFrom_eq_firstStop [] [d]]
  cases h1 : firstStop [] [d] with
  | some r => rfl
  | none =>
    simp only [Option.getD_none]
    have hrel : Rel ([] ++ cutAll [d] ++ cutAll [d]) ([] ++ cutAll [d]) := rel_idem [] (cutAll [d])
    refine passes_timeout [d] n _ hrel ?_
    -- the read of the second copy sees what the read of the first saw
    have hf : feed ([] ++ cutAll [d]) d = feed [] d := by
      rw [feed_eq, feed_eq]
      have : Rel (([] ++ cutAll [d]) ++ [d.take bufferSize]) ([] ++ [d.take bufferSize]) := by
        simpa [cutAll] using rel_idem [] [d.take bufferSize]
      rw [this.outcome]
    simp only [firstStop] at h1 ⊢
    rw [hf]
    cases hfd : feed [] d with
    | incomplete => rfl
    | response r => rw [hfd] at h1; cases h1
    | error e => rw [hfd] at h1; cases h1
    | panic => rw [hfd] at h1; cases h1
    | hang => rw [hfd] at h1; cases h1

end Swat4.GS1
