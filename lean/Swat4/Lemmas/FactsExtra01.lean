import Swat4.Gen.Facts
import Swat4.Lemmas.BrowserEndToEnd
/-!
# C01 — finer regenerated facts: the handler's read buffer, partial operations of the request path
-/
namespace Swat4.C01
open Swat4

/-- **The browser handler reads at most 2048 bytes, once** — and that is the constant the end-to-end model cuts the
client's bytes at.  Supports `BrowserE2E.readBuffer` (`browserHandle`: `sent.take readBuffer`), `C01.readBufferSize`,
`C01_oversize_no_reply`.
*Edit detected:* `buf := make([]byte, 1024)` in `Handle` (requests between 1025 and 2048 bytes would then be cut and
rejected while the theorems promise a reply). -/
theorem facts_browser_read_buffer :
    Facts.browserReadBuffer = 2048 ∧ Facts.browserReadBuffer = BrowserE2E.readBuffer := by decide

/-- **Inventory of operations that can panic on the browser request path** (`internal/browser/browser.go`,
`pkg/gamespy/crypt/{crypt,state}.go`, `pkg/gamespy/browsing/browsing.go`): explicit `panic(…)`, type assertions, index
expressions with a non-literal index, slice expressions with a non-literal bound.  Supports the totality claims of
the models of this path (`Browsing.parseRequest`, `Crypt.encrypt?`, `process` never fail other than by a returned
error): each entry was checked against a guard (`len(data) < 9`, `dataLen` bounds, `% CCHL`, `uint8` indices into a
256-card array, `[CRTL]byte` key).
*Edit detected:* a new `panic(`, or an index such as `cryptKey[keypos]` losing its `% CRTL` / a slice losing its
length check — any new or changed partial operation appears as a new row. -/
theorem facts_partial_ops_browser :
    Facts.browserPartialOps =
      [("browser.go", "Handle", "slice", "buf[:n]"),
       ("browser.go", "Handle", "assert", "conn.RemoteAddr().(*net.TCPAddr)"),
       ("browser.go", "Handle", "panic", "panic(fmt.Sprintf(\"%v is not a *TCPAddr\", conn.RemoteAddr()))"),
       ("browser.go", "packServers", "index", "svrParams[field]"),
       ("crypt.go", "Encrypt", "index", "payload[i]"),
       ("crypt.go", "Encrypt", "index", "gameSecret[i%GMSL]"),
       ("crypt.go", "Encrypt", "index", "challenge[i%CCHL]"),
       ("crypt.go", "Encrypt", "slice", "payload[9:HDRL]"),
       ("crypt.go", "Encrypt", "index", "cryptKey[(uint8(i)*gameSecret[i%GMSL])%CCHL]"),
       ("crypt.go", "Encrypt", "index", "gameSecret[i%GMSL]"),
       ("crypt.go", "Encrypt", "index", "cryptKey[i%CCHL]"),
       ("crypt.go", "Encrypt", "slice", "payload[HDRL:]"),
       ("crypt.go", "Decrypt", "index", "data[svrChOffset-1]"),
       ("crypt.go", "Decrypt", "slice", "data[svrChOffset : svrChOffset+svrChLen]"),
       ("crypt.go", "Decrypt", "index", "gameSecret[i%GMSL]"),
       ("crypt.go", "Decrypt", "index", "cryptKey[k]"),
       ("crypt.go", "Decrypt", "index", "cryptKey[i%CCHL]"),
       ("crypt.go", "Decrypt", "index", "svrChallenge[i]"),
       ("crypt.go", "Decrypt", "slice", "data[svrChOffset+svrChLen:]"),
       ("state.go", "newCipherState", "index", "cs.cards[i]"),
       ("state.go", "newCipherState", "index", "cs.cards[i]"),
       ("state.go", "newCipherState", "index", "cs.cards[toswap]"),
       ("state.go", "newCipherState", "index", "cs.cards[toswap]"),
       ("state.go", "newCipherState", "index", "cs.cards[i]"),
       ("state.go", "newCipherState", "index", "cs.cards[rsum]"),
       ("state.go", "shuffle", "index", "cs.cards[rsum]"),
       ("state.go", "shuffle", "index", "cryptKey[keypos]"),
       ("state.go", "Encrypt", "index", "data[i]"),
       ("state.go", "Encrypt", "index", "data[i]"),
       ("state.go", "encryptByte", "index", "cs.cards[cs.rotor]"),
       ("state.go", "encryptByte", "index", "cs.cards[cs.lastCipher]"),
       ("state.go", "encryptByte", "index", "cs.cards[cs.lastCipher]"),
       ("state.go", "encryptByte", "index", "cs.cards[cs.ratchet]"),
       ("state.go", "encryptByte", "index", "cs.cards[cs.ratchet]"),
       ("state.go", "encryptByte", "index", "cs.cards[cs.lastPlain]"),
       ("state.go", "encryptByte", "index", "cs.cards[cs.lastPlain]"),
       ("state.go", "encryptByte", "index", "cs.cards[cs.rotor]"),
       ("state.go", "encryptByte", "index", "cs.cards[cs.rotor]"),
       ("state.go", "encryptByte", "index", "cs.cards[swaptemp]"),
       ("state.go", "encryptByte", "index", "cs.cards[(cs.cards[cs.avalanche]+cs.cards[cs.rotor])&0xFF]"),
       ("state.go", "encryptByte", "index", "cs.cards[cs.avalanche]"),
       ("state.go", "encryptByte", "index", "cs.cards[cs.rotor]"),
       ("state.go", "encryptByte", "index", "cs.cards[cs.cards[(cs.cards[cs.lastPlain]+cs.cards[cs.lastCipher]+cs.cards[cs.ratchet])&0xFF]]"),
       ("state.go", "encryptByte", "index", "cs.cards[(cs.cards[cs.lastPlain]+cs.cards[cs.lastCipher]+cs.cards[cs.ratchet])&0xFF]"),
       ("state.go", "encryptByte", "index", "cs.cards[cs.lastPlain]"),
       ("state.go", "encryptByte", "index", "cs.cards[cs.lastCipher]"),
       ("state.go", "encryptByte", "index", "cs.cards[cs.ratchet]"),
       ("state.go", "Decrypt", "index", "data[i]"),
       ("state.go", "Decrypt", "index", "data[i]"),
       ("state.go", "decryptByte", "index", "cs.cards[cs.rotor]"),
       ("state.go", "decryptByte", "index", "cs.cards[cs.lastCipher]"),
       ("state.go", "decryptByte", "index", "cs.cards[cs.lastCipher]"),
       ("state.go", "decryptByte", "index", "cs.cards[cs.ratchet]"),
       ("state.go", "decryptByte", "index", "cs.cards[cs.ratchet]"),
       ("state.go", "decryptByte", "index", "cs.cards[cs.lastPlain]"),
       ("state.go", "decryptByte", "index", "cs.cards[cs.lastPlain]"),
       ("state.go", "decryptByte", "index", "cs.cards[cs.rotor]"),
       ("state.go", "decryptByte", "index", "cs.cards[cs.rotor]"),
       ("state.go", "decryptByte", "index", "cs.cards[swaptemp]"),
       ("state.go", "decryptByte", "index", "cs.cards[(cs.cards[cs.avalanche]+cs.cards[cs.rotor])&0xFF]"),
       ("state.go", "decryptByte", "index", "cs.cards[cs.avalanche]"),
       ("state.go", "decryptByte", "index", "cs.cards[cs.rotor]"),
       ("state.go", "decryptByte", "index", "cs.cards[cs.cards[(cs.cards[cs.lastPlain]+cs.cards[cs.lastCipher]+cs.cards[cs.ratchet])&0xFF]]"),
       ("state.go", "decryptByte", "index", "cs.cards[(cs.cards[cs.lastPlain]+cs.cards[cs.lastCipher]+cs.cards[cs.ratchet])&0xFF]"),
       ("state.go", "decryptByte", "index", "cs.cards[cs.lastPlain]"),
       ("state.go", "decryptByte", "index", "cs.cards[cs.lastCipher]"),
       ("state.go", "decryptByte", "index", "cs.cards[cs.ratchet]"),
       ("browsing.go", "NewRequest", "slice", "data[9:dataLen]")] := by
  decide

end Swat4.C01
