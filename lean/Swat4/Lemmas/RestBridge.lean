import Swat4.Model.Rest
import Swat4.Model.USys
import Swat4.Lemmas.Prog
import Swat4.Lemmas.Reporter
/-!
# Bridge between the two models of the REST use cases (C17, reviewer W2)

`Rest.addExecute` / `Rest.viewExecute` / `Rest.listExecute` (`Model/Rest.lean`) are *functions of the state of
the addressed record*: they have no 5xx constructor, so "status < 500" is true of them by construction.
`UC.addServer` / `UC.listServers` (`Model/UseCases/Discovery.lean`) are the same Go functions as *programs over
repository calls*: they can end in `unableToCreate` / `unableToDiscover` (HTTP 500, `servers_add.go:37-40`).

This file proves that on a healthy store the program computes exactly what the table function says
(`addExecute_abstracts`, `viewExecute_abstracts`, `listExecute_abstracts`), hence never ends in a 5xx outcome
(`addServer_no_5xx`), and states what does make the 5xx branch reachable: a storage fault at any one of its
calls (`addServer_fault_5xx`), and — without any fault — another client creating or removing the record between
two of its calls (`addServer_race_5xx`).
-/
namespace Swat4.RestBridge
open Swat4 Swat4.UC Std

/-! ## abstraction of the store to what the `Rest` model reads -/

/-- the four bytes of a packed IP -/
def ip4Of (n : Nat) : Rest.IP4 :=
  ⟨UInt8.ofNat (n / 16777216), UInt8.ofNat (n / 65536 % 256), UInt8.ofNat (n / 256 % 256), UInt8.ofNat (n % 256)⟩

/-- `addr.Addr` of the use-case model as the `Rest` model's address -/
def addrOf (a : Addr) : Rest.Addr := ⟨ip4Of a.ip, a.port⟩

/-- the `Rest` model's state of the addressed record: what is stored under the address, its status word, query
port and (through an arbitrary record abstraction `view`) the data the bodies are made from -/
def srvStateOf (view : Server → Rest.Stored) (s : AbsState) (a : Addr) : Rest.SrvState :=
  match s.getRow a with
  | none => .absent
  | some row => .present row.svr.status.toNat row.svr.queryPort (view row.svr)

/-- the status column of `api.AddServer` (`servers_add.go:31-48`): the error mapping of the handler -/
def addStatus : AddEnd → Nat
  | .hasDetails _ => 200
  | .inProgress => 202
  | .noPort => 410
  | .unableToCreate => 500
  | .unableToDiscover => 500

/-- the server data of the handler's body: `c.JSON(http.StatusOK, model.NewServerFromDomain(svr))` on success only -/
def addBody (view : Server → Rest.Stored) : AddEnd → Option Rest.RespBody
  | .hasDetails svr => Rest.serverBody (view svr)
  | _ => none

/-- the discovery probe `probe.New(svr.Addr, svr.Addr.Port, probe.GoalPort, maxRetries)` as queued by
`AddBetween(prb, NC, NC)` at clock `now`: ready at once, no expiry -/
def discoveryItem (m : Int) (a : Addr) (s : AbsState) (now : Int) : QItem :=
  ⟨s.nextId, ⟨a, a.port, .port, 0, m⟩, now, none⟩

/-- the record `addserver` starts from: the stored one, or the new one of `createServerFromAddress` -/
def baseOf (z : Fields) (s : AbsState) (a : Addr) : Option Server :=
  match s.getRow a with
  | some ex => some ex.svr
  | none => newServer z a (min (a.port + 1) 65535)

/-- what an `Effect` of the `Rest` model means for the abstract store: `none` — nothing changed at all;
`discover created ra qp w` — exactly one item, the discovery probe for the submitted address, was appended to the
queue; exactly one row, the one under the submitted address, was written, at `now`, and it is the base record
with `port_retry` set (`new` cleared), query port `qp`, status word `w`; `created` says whether there was no row;
nothing else changed -/
def EffectIs (z : Fields) (m : Int) (a : Addr) (now : Int) (s s' : AbsState) : Rest.Effect → Prop
  | .none => s' = s
  | .discover created ra qp w =>
    ra = addrOf a ∧ created = (s.getRow a).isNone ∧
    s'.queue = s.queue ++ [discoveryItem m a s now] ∧ s'.nextId = s.nextId + 1 ∧ s'.instances = s.instances ∧
    (∃ base, baseOf z s a = some base ∧
      s'.servers = (if created then s.servers.insert a.key ⟨{ base with version := base.version + 1 }, now⟩ else s.servers).insert a.key
        ⟨{ base with status := Status.update base.status Status.portRetry,
                     version := base.version + (if created then 2 else 1) }, now⟩ ∧
      base.addr = a ∧ base.queryPort = qp ∧ (Status.update base.status Status.portRetry).toNat = w)

/-! ## status bits: the `Nat` tests of `Rest` are the `BitVec` tests of the use cases -/

theorem hasBit_details : ∀ w : Status, Rest.hasBit w.toNat Rest.dsDetails = Status.has w Status.details := by decide

theorem hasBit_retry : ∀ w : Status, (Rest.hasBit w.toNat Rest.dsPortRetry || Rest.hasBit w.toNat Rest.dsDetailsRetry) =
    Status.hasAny w (Status.portRetry ||| Status.detailsRetry) := by decide

theorem hasBit_noPort : ∀ w : Status, Rest.hasBit w.toNat Rest.dsNoPort = Status.has w Status.noPort := by decide

theorem hasBit_info : ∀ w : Status, Rest.hasBit w.toNat Rest.dsInfo = Status.has w Status.info := by decide

theorem updateStatus_portRetry : ∀ w : Status,
    (Status.update w Status.portRetry).toNat = Rest.updateStatus w.toNat Rest.dsPortRetry := by decide


/-! ## `POST /api/servers` -/

/-- the key's row after a `save` -/
theorem getRow_save (s : AbsState) (now : Int) (svr : Server) :
    (s.save now svr).1.getRow svr.addr = some ⟨{ svr with version := svr.version + 1 }, now⟩ := by
  simp [AbsState.save, AbsState.getRow]

theorem getRow_enqueue (s : AbsState) (now : Int) (p : Probe) (a : Addr) :
    (s.enqueue now p none none).getRow a = s.getRow a := rfl

/-- the sequential run of `discoverServer` for the record that is stored (same address, same version) -/
theorem discoverServer_run (m : Int) (svr : Server) (s : AbsState) (now : Int) (t : Int)
    (hrow : s.getRow svr.addr = some ⟨svr, t⟩) :
    (discoverServer m svr).run s now =
      ({ s with queue := s.queue ++ [discoveryItem m svr.addr s now], nextId := s.nextId + 1,
                servers := s.servers.insert svr.addr.key
                  ⟨{ svr with status := Status.update svr.status Status.portRetry, version := svr.version + 1 }, now⟩ }, true) := by
  have h2 : (s.enqueue now ⟨svr.addr, svr.addr.port, .port, 0, m⟩ none none).getRow svr.addr = some ⟨svr, t⟩ := hrow
  simp only [discoverServer, Prog.run_call, Call.exec, AbsState.update, h2, Int.lt_irrefl, gt_iff_lt, if_false]
  rfl


/-- the store after a fault-free discovery submission for the stored record `svr` -/
def discovered (m : Int) (svr : Server) (s : AbsState) (now : Int) : AbsState :=
  { s with queue := s.queue ++ [discoveryItem m svr.addr s now], nextId := s.nextId + 1,
           servers := s.servers.insert svr.addr.key
             ⟨{ svr with status := Status.update svr.status Status.portRetry, version := svr.version + 1 }, now⟩ }

/-- the default branch of `maybeDiscoverServer` run sequentially for the record that is stored -/
theorem maybeDiscover_run_default (m : Int) (svr : Server) (s : AbsState) (now : Int) (t : Int)
    (hrow : s.getRow svr.addr = some ⟨svr, t⟩) (h1 : Status.has svr.status Status.details = false)
    (h2 : Status.hasAny svr.status (Status.portRetry ||| Status.detailsRetry) = false)
    (h3 : Status.has svr.status Status.noPort = false) :
    (maybeDiscoverServer m svr).run s now = (discovered m svr s now, .inProgress) := by
  simp only [maybeDiscoverServer, h1, h2, h3, Bool.false_eq_true, if_false, Prog.run_bind, discoverServer_run m svr s now t hrow]
  rfl

/-- the record of `createServerFromAddress`: `server.NewFromAddr(address, min(address.Port+1, 65535))` -/
def freshServer (z : Fields) (a : Addr) : Server :=
  { addr := a, queryPort := min (a.port + 1) 65535, status := Status.new, info := z,
    details := ⟨z, [], []⟩, refreshedAt := none, version := 0 }

theorem maybeDiscover_new_flags :
    Status.has Status.new Status.details = false ∧ Status.hasAny Status.new (Status.portRetry ||| Status.detailsRetry) = false ∧
    Status.has Status.new Status.noPort = false := by decide

/-- **`addExecute_abstracts`: the table function is the program on a healthy store.**  Run `addserver.Execute`
(`UC.addServer`) to completion with no fault (`Prog.run`) from any store in which the row under the submitted key, if
any, carries the submitted address (`hcanon`; every `Keyed` store), for a port the address constructor accepts.
Let `r` be what `Rest.addExecute` computes from the abstraction of that store (`srvStateOf`).  Then
* the handler's status for the program's outcome is `r.status` (200 / 202 / 410),
* the body's server data is `r.body` (the stored record on 200, nothing otherwise),
* the store the program leaves is exactly `r.effect` (`EffectIs`): untouched, or the one discovery probe queued
  (no expiry, ready now) and the one row written with `port_retry`, and nothing else. -/
theorem addExecute_abstracts (view : Server → Rest.Stored) (z : Fields) (m : Int) (a : Addr) (s : AbsState) (now : Int)
    (hport : 0 ≤ a.port ∧ a.port ≤ 65535)
    (hcanon : ∀ row, s.getRow a = some row → row.svr.addr = a) :
    addStatus ((UC.addServer z m a).run s now).2 = (Rest.addExecute (addrOf a) (srvStateOf view s a)).status ∧
    addBody view ((UC.addServer z m a).run s now).2 = (Rest.addExecute (addrOf a) (srvStateOf view s a)).body ∧
    EffectIs z m a now s ((UC.addServer z m a).run s now).1 (Rest.addExecute (addrOf a) (srvStateOf view s a)).effect := by
  cases hrow : s.getRow a with
  | none =>
    have hq : ¬ (min (a.port + 1) 65535 < 1 ∨ min (a.port + 1) 65535 > 65535) := by omega
    have hnew : newServer z a (min (a.port + 1) 65535) = some (freshServer z a) := by
      simp only [newServer, hq, if_false, freshServer]
    have hsave : (s.save now (freshServer z a)).1.getRow (s.save now (freshServer z a)).2.addr = _ :=
      getRow_save s now (freshServer z a)
    have hfr : s.getRow (freshServer z a).addr = none := hrow
    simp only [UC.addServer, Prog.run_call, Call.exec, AbsState.get, hrow, hnew, AbsState.add, hfr, srvStateOf, Rest.addExecute]
    rw [maybeDiscover_run_default m _ _ now now hsave maybeDiscover_new_flags.1 maybeDiscover_new_flags.2.1 maybeDiscover_new_flags.2.2]
    refine ⟨rfl, rfl, rfl, ?_, rfl, rfl, rfl, freshServer z a, ?_, ?_, rfl, ?_, ?_⟩
    · rw [hrow]; rfl
    · simp only [baseOf, hrow, hnew]
    · simp only [discovered, AbsState.save, if_true]
      rfl
    · show min (a.port + 1) 65535 = if a.port + 1 ≤ 65535 then a.port + 1 else 65535
      split <;> omega
    · show (Status.update Status.new Status.portRetry).toNat = _
      decide
  | some ex =>
    obtain ⟨svr, t⟩ := ex
    have ha : svr.addr = a := hcanon _ hrow
    have hrow' : s.getRow svr.addr = some ⟨svr, t⟩ := by rw [ha]; exact hrow
    simp only [UC.addServer, Prog.run_call, Call.exec, AbsState.get, hrow, srvStateOf, Rest.addExecute,
      hasBit_details, hasBit_retry, hasBit_noPort]
    by_cases h1 : Status.has svr.status Status.details = true
    · simp only [maybeDiscoverServer, h1, if_true, Prog.run_pure]
      exact ⟨rfl, rfl, rfl⟩
    · by_cases h2 : Status.hasAny svr.status (Status.portRetry ||| Status.detailsRetry) = true
      · simp only [maybeDiscoverServer, h1, h2, if_true]
        exact ⟨rfl, rfl, rfl⟩
      · by_cases h3 : Status.has svr.status Status.noPort = true
        · simp only [maybeDiscoverServer, h1, h2, h3, if_true]
          exact ⟨rfl, rfl, rfl⟩
        · rw [maybeDiscover_run_default m svr s now t hrow' (by simpa using h1) (by simpa using h2) (by simpa using h3)]
          simp only [h1, h2, h3]
          refine ⟨rfl, rfl, rfl, ?_, by rw [← ha]; rfl, rfl, rfl, svr, ?_, ?_, ha, rfl, updateStatus_portRetry _⟩
          · rw [hrow]; rfl
          · simp only [baseOf, hrow]
          · simp only [discovered, ha]
            rfl


/-- every status `Rest.addExecute` can give is 200, 202 or 410 -/
theorem addExecute_status (a : Rest.Addr) (st : Rest.SrvState) :
    (Rest.addExecute a st).status = 200 ∨ (Rest.addExecute a st).status = 202 ∨ (Rest.addExecute a st).status = 410 := by
  cases st with
  | absent => exact Or.inr (Or.inl rfl)
  | present w qp rec =>
    simp only [Rest.addExecute]
    split
    · exact Or.inl rfl
    · split
      · exact Or.inr (Or.inl rfl)
      · split
        · exact Or.inr (Or.inr rfl)
        · exact Or.inr (Or.inl rfl)

/-- **`addServer_no_5xx`: on a healthy store the 5xx branch of `api.AddServer` is unreachable.**  For every
address whose port the address constructor accepts and every store in which the row under the submitted key carries
the submitted address (every `Keyed` store — all reachable ones, `C16.keyed_preserved`), a fault-free sequential run
of `addserver.Execute` ends in `hasDetails` (200), `inProgress` (202) or `noPort` (410), never in `unableToCreate` or
`unableToDiscover`.  This is a statement about the *input*: what does reach the 500 branch is listed in
`addServer_fault_5xx` (a storage fault at any of the calls) and `addServer_race_5xx` (no fault, another client's
write between two calls). -/
theorem addServer_no_5xx (z : Fields) (m : Int) (a : Addr) (s : AbsState) (now : Int)
    (hport : 0 ≤ a.port ∧ a.port ≤ 65535) (hcanon : ∀ row, s.getRow a = some row → row.svr.addr = a) :
    addStatus ((UC.addServer z m a).run s now).2 < 500 ∧
    ((UC.addServer z m a).run s now).2 ≠ .unableToCreate ∧ ((UC.addServer z m a).run s now).2 ≠ .unableToDiscover := by
  have h := (addExecute_abstracts (fun _ => { addr := addrOf a }) z m a s now hport hcanon).1
  have hs := addExecute_status (addrOf a) (srvStateOf (fun _ => { addr := addrOf a }) s a)
  have hlt : addStatus ((UC.addServer z m a).run s now).2 < 500 := by rw [h]; omega
  refine ⟨hlt, ?_, ?_⟩ <;> intro he <;> rw [he] at hlt <;> exact absurd hlt (by decide)

/-! ## what makes the 5xx branch reachable -/

/-- a sequential run in which the calls are decided one by one: `none` = the call succeeds, `some effect` = the storage
fails at that call (before / after the call took effect) and the program continues on its error branch; calls beyond
the list succeed.  (`Prog.stepFault` iterated to completion.) -/
def runFaulty {α : Type} : List (Option Bool) → Prog α → AbsState → Int → AbsState × α
  | _, .ret a, s, _ => (s, a)
  | [], .call c k, s, now => (Prog.call c k).run s now
  | none :: fs, .call c k, s, now => runFaulty fs (k (c.exec s now).2) (c.exec s now).1 now
  | some effect :: fs, .call c k, s, now =>
    match c.faultReply with
    | none => runFaulty fs (k (c.exec s now).2) (c.exec s now).1 now
    | some e => runFaulty fs (k e) (if effect then (c.exec s now).1 else s) now

theorem runFaulty_healthy {α : Type} (fs : List (Option Bool)) (hfs : ∀ f ∈ fs, f = none) :
    ∀ (p : Prog α) (s : AbsState) (now : Int), runFaulty fs p s now = p.run s now := by
  induction fs with
  | nil => intro p s now; cases p <;> rfl
  | cons f fs ih =>
    intro p s now
    cases p with
    | ret a => rfl
    | call c k =>
      have hf : f = none := hfs f (by simp)
      subst hf
      simp only [runFaulty, Prog.run]
      exact ih (fun f hf => hfs f (by simp [hf])) _ _ _

/-- the outcome is one of the two that `servers_add.go:37-40` maps to `http.StatusInternalServerError` -/
def is5xx : AddEnd → Bool
  | .unableToCreate => true
  | .unableToDiscover => true
  | _ => false

theorem is5xx_iff (e : AddEnd) : is5xx e = true ↔ addStatus e ≥ 500 := by
  cases e <;> simp [is5xx, addStatus]

/-- **a 5xx answer needs a storage fault** (sequentially): whatever the fault placement `fs`, if `addserver.Execute`
ends in a 500 outcome then some entry of `fs` is a fault -/
theorem addServer_5xx_needs_fault (z : Fields) (m : Int) (a : Addr) (s : AbsState) (now : Int) (fs : List (Option Bool))
    (hport : 0 ≤ a.port ∧ a.port ≤ 65535) (hcanon : ∀ row, s.getRow a = some row → row.svr.addr = a)
    (h5 : is5xx (runFaulty fs (UC.addServer z m a) s now).2 = true) : ∃ e, some e ∈ fs := by
  refine Classical.byContradiction fun hno => ?_
  have hfs : ∀ f ∈ fs, f = none := by
    intro f hf
    cases f with
    | none => rfl
    | some e => exact absurd ⟨e, hf⟩ hno
  rw [runFaulty_healthy fs hfs] at h5
  have := addServer_no_5xx z m a s now hport hcanon
  rw [is5xx_iff] at h5
  omega


/-- a fault at either call of `discoverServer` (the enqueue, the marking update) ends the default branch of
`maybeDiscoverServer` in `unableToDiscover` -/
theorem maybeDiscover_fault (m : Int) (svr : Server) (s : AbsState) (now : Int) (effect : Bool)
    (h1 : Status.has svr.status Status.details = false)
    (h2 : Status.hasAny svr.status (Status.portRetry ||| Status.detailsRetry) = false)
    (h3 : Status.has svr.status Status.noPort = false) :
    (runFaulty [some effect] (maybeDiscoverServer m svr) s now).2 = .unableToDiscover ∧
    (runFaulty [none, some effect] (maybeDiscoverServer m svr) s now).2 = .unableToDiscover := by
  simp only [maybeDiscoverServer, h1, h2, h3, Bool.false_eq_true, if_false, discoverServer, Prog.bind, runFaulty,
    Call.faultReply, Call.exec]
  constructor <;> rfl

/-- **`addServer_fault_5xx`: the storage faults that make the 500 branch reachable — every one of them.**  A
single storage error (with or without effect) at *any* repository call `addserver.Execute` issues turns the answer
into a 500, from every store:
 1. at the lookup `Get` — `unableToCreate`, whatever the store;
 2. for an address not yet stored: at the `Add` of the new record — `unableToCreate`; at the `AddBetween` of the
    discovery probe or at the marking `Update` — `unableToDiscover`;
 3. for a stored record that takes the discovery branch (no details, no retry mark, not `no_port`): at the
    `AddBetween` or at the `Update` — `unableToDiscover`.
(A stored record in one of the three other branches is answered after the lookup alone; case 1 covers it.) -/
theorem addServer_fault_5xx (z : Fields) (m : Int) (a : Addr) (s : AbsState) (now : Int) (effect : Bool) :
    (runFaulty [some effect] (UC.addServer z m a) s now).2 = .unableToCreate ∧
    (s.getRow a = none → 0 ≤ a.port ∧ a.port ≤ 65535 →
      (runFaulty [none, some effect] (UC.addServer z m a) s now).2 = .unableToCreate ∧
      (runFaulty [none, none, some effect] (UC.addServer z m a) s now).2 = .unableToDiscover ∧
      (runFaulty [none, none, none, some effect] (UC.addServer z m a) s now).2 = .unableToDiscover) ∧
    (∀ row, s.getRow a = some row → Status.has row.svr.status Status.details = false →
      Status.hasAny row.svr.status (Status.portRetry ||| Status.detailsRetry) = false →
      Status.has row.svr.status Status.noPort = false →
      (runFaulty [none, some effect] (UC.addServer z m a) s now).2 = .unableToDiscover ∧
      (runFaulty [none, none, some effect] (UC.addServer z m a) s now).2 = .unableToDiscover) := by
  refine ⟨rfl, fun hrow hport => ?_, fun row hrow h1 h2 h3 => ?_⟩
  · have hq : ¬ (min (a.port + 1) 65535 < 1 ∨ min (a.port + 1) 65535 > 65535) := by omega
    have hnew : newServer z a (min (a.port + 1) 65535) = some (freshServer z a) := by
      simp only [newServer, hq, if_false, freshServer]
    have hfr : s.getRow (freshServer z a).addr = none := hrow
    have hd := fun s' => maybeDiscover_fault m (s.save now (freshServer z a)).2 s' now effect
      maybeDiscover_new_flags.1 maybeDiscover_new_flags.2.1 maybeDiscover_new_flags.2.2
    simp only [UC.addServer, runFaulty, Call.exec, AbsState.get, hrow, hnew, Call.faultReply, AbsState.add, hfr]
    exact ⟨by cases effect <;> rfl, (hd _).1, (hd _).2⟩
  · have hd := maybeDiscover_fault m row.svr s now effect h1 h2 h3
    simp only [UC.addServer, runFaulty, Call.exec, AbsState.get, hrow]
    exact hd


/-! ### … and without any fault: a concurrent writer -/

namespace W
/-- a public address -/
def A : Addr := ⟨16843009, 10480⟩
/-- a submission of `A` as the system model runs it: the use case, then the handler's status -/
def submit : UClient := { prog := (UC.addServer [] 2 A).bind fun e => pure (toString (addStatus e)) }
/-- two simultaneous submissions of the same, not yet stored, address; healthy store -/
def twoSubmissions : USys := { clock := 1000, clients := [submit, submit] }
/-- both look `A` up (absent), the first creates it, then the second's `Add` finds the row: its conflict callback
(`createServerFromAddress`: `return false`) refuses, `Add` returns `ErrServerExists`; the first goes on to queue the probe and mark -/
def raceEvents : List UEv := [.call 0, .call 1, .call 0, .call 1, .call 0, .call 0]

/-- `A` is stored, reported and never probed -/
def stored : AbsState :=
  { servers := (∅ : ExtTreeMap Nat SRow).insert A.key ⟨{ addr := A, queryPort := 10481, status := Status.master ||| Status.info, info := [], details := ⟨[], [], []⟩, refreshedAt := some 0, version := 1 }, 0⟩ }
/-- a submission of the stored `A` and a cleaner whose retention has run out for it -/
def submitVsCleaner : USys := { abs := stored, clock := 1000, clients := [submit,
  { prog := (UC.cleanServers 100).bind fun _ => pure "cleaned" }] }
/-- the submission looks `A` up; the cleaner lists and removes it; the submission queues the probe and its marking
`Update` finds no row (`ErrServerNotFound`) -/
def removeEvents : List UEv := [.call 0, .call 1, .call 1, .call 0, .call 0]
end W

/-- **`addServer_race_5xx`: a 500 on a healthy store, by interleaving alone** (no storage fault, valid input).
 1. Two submissions of the same new address: the one whose `Add` commits second gets `ErrServerExists`
    (`servers.go:101-103`, the conflict callback of `createServerFromAddress` returns `false`), which
    `getOrCreateServer` turns into `ErrUnableToCreateServer` — HTTP 500; the first is answered 202.
    (The same happens when the server's own heartbeat creates the record between the `Get` and the `Add`.)
 2. A submission of a stored server that a cleaner removes between the submission's `Get` and its marking
    `Update`: `Update` returns `ErrServerNotFound`, `discoverServer` fails, `ErrUnableToDiscoverServer` — HTTP 500
    (and the probe stays queued for a server that no longer exists).
So "never 5xx" holds of `addserver.Execute` run alone on a healthy store (`addServer_no_5xx`), not of every
interleaving. -/
theorem addServer_race_5xx :
    ((W.twoSubmissions.run W.raceEvents).clients.map UClient.result?) = [some "202", some "500"] ∧
    ((W.submitVsCleaner.run W.removeEvents).clients.map UClient.result?) = [some "500", some "cleaned"] ∧
    (W.submitVsCleaner.run W.removeEvents).abs.queue.map (·.probe.addr) = [W.A] ∧
    (W.submitVsCleaner.run W.removeEvents).abs.servers.size = 0 := by
  decide


/-! ## `GET /api/servers/:address` -/

/-- outcomes of `getserver.Execute` -/
inductive ViewEnd where
  | found (s : Server)     -- 200
  | notFound               -- 404  ErrServerNotFound
  | noDetails              -- 204  ErrServerHasNoDetails
  | unableToObtain         -- ErrUnableToObtainServer: no case in the handler's switch
  deriving DecidableEq, Repr, Inhabited

/-- `getserver.UseCase.Execute` as a program over repository calls (`getserver.go:33-49`: one `Get`, then the
`details` test).  `Model/UseCases` has no such program (no other property needs it); it is written here, call by
call, only to be compared with `Rest.viewExecute`. -/
def getServer (a : Addr) : Prog ViewEnd :=
  .call (.getServer a) fun r =>
  match r with
  | .error .serverNotFound => pure .notFound
  | .error _ => pure .unableToObtain
  | .ok svr => if Status.has svr.status Status.details then pure (.found svr) else pure .noDetails

/-- the status column of `api.ViewServer` (`servers_view.go:28-50`).  `ErrUnableToObtainServer` matches no case of
the switch, which has no default: the handler writes nothing and gin answers 200 with an empty body -/
def viewStatus : ViewEnd → Nat
  | .found _ => 200
  | .notFound => 404
  | .noDetails => 204
  | .unableToObtain => 200

def viewBody (view : Server → Rest.Stored) : ViewEnd → Option Rest.RespBody
  | .found svr => Rest.detailBody (view svr)
  | _ => none

/-- **`viewExecute_abstracts`**: on a healthy store `getserver.Execute` gives the status and body `Rest.viewExecute`
computes from the abstraction of the store, and changes nothing; and whatever the fault placement the handler's
status is below 500 (a storage error is the unmapped `ErrUnableToObtainServer`: an empty 200, see `Properties/C17`
"outside the model") -/
theorem viewExecute_abstracts (view : Server → Rest.Stored) (a : Addr) (s : AbsState) (now : Int) :
    viewStatus ((getServer a).run s now).2 = (Rest.viewExecute (srvStateOf view s a)).status ∧
    viewBody view ((getServer a).run s now).2 = (Rest.viewExecute (srvStateOf view s a)).body ∧
    ((getServer a).run s now).1 = s ∧ (Rest.viewExecute (srvStateOf view s a)).effect = .none ∧
    (((getServer a).run s now).2 ≠ .unableToObtain) ∧
    ∀ fs, viewStatus (runFaulty fs (getServer a) s now).2 < 500 := by
  have hlt : ∀ e : ViewEnd, viewStatus e < 500 := by intro e; cases e <;> simp [viewStatus]
  refine ⟨?_, ?_, ?_, ?_, ?_, fun fs => hlt _⟩ <;>
    (simp only [getServer, Prog.run_call, Call.exec, AbsState.get, srvStateOf, Rest.viewExecute]
     cases s.getRow a with
     | none => first | rfl | (intro h; cases h)
     | some row =>
       simp only [hasBit_details]
       cases Status.has row.svr.status Status.details <;> first | rfl | (intro h; cases h))

/-! ## `GET /api/servers` -/

/-- a registry row as the `Rest` listing model reads it -/
def listedOf (view : Server → Rest.Stored) (row : SRow) : Rest.Listed :=
  ⟨row.svr.status.toNat, row.svr.refreshedAt, view row.svr⟩

/-- the registry as the `Rest` listing model reads it (key order, as `AbsState.filter`) -/
def recsOf (view : Server → Rest.Stored) (s : AbsState) : List Rest.Listed :=
  s.servers.toList.map fun kv => listedOf view kv.2

theorem hasAny_zero : ∀ w : Status, Status.hasAny w 0#9 = false := by decide

/-- the selection of the `Rest` listing model is the repository filter `listservers.Execute` issues -/
theorem selected_eq_pred (view : Server → Rest.Stored) (now liveness : Int) (row : SRow) :
    Rest.Listed.selected now liveness (listedOf view row) =
      FilterSet.pred { activeAfter := some (now - liveness), withStatus := Status.info } row := by
  simp only [Rest.Listed.selected, listedOf, FilterSet.pred, hasBit_info, hasAny_zero, Bool.not_false, Bool.and_true]
  cases row.svr.refreshedAt <;> rfl

/-- **`listExecute_abstracts`**: on a healthy store `listservers.Execute` with `ds.Info` (`servers_list.go:46`) returns
a list `l` — exactly the live servers with the `info` bit (C14 `listed_iff_live`) — and the answer `Rest.listExecute`
computes from the abstraction of the store is 200 with `l`, filtered by the query on each record's `Info` and mapped
through `NewServerFromDomain`; the store is unchanged.  (`UC.listServers` is `Execute` without the query loop, as C03
uses it; the loop is the `filter` here.) -/
theorem listExecute_abstracts (view : Server → Rest.Stored) (liveness : Int) (f : Rest.ListForm) (s : AbsState) (now : Int) :
    ∃ l, (UC.listServers liveness Status.info).run s now = (s, .ok l) ∧
      Rest.listExecute now liveness f (recsOf view s) =
        ⟨200, some (.list ((l.filter fun sv => Rest.queryMatch (Rest.prepareQuery f) (view sv).info).map
          fun sv => Rest.serverJsonOf (view sv))), .none⟩ := by
  refine ⟨_, rfl, ?_⟩
  have hsel : (Rest.Listed.selected now liveness ∘ fun (kv : Nat × SRow) => listedOf view kv.2) =
      fun kv => FilterSet.pred { activeAfter := some (now - liveness), withStatus := Status.info } kv.2 := by
    funext kv
    simp only [Function.comp, selected_eq_pred]
  simp only [Rest.listExecute, recsOf, AbsState.filter, List.filter_map, List.map_map, hsel]
  rfl

/-- the 5xx branch of `api.ListServers` (`servers_list.go:49-53`): reached exactly when the one repository call
fails — on a healthy store never, under a storage fault at the `Filter` always -/
theorem listServers_5xx_iff_fault (liveness : Int) (st : Status) (s : AbsState) (now : Int) (effect : Bool) :
    (∃ l, ((UC.listServers liveness st).run s now).2 = .ok l) ∧
    (runFaulty [none, some effect] (UC.listServers liveness st) s now).2 = .error (.repo .storage) := by
  refine ⟨⟨_, rfl⟩, ?_⟩
  cases effect <;> rfl


/-! ## reachable stores; non-vacuity -/

/-- in a store whose rows all sit under the key of their own, valid address (`C16.KeyedOk`, an invariant of every
popper-free interleaving by `C16_interleaved` and of every single use-case run by `C16.keyed_preserved`) the row under
a valid address' key carries that address -/
theorem canon_of_keyedOk (s : AbsState) (a : Addr) (ha : a.PortOk)
    (hk : ∀ (k : Nat) (row : SRow), s.servers[k]? = some row → row.svr.addr.key = k ∧ row.svr.addr.PortOk) :
    ∀ row, s.getRow a = some row → row.svr.addr = a := by
  intro row hrow
  have := hk a.key row hrow
  exact Addr.key_inj this.2 ha this.1

/-- non-vacuity of `hcanon` / `hport`, and the three branches on concrete stores: a new address is answered 202 with
the probe queued and the row marked; the stored, never probed `W.A` likewise; after that submission `W.A` carries
`port_retry` and a second submission is answered 202 with no effect -/
example : (∀ row, W.stored.getRow W.A = some row → row.svr.addr = W.A) ∧ (0 ≤ W.A.port ∧ W.A.port ≤ 65535) := by
  refine ⟨fun row h => ?_, by decide⟩
  have : W.stored.getRow W.A = some ⟨{ addr := W.A, queryPort := 10481, status := Status.master ||| Status.info, info := [], details := ⟨[], [], []⟩, refreshedAt := some 0, version := 1 }, 0⟩ := by decide
  rw [this] at h; cases h; rfl
example : addStatus ((UC.addServer [] 2 W.A).run {} 5).2 = 202 ∧
    ((UC.addServer [] 2 W.A).run {} 5).1.queue = [discoveryItem 2 W.A {} 5] := by decide
example : addStatus ((UC.addServer [] 2 W.A).run W.stored 5).2 = 202 ∧
    ((UC.addServer [] 2 W.A).run W.stored 5).1.queue = [discoveryItem 2 W.A W.stored 5] ∧
    addStatus ((UC.addServer [] 2 W.A).run ((UC.addServer [] 2 W.A).run W.stored 5).1 6).2 = 202 ∧
    ((UC.addServer [] 2 W.A).run ((UC.addServer [] 2 W.A).run W.stored 5).1 6).1.queue.length = 1 := by decide

/-! ## the probe of the `discover` effect (`Rest.discoveryProbe`) is the one the program queues -/

/-- a use-case probe as the `Rest` model's probe fields (`Goal.toNat`: details 0, port 1) -/
def probeFieldsOf (p : Probe) : Rest.ProbeFields := ⟨addrOf p.addr, p.port, p.goal.toNat, p.retries, p.maxRetries⟩

/-- the item `EffectIs` names carries `Rest.discoveryProbe` of the submitted address: game port, goal `port`,
no retries, the configured maximum -/
theorem discoveryItem_probe (m : Int) (a : Addr) (s : AbsState) (now : Int) :
    probeFieldsOf (discoveryItem m a s now).probe = Rest.discoveryProbe (addrOf a) m := rfl

/-- **`Rest.discoveryProbe` is the probe `UC.addServer` enqueues** (C17: what the driver prints for a `discover`
effect, `Drv/C17.lean: renderEffect`, is what the use-case program queues).  Under the hypotheses of
`addExecute_abstracts`: whenever the table function's effect is `discover created ra qp w`, the program's run appended
exactly one item to the probe queue and that item's probe is `Rest.discoveryProbe ra m` — i.e.
`Rest.Effect.probe m` of that effect; when the effect is `none` the queue is untouched. -/
theorem addExecute_probe (view : Server → Rest.Stored) (z : Fields) (m : Int) (a : Addr) (s : AbsState) (now : Int)
    (hport : 0 ≤ a.port ∧ a.port ≤ 65535)
    (hcanon : ∀ row, s.getRow a = some row → row.svr.addr = a) :
    match (Rest.addExecute (addrOf a) (srvStateOf view s a)).effect.probe m with
    | some p => ∃ it, ((UC.addServer z m a).run s now).1.queue = s.queue ++ [it] ∧ probeFieldsOf it.probe = p
    | none => ((UC.addServer z m a).run s now).1.queue = s.queue := by
  have h := (addExecute_abstracts view z m a s now hport hcanon).2.2
  cases he : (Rest.addExecute (addrOf a) (srvStateOf view s a)).effect with
  | none =>
    rw [he] at h
    simp only [Rest.Effect.probe]
    rw [show ((UC.addServer z m a).run s now).1 = s from h]
  | discover created ra qp w =>
    rw [he] at h
    simp only [Rest.Effect.probe]
    obtain ⟨hra, _, hq, _⟩ := h
    exact ⟨discoveryItem m a s now, hq, by rw [hra]; rfl⟩

/-- both branches of `addExecute_probe` on concrete stores: a new address (probe queued: `W.A`'s game port, goal 1,
0 retries, maximum 2) and a server already marked `port_retry` (no probe) -/
example : (Rest.addExecute (addrOf W.A) (srvStateOf (fun _ => { addr := addrOf W.A }) {} W.A)).effect.probe 2 =
    some ⟨addrOf W.A, W.A.port, 1, 0, 2⟩ := by decide
example : (Rest.addExecute (addrOf W.A) (srvStateOf (fun _ => { addr := addrOf W.A })
    ((UC.addServer [] 2 W.A).run W.stored 5).1 W.A)).effect.probe 2 = none := by decide

end Swat4.RestBridge
