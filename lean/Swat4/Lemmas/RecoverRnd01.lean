import Swat4.Drv.C01
import Swat4.Lemmas.RecoverRnd
/-!
# `recoverRnd` in the C01 driver

`Drv.C01.compareReply` reconstructs the header draws of the browser's reply with its own copy of `recoverRnd`
(`Drv.C01.recoverRnd`, the same function as C02's) under the key `Facts.gameEncKey` and the challenge of the parsed request,
and runs `browserHandle` with them.  If the reply is what the handler model produces for the real (unknown) draws, then the
reconstruction succeeds and the model run with the reconstructed draws returns exactly that reply.
-/
namespace Swat4.BrowserE2E
open Swat4 Swat4.Browsing Swat4.Crypt

/-- the C01 driver's copy is the C02 function -/
theorem recoverRnd_eq : Drv.C01.recoverRnd = Drv.C02.recoverRnd := rfl

/-- the byte string the driver passes as the secret is the list of the handler's key -/
theorem gameKey_toList : gameKey.toList = Facts.gameEncKey := by decide

/-- **the C01 driver's reconstruction is justified**: if the handler model, run with draws `rnd`, answers `out` to the
request `sent` (which parses as `req`), then `toVec? 23 (recoverRnd Facts.gameEncKey req.challenge.toList out)` is
`recovered gameKey req.challenge rnd` — `rnd` at every position that reaches the output — and the handler model run with
it answers exactly `out` -/
theorem browserHandle_recovered (order : List Stored → List Stored) (recs : List Stored) (now liveness : Int)
    (client : Client) (rnd : Crypt.Rnd) (sent : Bytes) (req : Request) (out : Bytes)
    (hreq : parseRequest Cfg.facts (sent.take readBuffer) = .ok req)
    (h : browserHandle order recs now liveness client rnd sent = .ok out) :
    Drv.toVec? 23 (Drv.C01.recoverRnd Facts.gameEncKey req.challenge.toList out) =
      some (recovered gameKey req.challenge rnd) ∧
    browserHandle order recs now liveness client (recovered gameKey req.challenge rnd) sent = .ok out := by
  have henc : Crypt.encrypt? gameKey req.challenge rnd (packServers Schema.facts client req.fields
      ((listStored order recs now liveness Facts.statusMaster (Filter.browserQuery req.filters)).map toSel)) = some out := by
    simp only [browserHandle, hreq, ok_bind] at h
    split at h
    · rename_i o ho; cases h; exact ho
    · cases h
  obtain ⟨h1, h2⟩ := recoverRnd_encrypt gameKey req.challenge rnd _ out henc
  refine ⟨?_, ?_⟩
  · rw [recoverRnd_eq, ← gameKey_toList]; exact h1
  · simp only [browserHandle, hreq, ok_bind, h2]
    rfl

end Swat4.BrowserE2E
