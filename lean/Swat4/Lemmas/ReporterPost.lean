import Swat4.Lemmas.ReporterRefine
/-!
# Lemmas for the C04 postcondition theorems

* `unmarshal_getElem?`: `params.Unmarshal` position by position (through its defining equation, a `mapM`
  over the schema; no case analysis of the validator);
* `absStep_heartbeat_accept`: when the abstract step answers a heartbeat, the state afterwards in closed form;
* status-bit facts for the closed form.
-/
namespace Swat4.Rep
open Swat4 Swat4.Heartbeat Swat4.ReporterSpec Std

/-- the bytes of an ASCII string literal (for writing keys, values and example datagrams readably) -/
def ascii (x : String) : Bytes := x.toList.map fun c => UInt8.ofNat c.toNat

/-- `name 00 value 00` -/
def kv (k v : String) : Bytes := ascii k ++ 0 :: (ascii v ++ [0])

/-- `mapM` in `Option`, position by position -/
theorem mapM_option_getElem? {α β : Type} (g : α → Option β) :
    ∀ (l : List α) (r : List β), l.mapM g = some r → ∀ (n : Nat), r[n]? = (l[n]?).bind g := by
  intro l
  induction l with
  | nil =>
    intro r h n
    simp only [List.mapM_nil] at h
    cases h
    simp
  | cons a l ih =>
    intro r h n
    rw [List.mapM_cons] at h
    cases hg : g a with
    | none => simp [hg] at h
    | some b =>
      cases hl : l.mapM g with
      | none => simp [hg, hl] at h
      | some bs =>
        simp only [hg, hl, Option.pure_def, Option.bind_eq_bind, Option.bind_some, Option.some.injEq] at h
        subst h
        cases n with
        | zero => simp [hg]
        | succ n => simp [ih bs hl n]

theorem mapM_option_length {α β : Type} (g : α → Option β) :
    ∀ (l : List α) (r : List β), l.mapM g = some r → r.length = l.length := by
  intro l
  induction l with
  | nil =>
    intro r h
    simp only [List.mapM_nil] at h
    cases h
    rfl
  | cons a l ih =>
    intro r h
    rw [List.mapM_cons] at h
    cases hg : g a with
    | none => simp [hg] at h
    | some b =>
      cases hl : l.mapM g with
      | none => simp [hg, hl] at h
      | some bs =>
        simp only [hg, hl, Option.pure_def, Option.bind_eq_bind, Option.bind_some, Option.some.injEq] at h
        subst h
        simp [ih bs hl]

/-- what `params.Unmarshal` stores for one struct field (the body of the `mapM` in `Heartbeat.unmarshal`) -/
def unmarshalEntry (m : FieldMap) (e : String × Option Bytes × Nat × List String) : Option Val :=
  match e.2.1 with
  | none => zeroVal e.2.2.1
  | some name =>
    match m.get? name with
    | none => zeroVal e.2.2.1
    | some v => parseVal e.2.2.1 v

theorem unmarshal_eq (sch : Schema) (m : FieldMap) : unmarshal sch m = sch.mapM (unmarshalEntry m) := by
  unfold unmarshal
  congr 1

/-- `params.Unmarshal` position by position: the `n`-th value of the result is the reading of the `n`-th
struct field -/
theorem unmarshal_getElem? (sch : Schema) (m : FieldMap) (f : Fields) (h : unmarshal sch m = some f) (n : Nat) :
    f[n]? = (sch[n]?).bind (unmarshalEntry m) := by
  rw [unmarshal_eq] at h
  exact mapM_option_getElem? _ sch f h n

theorem unmarshal_length (sch : Schema) (m : FieldMap) (f : Fields) (h : unmarshal sch m = some f) :
    f.length = sch.length := by
  rw [unmarshal_eq] at h
  exact mapM_option_length _ sch f h

/-- `infoOf` succeeds only with the result of `unmarshal` (defining equation of `infoOf`; the validator is
not inspected) -/
theorem infoOf_unmarshal {m : FieldMap} {i : Fields} (h : infoOf m = some i) : unmarshal schema m = some i := by
  unfold infoOf at h
  cases hu : unmarshal schema m with
  | none => rw [hu] at h; cases h
  | some f =>
    rw [hu] at h
    dsimp only at h
    split at h
    · exact h
    · cases h

theorem infoOf_valid {m : FieldMap} {i : Fields} (h : infoOf m = some i) : validate schema i = true := by
  unfold infoOf at h
  cases hu : unmarshal schema m with
  | none => rw [hu] at h; cases h
  | some f =>
    rw [hu] at h
    dsimp only at h
    split at h
    · cases h; assumption
    · cases h

/-! ## status bits -/

theorem status_has_reported : ∀ s : Status,
    Status.has (Status.update s (Status.master ||| Status.info)) (Status.master ||| Status.info) = true ∧
    Status.has (Status.update s (Status.master ||| Status.info)) Status.new = false ∧
    Status.has (Status.update (Status.update s (Status.master ||| Status.info)) Status.portRetry) (Status.master ||| Status.info) = true ∧
    Status.has (Status.update (Status.update s (Status.master ||| Status.info)) Status.portRetry) Status.new = false ∧
    Status.has (Status.update (Status.update s (Status.master ||| Status.info)) Status.portRetry) Status.portRetry = true := by
  decide

/-- `HasNoDiscoveryStatus` is the negation of `HasAnyDiscoveryStatus` -/
theorem status_hasNone_eq : ∀ s : Status,
    Status.hasNone s (Status.port ||| Status.portRetry) = !Status.hasAny s (Status.port ||| Status.portRetry) := by
  decide

/-- a report keeps every status bit other than `new`, `master`, `info`, `port_retry` as it was -/
theorem status_other_bits : ∀ s : Status,
    (Status.update s (Status.master ||| Status.info)) &&& ~~~(Status.new ||| Status.master ||| Status.info) =
      s &&& ~~~(Status.new ||| Status.master ||| Status.info) ∧
    (Status.update (Status.update s (Status.master ||| Status.info)) Status.portRetry) &&& ~~~(Status.new ||| Status.master ||| Status.info ||| Status.portRetry) =
      s &&& ~~~(Status.new ||| Status.master ||| Status.info ||| Status.portRetry) := by
  decide

/-! ## the abstract step on an accepted heartbeat, in closed form -/

/-- the record a report starts from: the stored one, or a fresh one with the reported `localport` as
provisional query port -/
def baseOf (st : AbsState) (a : Addr) (localport : Int) : Option Server :=
  match st.servers[a.key]? with
  | some r => some r.svr
  | none => if localport < 1 ∨ localport > 65535 then none else some (freshServer a localport)

/-- the state after an accepted report that started from record `base` -/
def acceptedState (cfg : Cfg) (st : AbsState) (a : Addr) (id : Nat) (base : Server) (info : Fields) (now : Int) : AbsState :=
  { servers := st.servers.insert a.key ⟨(reportedServer base info now).1, now⟩,
    instances := st.instances.insert id (a, now),
    queue := if (reportedServer base info now).2
             then st.queue ++ [⟨st.nextId, ⟨(reportedServer base info now).1.addr, (reportedServer base info now).1.addr.port, .port, 0, cfg.maxRetries⟩, now, none⟩]
             else st.queue,
    nextId := if (reportedServer base info now).2 then st.nextId + 1 else st.nextId }

/-- when the abstract step answers a heartbeat: the numbers it read, the info it read, the record it
started from, and the state afterwards in closed form -/
theorem absStep_heartbeat_accept (cfg : Cfg) (st : AbsState) (d : Hb) (ip port : Nat) (now : Int) (r : Bytes)
    (hacc : (absStep cfg st ip port (.heartbeat d) now).2 = some r) :
    ∃ (hostport localport : Int) (info : Fields) (base : Server),
      ((fieldsOf d.kvs).get? kHostport).bind atoi = some hostport ∧
      ((fieldsOf d.kvs).get? kLocalport).bind atoi = some localport ∧
      1 ≤ hostport ∧ hostport ≤ 65535 ∧ ipAccepted ip = true ∧
      (fieldsOf d.kvs).get? kStatechanged ≠ some [0x32] ∧
      infoOf (fieldsOf d.kvs) = some info ∧
      baseOf st ⟨ip, hostport⟩ localport = some base ∧
      r = replyBytes d.id ip port ∧
      (absStep cfg st ip port (.heartbeat d) now).1 = acceptedState cfg st ⟨ip, hostport⟩ (idNat d.id) base info now := by
  revert hacc
  unfold absStep
  dsimp only
  cases hh : ((fieldsOf d.kvs).get? kHostport).bind atoi with
  | none => intro h; cases h
  | some hostport =>
    cases hl : ((fieldsOf d.kvs).get? kLocalport).bind atoi with
    | none => intro h; cases h
    | some localport =>
      dsimp only
      by_cases hp : hostport < 1 ∨ hostport > 65535 ∨ (!ipAccepted ip) = true
      · rw [if_pos hp]; intro h; cases h
      · rw [if_neg hp]
        have hp1 : 1 ≤ hostport := by omega
        have hp2 : hostport ≤ 65535 := by omega
        have hp3 : ipAccepted ip = true := by
          cases hi : ipAccepted ip with
          | true => rfl
          | false => exact absurd (Or.inr (Or.inr (by rw [hi]; rfl))) hp
        by_cases hs : (fieldsOf d.kvs).get? kStatechanged = some [0x32]
        · rw [if_pos hs]
          intro h
          split at h
          · split at h <;> cases h
          · cases h
        · rw [if_neg hs]
          cases hi : infoOf (fieldsOf d.kvs) with
          | none => intro h; cases h
          | some info =>
            dsimp only
            have fin : ∀ base, baseOf st ⟨ip, hostport⟩ localport = some base →
                (acceptedState cfg st ⟨ip, hostport⟩ (idNat d.id) base info now, some (replyBytes d.id ip port)).2 = some r →
                ∃ (hostport' localport' : Int) (info' : Fields) (base' : Server),
                  some hostport = some hostport' ∧ some localport = some localport' ∧
                  1 ≤ hostport' ∧ hostport' ≤ 65535 ∧ ipAccepted ip = true ∧
                  (fieldsOf d.kvs).get? kStatechanged ≠ some [0x32] ∧
                  some info = some info' ∧
                  baseOf st ⟨ip, hostport'⟩ localport' = some base' ∧
                  r = replyBytes d.id ip port ∧
                  (acceptedState cfg st ⟨ip, hostport⟩ (idNat d.id) base info now, some (replyBytes d.id ip port)).1
                    = acceptedState cfg st ⟨ip, hostport'⟩ (idNat d.id) base' info' now := by
              intro base hb h
              cases h
              exact ⟨hostport, localport, info, base, rfl, rfl, hp1, hp2, hp3, hs, rfl, hb, rfl, rfl⟩
            cases hr : st.servers[(⟨ip, hostport⟩ : Addr).key]? with
            | some row =>
              dsimp only
              exact fin row.svr (by unfold baseOf; rw [hr])
            | none =>
              dsimp only
              by_cases hq : localport < 1 ∨ localport > 65535
              · rw [if_pos hq]; intro h; cases h
              · rw [if_neg hq]
                dsimp only
                exact fin (freshServer ⟨ip, hostport⟩ localport) (by unfold baseOf; rw [hr]; dsimp only; rw [if_neg hq])

/-! ## the postcondition, field by field -/

/-- the status bits a report may change: `new` (cleared), `master`, `info` (set), `port_retry` (set when a port probe is queued) -/
def reportBits : Status := Status.new ||| Status.master ||| Status.info ||| Status.portRetry

/-- **the registry postcondition of an accepted heartbeat**, field by field -/
structure HeartbeatPost (cfg : Cfg) (st st' : AbsState) (a : Addr) (id : Nat) (info : Fields) (localport now : Int) : Prop where
  server : ∃ row : SRow, st'.servers[a.key]? = some row ∧
      row.svr.addr = a ∧ row.svr.info = info ∧ row.svr.refreshedAt = some now ∧ row.updatedAt = now ∧
      Status.has row.svr.status (Status.master ||| Status.info) = true ∧ Status.has row.svr.status Status.new = false ∧
      (match st.servers[a.key]? with
        | some old => row.svr.queryPort = old.svr.queryPort ∧ row.svr.details = old.svr.details ∧
            row.svr.status &&& ~~~reportBits = old.svr.status &&& ~~~reportBits
        | none => row.svr.queryPort = localport ∧ 1 ≤ localport ∧ localport ≤ 65535 ∧
            row.svr.details = ⟨zeroInfo, [], []⟩ ∧ row.svr.status &&& ~~~reportBits = 0#9) ∧
      ((∃ old, st.servers[a.key]? = some old ∧ Status.hasAny old.svr.status (Status.port ||| Status.portRetry) = true ∧
          st'.queue = st.queue ∧ st'.nextId = st.nextId ∧ row.svr.version = old.svr.version + 1 ∧
          Status.has row.svr.status Status.portRetry = Status.has old.svr.status Status.portRetry)
       ∨ ((∀ old, st.servers[a.key]? = some old → Status.hasAny old.svr.status (Status.port ||| Status.portRetry) = false) ∧
          st'.queue = st.queue ++ [⟨st.nextId, ⟨a, a.port, .port, 0, cfg.maxRetries⟩, now, none⟩] ∧ st'.nextId = st.nextId + 1 ∧
          Status.has row.svr.status Status.portRetry = true))
  instance_bound : st'.instances[id]? = some (a, now)
  other_servers : ∀ k : Nat, k ≠ a.key → st'.servers[k]? = st.servers[k]?
  other_instances : ∀ j : Nat, j ≠ id → st'.instances[j]? = st.instances[j]?

theorem status_portRetry_kept : ∀ s : Status,
    Status.has (Status.update s (Status.master ||| Status.info)) Status.portRetry = Status.has s Status.portRetry := by decide

theorem status_other_bits' : ∀ s : Status,
    (Status.update s (Status.master ||| Status.info)) &&& ~~~reportBits = s &&& ~~~reportBits ∧
    (Status.update (Status.update s (Status.master ||| Status.info)) Status.portRetry) &&& ~~~reportBits = s &&& ~~~reportBits := by
  decide

theorem status_fresh_bits :
    (Status.update (Status.update Status.new (Status.master ||| Status.info)) Status.portRetry) &&& ~~~reportBits = 0#9 := by decide

theorem acceptedState_post (cfg : Cfg) (st : AbsState) (hinv : Inv st) (a : Addr) (hok : a.PortOk) (id : Nat)
    (base : Server) (info : Fields) (localport now : Int) (hb : baseOf st a localport = some base) :
    HeartbeatPost cfg st (acceptedState cfg st a id base info now) a id info localport now := by
  have hfr1 : ∀ k : Nat, k ≠ a.key → (acceptedState cfg st a id base info now).servers[k]? = st.servers[k]? := by
    intro k hk
    simp only [acceptedState, ExtTreeMap.getElem?_insert, Nat.compare_eq_eq]
    rw [if_neg (Ne.symm hk)]
  have hfr2 : ∀ j : Nat, j ≠ id → (acceptedState cfg st a id base info now).instances[j]? = st.instances[j]? := by
    intro j hj
    simp only [acceptedState, ExtTreeMap.getElem?_insert, Nat.compare_eq_eq]
    rw [if_neg (Ne.symm hj)]
  have hins : (acceptedState cfg st a id base info now).instances[id]? = some (a, now) := by
    simp only [acceptedState]; exact ins_self _ _ _
  have hrow : (acceptedState cfg st a id base info now).servers[a.key]? = some ⟨(reportedServer base info now).1, now⟩ := by
    simp only [acceptedState]; exact ins_self _ _ _
  refine ⟨⟨⟨(reportedServer base info now).1, now⟩, hrow, ?_⟩, hins, hfr1, hfr2⟩
  unfold baseOf at hb
  cases hr : st.servers[a.key]? with
  | some old =>
    rw [hr] at hb
    cases hb
    have hrow := hinv.1 _ _ hr
    have haddr : old.svr.addr = a := Addr.key_inj hrow.2 hok hrow.1
    have hs := status_has_reported old.svr.status
    have ho := status_other_bits' old.svr.status
    dsimp only
    by_cases hp : Status.hasNone old.svr.status (Status.port ||| Status.portRetry) = true
    · have hany : Status.hasAny old.svr.status (Status.port ||| Status.portRetry) = false := by
        have := status_hasNone_eq old.svr.status; rw [hp] at this; simpa using this.symm
      have e : reportedServer old.svr info now = (({ old.svr with info := info, refreshedAt := some now, status := Status.update (Status.update old.svr.status (Status.master ||| Status.info)) Status.portRetry, version := old.svr.version + 1 + 1 } : Server), true) := by simp only [reportedServer, hp, if_true]
      unfold acceptedState
      rw [e]
      refine ⟨haddr, rfl, rfl, rfl, hs.2.2.1, hs.2.2.2.1, ⟨rfl, rfl, ho.2⟩, Or.inr ⟨?_, ?_, rfl, hs.2.2.2.2⟩⟩
      · intro old' h; cases h; exact hany
      · rw [haddr]; rfl
    · have hp' : Status.hasNone old.svr.status (Status.port ||| Status.portRetry) = false := by simpa using hp
      have hany : Status.hasAny old.svr.status (Status.port ||| Status.portRetry) = true := by
        have := status_hasNone_eq old.svr.status; rw [hp'] at this; simpa using this.symm
      have e : reportedServer old.svr info now = (({ old.svr with info := info, refreshedAt := some now, status := Status.update old.svr.status (Status.master ||| Status.info), version := old.svr.version + 1 } : Server), false) := by simp only [reportedServer, hp', Bool.false_eq_true, if_false]
      unfold acceptedState
      rw [e]
      exact ⟨haddr, rfl, rfl, rfl, hs.1, hs.2.1, ⟨rfl, rfl, ho.1⟩, Or.inl ⟨old, rfl, hany, rfl, rfl, rfl, status_portRetry_kept _⟩⟩
  | none =>
    rw [hr] at hb
    dsimp only at hb
    by_cases hq : localport < 1 ∨ localport > 65535
    · rw [if_pos hq] at hb; cases hb
    · rw [if_neg hq] at hb
      cases hb
      have hp : Status.hasNone Status.new (Status.port ||| Status.portRetry) = true := by decide
      have hs := status_has_reported Status.new
      have e : reportedServer (freshServer a localport) info now = (({ freshServer a localport with info := info, refreshedAt := some now, status := Status.update (Status.update Status.new (Status.master ||| Status.info)) Status.portRetry, version := 0 + 1 + 1 } : Server), true) := by simp only [reportedServer, freshServer, hp, if_true]
      unfold acceptedState
      rw [e]
      refine ⟨rfl, rfl, rfl, rfl, hs.2.2.1, hs.2.2.2.1, ⟨rfl, by omega, by omega, rfl, status_fresh_bits⟩, Or.inr ⟨?_, rfl, rfl, hs.2.2.2.2⟩⟩
      intro old' h; cases h

end Swat4.Rep
