import Swat4.Lemmas.GS1Expand
/-! `inspectFragment` on the fragments produced by the encoders of `Spec/GS1Spec.lean`. -/
namespace Swat4.GS1
open Swat4 Swat4.GS1Spec

/-! ## suffixes, splitting at a backslash -/

theorem eq_nil_or_snoc {α : Type} (l : List α) : l = [] ∨ ∃ l' b, l = l' ++ [b] := by
  rcases List.eq_nil_or_concat l with h | ⟨l', b, h⟩
  · exact .inl h
  · exact .inr ⟨l', b, by simpa using h⟩

theorem hasSuffix_append (x s : Bytes) : hasSuffix (x ++ s) s = true :=
  List.isSuffixOf_iff_suffix.mpr (List.suffix_append _ _)

theorem trimSuffix_append (x s : Bytes) : trimSuffix (x ++ s) s = x := by
  simp [trimSuffix, hasSuffix_append]

theorem hasSuffix_false_of_last {b s : Bytes} {c c' : UInt8} (hb : b.getLast? = some c)
    (hs : s.getLast? = some c') (hne : c ≠ c') : hasSuffix b s = false := by
  cases h : hasSuffix b s with
  | false => rfl
  | true =>
    obtain ⟨t, rfl⟩ := List.isSuffixOf_iff_suffix.mp h
    rw [List.getLast?_append, hs] at hb
    simp at hb
    exact absurd hb.symm hne

theorem split_first_unique {a b u w : Bytes} (h : a ++ bsl :: u = b ++ bsl :: w) (ha : bsl ∉ a) (hb : bsl ∉ b) :
    a = b ∧ u = w := by
  induction a generalizing b with
  | nil =>
    cases b with
    | nil => simpa using h
    | cons y b' => simp only [List.nil_append, List.cons_append, List.cons.injEq] at h; exact absurd (by simp [← h.1]) hb
  | cons x a' ih =>
    cases b with
    | nil => simp only [List.nil_append, List.cons_append, List.cons.injEq] at h; exact absurd (by simp [h.1]) ha
    | cons y b' =>
      simp only [List.cons_append, List.cons.injEq] at h
      simp only [List.mem_cons, not_or] at ha hb
      obtain ⟨h1, h2⟩ := ih h.2 ha.2 hb.2
      exact ⟨by rw [h.1, h1], h2⟩

theorem split_last_unique {a b u w : Bytes} (h : a ++ bsl :: u = b ++ bsl :: w) (hu : bsl ∉ u) (hw : bsl ∉ w) :
    a = b ∧ u = w := by
  have h' := congrArg List.reverse h
  simp only [List.reverse_append, List.reverse_cons, List.append_assoc, List.singleton_append] at h'
  obtain ⟨h1, h2⟩ := split_first_unique h' (by simpa using hu) (by simpa using hw)
  exact ⟨List.reverse_inj.mp h2, List.reverse_inj.mp h1⟩

theorem lastIndexByte_eq_none {u : Bytes} {c : UInt8} (h : c ∉ u) : lastIndexByte u c = none := by
  induction u with
  | nil => rfl
  | cons x xs ih =>
    simp only [List.mem_cons, not_or] at h
    simp only [lastIndexByte, ih h.2]
    rw [if_neg (fun e => h.1 e.symm)]

theorem lastIndexByte_append (a u : Bytes) (h : bsl ∉ u) : lastIndexByte (a ++ bsl :: u) bsl = some a.length := by
  induction a with
  | nil => simp [lastIndexByte, lastIndexByte_eq_none h]
  | cons x a' ih => simp [lastIndexByte, ih]

theorem cfrPure_split (a u : Bytes) (h : bsl ∉ u) : cfrPure (a ++ bsl :: u) = (u, some a) := by
  unfold cfrPure
  rw [if_neg (by simp), lastIndexByte_append a u h]
  simp only [List.take_left']
  congr 1
  rw [show a ++ bsl :: u = (a ++ [bsl]) ++ u by simp]
  exact List.drop_left' (by simp)

/-- the right-most pair `\n\v` of a payload -/
theorem cprPure_split (a n v : Bytes) (hn : bsl ∉ n) (hv : bsl ∉ v) (hne : n ≠ []) :
    cprPure ((a ++ bsl :: n) ++ bsl :: v) = some (⟨n, v⟩, some a) := by
  unfold cprPure
  rw [cfrPure_split _ v hv]
  simp only [cfrPure_split a n hn]
  rw [if_neg (by simpa using hne)]

theorem cfPure_head (f R : Bytes) (hf : bsl ∉ f) (hR : R = [] ∨ ∃ R', R = bsl :: R') :
    nilEmpty (cfPure (bsl :: (f ++ R))).2 = R ∧ (cfPure (bsl :: (f ++ R))).1 = f := by
  rcases hR with rfl | ⟨R', rfl⟩
  · simp [cfPure_last f hf, nilEmpty]
  · simp [cfPure_more f R' hf, nilEmpty]

/-! ## bodies -/

theorem body_snoc (pre : List Bytes) (g : Bytes) : body (pre ++ [g]) = body pre ++ bsl :: g := by
  simp [body]

/-- the right-most pair of a rendered field sequence, if any, consists of two of its fields -/
theorem cprPure_body_name (ch : List Bytes) (h : ∀ g ∈ ch, bsl ∉ g) (p : Param) (ro : Option Bytes)
    (hc : cprPure (body ch) = some (p, ro)) : p.name ∈ ch := by
  rcases eq_nil_or_snoc ch with rfl | ⟨l1, b, rfl⟩
  · simp [body, cprPure, cfrPure] at hc
  · rcases eq_nil_or_snoc l1 with rfl | ⟨l2, a, rfl⟩
    · have hb : bsl ∉ b := h b (by simp)
      have e : body ([] ++ [b]) = [] ++ bsl :: b := by simp [body]
      rw [e] at hc
      unfold cprPure at hc
      rw [cfrPure_split [] b hb] at hc
      simp [cfrPure] at hc
    · have hb : bsl ∉ b := h b (by simp)
      have ha : bsl ∉ a := h a (by simp)
      have e : body (l2 ++ [a] ++ [b]) = (body l2 ++ bsl :: a) ++ bsl :: b := by rw [body_snoc, body_snoc]
      rw [e] at hc
      unfold cprPure at hc
      rw [cfrPure_split _ b hb] at hc
      simp only [cfrPure_split (body l2) a ha] at hc
      split at hc
      · cases hc
      · cases hc; simp

/-- a rendered field sequence ends in `\final\` only if its last two fields are `final` and the empty field -/
theorem body_suffix_final (ch : List Bytes) (h : ∀ g ∈ ch, bsl ∉ g) (hs : hasSuffix (body ch) FINAL = true) :
    ∃ pre, ch = pre ++ [kFinal, []] := by
  obtain ⟨t, ht⟩ := List.isSuffixOf_iff_suffix.mp hs
  have hF : FINAL = (bsl :: kFinal) ++ bsl :: [] := rfl
  rcases eq_nil_or_snoc ch with rfl | ⟨l1, b, rfl⟩
  · simp [body, FINAL] at ht
  · have hb : bsl ∉ b := h b (by simp)
    rw [body_snoc, hF, ← List.append_assoc] at ht
    obtain ⟨h1, h2⟩ := split_last_unique ht (by simp) hb
    subst h2
    rcases eq_nil_or_snoc l1 with rfl | ⟨l2, a, rfl⟩
    · simp [body] at h1
    · have ha : bsl ∉ a := h a (by simp)
      rw [body_snoc] at h1
      obtain ⟨_, h4⟩ := split_last_unique h1 (by decide) ha
      exact ⟨l2, by rw [← h4]; simp⟩

/-! ## digits -/

theorem dig_ne_dot {k : Nat} (h : k < 10) : dig k ≠ 0x2e := by
  have := dig_toNat h
  intro e; rw [e] at this; revert this; decide +revert

theorem decimal_last (n : Nat) : ∃ k, k < 10 ∧ (decimal n).getLast? = some (dig k) := by
  obtain ⟨_, h2, h3⟩ := decimal_spec n
  cases hl : (decimal n).getLast? with
  | none => exact absurd (List.getLast?_eq_none_iff.mp hl) h3
  | some c =>
    obtain ⟨k, hk, rfl⟩ := h2 c (List.mem_of_getLast? hl)
    exact ⟨k, hk, rfl⟩

theorem decimal_no_dot (n : Nat) : (0x2e : UInt8) ∉ decimal n := by
  intro h
  obtain ⟨k, hk, e⟩ := (decimal_spec n).2.1 _ h
  exact dig_ne_dot hk e.symm

/-! ## chunks -/

/-- what the encoders need of a chunk of the field sequence -/
structure ChunkOK (ch : List Bytes) : Prop where
  nobsl : ∀ g ∈ ch, bsl ∉ g
  noqid : ∀ g ∈ ch, g ≠ kQueryid
  nosr : ∀ g ∈ ch, g ≠ kStatusresponse
  nofinal : hasSuffix (body ch) FINAL = false

theorem body_append_bsl (ch : List Bytes) (R : Bytes) : body ch ++ bsl :: R = [] ∨ ∃ R', body ch ++ bsl :: R = bsl :: R' := by
  rcases body_eq_nil_or_bsl ch with h | ⟨r, h⟩
  · rw [h]; exact .inr ⟨R, rfl⟩
  · rw [h]; exact .inr ⟨r ++ bsl :: R, rfl⟩

/-- a fragment whose body is followed by a backslash is not taken for AdminMod -/
theorem not_hasPrefix_pfxAM (ch : List Bytes) (ok : ChunkOK ch) (c : UInt8) (R : Bytes) (hc : c ≠ 0x73) :
    hasPrefix (body ch ++ bsl :: c :: R) pfxAM = false := by
  cases ch with
  | nil => 
    simp only [body_nil, List.nil_append, hasPrefix, pfxAM, List.isPrefixOf]
    have : ((0x73 : UInt8) == c) = false := by simp only [beq_eq_false_iff_ne, ne_eq]; exact fun e => hc e.symm
    simp [this]
  | cons f t =>
    cases h : hasPrefix (body (f :: t) ++ bsl :: c :: R) pfxAM with
    | false => rfl
    | true =>
      exfalso
      obtain ⟨t', ht⟩ := List.isPrefixOf_iff_prefix.mp h
      rw [body_cons] at ht
      obtain ⟨R', hR'⟩ : ∃ R', body t ++ bsl :: c :: R = bsl :: R' := by
        rcases body_append_bsl t (c :: R) with h0 | h0
        · simp at h0
        · exact h0
      have e1 : pfxAM ++ t' = bsl :: (kStatusresponse ++ bsl :: t') := by simp [pfxAM, kStatusresponse]
      rw [e1] at ht
      simp only [List.cons_append, List.append_assoc, List.cons.injEq, true_and] at ht
      rw [hR'] at ht
      have := split_first_unique ht (by decide) (ok.nobsl f (by simp))
      exact ok.nosr f (by simp) this.1.symm

/-! ## GS1 fragments -/

theorem inspect_gs1 (n i : Nat) (ch : List Bytes) (ok : ChunkOK ch) (hi : i + 1 < 9223372036854775808) :
    inspectFragment (fragment .gs1 n i ch) = .ok ⟨decide (i + 1 = n), ((i + 1 : Nat) : Int), .gs1, body ch⟩ := by
  have hdb := decimal_noBsl (i + 1)
  obtain ⟨k, hk, hlast⟩ := decimal_last (i + 1)
  have hne : decimal (i + 1) ≠ [] := (decimal_spec (i + 1)).2.2
  -- normal form
  have e : fragment .gs1 n i ch = ((body ch ++ bsl :: kQueryid) ++ bsl :: decimal (i + 1)) ++ (if i + 1 = n then FINAL else []) := by
    simp [fragment, List.append_assoc]
  have hX0last : ((body ch ++ bsl :: kQueryid) ++ bsl :: decimal (i + 1)).getLast? = some (dig k) := by
    rw [List.getLast?_append]
    rw [show (bsl :: decimal (i + 1)).getLast? = (decimal (i + 1)).getLast? by
      cases hd : decimal (i + 1) with
      | nil => exact absurd hd hne
      | cons x t => simp]
    simp [hlast]
  have hdk := dig_ne_sign hk
  -- (1) not vanilla
  have h1 : hasSuffix (fragment .gs1 n i ch) sfxVanilla = false := by
    rw [e]
    by_cases hl : i + 1 = n
    · simp only [hl, if_true]
      have hF : FINAL.getLast? = some bsl := by decide
      exact hasSuffix_false_of_last (c := bsl) (c' := 0x31) (by rw [List.getLast?_append, hF]; rfl) (by decide) (by decide)
    · simp only [hl, if_false, List.append_nil]
      cases hs : hasSuffix ((body ch ++ bsl :: kQueryid) ++ bsl :: decimal (i + 1)) sfxVanilla with
      | false => rfl
      | true =>
        exfalso
        obtain ⟨t, ht⟩ := List.isSuffixOf_iff_suffix.mp hs
        have e2 : t ++ sfxVanilla = (t ++ bsl :: kQueryid) ++ bsl :: v11 := by simp [sfxVanilla, kQueryid, v11]
        rw [e2] at ht
        have := (split_last_unique ht (by decide) hdb).2
        exact decimal_no_dot (i + 1) (by rw [← this]; decide)
  -- (2) not AdminMod
  have h2 : hasPrefix (fragment .gs1 n i ch) pfxAM = false := by
    rw [e]
    have : ((body ch ++ bsl :: kQueryid) ++ bsl :: decimal (i + 1)) ++ (if i + 1 = n then FINAL else []) =
        body ch ++ bsl :: 0x71 :: ([0x75, 0x65, 0x72, 0x79, 0x69, 0x64] ++ bsl :: decimal (i + 1) ++ (if i + 1 = n then FINAL else [])) := by
      simp [kQueryid, List.append_assoc]
    rw [this]
    exact not_hasPrefix_pfxAM ch ok _ _ (by decide)
  -- (3) the GS1 path
  have h3 : hasSuffix (fragment .gs1 n i ch) FINAL = decide (i + 1 = n) := by
    rw [e]
    by_cases hl : i + 1 = n
    · simp only [hl, if_true, decide_true]; exact hasSuffix_append _ _
    · simp only [hl, if_false, List.append_nil, decide_false]
      exact hasSuffix_false_of_last hX0last (c' := bsl) (by decide) hdk.2.2.1
  have h4 : (if decide (i + 1 = n) = true then trimSuffix (fragment .gs1 n i ch) FINAL else fragment .gs1 n i ch) =
      (body ch ++ bsl :: kQueryid) ++ bsl :: decimal (i + 1) := by
    rw [e]
    by_cases hl : i + 1 = n
    · simp only [hl, if_true, decide_true]; exact trimSuffix_append _ _
    · simp [hl]
  have h5 := cprPure_split (body ch) kQueryid (decimal (i + 1)) (by decide) hdb (by decide)
  have h6 : inspectQueryID (decimal (i + 1)) = .ok (((i + 1 : Nat) : Int), .gs1) := by
    unfold inspectQueryID
    rw [atoi_decimal (i + 1) hi]
    simp only
    rw [if_neg (by omega)]
  unfold inspectFragment
  rw [h1, h2]
  simp only [Bool.false_eq_true, if_false]
  unfold inspectGS1Fragment
  simp only [h3, h4, consumeParamFromRight_eq, Res.ok_bind, h5, ne_eq, not_true_eq_false, if_false, h6, Res.pure_eq, nilEmpty]

/-! ## AdminMod fragments -/

/-- an AdminMod datagram: header `\statusresponse\i`, rest `R`, `\eof\` -/
def amFrag (i : Nat) (R : Bytes) : Bytes := (pfxAM ++ decimal i ++ R) ++ EOF

/-- what `inspectAmModFragment` does after the header: (isFinal, data) -/
def amTail (R : Bytes) : Bool × Bytes :=
  let payload :=
    match cprPure R with
    | some (last, rest') => if last.name = kQueryid then nilEmpty rest' else R
    | none => R
  if hasSuffix payload FINAL then (true, trimSuffix payload FINAL) else (false, payload)

theorem inspect_amFrag (i : Nat) (R : Bytes) (hR : R = [] ∨ ∃ R', R = bsl :: R') (hi : i + 1 < 9223372036854775808) :
    inspectFragment (amFrag i R) = .ok ⟨(amTail R).1, ((i + 1 : Nat) : Int), .am, (amTail R).2⟩ := by
  have hdb := decimal_noBsl i
  have hE : EOF.getLast? = some bsl := by decide
  have h1 : hasSuffix (amFrag i R) sfxVanilla = false :=
    hasSuffix_false_of_last (c := bsl) (c' := 0x31) (by unfold amFrag; rw [List.getLast?_append, hE]; rfl) (by decide) (by decide)
  have h2 : hasPrefix (amFrag i R) pfxAM = true := by
    unfold amFrag hasPrefix
    rw [List.isPrefixOf_iff_prefix, List.append_assoc, List.append_assoc]
    exact List.prefix_append _ _
  have h3 : trimSuffix (amFrag i R) EOF = pfxAM ++ decimal i ++ R := trimSuffix_append _ _
  -- the header
  have e1 : pfxAM ++ decimal i ++ R = bsl :: (kStatusresponse ++ bsl :: (decimal i ++ R)) := by
    simp [pfxAM, kStatusresponse]
  obtain ⟨hh1, hh2⟩ := cfPure_head (decimal i) R hdb hR
  have h4 : cpPure (pfxAM ++ decimal i ++ R) =
      some (⟨kStatusresponse, decimal i⟩, (cfPure (bsl :: (decimal i ++ R))).2) := by
    unfold cpPure
    rw [e1, cfPure_more kStatusresponse _ (by decide)]
    simp only
    rw [if_neg (by decide), hh2]
  have h5 : inspectStatusResponse (decimal i) = .ok (((i + 1 : Nat) : Int), .am) := by
    unfold inspectStatusResponse
    rw [atoi_decimal i (by omega)]
    simp only
    rw [if_neg (by omega)]
    congr 2
    unfold addOne
    rw [if_neg (by omega)]
    omega
  unfold inspectFragment
  rw [h1, h2]
  simp only [Bool.false_eq_true, if_false, if_true]
  unfold inspectAmModFragment
  simp only [h3, consumeParam_eq, Res.ok_bind, h4, ne_eq, not_true_eq_false, if_false, h5, hh1,
    consumeParamFromRight_eq]
  unfold amTail
  cases hc : cprPure R with
  | none =>
    simp only [Res.pure_eq, Res.ok_bind]
    split <;> rfl
  | some pr =>
    obtain ⟨last, rest'⟩ := pr
    simp only [Res.pure_eq, Res.ok_bind]
    split <;> (split <;> simp [*])

/-- the final fragment: `R = B\final\`, nothing is stripped, `\final\` is -/
theorem amTail_final (B : Bytes) : amTail (B ++ FINAL) = (true, B) := by
  have e : B ++ FINAL = (B ++ bsl :: kFinal) ++ bsl :: [] := by simp [FINAL, kFinal]
  unfold amTail
  rw [e, cprPure_split B kFinal [] (by decide) (by simp) (by decide)]
  have hk : ¬ (kFinal = kQueryid) := by decide
  simp only [hk, if_false]
  rw [← e, hasSuffix_append]
  simp [trimSuffix_append]

/-- a non-final fragment with a trailing `\queryid\AMv1`: it is stripped -/
theorem amTail_qid (ch : List Bytes) (ok : ChunkOK ch) : amTail (body ch ++ qidAMv1) = (false, body ch) := by
  have e : body ch ++ qidAMv1 = (body ch ++ bsl :: kQueryid) ++ bsl :: vAMv1 := by simp [qidAMv1]
  unfold amTail
  rw [e, cprPure_split (body ch) kQueryid vAMv1 (by decide) (by decide) (by decide)]
  simp only [if_true, nilEmpty, ok.nofinal, Bool.false_eq_true, if_false]

/-- a non-final fragment without `queryid`: nothing is stripped -/
theorem amTail_plain (ch : List Bytes) (ok : ChunkOK ch) : amTail (body ch) = (false, body ch) := by
  unfold amTail
  cases hc : cprPure (body ch) with
  | none => simp only [ok.nofinal, Bool.false_eq_true, if_false]
  | some pr =>
    obtain ⟨last, rest'⟩ := pr
    have := cprPure_body_name ch ok.nobsl last rest' hc
    simp only [if_neg (ok.noqid _ this), ok.nofinal, Bool.false_eq_true, if_false]

/-! ## all fragmenting dialects -/

/-- bytes of the dialect's framing fields that stay in the payload of the final fragment -/
def framingBytes (d : Dialect) : Bytes := body ((framingFields d).flatMap fun kv => [kv.1, kv.2])

/-- payload data the decoder keeps of fragment `i` (zero-based) of `n` -/
def fragData (d : Dialect) (n i : Nat) (ch : List Bytes) : Bytes :=
  body ch ++ (if i + 1 = n then framingBytes d else [])

theorem startsBsl_append (ch : List Bytes) (X : Bytes) (hX : X = [] ∨ ∃ X', X = bsl :: X') :
    body ch ++ X = [] ∨ ∃ R', body ch ++ X = bsl :: R' := by
  rcases body_eq_nil_or_bsl ch with h | ⟨r, h⟩
  · rw [h]; simpa using hX
  · rw [h]; exact .inr ⟨r ++ X, rfl⟩

theorem inspect_am (n i : Nat) (ch : List Bytes) (ok : ChunkOK ch) (hi : i + 1 < 9223372036854775808) :
    inspectFragment (fragment .am n i ch) = .ok ⟨decide (i + 1 = n), ((i + 1 : Nat) : Int), .am, fragData .am n i ch⟩ := by
  have e : fragment .am n i ch = amFrag i (body ch ++ (if i + 1 = n then qidAMv1 ++ FINAL else [])) := by
    simp [fragment, amFrag, List.append_assoc]
  rw [e, inspect_amFrag i _ (startsBsl_append ch _ (by split; exact .inr ⟨_, rfl⟩; exact .inl rfl)) hi]
  by_cases hl : i + 1 = n
  · simp only [hl, if_true, decide_true, fragData]
    rw [← List.append_assoc, amTail_final]; rfl
  · simp only [hl, if_false, decide_false, fragData, List.append_nil]
    rw [amTail_plain ch ok]

theorem inspect_amq (n i : Nat) (ch : List Bytes) (ok : ChunkOK ch) (hi : i + 1 < 9223372036854775808) :
    inspectFragment (fragment .amq n i ch) = .ok ⟨decide (i + 1 = n), ((i + 1 : Nat) : Int), .am, fragData .amq n i ch⟩ := by
  have e : fragment .amq n i ch = amFrag i (body ch ++ qidAMv1 ++ (if i + 1 = n then FINAL else [])) := by
    simp [fragment, amFrag, List.append_assoc]
  have hs : body ch ++ qidAMv1 ++ (if i + 1 = n then FINAL else []) = [] ∨
      ∃ R', body ch ++ qidAMv1 ++ (if i + 1 = n then FINAL else []) = bsl :: R' := by
    rw [List.append_assoc]
    exact startsBsl_append ch _ (.inr ⟨_, rfl⟩)
  rw [e, inspect_amFrag i _ hs hi]
  by_cases hl : i + 1 = n
  · simp only [hl, if_true, decide_true, fragData]
    rw [amTail_final]; rfl
  · simp only [hl, if_false, decide_false, fragData, List.append_nil]
    rw [amTail_qid ch ok]

theorem inspect_amn (n i : Nat) (ch : List Bytes) (ok : ChunkOK ch) (hi : i + 1 < 9223372036854775808) :
    inspectFragment (fragment .amn n i ch) = .ok ⟨decide (i + 1 = n), ((i + 1 : Nat) : Int), .am, fragData .amn n i ch⟩ := by
  have e : fragment .amn n i ch = amFrag i (body ch ++ (if i + 1 = n then FINAL else [])) := by
    simp [fragment, amFrag, List.append_assoc]
  rw [e, inspect_amFrag i _ (startsBsl_append ch _ (by split; exact .inr ⟨_, rfl⟩; exact .inl rfl)) hi]
  by_cases hl : i + 1 = n
  · simp only [hl, if_true, decide_true, fragData]
    rw [amTail_final]; simp [framingBytes, framingFields, body]
  · simp only [hl, if_false, decide_false, fragData, List.append_nil]
    rw [amTail_plain ch ok]

/-- **inspect ∘ encode**: fragment `i` (zero-based) of `n` is recognised with number `i+1`, as final
iff it is the last, with the dialect's tag, and with exactly its part of the payload -/
theorem inspect_fragment (d : Dialect) (hd : d.fragmenting = true) (n i : Nat) (ch : List Bytes) (ok : ChunkOK ch)
    (hi : i + 1 < 9223372036854775808) :
    inspectFragment (fragment d n i ch) = .ok ⟨decide (i + 1 = n), ((i + 1 : Nat) : Int), d.ver, fragData d n i ch⟩ := by
  cases d with
  | vanilla => cases hd
  | vanillaq => cases hd
  | gs1 =>
    rw [inspect_gs1 n i ch ok hi]
    simp [fragData, framingBytes, framingFields, body, Dialect.ver]
  | am => exact inspect_am n i ch ok hi
  | amq => exact inspect_amq n i ch ok hi
  | amn => exact inspect_amn n i ch ok hi

end Swat4.GS1
