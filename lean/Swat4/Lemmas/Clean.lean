import Swat4.Lemmas.Styles
/-!
Helper lemmas for C17, `Clean`: the loop ends within its fuel with a text the scanner does not
match, the scanner finds every code the reference definition recognises, and trimming white space
cannot create a code.
-/
namespace Swat4.Styles
open Swat4

/-! ## the scanner of `Clean` deletes stretches `[ … ]` -/

theorem mCalt1_spec : DelSpec mCalt1 := by
  intro xs h
  cases xs with
  | nil => simp [mCalt1] at h
  | cons a t1 =>
    cases t1 with
    | nil => simp [mCalt1] at h
    | cons b t2 =>
      cases t2 with
      | nil => simp [mCalt1] at h
      | cons c t =>
        simp only [mCalt1] at h ⊢
        by_cases ha : a = '['
        · subst ha
          simp only [if_true] at h ⊢
          by_cases hb : (b == '\\' || b == '/') = true
          · simp only [hb, if_true] at h ⊢
            cases t with
            | nil => simp at h
            | cons d t' =>
              simp only at h ⊢
              by_cases hcd : (isCUB c && d == ']') = true
              · simp only [Bool.and_eq_true, beq_iff_eq] at hcd
                refine ⟨[b, c], t', by simp [hcd.2], by simp [hcd]⟩
              · simp [hcd] at h
          · simp only [hb] at h ⊢
            by_cases hcd : (isCUB b && c == ']') = true
            · simp only [Bool.and_eq_true, beq_iff_eq] at hcd
              refine ⟨[b], t, by simp [hcd.2], by simp [hcd]⟩
            · simp [hcd] at h
        · simp [ha] at h

theorem mCalt2_spec : DelSpec mCalt2 := by
  intro xs h
  cases xs with
  | nil => simp [mCalt2] at h
  | cons a t1 =>
    cases t1 with
    | nil => simp [mCalt2] at h
    | cons c u =>
      simp only [mCalt2] at h ⊢
      by_cases hc : (a == '[' && isC c && decide (tailGroup u > 0)) = true
      · simp only [hc, if_true] at h ⊢
        simp only [Bool.and_eq_true, beq_iff_eq, decide_eq_true_eq] at hc
        obtain ⟨⟨rfl, _⟩, hg⟩ := hc
        obtain ⟨mid, rest, e, hl⟩ := tailGroup_spec u (by omega)
        exact ⟨c :: mid, rest, by simp [e], by simp [hl]⟩
      · simp [hc] at h

theorem mC_spec : DelSpec mC := by
  intro xs h
  unfold mC at h ⊢
  by_cases h1 : mCalt1 xs > 0
  · simp only [h1, if_true] at h ⊢
    exact mCalt1_spec xs h
  · simp only [h1, if_false] at h ⊢
    exact mCalt2_spec xs h

/-! ## every replacement pass with a match shortens the text -/

theorem delAll_length_le (m : List Char → Nat) :
    ∀ (fuel : Nat) (xs : List Char), (delAll m fuel xs).length ≤ xs.length := by
  intro fuel
  induction fuel with
  | zero => intro xs; simp [delAll]
  | succ f ih =>
    intro xs
    cases xs with
    | nil => simp [delAll]
    | cons c t =>
      unfold delAll
      split
      · simpa using ih t
      · exact Nat.le_trans (ih _) (by simp)

theorem delAll_length_lt (m : List Char → Nat) (hm : DelSpec m) :
    ∀ (fuel : Nat) (xs : List Char), xs.length < fuel → hasMatch m xs = true →
      (delAll m fuel xs).length < xs.length := by
  intro fuel
  induction fuel with
  | zero => intro xs h; omega
  | succ f ih =>
    intro xs hf hmt
    cases xs with
    | nil => simp [hasMatch] at hmt
    | cons c t =>
      unfold delAll
      split
      · next h0 =>
        have : hasMatch m t = true := by simpa [hasMatch, h0] using hmt
        have := ih t (by simpa using hf) this
        simpa using this
      · next hne =>
        obtain ⟨mid, rest, e, hn⟩ := hm (c :: t) hne
        rw [drop_of_delSpec e hn]
        have h1 := delAll_length_le m f rest
        have : (c :: t).length = mid.length + rest.length + 2 := by rw [e]; simp; omega
        omega

/-- **the loop of `Clean` ends within its fuel**, on a text the scanner does not match -/
theorem cleanLoop_noMatch :
    ∀ (fuel : Nat) (xs : List Char), xs.length < fuel → hasMatch mC (cleanLoop fuel xs) = false := by
  intro fuel
  induction fuel with
  | zero => intro xs h; omega
  | succ f ih =>
    intro xs hf
    unfold cleanLoop
    by_cases hmt : hasMatch mC xs = true
    · simp only [hmt, if_true]
      apply ih
      have := delAll_length_lt mC mC_spec (xs.length + 1) xs (by omega) hmt
      omega
    · simp only [hmt]
      simpa using hmt

/-! ## the scanner finds every code of the reference definition -/

theorem styleLetter_isCUB (x : Char) (h : RestSpec.styleLetter x = true) :
    isCUB x = true ∧ x ≠ '\\' ∧ x ≠ '/' := by
  simp only [RestSpec.styleLetter, List.contains_cons, List.contains_nil, Bool.or_false, Bool.or_eq_true,
    beq_iff_eq] at h
  rcases h with rfl | rfl | rfl | rfl | rfl | rfl <;> decide

theorem wordChar_eq (c : Char) : RestSpec.wordChar c = isWordFold c := by
  unfold RestSpec.wordChar isWordFold
  rw [Bool.eq_iff_iff]
  simp only [Bool.or_eq_true, Bool.and_eq_true, decide_eq_true_eq, beq_iff_eq, Char.le_def,
    UInt32.le_iff_toNat_le, Char.ext_iff, ← UInt32.toNat_inj]
  rfl

theorem dropWhile_eq_drop_runLen (t : List Char) : t.dropWhile nonBracket = t.drop (runLen t) := by
  induction t with
  | nil => rfl
  | cons c t ih =>
    rw [List.dropWhile_cons, runLen]
    split <;> simp [ih]

theorem getElem?_of_drop {α : Type} (l : List α) (k : Nat) (y : α) (r : List α) (h : l.drop k = y :: r) :
    l[k]? = some y := by
  have := List.getElem?_drop (xs := l) (i := k) (j := 0)
  simp [h] at this
  exact this.symm

theorem simpleCodeBody_iff (rest : List Char) (h : RestSpec.simpleCodeBody rest = true) :
    ∃ x r, rest = x :: ']' :: r ∧ RestSpec.styleLetter x = true := by
  unfold RestSpec.simpleCodeBody at h
  split at h
  · next x r => exact ⟨x, r, rfl, h⟩
  · cases h

theorem codeAt_cases (xs : List Char) (h : RestSpec.codeAt xs = true) :
    (∃ x r, xs = '[' :: x :: ']' :: r ∧ RestSpec.styleLetter x = true) ∨
    (∃ s x r, xs = '[' :: s :: x :: ']' :: r ∧ (s = '\\' ∨ s = '/') ∧ RestSpec.styleLetter x = true) ∨
    (∃ c x t r, xs = '[' :: c :: x :: t ∧ (c = 'c' ∨ c = 'C') ∧ RestSpec.wordChar x = false ∧
      t.dropWhile nonBracket = ']' :: r) := by
  unfold RestSpec.codeAt at h
  split at h
  · next rest =>
    simp only [Bool.or_eq_true] at h
    rcases h with (h | h) | h
    · obtain ⟨x, r, rfl, hx⟩ := simpleCodeBody_iff rest h
      exact .inl ⟨x, r, rfl, hx⟩
    · split at h
      · next s rest' =>
        simp only [Bool.and_eq_true, Bool.or_eq_true, beq_iff_eq] at h
        obtain ⟨x, r, rfl, hx⟩ := simpleCodeBody_iff rest' h.2
        exact .inr (.inl ⟨s, x, r, rfl, h.1, hx⟩)
      · cases h
    · split at h
      · next c x t =>
        simp only [Bool.and_eq_true, Bool.or_eq_true, beq_iff_eq, Bool.not_eq_true'] at h
        obtain ⟨⟨hc, hw⟩, hd⟩ := h
        split at hd
        · next r hdw => exact .inr (.inr ⟨c, x, t, r, rfl, hc, hw, hdw⟩)
        · cases hd
      · cases h
  · cases h

/-- wherever the reference definition sees a code, the scanner matches -/
theorem mC_of_codeAt (xs : List Char) (h : RestSpec.codeAt xs = true) : mC xs ≠ 0 := by
  rcases codeAt_cases xs h with ⟨x, r, rfl, hx⟩ | ⟨s, x, r, rfl, hs, hx⟩ | ⟨c, x, t, r, rfl, hc, hw, hd⟩
  · obtain ⟨h1, h2, h3⟩ := styleLetter_isCUB x hx
    simp [mC, mCalt1, h1, h2, h3]
  · obtain ⟨h1, _, _⟩ := styleLetter_isCUB x hx
    have : (s == '\\' || s == '/') = true := by rcases hs with rfl | rfl <;> decide
    simp [mC, mCalt1, h1, this]
  · unfold mC
    by_cases h1 : mCalt1 ('[' :: c :: x :: t) > 0
    · simp only [h1, if_true]; omega
    · simp only [h1, if_false]
      have hisC : isC c = true := by rcases hc with rfl | rfl <;> decide
      have hget : t[runLen t]? = some ']' := by
        rw [dropWhile_eq_drop_runLen] at hd
        exact getElem?_of_drop _ _ _ _ hd
      rw [wordChar_eq] at hw
      simp [mCalt2, hisC, tailGroup, hw, hget]

theorem noCodes_of_noMatch (xs : List Char) (h : hasMatch mC xs = false) : RestSpec.NoCodes xs = true := by
  induction xs with
  | nil => rfl
  | cons c t ih =>
    simp only [hasMatch, Bool.or_eq_false_iff, decide_eq_false_iff_not] at h
    simp only [RestSpec.NoCodes, Bool.and_eq_true, Bool.not_eq_true']
    refine ⟨?_, ih h.2⟩
    cases hc : RestSpec.codeAt (c :: t) with
    | false => rfl
    | true => exact absurd (mC_of_codeAt _ hc) (by omega)

/-! ## trimming cannot create a code -/

theorem noCodes_dropWhile (p : Char → Bool) (xs : List Char) (h : RestSpec.NoCodes xs = true) :
    RestSpec.NoCodes (xs.dropWhile p) = true := by
  induction xs with
  | nil => simpa using h
  | cons c t ih =>
    simp only [RestSpec.NoCodes, Bool.and_eq_true] at h
    rw [List.dropWhile_cons]
    split
    · exact ih h.2
    · simp only [RestSpec.NoCodes, Bool.and_eq_true]; exact h

theorem dropWhile_append_of_cons {α : Type} (p : α → Bool) (l s : List α) (y : α) (r : List α)
    (h : l.dropWhile p = y :: r) : (l ++ s).dropWhile p = y :: (r ++ s) := by
  induction l with
  | nil => simp at h
  | cons x t ih =>
    rw [List.dropWhile_cons] at h
    rw [List.cons_append, List.dropWhile_cons]
    split at h
    · next hx => simp only [hx, if_true]; exact ih h
    · next hx => simp only [hx]; cases h; rfl

/-- a code at the head of a text is still there when the text is extended -/
theorem codeAt_append (xs s : List Char) (h : RestSpec.codeAt xs = true) : RestSpec.codeAt (xs ++ s) = true := by
  rcases codeAt_cases xs h with ⟨x, r, rfl, hx⟩ | ⟨s', x, r, rfl, hs, hx⟩ | ⟨c, x, t, r, rfl, hc, hw, hd⟩
  · simp [RestSpec.codeAt, RestSpec.simpleCodeBody, hx]
  · have : (s' == '\\' || s' == '/') = true := by rcases hs with rfl | rfl <;> decide
    simp [RestSpec.codeAt, RestSpec.simpleCodeBody, hx, this]
  · have hd' := dropWhile_append_of_cons nonBracket t s ']' r hd
    have hc' : (c == 'c' || c == 'C') = true := by rcases hc with rfl | rfl <;> decide
    have hd'' : List.dropWhile (fun y => y != '[' && y != ']') (t ++ s) = ']' :: (r ++ s) := hd'
    simp only [List.cons_append, RestSpec.codeAt, hc', hw, hd'', Bool.not_false, Bool.and_self, Bool.or_true]

theorem noCodes_prefix (pre suf : List Char) (h : RestSpec.NoCodes (pre ++ suf) = true) :
    RestSpec.NoCodes pre = true := by
  induction pre with
  | nil => rfl
  | cons c t ih =>
    simp only [List.cons_append, RestSpec.NoCodes, Bool.and_eq_true, Bool.not_eq_true'] at h ⊢
    refine ⟨?_, ih h.2⟩
    cases hc : RestSpec.codeAt (c :: t) with
    | false => rfl
    | true =>
      have := codeAt_append (c :: t) suf hc
      rw [List.cons_append, h.1] at this
      cases this

theorem noCodes_trimSpace (xs : List Char) (h : RestSpec.NoCodes xs = true) :
    RestSpec.NoCodes (trimSpace xs) = true := by
  unfold trimSpace
  have h1 := noCodes_dropWhile isSpace xs h
  generalize xs.dropWhile isSpace = ys at h1
  have e : ys = (ys.reverse.dropWhile isSpace).reverse ++ (ys.reverse.takeWhile isSpace).reverse := by
    rw [← List.reverse_append, List.takeWhile_append_dropWhile, List.reverse_reverse]
  rw [e] at h1
  exact noCodes_prefix _ _ h1

/-- **`Clean` leaves no style code** -/
theorem clean_noCodes (h : List Char) : RestSpec.NoCodes (clean h) = true := by
  unfold clean
  exact noCodes_trimSpace _ (noCodes_of_noMatch _ (cleanLoop_noMatch (h.length + 1) h (by omega)))

end Swat4.Styles
