import Swat4.Lemmas.Backed
/-!
# C16: a retry mark is cleared only by a probe outcome

`Backed` says every mark has a probe; the companion fact is that nobody but the prober's outcome handling
(`HandleSuccess`, `HandleFailure`) ever *clears* a mark: the reporter (heartbeat, keepalive, removal), the REST
submission, the refresher, the reviver and the cleaners either leave a stored row's `*_retry` bits alone, add one,
or remove the whole row (removal, cleaners).

`Keeps s0 sv`: the record `sv` carries every retry mark that the row stored under its key in the initial store
`s0` carried.  `Pres rm s0 p`: a walk over the program tree — every record `p` writes, and every record one of its
conflict callbacks makes out of a stored record, `Keeps s0`, given that every record a repository call returned
does; `rm = false` additionally forbids `Remove`.  `Pres.runChoices`: then along every crash / fault prefix of a
run from `s0` every row keeps the marks of the row `s0` had under that key, and (`rm = false`) no row disappears.
-/
namespace Swat4.C16.Marks
open Swat4 Swat4.UC Std Swat4.C16

/-- `sv` carries every retry mark the row stored under its key in `s0` carried -/
def Keeps (s0 : AbsState) (sv : Server) : Prop :=
  ∀ row0, s0.servers[sv.addr.key]? = some row0 → ∀ g, Marked row0.svr g → Marked sv g

/-- the invariant along a run from `s0` -/
structure MInv (rm : Bool) (s0 s : AbsState) : Prop where
  keyed : Keyed s
  keeps : ∀ (k : Nat) (row : SRow), s.servers[k]? = some row → Keeps s0 row.svr
  stays : rm = false → ∀ k : Nat, (s0.servers[k]?).isSome → (s.servers[k]?).isSome

/-- a conflict callback turns a mark-keeping record into a mark-keeping record -/
def ResOK (s0 : AbsState) (res : Resolver) : Prop := ∀ x r, Keeps s0 x → res x = some r → Keeps s0 r

def CallOK (rm : Bool) (s0 : AbsState) : {β : Type} → Call β → Prop
  | _, .addServer svr res => Keeps s0 svr ∧ ResOK s0 res
  | _, .updateServer svr res => Keeps s0 svr ∧ ResOK s0 res
  | _, .updateServerT svr res => Keeps s0 svr ∧ ∀ t, ResOK s0 (res t)
  | _, .removeServer _ _ => rm = true
  | _, _ => True

def svrReply (s0 : AbsState) (b : Except RErr Server) : Prop := ∀ sv, b = .ok sv → Keeps s0 sv
def listReply (s0 : AbsState) (b : Except RErr (List Server)) : Prop := ∀ l, b = .ok l → ∀ sv ∈ l, Keeps s0 sv

/-- what a program may assume about a reply: returned records keep the marks; when nothing is ever removed, a
"not found" means the initial store had no row under that key either -/
def ReplyOK (rm : Bool) (s0 : AbsState) : {β : Type} → Call β → β → Prop
  | _, .getServer a, b => svrReply s0 b ∧ (rm = false → b = .error .serverNotFound → s0.servers[a.key]? = none)
  | _, .addServer _ _, b => svrReply s0 b
  | _, .updateServer _ _, b => svrReply s0 b
  | _, .updateServerT _ _, b => svrReply s0 b
  | _, .filterServers _, b => listReply s0 b
  | _, .scanServers _, b => listReply s0 b
  | _, .fetchServers _, b => listReply s0 b
  | _, _, _ => True

inductive Pres (rm : Bool) (s0 : AbsState) {α : Type} : Prog α → Prop where
  | ret (a : α) : Pres rm s0 (.ret a)
  | call {β : Type} (c : Call β) (k : β → Prog α) : CallOK rm s0 c → (∀ b, ReplyOK rm s0 c b → Pres rm s0 (k b)) →
      Pres rm s0 (.call c k)

variable {rm : Bool} {s0 : AbsState}

theorem Pres.pure {α : Type} (a : α) : Pres rm s0 (pure a : Prog α) := Pres.ret a

theorem Pres.bind {α β : Type} {p : Prog α} {f : α → Prog β} (hp : Pres rm s0 p) (hf : ∀ a, Pres rm s0 (f a)) :
    Pres rm s0 (p.bind f) := by
  induction hp with
  | ret a => exact hf a
  | call c k hc _ ih => exact Pres.call c _ hc fun b hb => ih b hb

/-! ## one call -/

theorem minv_of_servers {s s' : AbsState} (h : s'.servers = s.servers) (hi : MInv rm s0 s) : MInv rm s0 s' :=
  ⟨fun k row hr => hi.keyed k row (by rw [← h]; exact hr), fun k row hr => hi.keeps k row (by rw [← h]; exact hr),
   fun hrm k hk => by rw [h]; exact hi.stays hrm k hk⟩

theorem erase_minv {s : AbsState} (hi : MInv rm s0 s) (hrm : rm = true) (k0 : Nat) :
    MInv rm s0 { s with servers := s.servers.erase k0 } := by
  refine ⟨?_, ?_, fun hf => by rw [hrm] at hf; cases hf⟩
  · intro k row h
    simp only [ExtTreeMap.getElem?_erase] at h
    split at h
    · cases h
    · exact hi.keyed k row h
  · intro k row h
    simp only [ExtTreeMap.getElem?_erase] at h
    split at h
    · cases h
    · exact hi.keeps k row h

theorem save_minv {s : AbsState} (hi : MInv rm s0 s) (now : Int) (svr : Server) (hs : Keeps s0 svr) :
    MInv rm s0 (s.save now svr).1 ∧ Keeps s0 (s.save now svr).2 := by
  have hs' : Keeps s0 { svr with version := svr.version + 1 } := fun row0 h g hm => hs row0 h g hm
  refine ⟨⟨?_, ?_, ?_⟩, hs'⟩
  · intro k row h
    simp only [AbsState.save, ExtTreeMap.getElem?_insert] at h
    split at h
    · rename_i heq
      cases h
      simpa using heq
    · exact hi.keyed k row h
  · intro k row h
    simp only [AbsState.save, ExtTreeMap.getElem?_insert] at h
    split at h
    · cases h; exact hs'
    · exact hi.keeps k row h
  · intro hrm k hk
    simp only [AbsState.save, ExtTreeMap.getElem?_insert]
    split
    · rfl
    · exact hi.stays hrm k hk

theorem add_minv {s : AbsState} (hi : MInv rm s0 s) (now : Int) (svr : Server) (res : Resolver)
    (hs : Keeps s0 svr) (hres : ResOK s0 res) :
    MInv rm s0 (s.add now svr res).1 ∧ svrReply s0 (s.add now svr res).2 := by
  unfold AbsState.add
  cases hrow : s.getRow svr.addr with
  | none =>
    obtain ⟨a, c⟩ := save_minv hi now svr hs
    exact ⟨a, fun sv h => by cases h; exact c⟩
  | some ex =>
    have hrow' : s.servers[svr.addr.key]? = some ex := hrow
    simp only
    cases hx : res ex.svr with
    | none => exact ⟨hi, fun sv h => by cases h⟩
    | some resolved =>
      obtain ⟨a, c⟩ := save_minv hi now resolved (hres ex.svr resolved (hi.keeps _ _ hrow') hx)
      exact ⟨a, fun sv h => by cases h; exact c⟩

theorem update_minv {s : AbsState} (hi : MInv rm s0 s) (now : Int) (svr : Server) (res : Resolver)
    (hs : Keeps s0 svr) (hres : ResOK s0 res) :
    MInv rm s0 (s.update now svr res).1 ∧ svrReply s0 (s.update now svr res).2 := by
  unfold AbsState.update
  cases hrow : s.getRow svr.addr with
  | none => exact ⟨hi, fun sv h => by cases h⟩
  | some ex =>
    have hrow' : s.servers[svr.addr.key]? = some ex := hrow
    simp only
    split
    · cases hx : res ex.svr with
      | none => exact ⟨hi, fun sv h => by cases h; exact hi.keeps _ _ hrow'⟩
      | some resolved =>
        obtain ⟨a, c⟩ := save_minv hi now resolved (hres ex.svr resolved (hi.keeps _ _ hrow') hx)
        exact ⟨a, fun sv h => by cases h; exact c⟩
    · obtain ⟨a, c⟩ := save_minv hi now svr hs
      exact ⟨a, fun sv h => by cases h; exact c⟩

theorem remove_minv {s : AbsState} (hi : MInv rm s0 s) (hrm : rm = true) (svr : Server) (res : Resolver) :
    MInv rm s0 (s.remove svr res).1 := by
  unfold AbsState.remove
  cases s.getRow svr.addr with
  | none => exact hi
  | some ex =>
    simp only
    split
    · cases res ex.svr with
      | none => exact hi
      | some r => exact erase_minv hi hrm _
    · exact erase_minv hi hrm _

theorem popMany_servers (s : AbsState) (now : Int) (n : Int) : (s.popMany now n).1.servers = s.servers := by
  unfold AbsState.popMany; split <;> rfl

theorem filter_keeps {s : AbsState} (hi : MInv rm s0 s) (fs : FilterSet) : ∀ sv ∈ s.filter fs, Keeps s0 sv := by
  intro sv hsv
  unfold AbsState.filter at hsv
  simp only [List.mem_map, List.mem_filter] at hsv
  obtain ⟨kv, ⟨hm, _⟩, rfl⟩ := hsv
  exact hi.keeps _ _ (ExtTreeMap.mem_toList_iff_getElem?_eq_some.1 hm)

/-- **one call** keeps the invariant and its reply is as `ReplyOK` says -/
theorem exec_minv {β : Type} (c : Call β) (s : AbsState) (now : Int) (hcall : CallOK rm s0 c) (hi : MInv rm s0 s) :
    MInv rm s0 (c.exec s now).1 ∧ ReplyOK rm s0 c (c.exec s now).2 := by
  cases c with
  | now => exact ⟨hi, trivial⟩
  | getServer a =>
    refine ⟨hi, ?_, ?_⟩
    · intro sv h
      simp only [Call.exec, AbsState.get] at h
      cases hrow : s.getRow a with
      | none => rw [hrow] at h; cases h
      | some row =>
        rw [hrow] at h
        cases h
        exact hi.keeps a.key row hrow
    · intro hrm h
      simp only [Call.exec, AbsState.get] at h
      cases hrow : s.getRow a with
      | some row => rw [hrow] at h; cases h
      | none =>
        have hnone : s.servers[a.key]? = none := hrow
        cases h0 : s0.servers[a.key]? with
        | none => rfl
        | some r0 =>
          have := hi.stays hrm a.key (by rw [h0]; rfl)
          rw [hnone] at this
          cases this
  | addServer svr res => exact add_minv hi now svr res hcall.1 hcall.2
  | updateServer svr res => exact update_minv hi now svr res hcall.1 hcall.2
  | updateServerT svr res => exact update_minv hi now svr (res now) hcall.1 (hcall.2 now)
  | removeServer svr res => exact ⟨remove_minv hi hcall svr res, trivial⟩
  | filterServers fs => exact ⟨hi, fun l h => by cases h; exact filter_keeps hi fs⟩
  | scanServers fs => exact ⟨hi, fun l h => by cases h; exact filter_keeps hi fs⟩
  | fetchServers addrs =>
    refine ⟨hi, fun l h => ?_⟩
    cases h
    intro sv hsv
    simp only [List.mem_filterMap] at hsv
    obtain ⟨a, _, ha⟩ := hsv
    cases hrow : s.getRow a with
    | none => rw [hrow] at ha; cases ha
    | some row =>
      rw [hrow] at ha
      cases ha
      exact hi.keeps a.key row hrow
  | insAdd i => exact ⟨minv_of_servers (s := s) (s' := s.insAdd now i) rfl hi, trivial⟩
  | insGet id => exact ⟨hi, trivial⟩
  | insRemove id => exact ⟨minv_of_servers (s := s) (s' := s.insRemove id) rfl hi, trivial⟩
  | insClear before => exact ⟨minv_of_servers (s := s) (s' := (s.insClear before).1) rfl hi, trivial⟩
  | enqueue p after before => exact ⟨minv_of_servers (enqueue_servers s now p after before) hi, trivial⟩
  | popMany n => exact ⟨minv_of_servers (popMany_servers s now n) hi, trivial⟩

/-- a storage-error reply satisfies every reply assumption -/
theorem fault_reply {β : Type} (c : Call β) (e : β) (he : c.faultReply = some e) : ReplyOK rm s0 c e := by
  cases c <;> simp [Call.faultReply] at he <;> subst he <;>
    simp [ReplyOK, svrReply, listReply]

/-- **every crash / fault prefix** of a run keeps the invariant -/
theorem Pres.runChoices {α : Type} {p : Prog α} (hp : Pres rm s0 p) :
    ∀ (cs : List Choice) (s : AbsState) (now : Int), MInv rm s0 s → MInv rm s0 (p.runChoices cs s now) := by
  induction hp with
  | ret a => intro cs s now hi; cases cs <;> exact hi
  | call c k hcall _ ih =>
    intro cs s now hi
    cases cs with
    | nil => exact hi
    | cons ch cs =>
      obtain ⟨a, d⟩ := exec_minv c s now hcall hi
      cases hf : c.faultReply with
      | none =>
        cases ch
        · simp only [Prog.runChoices]; exact ih _ d cs _ now a
        · simp only [Prog.runChoices, hf]; exact ih _ d cs _ now a
        · simp only [Prog.runChoices, hf]; exact ih _ d cs _ now a
      | some e =>
        have fe := fault_reply (rm := rm) (s0 := s0) c e hf
        cases ch
        · simp only [Prog.runChoices]; exact ih _ d cs _ now a
        · simp only [Prog.runChoices, hf]; exact ih e fe cs s now hi
        · simp only [Prog.runChoices, hf]; exact ih e fe cs _ now a

/-- a keyed store keeps its own marks -/
theorem MInv.init {s : AbsState} (hk : Keyed s) : MInv rm s s := by
  refine ⟨hk, fun k row hr row0 h0 g hm => ?_, fun _ _ h => h⟩
  rw [hk k row hr, hr] at h0
  cases h0
  exact hm

/-- what the property file states: every row still present keeps the marks it had; with `rm = false` no row is gone -/
def MarksKept (rm : Bool) (s s' : AbsState) : Prop :=
  (∀ (k : Nat) (row : SRow) (g : Goal), s.servers[k]? = some row → Marked row.svr g →
    ∀ row', s'.servers[k]? = some row' → Marked row'.svr g) ∧
  (rm = false → ∀ k : Nat, (s.servers[k]?).isSome → (s'.servers[k]?).isSome)

theorem MInv.marksKept {s s' : AbsState} (h : MInv rm s s') : MarksKept rm s s' := by
  refine ⟨fun k row g hr hm row' hr' => ?_, h.stays⟩
  have hk := h.keyed k row' hr'
  exact h.keeps k row' hr' row (by rw [hk]; exact hr) g hm

theorem Pres.marksKept {α : Type} {s : AbsState} {p : Prog α} (hp : Pres rm s p) (hk : Keyed s) (cs : List Choice) (now : Int) :
    MarksKept rm s (p.runChoices cs s now) :=
  (hp.runChoices cs s now (MInv.init hk)).marksKept

/-! ## status algebra: what the non-prober writes do to the two retry bits -/

theorem keep_reported : ∀ (w : Status) (g : Goal),
    Status.has w (retryMark g) = true → Status.has (Status.update w (Status.master ||| Status.info)) (retryMark g) = true := by
  intro w g; cases g <;> revert w <;> decide

theorem keep_portRetry : ∀ (w : Status) (g : Goal),
    Status.has w (retryMark g) = true → Status.has (Status.update w Status.portRetry) (retryMark g) = true := by
  intro w g; cases g <;> revert w <;> decide

theorem keep_retryStatus : ∀ (g0 : Goal) (w : Status) (g : Goal),
    Status.has w (retryMark g) = true → Status.has (retryStatus g0 w) (retryMark g) = true := by
  intro g0 w g; cases g0 <;> cases g <;> revert w <;> decide

theorem Keeps.status {sv sv' : Server} (h : Keeps s0 sv) (ha : sv'.addr = sv.addr)
    (hs : ∀ g, Marked sv g → Marked sv' g) : Keeps s0 sv' := by
  intro row0 h0 g hm
  rw [ha] at h0
  exact hs g (h row0 h0 g hm)

/-! ## the use cases -/

theorem maybeDiscoverPort_pres (maxRetries : Int) (svr : Server) (hs : Keeps s0 svr) :
    Pres rm s0 (maybeDiscoverPort maxRetries svr) := by
  unfold maybeDiscoverPort
  split
  · exact Pres.pure _
  · refine Pres.call _ _ trivial fun b _ => ?_
    cases b with
    | error e => exact Pres.pure _
    | ok u =>
      refine Pres.call _ _ ⟨hs.status rfl (fun g hg => keep_portRetry _ g hg), ?_⟩ fun _ _ => Pres.pure _
      intro x r hx hres
      dsimp only at hres
      split at hres
      · cases hres
      · cases hres; exact hx.status rfl (fun g hg => keep_portRetry _ g hg)

theorem reportCont_pres (maxRetries : Int) (req : ReportReq) (svr : Server) (hs : Keeps s0 svr) :
    Pres rm s0 (reportCont maxRetries req svr) := by
  unfold reportCont
  split
  · exact Pres.pure _
  · rename_i info _
    refine Pres.call _ _ trivial fun now _ => ?_
    refine Pres.call _ _ ⟨hs.status rfl (fun g hg => keep_reported _ g hg), ?_⟩ fun r hr => ?_
    · intro x r hx hres
      cases hres
      exact hx.status rfl (fun g hg => keep_reported _ g hg)
    · cases r with
      | error e => exact Pres.pure _
      | ok svr' =>
        refine Pres.call _ _ trivial fun r _ => ?_
        cases r with
        | error e => exact Pres.pure _
        | ok u => exact Pres.bind (maybeDiscoverPort_pres maxRetries svr' (hr svr' rfl)) fun _ => Pres.pure _

/-- a record made for an address the initial store has no row for keeps (vacuously) its marks -/
theorem keeps_of_absent {sv : Server} {a : Addr} (ha : sv.addr = a) (h0 : s0.servers[a.key]? = none) : Keeps s0 sv := by
  intro row0 h; rw [ha, h0] at h; cases h

/-- `reportserver.Execute` (heartbeat): keeps every mark, removes nothing -/
theorem report_pres (zeroInfo : Fields) (maxRetries : Int) (req : ReportReq) :
    Pres false s0 (UC.report zeroInfo maxRetries req) := by
  rw [report_eq]
  refine Pres.call _ _ trivial fun r hr => ?_
  split
  · rename_i svr
    exact reportCont_pres maxRetries req svr (hr.1 svr rfl)
  · split
    · exact Pres.pure _
    · rename_i svr hsv
      exact reportCont_pres maxRetries req svr (keeps_of_absent (newServer_spec hsv).1 (hr.2 rfl rfl))
  · exact Pres.pure _

/-- `renewserver.Execute` (keepalive): rewrites the refresh time only -/
theorem renew_pres (instanceId srcIp : Nat) : Pres false s0 (UC.renew instanceId srcIp) := by
  unfold UC.renew
  refine Pres.call _ _ trivial fun r _ => ?_
  cases r with
  | error e => exact Pres.pure _
  | ok inst =>
    dsimp only
    split
    · exact Pres.pure _
    · refine Pres.call _ _ trivial fun r hr => ?_
      cases r with
      | error e => exact Pres.pure _
      | ok svr =>
        refine Pres.call _ _ trivial fun now _ => ?_
        refine Pres.call _ _ ⟨(hr.1 svr rfl).status rfl (fun g hg => hg), ?_⟩ fun r _ => ?_
        · intro x r hx hres
          cases hres
          exact hx.status rfl (fun g hg => hg)
        · cases r <;> exact Pres.pure _

/-- `removeserver.Execute`: removes a row or leaves everything alone -/
theorem remove_pres (instanceId : Nat) (a : Addr) : Pres true s0 (UC.remove instanceId a) := by
  unfold UC.remove
  refine Pres.call _ _ trivial fun r _ => ?_
  split
  · exact Pres.pure _
  · exact Pres.pure _
  · refine Pres.call _ _ trivial fun r _ => ?_
    split
    · exact Pres.pure _
    · exact Pres.pure _
    · split
      · exact Pres.pure _
      · refine Pres.call _ _ rfl fun r _ => ?_
        cases r with
        | error e => exact Pres.pure _
        | ok u =>
          refine Pres.call _ _ trivial fun r _ => ?_
          cases r <;> exact Pres.pure _

theorem discoverServer_pres (maxRetries : Int) (svr : Server) (hs : Keeps s0 svr) :
    Pres rm s0 (discoverServer maxRetries svr) := by
  unfold discoverServer
  refine Pres.call _ _ trivial fun r _ => ?_
  cases r with
  | error e => exact Pres.pure _
  | ok u =>
    refine Pres.call _ _ ⟨hs.status rfl (fun g hg => keep_portRetry _ g hg), ?_⟩ fun r _ => ?_
    · intro x r hx hres
      dsimp only at hres
      split at hres
      · cases hres
      · cases hres; exact hx.status rfl (fun g hg => keep_portRetry _ g hg)
    · cases r <;> exact Pres.pure _

theorem maybeDiscoverServer_pres (maxRetries : Int) (svr : Server) (hs : Keeps s0 svr) :
    Pres rm s0 (maybeDiscoverServer maxRetries svr) := by
  unfold maybeDiscoverServer
  split
  · exact Pres.pure _
  · split
    · exact Pres.pure _
    · split
      · exact Pres.pure _
      · exact Pres.bind (discoverServer_pres maxRetries svr hs) fun _ => Pres.pure _

/-- `addserver.Execute` (REST submission, "discover"): keeps every mark, removes nothing -/
theorem addServer_pres (zeroInfo : Fields) (maxRetries : Int) (a : Addr) :
    Pres false s0 (UC.addServer zeroInfo maxRetries a) := by
  unfold UC.addServer
  refine Pres.call _ _ trivial fun r hr => ?_
  split
  · rename_i svr
    exact maybeDiscoverServer_pres maxRetries svr (hr.1 svr rfl)
  · split
    · exact Pres.pure _
    · rename_i svr hsv
      refine Pres.call _ _ ⟨keeps_of_absent (newServer_spec hsv).1 (hr.2 rfl rfl), fun x r _ hres => by cases hres⟩
        fun r hr' => ?_
      cases r with
      | error e => exact Pres.pure _
      | ok svr' => exact maybeDiscoverServer_pres maxRetries svr' (hr' svr' rfl)
  · exact Pres.pure _

theorem enqueueAll_pres (mk : Server → Probe × GoTime × GoTime) (l : List Server) (n : Nat) :
    Pres rm s0 (enqueueAll mk l n) := by
  induction l generalizing n with
  | nil => exact Pres.pure _
  | cons s rest ih =>
    unfold enqueueAll
    refine Pres.call _ _ trivial fun r _ => ?_
    cases r with
    | error e => exact ih _
    | ok u => exact ih _

/-- `refreshservers.Execute`: a query and enqueues -/
theorem refresh_pres (maxRetries deadline : Int) : Pres false s0 (UC.refresh maxRetries deadline) := by
  unfold UC.refresh
  refine Pres.call _ _ trivial fun r _ => ?_
  cases r with
  | error e => exact Pres.pure _
  | ok svrs => exact Pres.bind (enqueueAll_pres _ svrs 0) fun _ => Pres.pure _

/-- `reviveservers.Execute`: a query and enqueues -/
theorem revive_pres (maxRetries minScope maxScope minCountdown maxCountdown deadline : Int) (draws : Nat → Int) :
    Pres false s0 (UC.revive maxRetries minScope maxScope minCountdown maxCountdown deadline draws) := by
  unfold UC.revive
  refine Pres.call _ _ trivial fun r _ => ?_
  cases r with
  | error e => exact Pres.pure _
  | ok svrs => exact Pres.bind (enqueueAll_pres _ svrs 0) fun _ => Pres.pure _

theorem removeAll_pres (cleanUntil : Int) (l : List Server) (removed errors : Nat) :
    Pres true s0 (removeAll cleanUntil l removed errors) := by
  induction l generalizing removed errors with
  | nil => exact Pres.pure _
  | cons s rest ih =>
    unfold removeAll
    refine Pres.call _ _ rfl fun r _ => ?_
    cases r with
    | error e => exact ih _ _
    | ok u => exact ih _ _

/-- `ServerCleaner.Clean`, atomic `Filter` -/
theorem cleanServers_pres (retention : Int) : Pres true s0 (UC.cleanServers retention) := by
  unfold UC.cleanServers
  refine Pres.call _ _ trivial fun now _ => ?_
  refine Pres.call _ _ trivial fun r _ => ?_
  cases r with
  | error e => exact Pres.pure _
  | ok svrs => exact removeAll_pres _ svrs 0 0

/-- `ServerCleaner.Clean` at storage-command granularity -/
theorem cleanServers2_pres (retention : Int) : Pres true s0 (UC.cleanServers2 retention) := by
  unfold UC.cleanServers2
  refine Pres.call _ _ trivial fun now _ => ?_
  refine Pres.call _ _ trivial fun r _ => ?_
  cases r with
  | error e => exact Pres.pure _
  | ok scanned =>
    dsimp only
    split
    · exact Pres.pure _
    · refine Pres.call _ _ trivial fun r _ => ?_
      cases r with
      | error e => exact Pres.pure _
      | ok svrs => exact removeAll_pres _ _ 0 0

/-- the prober's *retry* path with budget left (`probeserver.retry`: re-queue, then `HandleRetry`) also keeps every
mark — `HandleRetry` only adds a bit (`keep_retryStatus`).  `HandleSuccess` and `HandleFailure` are the two writes in
the system that clear one (`outcomes_clear_mark` in the property file), and they are not `Pres`. -/
theorem probeRetry_budget_pres (prb : Probe) (svr : Server) (hs : Keeps s0 svr) (hb : prb.retries < prb.maxRetries) :
    Pres false s0 (probeRetry prb svr) := by
  unfold probeRetry Probe.incRetries
  have : ¬ prb.retries ≥ prb.maxRetries := by omega
  simp only [this, if_false, Bool.not_true, Bool.false_eq_true]
  refine Pres.call _ _ trivial fun now _ => ?_
  refine Pres.call _ _ trivial fun r _ => ?_
  cases r with
  | error e => exact Pres.pure _
  | ok u =>
    refine Pres.call _ _ ⟨hs.status rfl (fun g hg => keep_retryStatus _ _ g hg), ?_⟩ fun r _ => ?_
    · intro x r hx hres
      cases hres
      exact hx.status rfl (fun g hg => keep_retryStatus _ _ g hg)
    · cases r <;> exact Pres.pure _

end Swat4.C16.Marks
