import Swat4.Model.StoreMachine
/-!
# Lock fencing (C09): the inductive invariant of the interleaved registry writers

Full-machine version of `design-spikes/LockFencing_Proof.lean`: per-address lock cells, several
addresses, retries with fresh tokens, the real `decide`, readers, lease expiry with both
semantics (`Sys.dirties`).

Layout
* `RStore` frame lemmas (`verOf` / `lastOf` / `locks` after `touchLock`, `lockSetNX`, `lockDel`,
  `lockExpire`, `Batch.apply`);
* `StoreRel` — what every store change other than a commit looks like to a watcher;
* `WInv` (per-writer part of the invariant) and `Inv`;
* `inv_of_storeRel`, `inv_of_commit`, `inv_step`, `inv_run`, `clean_unique`.
-/
namespace Swat4
open Std

/-! ## store frame lemmas -/
namespace RStore

@[simp] theorem touchLock_items (st : RStore) (k : Nat) (w : Option Nat) : (st.touchLock k w).items = st.items := rfl
@[simp] theorem touchLock_updated (st : RStore) (k : Nat) (w : Option Nat) : (st.touchLock k w).updated = st.updated := rfl
@[simp] theorem touchLock_refreshed (st : RStore) (k : Nat) (w : Option Nat) : (st.touchLock k w).refreshed = st.refreshed := rfl
@[simp] theorem touchLock_statusSet (st : RStore) (k : Nat) (w : Option Nat) : (st.touchLock k w).statusSet = st.statusSet := rfl
@[simp] theorem touchLock_locks (st : RStore) (k : Nat) (w : Option Nat) : (st.touchLock k w).locks = st.locks := rfl

theorem verOf_touchLock (st : RStore) (k : Nat) (w : Option Nat) (k' : Nat) :
    (st.touchLock k w).verOf k' = if k = k' then st.verOf k + 1 else st.verOf k' := by
  show (((st.lockVer.insert k (st.verOf k + 1))[k']?).getD 0) = _
  rw [ExtTreeMap.getElem?_insert]
  by_cases h : k = k'
  · subst h; simp
  · simp [h, verOf]

theorem lastOf_touchLock (st : RStore) (k : Nat) (w : Option Nat) (k' : Nat) :
    (st.touchLock k w).lastOf k' = if k = k' then w else st.lastOf k' := by
  show (((st.lockLast.insert k w)[k']?).getD none) = _
  rw [ExtTreeMap.getElem?_insert]
  by_cases h : k = k'
  · subst h; simp
  · simp [h, lastOf]

/-- `verOf` / `lastOf` only look at the ghost lock maps -/
theorem verOf_congr {st st' : RStore} (h : st'.lockVer = st.lockVer) (k : Nat) : st'.verOf k = st.verOf k := by
  simp [verOf, h]

theorem lastOf_congr {st st' : RStore} (h : st'.lockLast = st.lockLast) (k : Nat) : st'.lastOf k = st.lastOf k := by
  simp [lastOf, h]

end RStore

/-- the key a batch writes -/
def Batch.key : Batch → Nat
  | .save svr _ => svr.addr.key
  | .remove k => k

namespace Batch

@[simp] theorem apply_locks (b : Batch) (st : RStore) : (b.apply st).locks = st.locks := by
  cases b <;> rfl
@[simp] theorem apply_lockVer (b : Batch) (st : RStore) : (b.apply st).lockVer = st.lockVer := by
  cases b <;> rfl
@[simp] theorem apply_lockLast (b : Batch) (st : RStore) : (b.apply st).lockLast = st.lockLast := by
  cases b <;> rfl
@[simp] theorem apply_verOf (b : Batch) (st : RStore) (k : Nat) : (b.apply st).verOf k = st.verOf k :=
  RStore.verOf_congr (apply_lockVer b st) k
@[simp] theorem apply_lastOf (b : Batch) (st : RStore) (k : Nat) : (b.apply st).lastOf k = st.lastOf k :=
  RStore.lastOf_congr (apply_lockLast b st) k

/-- a batch changes `servers:items` only at its own key -/
theorem apply_items_of_ne (b : Batch) (st : RStore) (k : Nat) (h : b.key ≠ k) :
    (b.apply st).items[k]? = st.items[k]? := by
  cases b with
  | save svr now =>
    show (st.items.insert svr.addr.key svr)[k]? = _
    rw [ExtTreeMap.getElem?_insert]
    have : ¬ svr.addr.key = k := h
    simp [this]
  | remove k0 =>
    show (st.items.erase k0)[k]? = _
    rw [ExtTreeMap.getElem?_erase]
    have : ¬ k0 = k := h
    simp [this]

/-- what a batch leaves at its own key -/
theorem apply_items_self (b : Batch) (st : RStore) :
    (b.apply st).items[b.key]? = match b with | .save svr _ => some svr | .remove _ => none := by
  cases b with
  | save svr now =>
    show (st.items.insert svr.addr.key svr)[svr.addr.key]? = _
    simp
  | remove k0 =>
    show (st.items.erase k0)[k0]? = _
    simp

end Batch

/-! ## the decision function -/

def AddrPreserving (res : Resolver) : Prop := ∀ s r, res s = some r → r.addr = s.addr

/-- with an address-preserving resolver and a record stored under the caller's address, the batch
`decide` produces writes the caller's own key, and a saved record carries that address -/
theorem decide_key {op : WOp} {ex : Option Server} {now : Int} {b : Batch} {r : WResult}
    (hap : AddrPreserving op.res) (hex : ∀ e, ex = some e → e.addr.key = op.svr.addr.key)
    (h : decide op ex now = .inr (b, r)) : b.key = op.svr.addr.key := by
  unfold decide at h
  split at h
  · cases h; rfl
  · rename_i e
    split at h
    · cases h
    · rename_i r' hr
      cases h
      show r'.addr.key = _
      rw [hap _ _ hr]; exact hex _ rfl
  · cases h
  · rename_i e
    split at h
    · split at h
      · cases h
      · rename_i r' hr
        cases h
        show r'.addr.key = _
        rw [hap _ _ hr]; exact hex _ rfl
    · cases h; rfl
  · cases h
  · rename_i e
    split at h
    · split at h
      · cases h
      · rename_i r' hr
        cases h
        show r'.addr.key = _
        rw [hap _ _ hr]; exact hex _ rfl
    · cases h; rfl

/-! ## what a store change other than a commit looks like to a watcher -/

/-- the four `servers:*` row families agree -/
def RStore.RowsEq (a b : RStore) : Prop :=
  a.items = b.items ∧ a.updated = b.updated ∧ a.refreshed = b.refreshed ∧ a.statusSet = b.statusSet

theorem RStore.RowsEq.refl (a : RStore) : a.RowsEq a := ⟨rfl, rfl, rfl, rfl⟩

theorem RStore.RowsEq.trans {a b c : RStore} (h1 : a.RowsEq b) (h2 : b.RowsEq c) : a.RowsEq c :=
  ⟨h1.1.trans h2.1, h1.2.1.trans h2.2.1, h1.2.2.1.trans h2.2.2.1, h1.2.2.2.trans h2.2.2.2⟩

/-- `st'` arises from `st` by lock-key traffic only: rows untouched, WATCH versions only grow, and a
key whose version did not move still has the same last writer -/
structure StoreRel (st st' : RStore) : Prop where
  rows : st'.RowsEq st
  verLe : ∀ k : Nat, st.verOf k ≤ st'.verOf k
  last : ∀ k : Nat, st'.verOf k = st.verOf k → st'.lastOf k = st.lastOf k

theorem StoreRel.refl (st : RStore) : StoreRel st st :=
  ⟨RStore.RowsEq.refl st, fun _ => Nat.le_refl _, fun _ _ => rfl⟩

/-- any modification of lock key `k` (whatever happens to the cell map itself) -/
theorem StoreRel.touch (st : RStore) (k : Nat) (w : Option Nat) (L : ExtTreeMap Nat LockCell) :
    StoreRel st { st.touchLock k w with locks := L } := by
  have hv : ∀ k', ({ st.touchLock k w with locks := L } : RStore).verOf k' = (st.touchLock k w).verOf k' :=
    fun k' => RStore.verOf_congr rfl k'
  have hl : ∀ k', ({ st.touchLock k w with locks := L } : RStore).lastOf k' = (st.touchLock k w).lastOf k' :=
    fun k' => RStore.lastOf_congr rfl k'
  refine ⟨⟨rfl, rfl, rfl, rfl⟩, ?_, ?_⟩
  · intro k'; rw [hv, RStore.verOf_touchLock]; split
    · rename_i h; subst h; omega
    · omega
  · intro k'; rw [hv, hl, RStore.verOf_touchLock, RStore.lastOf_touchLock]
    split
    · rename_i h; subst h; intro h; omega
    · intro _; rfl

/-- only the cell map changes (non-dirtying expiry) -/
theorem StoreRel.locksOnly (st : RStore) (L : ExtTreeMap Nat LockCell) :
    StoreRel st { st with locks := L } :=
  ⟨⟨rfl, rfl, rfl, rfl⟩, fun k => Nat.le_of_eq (RStore.verOf_congr rfl k).symm,
   fun k _ => RStore.lastOf_congr rfl k⟩

namespace RStore

theorem lockSetNX_some {st : RStore} {k tok : Nat} {c : LockCell} (h : st.locks[k]? = some c) :
    st.lockSetNX k tok = (st, false) := by
  simp [lockSetNX, h]

theorem lockSetNX_none {st : RStore} {k tok : Nat} (h : st.locks[k]? = none) :
    st.lockSetNX k tok = ({ st.touchLock k (some tok) with locks := st.locks.insert k ⟨tok, true⟩ }, true) := by
  simp [lockSetNX, h]

theorem lockDel_none {st : RStore} {k : Nat} (h : st.locks[k]? = none) : st.lockDel k = st := by
  simp [lockDel, h]

theorem lockDel_some {st : RStore} {k : Nat} {c : LockCell} (h : st.locks[k]? = some c) :
    st.lockDel k = { st.touchLock k none with locks := st.locks.erase k } := by
  simp [lockDel, h]

theorem lockExpire_none {st : RStore} {k : Nat} {d : Bool} (h : st.locks[k]? = none) : st.lockExpire k d = st := by
  simp [lockExpire, h]

theorem lockExpire_some_dirty {st : RStore} {k : Nat} {c : LockCell} (h : st.locks[k]? = some c) :
    st.lockExpire k true = { st.touchLock k none with locks := st.locks.erase k } := by
  simp [lockExpire, h]

theorem lockExpire_some_clean {st : RStore} {k : Nat} {c : LockCell} (h : st.locks[k]? = some c) :
    st.lockExpire k false = { st with locks := st.locks.erase k } := by
  simp [lockExpire, h]

end RStore

/-! ## the invariant -/

def Writer.key (w : Writer) : Nat := w.op.svr.addr.key

/-- the WATCH version a writer carries -/
def WPC.ver? : WPC → Option Nat
  | .ownGet v => some v
  | .hget v => some v
  | .exec v _ _ _ _ => some v
  | _ => none

/-- the WATCH version of a writer that has passed its ownership check -/
def WPC.own? : WPC → Option Nat
  | .hget v => some v
  | .exec v _ _ _ _ => some v
  | _ => none

theorem WPC.ver?_of_own? {pc : WPC} {v : Nat} (h : pc.own? = some v) : pc.ver? = some v := by
  cases pc <;> simp_all [WPC.own?, WPC.ver?]

/-- a writer is *clean*: it passed the ownership check and its lock key has not been modified since its WATCH -/
def Clean (st : RStore) (w : Writer) : Prop := w.pc.own? = some (st.verOf w.key)

/-- per-writer part of the invariant -/
structure WInv (st : RStore) (w : Writer) : Prop where
  verLe : ∀ v : Nat, w.pc.ver? = some v → v ≤ st.verOf w.key
  cleanOwn : Clean st w → st.lastOf w.key = some w.tok
  readCur : ∀ (v : Nat) (ex : Option Server) (now : Int) (b : Batch) (r : WResult),
    w.pc = .exec v ex now b r → v = st.verOf w.key → ex = st.items[w.key]?
  execDecide : ∀ (v : Nat) (ex : Option Server) (now : Int) (b : Batch) (r : WResult),
    w.pc = .exec v ex now b r → decide w.op ex now = .inr (b, r)
  execKey : ∀ (v : Nat) (ex : Option Server) (now : Int) (b : Batch) (r : WResult),
    w.pc = .exec v ex now b r → b.key = w.key
  resAP : AddrPreserving w.op.res

structure Inv (s : Sys) : Prop where
  tokLt : ∀ (i : Nat) (w : Writer), s.clients[i]? = some (.writer w) → w.tok < s.nextTok
  tokInj : ∀ (i j : Nat) (wi wj : Writer), s.clients[i]? = some (.writer wi) → s.clients[j]? = some (.writer wj) →
    wi.tok = wj.tok → i = j
  lastLt : ∀ (k t : Nat), s.store.lastOf k = some t → t < s.nextTok
  valLast : ∀ (k : Nat) (c : LockCell), s.store.locks[k]? = some c → s.store.lastOf k = some c.token
  keyed : ∀ (k : Nat) (r : Server), s.store.items[k]? = some r → r.addr.key = k
  winv : ∀ (i : Nat) (w : Writer), s.clients[i]? = some (.writer w) → WInv s.store w

/-- a writer that carries no WATCH version satisfies its local invariant in any store -/
theorem WInv.of_ver_none {st : RStore} {w : Writer} (hv : w.pc.ver? = none) (hap : AddrPreserving w.op.res) :
    WInv st w := by
  refine ⟨?_, ?_, ?_, ?_, ?_, hap⟩
  · intro v h; rw [hv] at h; cases h
  · intro h; have := WPC.ver?_of_own? h; rw [hv] at this; cases this
  · intro v ex now b r h; rw [h] at hv; cases hv
  · intro v ex now b r h; rw [h] at hv; cases hv
  · intro v ex now b r h; rw [h] at hv; cases hv

/-- lock-key traffic preserves the local invariant of a writer that did not move -/
theorem WInv.mono {st st' : RStore} {w : Writer} (h : WInv st w) (hr : StoreRel st st') : WInv st' w := by
  refine ⟨?_, ?_, ?_, h.execDecide, h.execKey, h.resAP⟩
  · intro v hv; exact Nat.le_trans (h.verLe v hv) (hr.verLe _)
  · intro hc
    have hc' : w.pc.own? = some (st'.verOf w.key) := hc
    have hle := h.verLe _ (WPC.ver?_of_own? hc')
    have heq : st'.verOf w.key = st.verOf w.key := Nat.le_antisymm hle (hr.verLe _)
    rw [hr.last _ heq]
    apply h.cleanOwn
    show w.pc.own? = some (st.verOf w.key)
    rw [← heq]; exact hc'
  · intro v ex now b r hpc hv
    have hle := h.verLe v (by rw [hpc]; rfl)
    have heq : st'.verOf w.key = st.verOf w.key := Nat.le_antisymm (hv ▸ hle) (hr.verLe _)
    rw [hr.rows.1]
    exact h.readCur v ex now b r hpc (hv.trans heq)

/-- **Fencing.** In an `Inv` state at most one writer per address is clean. -/
theorem clean_unique {s : Sys} (h : Inv s) {i j : Nat} {wi wj : Writer}
    (hi : s.clients[i]? = some (.writer wi)) (hj : s.clients[j]? = some (.writer wj))
    (hk : wi.key = wj.key) (ci : Clean s.store wi) (cj : Clean s.store wj) : i = j := by
  have h1 := (h.winv i wi hi).cleanOwn ci
  have h2 := (h.winv j wj hj).cleanOwn cj
  rw [hk, h2] at h1
  exact h.tokInj i j wi wj hi hj (by injection h1 with h1; exact h1.symm)

/-! ## generic preservation lemmas -/

/-- Preservation under every transition that is not a commit: the store moves by lock-key traffic
(`StoreRel`), at most client `i` changes, keeping its token or taking the fresh one, and the new
client `i` satisfies its local invariant in the new store. -/
theorem inv_of_storeRel {s s' : Sys} (h : Inv s) (i : Nat)
    (hrel : StoreRel s.store s'.store)
    (hnt : s.nextTok ≤ s'.nextTok)
    (hlastLt : ∀ (k t : Nat), s'.store.lastOf k = some t → t < s'.nextTok)
    (hval : ∀ (k : Nat) (c : LockCell), s'.store.locks[k]? = some c → s'.store.lastOf k = some c.token)
    (hcl : ∀ (j : Nat) (wj' : Writer), s'.clients[j]? = some (.writer wj') →
      s.clients[j]? = some (.writer wj') ∨
      (j = i ∧ ∃ wj : Writer, s.clients[j]? = some (.writer wj) ∧
        (wj'.tok = wj.tok ∨ (wj'.tok = s.nextTok ∧ s.nextTok < s'.nextTok)) ∧ WInv s'.store wj')) :
    Inv s' := by
  have tokLt' : ∀ (j : Nat) (w : Writer), s'.clients[j]? = some (.writer w) → w.tok < s'.nextTok := by
    intro j w hj
    rcases hcl j w hj with ho | ⟨_, wj, hwj, ht, _⟩
    · exact Nat.lt_of_lt_of_le (h.tokLt j w ho) hnt
    · rcases ht with ht | ⟨ht, hlt⟩
      · rw [ht]; exact Nat.lt_of_lt_of_le (h.tokLt j wj hwj) hnt
      · rw [ht]; exact hlt
  refine ⟨tokLt', ?_, hlastLt, hval, ?_, ?_⟩
  · intro j k wj wk hj hk ht
    rcases hcl j wj hj with hoj | ⟨hji, wj0, hwj0, htj, _⟩ <;>
      rcases hcl k wk hk with hok | ⟨hki, wk0, hwk0, htk, _⟩
    · exact h.tokInj j k wj wk hoj hok ht
    · rcases htk with htk | ⟨htk, _⟩
      · exact h.tokInj j k wj wk0 hoj hwk0 (ht.trans htk)
      · have := h.tokLt j wj hoj; omega
    · rcases htj with htj | ⟨htj, _⟩
      · exact h.tokInj j k wj0 wk hwj0 hok (htj.symm.trans ht)
      · have := h.tokLt k wk hok; omega
    · omega
  · intro k r hk; rw [hrel.rows.1] at hk; exact h.keyed k r hk
  · intro j w hj
    rcases hcl j w hj with ho | ⟨_, _, _, _, hw⟩
    · exact (h.winv j w ho).mono hrel
    · exact hw

/-- Preservation under a commit: client `i` is clean at `exec` and applies its batch. -/
theorem inv_of_commit {s s' : Sys} (h : Inv s) (i : Nat) (w w' : Writer)
    (v : Nat) (ex : Option Server) (now : Int) (b : Batch) (r : WResult)
    (hc : s.clients[i]? = some (.writer w)) (hpc : w.pc = .exec v ex now b r) (hv : v = s.store.verOf w.key)
    (hst : s'.store = b.apply s.store) (hnt : s'.nextTok = s.nextTok)
    (htok : w'.tok = w.tok) (hop : w'.op = w.op) (hver : w'.pc.ver? = none)
    (hcl : ∀ j : Nat, s'.clients[j]? = if j = i then some (.writer w') else s.clients[j]?) :
    Inv s' := by
  have hwi := h.winv i w hc
  have hbk : b.key = w.key := hwi.execKey v ex now b r hpc
  have hclean : Clean s.store w := by show w.pc.own? = _; rw [hpc, ← hv]; rfl
  have hexd := hwi.execDecide v ex now b r hpc
  have hexc := hwi.readCur v ex now b r hpc hv
  refine ⟨?_, ?_, ?_, ?_, ?_, ?_⟩
  · intro j wj hj; rw [hcl] at hj; rw [hnt]
    split at hj
    · cases hj; rw [htok]; exact h.tokLt i w hc
    · exact h.tokLt j wj hj
  · intro j k wj wk hj hk ht; rw [hcl] at hj hk
    split at hj <;> split at hk
    · omega
    · cases hj; rename_i hji _; subst hji; rw [htok] at ht; exact h.tokInj _ _ _ _ hc hk ht
    · cases hk; rename_i _ hki; subst hki; rw [htok] at ht; exact h.tokInj _ _ _ _ hj hc ht
    · exact h.tokInj _ _ _ _ hj hk ht
  · intro k t ht; rw [hst, Batch.apply_lastOf] at ht; rw [hnt]; exact h.lastLt k t ht
  · intro k c hk; rw [hst, Batch.apply_locks] at hk; rw [hst, Batch.apply_lastOf]; exact h.valLast k c hk
  · -- records stay keyed by their address
    intro k rec hk; rw [hst] at hk
    by_cases hkk : b.key = k
    · subst hkk
      rw [Batch.apply_items_self] at hk
      cases b with
      | save svr now' => cases hk; rfl
      | remove k0 => cases hk
    · rw [Batch.apply_items_of_ne b _ k hkk] at hk; exact h.keyed k rec hk
  · intro j wj hj; rw [hcl] at hj
    split at hj
    · cases hj
      exact WInv.of_ver_none hver (hop ▸ hwi.resAP)
    · rename_i hji
      have hwj := h.winv j wj hj
      refine ⟨?_, ?_, ?_, hwj.execDecide, hwj.execKey, hwj.resAP⟩
      · intro v' hv'; rw [hst, Batch.apply_verOf]; exact hwj.verLe v' hv'
      · intro hcj
        have hcj' : Clean s.store wj := by
          show wj.pc.own? = _
          have : wj.pc.own? = some ((b.apply s.store).verOf wj.key) := hst ▸ hcj
          rwa [Batch.apply_verOf] at this
        rw [hst, Batch.apply_lastOf]; exact hwj.cleanOwn hcj'
      · intro v' ex' now' b' r' hpc' hv'
        rw [hst, Batch.apply_verOf] at hv'
        rw [hst]
        by_cases hkk : w.key = wj.key
        · -- a second clean writer on the same address is impossible
          exfalso
          have hcj : Clean s.store wj := by show wj.pc.own? = _; rw [hpc', ← hv']; rfl
          exact hji (clean_unique h hj hc hkk.symm hcj hclean)
        · rw [Batch.apply_items_of_ne b _ _ (by rw [hbk]; exact hkk)]
          exact hwj.readCur v' ex' now' b' r' hpc' hv'

/-! ## the system step, componentwise -/

theorem Sys.step_writer (s : Sys) (i : Nat) (w : Writer) (hc : s.clients[i]? = some (.writer w)) :
    s.step (.step i) =
      { s with store := (wstep s.store s.clock s.nextTok i w).1,
               clients := s.clients.set i (.writer (wstep s.store s.clock s.nextTok i w).2.1),
               nextTok := if (wstep s.store s.clock s.nextTok i w).2.2.1 then s.nextTok + 1 else s.nextTok,
               log := match (wstep s.store s.clock s.nextTok i w).2.2.2 with | some c => s.log ++ [c] | none => s.log } := by
  simp only [Sys.step, hc]
  rfl

theorem Sys.step_reader (s : Sys) (i : Nat) (r : Reader) (hc : s.clients[i]? = some (.reader r)) :
    s.step (.step i) = { s with clients := s.clients.set i (.reader (rstep s.store r)) } := by
  simp only [Sys.step, hc]

theorem Sys.step_none (s : Sys) (i : Nat) (hc : s.clients[i]? = none) : s.step (.step i) = s := by
  simp only [Sys.step, hc]

theorem lt_length_of_getElem? {α : Type} {l : List α} {i : Nat} {a : α} (h : l[i]? = some a) : i < l.length := by
  rcases Nat.lt_or_ge i l.length with hl | hl
  · exact hl
  · rw [List.getElem?_eq_none hl] at h; cases h

theorem getElem?_set_of_some {α : Type} {l : List α} {i : Nat} {a : α} (h : l[i]? = some a) (b : α) (j : Nat) :
    (l.set i b)[j]? = if j = i then some b else l[j]? := by
  have hlt := lt_length_of_getElem? h
  rw [List.getElem?_set]
  by_cases hji : j = i
  · subst hji; simp [hlt]
  · have : ¬ i = j := fun e => hji e.symm
    simp [hji, this]

/-- A writer step that is not a commit, given the computed `wstep` result. -/
theorem inv_wstep_of {s : Sys} (h : Inv s) {i : Nat} {w : Writer} (hc : s.clients[i]? = some (.writer w))
    {st' : RStore} {w' : Writer} {f : Bool} {cm : Option Commit}
    (hr : wstep s.store s.clock s.nextTok i w = (st', w', f, cm))
    (hrel : StoreRel s.store st')
    (hlastLt : ∀ (k t : Nat), st'.lastOf k = some t → t < s.nextTok)
    (hval : ∀ (k : Nat) (c : LockCell), st'.locks[k]? = some c → st'.lastOf k = some c.token)
    (htok : (f = false ∧ w'.tok = w.tok) ∨ (f = true ∧ w'.tok = s.nextTok))
    (hw : WInv st' w') : Inv (s.step (.step i)) := by
  rw [Sys.step_writer s i w hc, hr]
  have hnt : s.nextTok ≤ (if f = true then s.nextTok + 1 else s.nextTok) := by split <;> omega
  refine inv_of_storeRel h i hrel hnt ?_ hval ?_
  · intro k t ht; exact Nat.lt_of_lt_of_le (hlastLt k t ht) hnt
  · intro j wj' hj
    have hj' : (s.clients.set i (.writer w'))[j]? = some (.writer wj') := hj
    rw [getElem?_set_of_some hc] at hj'
    split at hj'
    · rename_i hji
      cases hj'
      refine Or.inr ⟨hji, w, hji ▸ hc, ?_, hw⟩
      rcases htok with ⟨hf, ht⟩ | ⟨hf, ht⟩
      · exact Or.inl ht
      · refine Or.inr ⟨ht, ?_⟩
        show s.nextTok < (if f = true then s.nextTok + 1 else s.nextTok)
        rw [hf]; simp
    · exact Or.inl hj'

/-- store untouched, token kept -/
theorem inv_wstep_quiet {s : Sys} (h : Inv s) {i : Nat} {w : Writer} (hc : s.clients[i]? = some (.writer w))
    {w' : Writer} {cm : Option Commit}
    (hr : wstep s.store s.clock s.nextTok i w = (s.store, w', false, cm))
    (htok : w'.tok = w.tok) (hw : WInv s.store w') : Inv (s.step (.step i)) :=
  inv_wstep_of h hc hr (StoreRel.refl _) h.lastLt h.valLast (Or.inl ⟨rfl, htok⟩) hw

/-- what `afterRelease` does; store untouched -/
theorem inv_wstep_after {s : Sys} (h : Inv s) {i : Nat} {w : Writer} (hc : s.clients[i]? = some (.writer w))
    (a : Attempt)
    (hr : wstep s.store s.clock s.nextTok i w =
      (s.store,
       (match a with
        | .finished r => (({ w with pc := .done r } : Writer), false)
        | .retry =>
          if w.attemptsLeft = 0 then (({ w with pc := .done (.error .lockExhausted) } : Writer), false)
          else (({ w with pc := .setnx, tok := s.nextTok, attemptsLeft := w.attemptsLeft - 1 } : Writer), true)).1,
       (match a with
        | .finished r => (({ w with pc := .done r } : Writer), false)
        | .retry =>
          if w.attemptsLeft = 0 then (({ w with pc := .done (.error .lockExhausted) } : Writer), false)
          else (({ w with pc := .setnx, tok := s.nextTok, attemptsLeft := w.attemptsLeft - 1 } : Writer), true)).2,
       none)) : Inv (s.step (.step i)) := by
  have hap := (h.winv i w hc).resAP
  cases a with
  | finished r =>
    exact inv_wstep_of h hc hr (StoreRel.refl _) h.lastLt h.valLast (Or.inl ⟨rfl, rfl⟩) (WInv.of_ver_none rfl hap)
  | retry =>
    by_cases ha : w.attemptsLeft = 0
    · simp only [ha, if_true] at hr
      exact inv_wstep_of h hc hr (StoreRel.refl _) h.lastLt h.valLast (Or.inl ⟨rfl, rfl⟩) (WInv.of_ver_none rfl hap)
    · simp only [ha, if_false] at hr
      exact inv_wstep_of h hc hr (StoreRel.refl _) h.lastLt h.valLast (Or.inr ⟨rfl, rfl⟩) (WInv.of_ver_none rfl hap)

/-! ## preservation, event by event -/

/-- lease expiry, both semantics -/
theorem inv_expire {s : Sys} (h : Inv s) (k : Nat) : Inv (s.step (.expire k)) := by
  show Inv { s with store := s.store.lockExpire k s.dirties }
  have hcl : ∀ (j : Nat) (wj' : Writer), s.clients[j]? = some (.writer wj') →
      s.clients[j]? = some (.writer wj') ∨
      (j = 0 ∧ ∃ wj : Writer, s.clients[j]? = some (.writer wj) ∧
        (wj'.tok = wj.tok ∨ (wj'.tok = s.nextTok ∧ s.nextTok < s.nextTok)) ∧
          WInv (s.store.lockExpire k s.dirties) wj') := fun _ _ hj => Or.inl hj
  cases hl : s.store.locks[k]? with
  | none => rw [RStore.lockExpire_none hl]; exact h
  | some c =>
    cases hd : s.dirties with
    | true =>
      rw [hd] at hcl
      rw [RStore.lockExpire_some_dirty hl] at hcl ⊢
      refine inv_of_storeRel h 0 (StoreRel.touch _ _ _ _) (Nat.le_refl _) ?_ ?_ hcl
      · intro k' t ht
        have ht' : (s.store.touchLock k none).lastOf k' = some t := ht
        rw [RStore.lastOf_touchLock] at ht'
        split at ht'
        · cases ht'
        · exact h.lastLt k' t ht'
      · intro k' c' hk'
        have hk'' : (s.store.locks.erase k)[k']? = some c' := hk'
        show (s.store.touchLock k none).lastOf k' = _
        rw [ExtTreeMap.getElem?_erase] at hk''
        rw [RStore.lastOf_touchLock]
        by_cases hkk : k = k'
        · simp [hkk] at hk''
        · simp only [Nat.compare_eq_eq, hkk, if_false] at hk'' ⊢
          exact h.valLast k' c' hk''
    | false =>
      rw [hd] at hcl
      rw [RStore.lockExpire_some_clean hl] at hcl ⊢
      refine inv_of_storeRel h 0 (StoreRel.locksOnly _ _) (Nat.le_refl _) ?_ ?_ hcl
      · exact h.lastLt
      · intro k' c' hk'
        have hk'' : (s.store.locks.erase k)[k']? = some c' := hk'
        show s.store.lastOf k' = _
        rw [ExtTreeMap.getElem?_erase] at hk''
        by_cases hkk : k = k'
        · simp [hkk] at hk''
        · simp only [Nat.compare_eq_eq, hkk, if_false] at hk''
          exact h.valLast k' c' hk''

theorem inv_tick {s : Sys} (h : Inv s) (d : Nat) : Inv (s.step (.tick d)) :=
  ⟨h.tokLt, h.tokInj, h.lastLt, h.valLast, h.keyed, h.winv⟩

theorem inv_rstep {s : Sys} (h : Inv s) (i : Nat) (r : Reader) (hc : s.clients[i]? = some (.reader r)) :
    Inv (s.step (.step i)) := by
  rw [Sys.step_reader s i r hc]
  have hcl : ∀ (j : Nat) (w : Writer), (s.clients.set i (.reader (rstep s.store r)))[j]? = some (.writer w) →
      s.clients[j]? = some (.writer w) := by
    intro j w hj
    rw [getElem?_set_of_some hc] at hj
    split at hj
    · cases hj
    · exact hj
  exact ⟨fun j w hj => h.tokLt j w (hcl j w hj),
    fun j k wj wk hj hk => h.tokInj j k wj wk (hcl j wj hj) (hcl k wk hk),
    h.lastLt, h.valLast, h.keyed, fun j w hj => h.winv j w (hcl j w hj)⟩

/-- one storage command of a writer -/
theorem inv_wstep {s : Sys} (h : Inv s) (i : Nat) (w : Writer) (hc : s.clients[i]? = some (.writer w)) :
    Inv (s.step (.step i)) := by
  have hw := h.winv i w hc
  have hap := hw.resAP
  cases hpc : w.pc with
  | setnx =>
    cases hl : s.store.locks[w.key]? with
    | some c =>
      apply inv_wstep_after h hc .retry
      simp only [wstep, hpc]
      rw [RStore.lockSetNX_some (show s.store.locks[w.op.svr.addr.key]? = some c from hl)]
      rfl
    | none =>
      have hr : wstep s.store s.clock s.nextTok i w =
          ({ s.store.touchLock w.key (some w.tok) with locks := s.store.locks.insert w.key ⟨w.tok, true⟩ },
           { w with pc := .watch }, false, none) := by
        simp only [wstep, hpc]
        rw [RStore.lockSetNX_none (show s.store.locks[w.op.svr.addr.key]? = none from hl)]
        rfl
      refine inv_wstep_of h hc hr (StoreRel.touch _ _ _ _) ?_ ?_ (Or.inl ⟨rfl, rfl⟩) (WInv.of_ver_none rfl hap)
      · intro k' t ht
        have ht' : (s.store.touchLock w.key (some w.tok)).lastOf k' = some t := ht
        rw [RStore.lastOf_touchLock] at ht'
        split at ht'
        · cases ht'; exact h.tokLt i w hc
        · exact h.lastLt k' t ht'
      · intro k' c' hk'
        have hk'' : (s.store.locks.insert w.key ⟨w.tok, true⟩)[k']? = some c' := hk'
        show (s.store.touchLock w.key (some w.tok)).lastOf k' = _
        rw [ExtTreeMap.getElem?_insert] at hk''
        rw [RStore.lastOf_touchLock]
        by_cases hkk : w.key = k'
        · simp only [Nat.compare_eq_eq, hkk, if_true] at hk'' ⊢
          cases hk''; rfl
        · simp only [Nat.compare_eq_eq, hkk, if_false] at hk'' ⊢
          exact h.valLast k' c' hk''
  | watch =>
    have hr : wstep s.store s.clock s.nextTok i w =
        (s.store, { w with pc := .ownGet (s.store.verOf w.key) }, false, none) := by
      simp only [wstep, hpc]; rfl
    refine inv_wstep_quiet h hc hr rfl ⟨?_, ?_, ?_, ?_, ?_, hap⟩
    · intro v hv; cases hv; exact Nat.le_refl _
    · intro hcl; cases hcl
    · intro v ex now b r hx; cases hx
    · intro v ex now b r hx; cases hx
    · intro v ex now b r hx; cases hx
  | ownGet v =>
    have hvle := hw.verLe v (by rw [hpc]; rfl)
    cases hl : s.store.locks[w.key]? with
    | none =>
      have hr : wstep s.store s.clock s.nextTok i w =
          (s.store, { w with pc := .unwatch (.finished (.error .lockLost)) }, false, none) := by
        simp only [wstep, hpc]
        rw [show s.store.locks[w.op.svr.addr.key]? = none from hl]
      exact inv_wstep_quiet h hc hr rfl (WInv.of_ver_none rfl hap)
    | some cell =>
      by_cases ht : cell.token = w.tok
      · have hr : wstep s.store s.clock s.nextTok i w = (s.store, { w with pc := .hget v }, false, none) := by
          simp only [wstep, hpc]
          rw [show s.store.locks[w.op.svr.addr.key]? = some cell from hl]
          simp only [ht, if_true]
        refine inv_wstep_quiet h hc hr rfl ⟨?_, ?_, ?_, ?_, ?_, hap⟩
        · intro v' hv'; cases hv'; exact hvle
        · intro _; show s.store.lastOf w.key = some w.tok
          rw [h.valLast _ _ hl, ht]
        · intro v' ex now b r hx; cases hx
        · intro v' ex now b r hx; cases hx
        · intro v' ex now b r hx; cases hx
      · have hr : wstep s.store s.clock s.nextTok i w = (s.store, { w with pc := .unwatch .retry }, false, none) := by
          simp only [wstep, hpc]
          rw [show s.store.locks[w.op.svr.addr.key]? = some cell from hl]
          simp only [ht, if_false]
        exact inv_wstep_quiet h hc hr rfl (WInv.of_ver_none rfl hap)
  | hget v =>
    have hvle := hw.verLe v (by rw [hpc]; rfl)
    cases hd : decide w.op (s.store.items[w.key]?) s.clock with
    | inl r =>
      have hr : wstep s.store s.clock s.nextTok i w =
          (s.store, { w with pc := .unwatch (.finished r) }, false, none) := by
        simp only [wstep, hpc]
        rw [show decide w.op (s.store.items[w.op.svr.addr.key]?) s.clock = .inl r from hd]
      exact inv_wstep_quiet h hc hr rfl (WInv.of_ver_none rfl hap)
    | inr br =>
      obtain ⟨b, r⟩ := br
      have hr : wstep s.store s.clock s.nextTok i w =
          (s.store, { w with pc := .exec v (s.store.items[w.key]?) s.clock b r }, false, none) := by
        simp only [wstep, hpc]
        rw [show decide w.op (s.store.items[w.op.svr.addr.key]?) s.clock = .inr (b, r) from hd]
        rfl
      refine inv_wstep_quiet h hc hr rfl ⟨?_, ?_, ?_, ?_, ?_, hap⟩
      · intro v' hv'; cases hv'; exact hvle
      · intro hcl
        apply hw.cleanOwn
        show w.pc.own? = _
        rw [hpc]; exact hcl
      · intro v' ex now b' r' hx _; cases hx; rfl
      · intro v' ex now b' r' hx; cases hx; exact hd
      · intro v' ex now b' r' hx; cases hx
        exact decide_key hap (fun e he => h.keyed _ e he) hd
  | exec v ex now b r =>
    by_cases hv : s.store.verOf w.key = v
    · have hr : wstep s.store s.clock s.nextTok i w =
          (b.apply s.store, { w with pc := .unwatch (.finished r), committed := true }, false,
            some ⟨i, s.store.items[w.key]?, b⟩) := by
        simp only [wstep, hpc]
        rw [if_pos (show s.store.verOf w.op.svr.addr.key = v from hv)]
        rfl
      refine inv_of_commit h i w { w with pc := .unwatch (.finished r), committed := true } v ex now b r hc hpc hv.symm
        ?_ ?_ rfl rfl rfl ?_
      · rw [Sys.step_writer s i w hc, hr]
      · rw [Sys.step_writer s i w hc, hr]; rfl
      · intro j
        rw [Sys.step_writer s i w hc, hr]
        exact getElem?_set_of_some hc _ j
    · have hr : wstep s.store s.clock s.nextTok i w = (s.store, { w with pc := .unwatch .retry }, false, none) := by
        simp only [wstep, hpc]
        rw [if_neg (show ¬ s.store.verOf w.op.svr.addr.key = v from hv)]
      exact inv_wstep_quiet h hc hr rfl (WInv.of_ver_none rfl hap)
  | unwatch a =>
    have hr : wstep s.store s.clock s.nextTok i w = (s.store, { w with pc := .relWatch a }, false, none) := by
      simp only [wstep, hpc]
    exact inv_wstep_quiet h hc hr rfl (WInv.of_ver_none rfl hap)
  | relWatch a =>
    have hr : wstep s.store s.clock s.nextTok i w = (s.store, { w with pc := .relGet a }, false, none) := by
      simp only [wstep, hpc]
    exact inv_wstep_quiet h hc hr rfl (WInv.of_ver_none rfl hap)
  | relGet a =>
    cases hl : s.store.locks[w.key]? with
    | none =>
      have hr : wstep s.store s.clock s.nextTok i w = (s.store, { w with pc := .relUnwatch a }, false, none) := by
        simp only [wstep, hpc]
        rw [show s.store.locks[w.op.svr.addr.key]? = none from hl]
      exact inv_wstep_quiet h hc hr rfl (WInv.of_ver_none rfl hap)
    | some cell =>
      by_cases ht : cell.token = w.tok
      · have hr : wstep s.store s.clock s.nextTok i w = (s.store, { w with pc := .relDel a }, false, none) := by
          simp only [wstep, hpc]
          rw [show s.store.locks[w.op.svr.addr.key]? = some cell from hl]
          simp only [ht, if_true]
        exact inv_wstep_quiet h hc hr rfl (WInv.of_ver_none rfl hap)
      · have hr : wstep s.store s.clock s.nextTok i w = (s.store, { w with pc := .relUnwatch a }, false, none) := by
          simp only [wstep, hpc]
          rw [show s.store.locks[w.op.svr.addr.key]? = some cell from hl]
          simp only [ht, if_false]
        exact inv_wstep_quiet h hc hr rfl (WInv.of_ver_none rfl hap)
  | relDel a =>
    cases hl : s.store.locks[w.key]? with
    | none =>
      have hr : wstep s.store s.clock s.nextTok i w = (s.store, { w with pc := .relUnwatch a }, false, none) := by
        simp only [wstep, hpc]
        rw [RStore.lockDel_none (show s.store.locks[w.op.svr.addr.key]? = none from hl)]
      exact inv_wstep_quiet h hc hr rfl (WInv.of_ver_none rfl hap)
    | some cell =>
      have hr : wstep s.store s.clock s.nextTok i w =
          ({ s.store.touchLock w.key none with locks := s.store.locks.erase w.key },
           { w with pc := .relUnwatch a }, false, none) := by
        simp only [wstep, hpc]
        rw [RStore.lockDel_some (show s.store.locks[w.op.svr.addr.key]? = some cell from hl)]
        rfl
      refine inv_wstep_of h hc hr (StoreRel.touch _ _ _ _) ?_ ?_ (Or.inl ⟨rfl, rfl⟩) (WInv.of_ver_none rfl hap)
      · intro k' t ht
        have ht' : (s.store.touchLock w.key none).lastOf k' = some t := ht
        rw [RStore.lastOf_touchLock] at ht'
        split at ht'
        · cases ht'
        · exact h.lastLt k' t ht'
      · intro k' c' hk'
        have hk'' : (s.store.locks.erase w.key)[k']? = some c' := hk'
        show (s.store.touchLock w.key none).lastOf k' = _
        rw [ExtTreeMap.getElem?_erase] at hk''
        rw [RStore.lastOf_touchLock]
        by_cases hkk : w.key = k'
        · simp [hkk] at hk''
        · simp only [Nat.compare_eq_eq, hkk, if_false] at hk'' ⊢
          exact h.valLast k' c' hk''
  | relUnwatch a =>
    apply inv_wstep_after h hc a
    simp only [wstep, hpc]
    rfl
  | done r =>
    have hr : wstep s.store s.clock s.nextTok i w = (s.store, w, false, none) := by
      simp only [wstep, hpc]
    exact inv_wstep_quiet h hc hr rfl hw

/-- **The invariant is inductive**: every event — a storage command of any client, a lease expiry
under either expiry semantics, a clock tick — preserves it. -/
theorem inv_step {s : Sys} (h : Inv s) (e : Ev) : Inv (s.step e) := by
  cases e with
  | expire k => exact inv_expire h k
  | tick d => exact inv_tick h d
  | step i =>
    cases hc : s.clients[i]? with
    | none => rw [Sys.step_none s i hc]; exact h
    | some c =>
      cases c with
      | writer w => exact inv_wstep h i w hc
      | reader r => exact inv_rstep h i r hc

theorem inv_run {s : Sys} (h : Inv s) (es : List Ev) : Inv (s.run es) := by
  induction es generalizing s with
  | nil => exact h
  | cons e es ih => exact ih (inv_step h e)

end Swat4
