import Swat4.Model.StoreMachine
/-!
# Lock fencing (C09): the inductive invariant of the interleaved registry writers

Full-machine version of `design-spikes/LockFencing_Proof.lean`: per-address lock cells, several
addresses, retries with fresh tokens, the real `decide`, readers, lease expiry with both
semantics (`Sys.dirties`).

Layout
* `RStore` frame lemmas (`verOf` / `lastOf` / `locks` after `touchLock`, `lockSetNX`, `lockDel`,
  `lockExpire`, `Batch.apply`);
* `StoreRel` — what every store change other than a commit looks like to a watcher;
* `WInv` (per-writer part of the invariant) and `Inv`;
* `inv_of_storeRel`, `inv_of_commit`, `inv_step`, `inv_run`, `clean_unique`;
* `Init`, `inv_init`;
* `wstep_frame` / `step_frame` (rows change only by a commit), `replay`, `run_replay`;
* `Writer.measure`, `wstep_measure`, `ownSteps_le`, `finishes_of_stepsOf` (bounded progress);
* `LogInv` (the ghost log is a sequential history), `loginv_step`, `loginv_run`.

Neither `Model/Store.lean` nor `Model/StoreMachine.lean` is modified: all ghost state needed
(`lockVer`, `lockLast`, `committed`, `log`, what `exec` read) is already in the validated model.
-/
namespace Swat4
open Std

/-! ## store frame lemmas -/
namespace RStore

@[simp] theorem touchLock_items (st : RStore) (k : Nat) (w : Option Nat) : (st.touchLock k w).items = st.items := rfl
@[simp] theorem touchLock_updated (st : RStore) (k : Nat) (w : Option Nat) : (st.touchLock k w).updated = st.updated := rfl
@[simp] theorem touchLock_refreshed (st : RStore) (k : Nat) (w : Option Nat) : (st.touchLock k w).refreshed = st.refreshed := rfl
@[simp] theorem touchLock_statusSet (st : RStore) (k : Nat) (w : Option Nat) : (st.touchLock k w).statusSet = st.statusSet := rfl
@[simp] theorem touchLock_locks (st : RStore) (k : Nat) (w : Option Nat) : (st.touchLock k w).locks = st.locks := rfl

theorem verOf_touchLock (st : RStore) (k : Nat) (w : Option Nat) (k' : Nat) :
    (st.touchLock k w).verOf k' = if k = k' then st.verOf k + 1 else st.verOf k' := by
  show (((st.lockVer.insert k (st.verOf k + 1))[k']?).getD 0) = _
  rw [ExtTreeMap.getElem?_insert]
  by_cases h : k = k'
  · subst h; simp
  · simp [h, verOf]

theorem lastOf_touchLock (st : RStore) (k : Nat) (w : Option Nat) (k' : Nat) :
    (st.touchLock k w).lastOf k' = if k = k' then w else st.lastOf k' := by
  show (((st.lockLast.insert k w)[k']?).getD none) = _
  rw [ExtTreeMap.getElem?_insert]
  by_cases h : k = k'
  · subst h; simp
  · simp [h, lastOf]

/-- `verOf` / `lastOf` only look at the ghost lock maps -/
theorem verOf_congr {st st' : RStore} (h : st'.lockVer = st.lockVer) (k : Nat) : st'.verOf k = st.verOf k := by
  simp [verOf, h]

theorem lastOf_congr {st st' : RStore} (h : st'.lockLast = st.lockLast) (k : Nat) : st'.lastOf k = st.lastOf k := by
  simp [lastOf, h]

end RStore

/-- the key a batch writes -/
def Batch.key : Batch → Nat
  | .save svr _ => svr.addr.key
  | .remove k => k

namespace Batch

@[simp] theorem apply_locks (b : Batch) (st : RStore) : (b.apply st).locks = st.locks := by
  cases b <;> rfl
@[simp] theorem apply_lockVer (b : Batch) (st : RStore) : (b.apply st).lockVer = st.lockVer := by
  cases b <;> rfl
@[simp] theorem apply_lockLast (b : Batch) (st : RStore) : (b.apply st).lockLast = st.lockLast := by
  cases b <;> rfl
@[simp] theorem apply_verOf (b : Batch) (st : RStore) (k : Nat) : (b.apply st).verOf k = st.verOf k :=
  RStore.verOf_congr (apply_lockVer b st) k
@[simp] theorem apply_lastOf (b : Batch) (st : RStore) (k : Nat) : (b.apply st).lastOf k = st.lastOf k :=
  RStore.lastOf_congr (apply_lockLast b st) k

/-- a batch changes `servers:items` only at its own key -/
theorem apply_items_of_ne (b : Batch) (st : RStore) (k : Nat) (h : b.key ≠ k) :
    (b.apply st).items[k]? = st.items[k]? := by
  cases b with
  | save svr now =>
    show (st.items.insert svr.addr.key svr)[k]? = _
    rw [ExtTreeMap.getElem?_insert]
    have : ¬ svr.addr.key = k := h
    simp [this]
  | remove k0 =>
    show (st.items.erase k0)[k]? = _
    rw [ExtTreeMap.getElem?_erase]
    have : ¬ k0 = k := h
    simp [this]

/-- what a batch leaves at its own key -/
theorem apply_items_self (b : Batch) (st : RStore) :
    (b.apply st).items[b.key]? = match b with | .save svr _ => some svr | .remove _ => none := by
  cases b with
  | save svr now =>
    show (st.items.insert svr.addr.key svr)[svr.addr.key]? = _
    simp
  | remove k0 =>
    show (st.items.erase k0)[k0]? = _
    simp

end Batch

/-! ## the decision function -/

/-- the resolver returns a record for the address of the record it was given -/
def AddrPreserving (res : Resolver) : Prop := ∀ s r, res s = some r → r.addr = s.addr

/-- what the proofs need (weaker than `AddrPreserving op.res`): applied to a record stored under the
caller's address, the resolver returns a record for that address.  Also covers an "overwrite"
resolver that returns the caller's own record. -/
def KeyPreserving (op : WOp) : Prop :=
  ∀ s r, s.addr.key = op.svr.addr.key → op.res s = some r → r.addr.key = op.svr.addr.key

theorem AddrPreserving.keyPreserving {op : WOp} (h : AddrPreserving op.res) : KeyPreserving op := by
  intro s r hs hr; rw [h s r hr]; exact hs

/-- with a key-preserving resolver and a record stored under the caller's address, the batch
`decide` produces writes the caller's own key, and a saved record carries that address -/
theorem decide_key {op : WOp} {ex : Option Server} {now : Int} {b : Batch} {r : WResult}
    (hap : KeyPreserving op) (hex : ∀ e, ex = some e → e.addr.key = op.svr.addr.key)
    (h : decideOp op ex now = .inr (b, r)) : b.key = op.svr.addr.key := by
  unfold decideOp at h
  split at h
  · cases h; rfl
  · rename_i e
    split at h
    · cases h
    · rename_i r' hr
      cases h
      show r'.addr.key = _
      exact hap _ _ (hex _ rfl) hr
  · cases h
  · rename_i e
    split at h
    · split at h
      · cases h
      · rename_i r' hr
        cases h
        show r'.addr.key = _
        exact hap _ _ (hex _ rfl) hr
    · cases h; rfl
  · cases h
  · rename_i e
    split at h
    · split at h
      · cases h
      · rename_i r' hr
        cases h
        show r'.addr.key = _
        exact hap _ _ (hex _ rfl) hr
    · cases h; rfl

/-- `decide` never queues a batch together with an error result -/
theorem decide_inr_ok {op : WOp} {ex : Option Server} {now : Int} {b : Batch} {r : WResult}
    (h : decideOp op ex now = .inr (b, r)) : ∃ x, r = .ok x := by
  unfold decideOp at h
  split at h
  · cases h; exact ⟨_, rfl⟩
  · split at h
    · cases h
    · cases h; exact ⟨_, rfl⟩
  · cases h
  · split at h
    · split at h
      · cases h
      · cases h; exact ⟨_, rfl⟩
    · cases h; exact ⟨_, rfl⟩
  · cases h
  · split at h
    · split at h
      · cases h
      · cases h; exact ⟨_, rfl⟩
    · cases h; exact ⟨_, rfl⟩

/-! ## what a store change other than a commit looks like to a watcher -/

/-- the four `servers:*` row families agree -/
def RStore.RowsEq (a b : RStore) : Prop :=
  a.items = b.items ∧ a.updated = b.updated ∧ a.refreshed = b.refreshed ∧ a.statusSet = b.statusSet

theorem RStore.RowsEq.refl (a : RStore) : a.RowsEq a := ⟨rfl, rfl, rfl, rfl⟩

theorem RStore.RowsEq.trans {a b c : RStore} (h1 : a.RowsEq b) (h2 : b.RowsEq c) : a.RowsEq c :=
  ⟨h1.1.trans h2.1, h1.2.1.trans h2.2.1, h1.2.2.1.trans h2.2.2.1, h1.2.2.2.trans h2.2.2.2⟩

/-- `st'` arises from `st` by lock-key traffic only: rows untouched, WATCH versions only grow, and a
key whose version did not move still has the same last writer -/
structure StoreRel (st st' : RStore) : Prop where
  rows : st'.RowsEq st
  verLe : ∀ k : Nat, st.verOf k ≤ st'.verOf k
  last : ∀ k : Nat, st'.verOf k = st.verOf k → st'.lastOf k = st.lastOf k

theorem StoreRel.refl (st : RStore) : StoreRel st st :=
  ⟨RStore.RowsEq.refl st, fun _ => Nat.le_refl _, fun _ _ => rfl⟩

/-- any modification of lock key `k` (whatever happens to the cell map itself) -/
theorem StoreRel.touch (st : RStore) (k : Nat) (w : Option Nat) (L : ExtTreeMap Nat LockCell) :
    StoreRel st { st.touchLock k w with locks := L } := by
  have hv : ∀ k', ({ st.touchLock k w with locks := L } : RStore).verOf k' = (st.touchLock k w).verOf k' :=
    fun k' => RStore.verOf_congr rfl k'
  have hl : ∀ k', ({ st.touchLock k w with locks := L } : RStore).lastOf k' = (st.touchLock k w).lastOf k' :=
    fun k' => RStore.lastOf_congr rfl k'
  refine ⟨⟨rfl, rfl, rfl, rfl⟩, ?_, ?_⟩
  · intro k'; rw [hv, RStore.verOf_touchLock]; split
    · rename_i h; subst h; omega
    · omega
  · intro k'; rw [hv, hl, RStore.verOf_touchLock, RStore.lastOf_touchLock]
    split
    · rename_i h; subst h; intro h; omega
    · intro _; rfl

/-- only the cell map changes (non-dirtying expiry) -/
theorem StoreRel.locksOnly (st : RStore) (L : ExtTreeMap Nat LockCell) :
    StoreRel st { st with locks := L } :=
  ⟨⟨rfl, rfl, rfl, rfl⟩, fun k => Nat.le_of_eq (RStore.verOf_congr rfl k).symm,
   fun k _ => RStore.lastOf_congr rfl k⟩

namespace RStore

theorem lockSetNX_some {st : RStore} {k tok : Nat} {c : LockCell} (h : st.locks[k]? = some c) :
    st.lockSetNX k tok = (st, false) := by
  simp [lockSetNX, h]

theorem lockSetNX_none {st : RStore} {k tok : Nat} (h : st.locks[k]? = none) :
    st.lockSetNX k tok = ({ st.touchLock k (some tok) with locks := st.locks.insert k ⟨tok, true⟩ }, true) := by
  simp [lockSetNX, h, leaseHasTTL_eq]

theorem lockDel_none {st : RStore} {k : Nat} (h : st.locks[k]? = none) : st.lockDel k = st := by
  simp [lockDel, h]

theorem lockDel_some {st : RStore} {k : Nat} {c : LockCell} (h : st.locks[k]? = some c) :
    st.lockDel k = { st.touchLock k none with locks := st.locks.erase k } := by
  simp [lockDel, h]

theorem lockExpire_none {st : RStore} {k : Nat} {d : Bool} (h : st.locks[k]? = none) : st.lockExpire k d = st := by
  simp [lockExpire, h]

/-- (statement changed with the model: the expiry acts only on a cell that carries a TTL) -/
theorem lockExpire_some_dirty {st : RStore} {k : Nat} {c : LockCell} (h : st.locks[k]? = some c) (ht : c.ttl = true) :
    st.lockExpire k true = { st.touchLock k none with locks := st.locks.erase k } := by
  simp [lockExpire, h, ht]

theorem lockExpire_some_clean {st : RStore} {k : Nat} {c : LockCell} (h : st.locks[k]? = some c) (ht : c.ttl = true) :
    st.lockExpire k false = { st with locks := st.locks.erase k } := by
  simp [lockExpire, h, ht]

/-- a cell without TTL is not touched by the expiry event -/
theorem lockExpire_some_nottl {st : RStore} {k : Nat} {c : LockCell} {d : Bool} (h : st.locks[k]? = some c)
    (ht : c.ttl = false) : st.lockExpire k d = st := by
  simp [lockExpire, h, ht]

end RStore

/-! ## the invariant -/

def Writer.key (w : Writer) : Nat := w.op.svr.addr.key

/-- the WATCH version a writer carries -/
def WPC.ver? : WPC → Option Nat
  | .ownGet v => some v
  | .hget v => some v
  | .exec v _ _ _ _ => some v
  | _ => none

/-- the WATCH version of a writer that has passed its ownership check -/
def WPC.own? : WPC → Option Nat
  | .hget v => some v
  | .exec v _ _ _ _ => some v
  | _ => none

theorem WPC.ver?_of_own? {pc : WPC} {v : Nat} (h : pc.own? = some v) : pc.ver? = some v := by
  cases pc <;> simp_all [WPC.own?, WPC.ver?]

/-- a writer is *clean*: it passed the ownership check and its lock key has not been modified since its WATCH -/
def Clean (st : RStore) (w : Writer) : Prop := w.pc.own? = some (st.verOf w.key)

/-- per-writer part of the invariant -/
structure WInv (st : RStore) (w : Writer) : Prop where
  verLe : ∀ v : Nat, w.pc.ver? = some v → v ≤ st.verOf w.key
  cleanOwn : Clean st w → st.lastOf w.key = some w.tok
  readCur : ∀ (v : Nat) (ex : Option Server) (now : Int) (b : Batch) (r : WResult),
    w.pc = .exec v ex now b r → v = st.verOf w.key → ex = st.items[w.key]?
  execDecide : ∀ (v : Nat) (ex : Option Server) (now : Int) (b : Batch) (r : WResult),
    w.pc = .exec v ex now b r → decideOp w.op ex now = .inr (b, r)
  execKey : ∀ (v : Nat) (ex : Option Server) (now : Int) (b : Batch) (r : WResult),
    w.pc = .exec v ex now b r → b.key = w.key
  resAP : KeyPreserving w.op

structure Inv (s : Sys) : Prop where
  tokLt : ∀ (i : Nat) (w : Writer), s.clients[i]? = some (.writer w) → w.tok < s.nextTok
  tokInj : ∀ (i j : Nat) (wi wj : Writer), s.clients[i]? = some (.writer wi) → s.clients[j]? = some (.writer wj) →
    wi.tok = wj.tok → i = j
  lastLt : ∀ (k t : Nat), s.store.lastOf k = some t → t < s.nextTok
  valLast : ∀ (k : Nat) (c : LockCell), s.store.locks[k]? = some c → s.store.lastOf k = some c.token
  keyed : ∀ (k : Nat) (r : Server), s.store.items[k]? = some r → r.addr.key = k
  winv : ∀ (i : Nat) (w : Writer), s.clients[i]? = some (.writer w) → WInv s.store w

/-- a writer that carries no WATCH version satisfies its local invariant in any store -/
theorem WInv.of_ver_none {st : RStore} {w : Writer} (hv : w.pc.ver? = none) (hap : KeyPreserving w.op) :
    WInv st w := by
  refine ⟨?_, ?_, ?_, ?_, ?_, hap⟩
  · intro v h; rw [hv] at h; cases h
  · intro h; have := WPC.ver?_of_own? h; rw [hv] at this; cases this
  · intro v ex now b r h; rw [h] at hv; cases hv
  · intro v ex now b r h; rw [h] at hv; cases hv
  · intro v ex now b r h; rw [h] at hv; cases hv

/-- lock-key traffic preserves the local invariant of a writer that did not move -/
theorem WInv.mono {st st' : RStore} {w : Writer} (h : WInv st w) (hr : StoreRel st st') : WInv st' w := by
  refine ⟨?_, ?_, ?_, h.execDecide, h.execKey, h.resAP⟩
  · intro v hv; exact Nat.le_trans (h.verLe v hv) (hr.verLe _)
  · intro hc
    have hc' : w.pc.own? = some (st'.verOf w.key) := hc
    have hle := h.verLe _ (WPC.ver?_of_own? hc')
    have heq : st'.verOf w.key = st.verOf w.key := Nat.le_antisymm hle (hr.verLe _)
    rw [hr.last _ heq]
    apply h.cleanOwn
    show w.pc.own? = some (st.verOf w.key)
    rw [← heq]; exact hc'
  · intro v ex now b r hpc hv
    have hle := h.verLe v (by rw [hpc]; rfl)
    have heq : st'.verOf w.key = st.verOf w.key := Nat.le_antisymm (hv ▸ hle) (hr.verLe _)
    rw [hr.rows.1]
    exact h.readCur v ex now b r hpc (hv.trans heq)

/-- **Fencing.** In an `Inv` state at most one writer per address is clean. -/
theorem clean_unique {s : Sys} (h : Inv s) {i j : Nat} {wi wj : Writer}
    (hi : s.clients[i]? = some (.writer wi)) (hj : s.clients[j]? = some (.writer wj))
    (hk : wi.key = wj.key) (ci : Clean s.store wi) (cj : Clean s.store wj) : i = j := by
  have h1 := (h.winv i wi hi).cleanOwn ci
  have h2 := (h.winv j wj hj).cleanOwn cj
  rw [hk, h2] at h1
  exact h.tokInj i j wi wj hi hj (by injection h1 with h1; exact h1.symm)

/-! ## generic preservation lemmas -/

/-- Preservation under every transition that is not a commit: the store moves by lock-key traffic
(`StoreRel`), at most client `i` changes, keeping its token or taking the fresh one, and the new
client `i` satisfies its local invariant in the new store. -/
theorem inv_of_storeRel {s s' : Sys} (h : Inv s) (i : Nat)
    (hrel : StoreRel s.store s'.store)
    (hnt : s.nextTok ≤ s'.nextTok)
    (hlastLt : ∀ (k t : Nat), s'.store.lastOf k = some t → t < s'.nextTok)
    (hval : ∀ (k : Nat) (c : LockCell), s'.store.locks[k]? = some c → s'.store.lastOf k = some c.token)
    (hcl : ∀ (j : Nat) (wj' : Writer), s'.clients[j]? = some (.writer wj') →
      s.clients[j]? = some (.writer wj') ∨
      (j = i ∧ ∃ wj : Writer, s.clients[j]? = some (.writer wj) ∧
        (wj'.tok = wj.tok ∨ (wj'.tok = s.nextTok ∧ s.nextTok < s'.nextTok)) ∧ WInv s'.store wj')) :
    Inv s' := by
  have tokLt' : ∀ (j : Nat) (w : Writer), s'.clients[j]? = some (.writer w) → w.tok < s'.nextTok := by
    intro j w hj
    rcases hcl j w hj with ho | ⟨_, wj, hwj, ht, _⟩
    · exact Nat.lt_of_lt_of_le (h.tokLt j w ho) hnt
    · rcases ht with ht | ⟨ht, hlt⟩
      · rw [ht]; exact Nat.lt_of_lt_of_le (h.tokLt j wj hwj) hnt
      · rw [ht]; exact hlt
  refine ⟨tokLt', ?_, hlastLt, hval, ?_, ?_⟩
  · intro j k wj wk hj hk ht
    rcases hcl j wj hj with hoj | ⟨hji, wj0, hwj0, htj, _⟩ <;>
      rcases hcl k wk hk with hok | ⟨hki, wk0, hwk0, htk, _⟩
    · exact h.tokInj j k wj wk hoj hok ht
    · rcases htk with htk | ⟨htk, _⟩
      · exact h.tokInj j k wj wk0 hoj hwk0 (ht.trans htk)
      · have := h.tokLt j wj hoj; omega
    · rcases htj with htj | ⟨htj, _⟩
      · exact h.tokInj j k wj0 wk hwj0 hok (htj.symm.trans ht)
      · have := h.tokLt k wk hok; omega
    · omega
  · intro k r hk; rw [hrel.rows.1] at hk; exact h.keyed k r hk
  · intro j w hj
    rcases hcl j w hj with ho | ⟨_, _, _, _, hw⟩
    · exact (h.winv j w ho).mono hrel
    · exact hw

/-- Preservation under a commit: client `i` is clean at `exec` and applies its batch. -/
theorem inv_of_commit {s s' : Sys} (h : Inv s) (i : Nat) (w w' : Writer)
    (v : Nat) (ex : Option Server) (now : Int) (b : Batch) (r : WResult)
    (hc : s.clients[i]? = some (.writer w)) (hpc : w.pc = .exec v ex now b r) (hv : v = s.store.verOf w.key)
    (hst : s'.store = b.apply s.store) (hnt : s'.nextTok = s.nextTok)
    (htok : w'.tok = w.tok) (hop : w'.op = w.op) (hver : w'.pc.ver? = none)
    (hcl : ∀ j : Nat, s'.clients[j]? = if j = i then some (.writer w') else s.clients[j]?) :
    Inv s' := by
  have hwi := h.winv i w hc
  have hbk : b.key = w.key := hwi.execKey v ex now b r hpc
  have hclean : Clean s.store w := by show w.pc.own? = _; rw [hpc, ← hv]; rfl
  have hexd := hwi.execDecide v ex now b r hpc
  have hexc := hwi.readCur v ex now b r hpc hv
  refine ⟨?_, ?_, ?_, ?_, ?_, ?_⟩
  · intro j wj hj; rw [hcl] at hj; rw [hnt]
    split at hj
    · cases hj; rw [htok]; exact h.tokLt i w hc
    · exact h.tokLt j wj hj
  · intro j k wj wk hj hk ht; rw [hcl] at hj hk
    split at hj <;> split at hk
    · omega
    · cases hj; rename_i hji _; subst hji; rw [htok] at ht; exact h.tokInj _ _ _ _ hc hk ht
    · cases hk; rename_i _ hki; subst hki; rw [htok] at ht; exact h.tokInj _ _ _ _ hj hc ht
    · exact h.tokInj _ _ _ _ hj hk ht
  · intro k t ht; rw [hst, Batch.apply_lastOf] at ht; rw [hnt]; exact h.lastLt k t ht
  · intro k c hk; rw [hst, Batch.apply_locks] at hk; rw [hst, Batch.apply_lastOf]; exact h.valLast k c hk
  · -- records stay keyed by their address
    intro k rec hk; rw [hst] at hk
    by_cases hkk : b.key = k
    · subst hkk
      rw [Batch.apply_items_self] at hk
      cases b with
      | save svr now' => cases hk; rfl
      | remove k0 => cases hk
    · rw [Batch.apply_items_of_ne b _ k hkk] at hk; exact h.keyed k rec hk
  · intro j wj hj; rw [hcl] at hj
    split at hj
    · cases hj
      exact WInv.of_ver_none hver (hop ▸ hwi.resAP)
    · rename_i hji
      have hwj := h.winv j wj hj
      refine ⟨?_, ?_, ?_, hwj.execDecide, hwj.execKey, hwj.resAP⟩
      · intro v' hv'; rw [hst, Batch.apply_verOf]; exact hwj.verLe v' hv'
      · intro hcj
        have hcj' : Clean s.store wj := by
          show wj.pc.own? = _
          have : wj.pc.own? = some ((b.apply s.store).verOf wj.key) := hst ▸ hcj
          rwa [Batch.apply_verOf] at this
        rw [hst, Batch.apply_lastOf]; exact hwj.cleanOwn hcj'
      · intro v' ex' now' b' r' hpc' hv'
        rw [hst, Batch.apply_verOf] at hv'
        rw [hst]
        by_cases hkk : w.key = wj.key
        · -- a second clean writer on the same address is impossible
          exfalso
          have hcj : Clean s.store wj := by show wj.pc.own? = _; rw [hpc', ← hv']; rfl
          exact hji (clean_unique h hj hc hkk.symm hcj hclean)
        · rw [Batch.apply_items_of_ne b _ _ (by rw [hbk]; exact hkk)]
          exact hwj.readCur v' ex' now' b' r' hpc' hv'

/-! ## the system step, componentwise -/

theorem Sys.step_writer (s : Sys) (i : Nat) (w : Writer) (hc : s.clients[i]? = some (.writer w)) :
    s.step (.step i) =
      { s with store := (wstep s.store s.clock s.nextTok i w).1,
               clients := s.clients.set i (.writer (wstep s.store s.clock s.nextTok i w).2.1),
               nextTok := if (wstep s.store s.clock s.nextTok i w).2.2.1 then s.nextTok + 1 else s.nextTok,
               log := match (wstep s.store s.clock s.nextTok i w).2.2.2 with | some c => s.log ++ [c] | none => s.log } := by
  simp only [Sys.step, hc]
  rfl

theorem Sys.step_reader (s : Sys) (i : Nat) (r : Reader) (hc : s.clients[i]? = some (.reader r)) :
    s.step (.step i) = { s with clients := s.clients.set i (.reader (rstep s.store r)) } := by
  simp only [Sys.step, hc]

theorem Sys.step_none (s : Sys) (i : Nat) (hc : s.clients[i]? = none) : s.step (.step i) = s := by
  simp only [Sys.step, hc]

theorem lt_length_of_getElem? {α : Type} {l : List α} {i : Nat} {a : α} (h : l[i]? = some a) : i < l.length := by
  rcases Nat.lt_or_ge i l.length with hl | hl
  · exact hl
  · rw [List.getElem?_eq_none hl] at h; cases h

theorem getElem?_set_of_some {α : Type} {l : List α} {i : Nat} {a : α} (h : l[i]? = some a) (b : α) (j : Nat) :
    (l.set i b)[j]? = if j = i then some b else l[j]? := by
  have hlt := lt_length_of_getElem? h
  rw [List.getElem?_set]
  by_cases hji : j = i
  · subst hji; simp [hlt]
  · have : ¬ i = j := fun e => hji e.symm
    simp [hji, this]

/-- A writer step that is not a commit, given the computed `wstep` result. -/
theorem inv_wstep_of {s : Sys} (h : Inv s) {i : Nat} {w : Writer} (hc : s.clients[i]? = some (.writer w))
    {st' : RStore} {w' : Writer} {f : Bool} {cm : Option Commit}
    (hr : wstep s.store s.clock s.nextTok i w = (st', w', f, cm))
    (hrel : StoreRel s.store st')
    (hlastLt : ∀ (k t : Nat), st'.lastOf k = some t → t < s.nextTok)
    (hval : ∀ (k : Nat) (c : LockCell), st'.locks[k]? = some c → st'.lastOf k = some c.token)
    (htok : (f = false ∧ w'.tok = w.tok) ∨ (f = true ∧ w'.tok = s.nextTok))
    (hw : WInv st' w') : Inv (s.step (.step i)) := by
  rw [Sys.step_writer s i w hc, hr]
  have hnt : s.nextTok ≤ (if f = true then s.nextTok + 1 else s.nextTok) := by split <;> omega
  refine inv_of_storeRel h i hrel hnt ?_ hval ?_
  · intro k t ht; exact Nat.lt_of_lt_of_le (hlastLt k t ht) hnt
  · intro j wj' hj
    have hj' : (s.clients.set i (.writer w'))[j]? = some (.writer wj') := hj
    rw [getElem?_set_of_some hc] at hj'
    split at hj'
    · rename_i hji
      cases hj'
      refine Or.inr ⟨hji, w, hji ▸ hc, ?_, hw⟩
      rcases htok with ⟨hf, ht⟩ | ⟨hf, ht⟩
      · exact Or.inl ht
      · refine Or.inr ⟨ht, ?_⟩
        show s.nextTok < (if f = true then s.nextTok + 1 else s.nextTok)
        rw [hf]; simp
    · exact Or.inl hj'

/-- store untouched, token kept -/
theorem inv_wstep_quiet {s : Sys} (h : Inv s) {i : Nat} {w : Writer} (hc : s.clients[i]? = some (.writer w))
    {w' : Writer} {cm : Option Commit}
    (hr : wstep s.store s.clock s.nextTok i w = (s.store, w', false, cm))
    (htok : w'.tok = w.tok) (hw : WInv s.store w') : Inv (s.step (.step i)) :=
  inv_wstep_of h hc hr (StoreRel.refl _) h.lastLt h.valLast (Or.inl ⟨rfl, htok⟩) hw

/-- what `afterRelease` does; store untouched -/
theorem inv_wstep_after {s : Sys} (h : Inv s) {i : Nat} {w : Writer} (hc : s.clients[i]? = some (.writer w))
    (a : Attempt)
    (hr : wstep s.store s.clock s.nextTok i w =
      (s.store,
       (match a with
        | .finished r => (({ w with pc := .done r } : Writer), false)
        | .retry =>
          if w.attemptsLeft = 0 then (({ w with pc := .done (.error .lockExhausted) } : Writer), false)
          else (({ w with pc := .setnx, tok := s.nextTok, attemptsLeft := w.attemptsLeft - 1 } : Writer), true)).1,
       (match a with
        | .finished r => (({ w with pc := .done r } : Writer), false)
        | .retry =>
          if w.attemptsLeft = 0 then (({ w with pc := .done (.error .lockExhausted) } : Writer), false)
          else (({ w with pc := .setnx, tok := s.nextTok, attemptsLeft := w.attemptsLeft - 1 } : Writer), true)).2,
       none)) : Inv (s.step (.step i)) := by
  have hap := (h.winv i w hc).resAP
  cases a with
  | finished r =>
    exact inv_wstep_of h hc hr (StoreRel.refl _) h.lastLt h.valLast (Or.inl ⟨rfl, rfl⟩) (WInv.of_ver_none rfl hap)
  | retry =>
    by_cases ha : w.attemptsLeft = 0
    · simp only [ha, if_true] at hr
      exact inv_wstep_of h hc hr (StoreRel.refl _) h.lastLt h.valLast (Or.inl ⟨rfl, rfl⟩) (WInv.of_ver_none rfl hap)
    · simp only [ha, if_false] at hr
      exact inv_wstep_of h hc hr (StoreRel.refl _) h.lastLt h.valLast (Or.inr ⟨rfl, rfl⟩) (WInv.of_ver_none rfl hap)

/-! ## preservation, event by event -/

/-- lease expiry, both semantics -/
theorem inv_expire {s : Sys} (h : Inv s) (k : Nat) : Inv (s.step (.expire k)) := by
  show Inv { s with store := s.store.lockExpire k s.dirties }
  have hcl : ∀ (j : Nat) (wj' : Writer), s.clients[j]? = some (.writer wj') →
      s.clients[j]? = some (.writer wj') ∨
      (j = 0 ∧ ∃ wj : Writer, s.clients[j]? = some (.writer wj) ∧
        (wj'.tok = wj.tok ∨ (wj'.tok = s.nextTok ∧ s.nextTok < s.nextTok)) ∧
          WInv (s.store.lockExpire k s.dirties) wj') := fun _ _ hj => Or.inl hj
  cases hl : s.store.locks[k]? with
  | none => rw [RStore.lockExpire_none hl]; exact h
  | some c =>
    cases ht : c.ttl with
    | false => rw [RStore.lockExpire_some_nottl hl ht]; exact h
    | true =>
    cases hd : s.dirties with
    | true =>
      rw [hd] at hcl
      rw [RStore.lockExpire_some_dirty hl ht] at hcl ⊢
      refine inv_of_storeRel h 0 (StoreRel.touch _ _ _ _) (Nat.le_refl _) ?_ ?_ hcl
      · intro k' t ht
        have ht' : (s.store.touchLock k none).lastOf k' = some t := ht
        rw [RStore.lastOf_touchLock] at ht'
        split at ht'
        · cases ht'
        · exact h.lastLt k' t ht'
      · intro k' c' hk'
        have hk'' : (s.store.locks.erase k)[k']? = some c' := hk'
        show (s.store.touchLock k none).lastOf k' = _
        rw [ExtTreeMap.getElem?_erase] at hk''
        rw [RStore.lastOf_touchLock]
        by_cases hkk : k = k'
        · simp [hkk] at hk''
        · simp only [Nat.compare_eq_eq, hkk, if_false] at hk'' ⊢
          exact h.valLast k' c' hk''
    | false =>
      rw [hd] at hcl
      rw [RStore.lockExpire_some_clean hl ht] at hcl ⊢
      refine inv_of_storeRel h 0 (StoreRel.locksOnly _ _) (Nat.le_refl _) ?_ ?_ hcl
      · exact h.lastLt
      · intro k' c' hk'
        have hk'' : (s.store.locks.erase k)[k']? = some c' := hk'
        show s.store.lastOf k' = _
        rw [ExtTreeMap.getElem?_erase] at hk''
        by_cases hkk : k = k'
        · simp [hkk] at hk''
        · simp only [Nat.compare_eq_eq, hkk, if_false] at hk''
          exact h.valLast k' c' hk''

theorem inv_tick {s : Sys} (h : Inv s) (d : Nat) : Inv (s.step (.tick d)) :=
  ⟨h.tokLt, h.tokInj, h.lastLt, h.valLast, h.keyed, h.winv⟩

theorem inv_rstep {s : Sys} (h : Inv s) (i : Nat) (r : Reader) (hc : s.clients[i]? = some (.reader r)) :
    Inv (s.step (.step i)) := by
  rw [Sys.step_reader s i r hc]
  have hcl : ∀ (j : Nat) (w : Writer), (s.clients.set i (.reader (rstep s.store r)))[j]? = some (.writer w) →
      s.clients[j]? = some (.writer w) := by
    intro j w hj
    rw [getElem?_set_of_some hc] at hj
    split at hj
    · cases hj
    · exact hj
  exact ⟨fun j w hj => h.tokLt j w (hcl j w hj),
    fun j k wj wk hj hk => h.tokInj j k wj wk (hcl j wj hj) (hcl k wk hk),
    h.lastLt, h.valLast, h.keyed, fun j w hj => h.winv j w (hcl j w hj)⟩

/-- one storage command of a writer -/
theorem inv_wstep {s : Sys} (h : Inv s) (i : Nat) (w : Writer) (hc : s.clients[i]? = some (.writer w)) :
    Inv (s.step (.step i)) := by
  have hw := h.winv i w hc
  have hap := hw.resAP
  cases hpc : w.pc with
  | setnx =>
    cases hl : s.store.locks[w.key]? with
    | some c =>
      apply inv_wstep_after h hc .retry
      simp only [wstep, hpc]
      rw [RStore.lockSetNX_some (show s.store.locks[w.op.svr.addr.key]? = some c from hl)]
      rfl
    | none =>
      have hr : wstep s.store s.clock s.nextTok i w =
          ({ s.store.touchLock w.key (some w.tok) with locks := s.store.locks.insert w.key ⟨w.tok, true⟩ },
           { w with pc := .watch }, false, none) := by
        simp only [wstep, hpc]
        rw [RStore.lockSetNX_none (show s.store.locks[w.op.svr.addr.key]? = none from hl)]
        rfl
      refine inv_wstep_of h hc hr (StoreRel.touch _ _ _ _) ?_ ?_ (Or.inl ⟨rfl, rfl⟩) (WInv.of_ver_none rfl hap)
      · intro k' t ht
        have ht' : (s.store.touchLock w.key (some w.tok)).lastOf k' = some t := ht
        rw [RStore.lastOf_touchLock] at ht'
        split at ht'
        · cases ht'; exact h.tokLt i w hc
        · exact h.lastLt k' t ht'
      · intro k' c' hk'
        have hk'' : (s.store.locks.insert w.key ⟨w.tok, true⟩)[k']? = some c' := hk'
        show (s.store.touchLock w.key (some w.tok)).lastOf k' = _
        rw [ExtTreeMap.getElem?_insert] at hk''
        rw [RStore.lastOf_touchLock]
        by_cases hkk : w.key = k'
        · simp only [Nat.compare_eq_eq, hkk, if_true] at hk'' ⊢
          cases hk''; rfl
        · simp only [Nat.compare_eq_eq, hkk, if_false] at hk'' ⊢
          exact h.valLast k' c' hk''
  | watch =>
    have hr : wstep s.store s.clock s.nextTok i w =
        (s.store, { w with pc := .ownGet (s.store.verOf w.key) }, false, none) := by
      simp only [wstep, hpc]; rfl
    refine inv_wstep_quiet h hc hr rfl ⟨?_, ?_, ?_, ?_, ?_, hap⟩
    · intro v hv; cases hv; exact Nat.le_refl _
    · intro hcl; cases hcl
    · intro v ex now b r hx; cases hx
    · intro v ex now b r hx; cases hx
    · intro v ex now b r hx; cases hx
  | ownGet v =>
    have hvle := hw.verLe v (by rw [hpc]; rfl)
    cases hl : s.store.locks[w.key]? with
    | none =>
      have hr : wstep s.store s.clock s.nextTok i w =
          (s.store, { w with pc := .unwatch (.finished (.error .lockLost)) }, false, none) := by
        simp only [wstep, hpc]
        rw [show s.store.locks[w.op.svr.addr.key]? = none from hl]
      exact inv_wstep_quiet h hc hr rfl (WInv.of_ver_none rfl hap)
    | some cell =>
      by_cases ht : cell.token = w.tok
      · have hr : wstep s.store s.clock s.nextTok i w = (s.store, { w with pc := .hget v }, false, none) := by
          simp only [wstep, hpc]
          rw [show s.store.locks[w.op.svr.addr.key]? = some cell from hl]
          simp only [ht, if_true]
        refine inv_wstep_quiet h hc hr rfl ⟨?_, ?_, ?_, ?_, ?_, hap⟩
        · intro v' hv'; cases hv'; exact hvle
        · intro _; show s.store.lastOf w.key = some w.tok
          rw [h.valLast _ _ hl, ht]
        · intro v' ex now b r hx; cases hx
        · intro v' ex now b r hx; cases hx
        · intro v' ex now b r hx; cases hx
      · have hr : wstep s.store s.clock s.nextTok i w = (s.store, { w with pc := .unwatch .retry }, false, none) := by
          simp only [wstep, hpc]
          rw [show s.store.locks[w.op.svr.addr.key]? = some cell from hl]
          simp only [ht, if_false]
        exact inv_wstep_quiet h hc hr rfl (WInv.of_ver_none rfl hap)
  | hget v =>
    have hvle := hw.verLe v (by rw [hpc]; rfl)
    cases hd : decideOp w.op (s.store.items[w.key]?) s.clock with
    | inl r =>
      have hr : wstep s.store s.clock s.nextTok i w =
          (s.store, { w with pc := .unwatch (.finished r) }, false, none) := by
        simp only [wstep, hpc]
        rw [show decideOp w.op (s.store.items[w.op.svr.addr.key]?) s.clock = .inl r from hd]
      exact inv_wstep_quiet h hc hr rfl (WInv.of_ver_none rfl hap)
    | inr br =>
      obtain ⟨b, r⟩ := br
      have hr : wstep s.store s.clock s.nextTok i w =
          (s.store, { w with pc := .exec v (s.store.items[w.key]?) s.clock b r }, false, none) := by
        simp only [wstep, hpc]
        rw [show decideOp w.op (s.store.items[w.op.svr.addr.key]?) s.clock = .inr (b, r) from hd]
        rfl
      refine inv_wstep_quiet h hc hr rfl ⟨?_, ?_, ?_, ?_, ?_, hap⟩
      · intro v' hv'; cases hv'; exact hvle
      · intro hcl
        apply hw.cleanOwn
        show w.pc.own? = _
        rw [hpc]; exact hcl
      · intro v' ex now b' r' hx _; cases hx; rfl
      · intro v' ex now b' r' hx; cases hx; exact hd
      · intro v' ex now b' r' hx; cases hx
        exact decide_key hap (fun e he => h.keyed _ e he) hd
  | exec v ex now b r =>
    by_cases hv : s.store.verOf w.key = v
    · have hr : wstep s.store s.clock s.nextTok i w =
          (b.apply s.store, { w with pc := .unwatch (.finished r), committed := true }, false,
            some ⟨i, s.store.items[w.key]?, b⟩) := by
        simp only [wstep, hpc]
        rw [if_pos (show s.store.verOf w.op.svr.addr.key = v from hv)]
        rfl
      refine inv_of_commit h i w { w with pc := .unwatch (.finished r), committed := true } v ex now b r hc hpc hv.symm
        ?_ ?_ rfl rfl rfl ?_
      · rw [Sys.step_writer s i w hc, hr]
      · rw [Sys.step_writer s i w hc, hr]; rfl
      · intro j
        rw [Sys.step_writer s i w hc, hr]
        exact getElem?_set_of_some hc _ j
    · have hr : wstep s.store s.clock s.nextTok i w = (s.store, { w with pc := .unwatch .retry }, false, none) := by
        simp only [wstep, hpc]
        rw [if_neg (show ¬ s.store.verOf w.op.svr.addr.key = v from hv)]
      exact inv_wstep_quiet h hc hr rfl (WInv.of_ver_none rfl hap)
  | unwatch a =>
    have hr : wstep s.store s.clock s.nextTok i w = (s.store, { w with pc := .relWatch a }, false, none) := by
      simp only [wstep, hpc]
    exact inv_wstep_quiet h hc hr rfl (WInv.of_ver_none rfl hap)
  | relWatch a =>
    have hr : wstep s.store s.clock s.nextTok i w = (s.store, { w with pc := .relGet a }, false, none) := by
      simp only [wstep, hpc]
    exact inv_wstep_quiet h hc hr rfl (WInv.of_ver_none rfl hap)
  | relGet a =>
    cases hl : s.store.locks[w.key]? with
    | none =>
      have hr : wstep s.store s.clock s.nextTok i w = (s.store, { w with pc := .relUnwatch a }, false, none) := by
        simp only [wstep, hpc]
        rw [show s.store.locks[w.op.svr.addr.key]? = none from hl]
      exact inv_wstep_quiet h hc hr rfl (WInv.of_ver_none rfl hap)
    | some cell =>
      by_cases ht : cell.token = w.tok
      · have hr : wstep s.store s.clock s.nextTok i w = (s.store, { w with pc := .relDel a }, false, none) := by
          simp only [wstep, hpc]
          rw [show s.store.locks[w.op.svr.addr.key]? = some cell from hl]
          simp only [ht, if_true]
        exact inv_wstep_quiet h hc hr rfl (WInv.of_ver_none rfl hap)
      · have hr : wstep s.store s.clock s.nextTok i w = (s.store, { w with pc := .relUnwatch a }, false, none) := by
          simp only [wstep, hpc]
          rw [show s.store.locks[w.op.svr.addr.key]? = some cell from hl]
          simp only [ht, if_false]
        exact inv_wstep_quiet h hc hr rfl (WInv.of_ver_none rfl hap)
  | relDel a =>
    cases hl : s.store.locks[w.key]? with
    | none =>
      have hr : wstep s.store s.clock s.nextTok i w = (s.store, { w with pc := .relUnwatch a }, false, none) := by
        simp only [wstep, hpc]
        rw [RStore.lockDel_none (show s.store.locks[w.op.svr.addr.key]? = none from hl)]
      exact inv_wstep_quiet h hc hr rfl (WInv.of_ver_none rfl hap)
    | some cell =>
      have hr : wstep s.store s.clock s.nextTok i w =
          ({ s.store.touchLock w.key none with locks := s.store.locks.erase w.key },
           { w with pc := .relUnwatch a }, false, none) := by
        simp only [wstep, hpc]
        rw [RStore.lockDel_some (show s.store.locks[w.op.svr.addr.key]? = some cell from hl)]
        rfl
      refine inv_wstep_of h hc hr (StoreRel.touch _ _ _ _) ?_ ?_ (Or.inl ⟨rfl, rfl⟩) (WInv.of_ver_none rfl hap)
      · intro k' t ht
        have ht' : (s.store.touchLock w.key none).lastOf k' = some t := ht
        rw [RStore.lastOf_touchLock] at ht'
        split at ht'
        · cases ht'
        · exact h.lastLt k' t ht'
      · intro k' c' hk'
        have hk'' : (s.store.locks.erase w.key)[k']? = some c' := hk'
        show (s.store.touchLock w.key none).lastOf k' = _
        rw [ExtTreeMap.getElem?_erase] at hk''
        rw [RStore.lastOf_touchLock]
        by_cases hkk : w.key = k'
        · simp [hkk] at hk''
        · simp only [Nat.compare_eq_eq, hkk, if_false] at hk'' ⊢
          exact h.valLast k' c' hk''
  | relUnwatch a =>
    apply inv_wstep_after h hc a
    simp only [wstep, hpc]
    rfl
  | done r =>
    have hr : wstep s.store s.clock s.nextTok i w = (s.store, w, false, none) := by
      simp only [wstep, hpc]
    exact inv_wstep_quiet h hc hr rfl hw

/-- **The invariant is inductive**: every event — a storage command of any client, a lease expiry
under either expiry semantics, a clock tick — preserves it. -/
theorem inv_step {s : Sys} (h : Inv s) (e : Ev) : Inv (s.step e) := by
  cases e with
  | expire k => exact inv_expire h k
  | tick d => exact inv_tick h d
  | step i =>
    cases hc : s.clients[i]? with
    | none => rw [Sys.step_none s i hc]; exact h
    | some c =>
      cases c with
      | writer w => exact inv_wstep h i w hc
      | reader r => exact inv_rstep h i r hc

theorem inv_run {s : Sys} (h : Inv s) (es : List Ev) : Inv (s.run es) := by
  induction es generalizing s with
  | nil => exact h
  | cons e es ih => exact ih (inv_step h e)

/-! ## initial states -/

/-- well-formed initial systems: every writer is about to start (`SET NX`), tokens are distinct and
below the fresh-token counter, resolvers return records for the address they were given, stored
records are keyed by their address, existing lock cells are accounted for by the ghost maps -/
structure Init (s : Sys) : Prop where
  tokLt : ∀ (i : Nat) (w : Writer), s.clients[i]? = some (.writer w) → w.tok < s.nextTok
  tokInj : ∀ (i j : Nat) (wi wj : Writer), s.clients[i]? = some (.writer wi) → s.clients[j]? = some (.writer wj) →
    wi.tok = wj.tok → i = j
  atStart : ∀ (i : Nat) (w : Writer), s.clients[i]? = some (.writer w) → w.pc = .setnx ∧ w.committed = false
  resAP : ∀ (i : Nat) (w : Writer), s.clients[i]? = some (.writer w) → KeyPreserving w.op
  keyed : ∀ (k : Nat) (r : Server), s.store.items[k]? = some r → r.addr.key = k
  lastLt : ∀ (k t : Nat), s.store.lastOf k = some t → t < s.nextTok
  valLast : ∀ (k : Nat) (c : LockCell), s.store.locks[k]? = some c → s.store.lastOf k = some c.token
  logNil : s.log = []

theorem inv_init {s : Sys} (h : Init s) : Inv s :=
  ⟨h.tokLt, h.tokInj, h.lastLt, h.valLast, h.keyed, fun i w hc =>
    WInv.of_ver_none (by rw [(h.atStart i w hc).1]; rfl) (h.resAP i w hc)⟩

/-! ## rows change only by a commit -/

namespace RStore

theorem lockSetNX_rows (st : RStore) (k tok : Nat) : (st.lockSetNX k tok).1.RowsEq st := by
  unfold lockSetNX; split
  · exact RowsEq.refl _
  · exact ⟨rfl, rfl, rfl, rfl⟩

theorem lockDel_rows (st : RStore) (k : Nat) : (st.lockDel k).RowsEq st := by
  unfold lockDel; split
  · exact RowsEq.refl _
  · exact ⟨rfl, rfl, rfl, rfl⟩

theorem lockExpire_rows (st : RStore) (k : Nat) (d : Bool) : (st.lockExpire k d).RowsEq st := by
  unfold lockExpire; split
  · exact RowsEq.refl _
  · split
    · split <;> exact ⟨rfl, rfl, rfl, rfl⟩
    · exact RowsEq.refl _

end RStore

/-- a batch is a function of the rows only -/
theorem Batch.apply_rows_congr (b : Batch) {x y : RStore} (h : x.RowsEq y) : (b.apply x).RowsEq (b.apply y) := by
  obtain ⟨h1, h2, h3, h4⟩ := h
  cases b with
  | save svr now =>
    refine ⟨?_, ?_, ?_, ?_⟩
    · show x.items.insert _ _ = y.items.insert _ _; rw [h1]
    · show x.updated.insert _ _ = y.updated.insert _ _; rw [h2]
    · show (match svr.refreshedAt with | none => x.refreshed.erase _ | some t => x.refreshed.insert _ t) =
        (match svr.refreshedAt with | none => y.refreshed.erase _ | some t => y.refreshed.insert _ t)
      rw [h3]
    · show RStore.setStatus x.statusSet _ _ = RStore.setStatus y.statusSet _ _; rw [h4]
  | remove k =>
    refine ⟨?_, ?_, ?_, ?_⟩
    · show x.items.erase _ = y.items.erase _; rw [h1]
    · show x.updated.erase _ = y.updated.erase _; rw [h2]
    · show x.refreshed.erase _ = y.refreshed.erase _; rw [h3]
    · show RStore.clearStatus x.statusSet _ = RStore.clearStatus y.statusSet _; rw [h4]

/-- Frame of one writer command: either it is the EXEC of a writer whose WATCH is still valid — then
the store is the batch applied and exactly that commit is reported — or no row changes and nothing
is reported. -/
theorem wstep_frame (st : RStore) (clock : Int) (fresh i : Nat) (w : Writer) :
    (∃ (v : Nat) (ex : Option Server) (now : Int) (b : Batch) (r : WResult),
        w.pc = .exec v ex now b r ∧ st.verOf w.key = v ∧
        wstep st clock fresh i w =
          (b.apply st, { w with pc := .unwatch (.finished r), committed := true }, false, some ⟨i, st.items[w.key]?, b⟩)) ∨
    ((wstep st clock fresh i w).1.RowsEq st ∧ (wstep st clock fresh i w).2.2.2 = none) := by
  cases hpc : w.pc with
  | exec v ex now b r =>
    by_cases hv : st.verOf w.key = v
    · refine Or.inl ⟨v, ex, now, b, r, rfl, hv, ?_⟩
      simp only [wstep, hpc]
      rw [if_pos (show st.verOf w.op.svr.addr.key = v from hv)]
      rfl
    · refine Or.inr ?_
      simp only [wstep, hpc]
      rw [if_neg (show ¬ st.verOf w.op.svr.addr.key = v from hv)]
      exact ⟨RStore.RowsEq.refl _, by first | rfl | trivial⟩
  | setnx =>
    refine Or.inr ?_
    simp only [wstep, hpc]
    split
    · exact ⟨RStore.lockSetNX_rows _ _ _, by first | rfl | trivial⟩
    · exact ⟨RStore.RowsEq.refl _, by first | rfl | trivial⟩
  | relDel a =>
    refine Or.inr ?_
    simp only [wstep, hpc]
    exact ⟨RStore.lockDel_rows _ _, by first | rfl | trivial⟩
  | watch => refine Or.inr ?_; simp only [wstep, hpc]; exact ⟨RStore.RowsEq.refl _, by first | rfl | trivial⟩
  | ownGet v =>
    refine Or.inr ?_; simp only [wstep, hpc]
    split
    · exact ⟨RStore.RowsEq.refl _, by first | rfl | trivial⟩
    · split <;> exact ⟨RStore.RowsEq.refl _, by first | rfl | trivial⟩
  | hget v =>
    refine Or.inr ?_; simp only [wstep, hpc]
    split <;> exact ⟨RStore.RowsEq.refl _, by first | rfl | trivial⟩
  | unwatch a => refine Or.inr ?_; simp only [wstep, hpc]; exact ⟨RStore.RowsEq.refl _, by first | rfl | trivial⟩
  | relWatch a => refine Or.inr ?_; simp only [wstep, hpc]; exact ⟨RStore.RowsEq.refl _, by first | rfl | trivial⟩
  | relGet a =>
    refine Or.inr ?_; simp only [wstep, hpc]
    split
    · exact ⟨RStore.RowsEq.refl _, by first | rfl | trivial⟩
    · split <;> exact ⟨RStore.RowsEq.refl _, by first | rfl | trivial⟩
  | relUnwatch a => refine Or.inr ?_; simp only [wstep, hpc]; exact ⟨RStore.RowsEq.refl _, by first | rfl | trivial⟩
  | done r => refine Or.inr ?_; simp only [wstep, hpc]; exact ⟨RStore.RowsEq.refl _, by first | rfl | trivial⟩

/-- the event is the accepted EXEC of writer `i`, with batch `b` and result `r` -/
def IsCommit (s : Sys) (e : Ev) (i : Nat) (w : Writer) (b : Batch) (r : WResult) : Prop :=
  e = .step i ∧ s.clients[i]? = some (.writer w) ∧
    ∃ (v : Nat) (ex : Option Server) (now : Int), w.pc = .exec v ex now b r ∧ s.store.verOf w.key = v

/-- the system after writer `i` committed batch `b`: the batch applied, the writer on its way out with
result `r`, the commit logged; nothing else changes -/
def Sys.commitBy (s : Sys) (i : Nat) (w : Writer) (b : Batch) (r : WResult) : Sys :=
  { s with store := b.apply s.store, clients := s.clients.set i (.writer { w with pc := .unwatch (.finished r), committed := true }), log := s.log ++ [⟨i, s.store.items[w.key]?, b⟩] }

/-- Frame of one system event. -/
theorem step_frame (s : Sys) (e : Ev) :
    (∃ (i : Nat) (w : Writer) (b : Batch) (r : WResult), IsCommit s e i w b r ∧ s.step e = s.commitBy i w b r) ∨
    ((s.step e).store.RowsEq s.store ∧ (s.step e).log = s.log) := by
  cases e with
  | expire k => exact Or.inr ⟨RStore.lockExpire_rows _ _ _, rfl⟩
  | tick d => exact Or.inr ⟨RStore.RowsEq.refl _, rfl⟩
  | step i =>
    cases hc : s.clients[i]? with
    | none => rw [Sys.step_none s i hc]; exact Or.inr ⟨RStore.RowsEq.refl _, rfl⟩
    | some c =>
      cases c with
      | reader r => rw [Sys.step_reader s i r hc]; exact Or.inr ⟨RStore.RowsEq.refl _, rfl⟩
      | writer w =>
        rw [Sys.step_writer s i w hc]
        rcases wstep_frame s.store s.clock s.nextTok i w with ⟨v, ex, now, b, r, hpc, hv, hr⟩ | ⟨hrows, hnone⟩
        · refine Or.inl ⟨i, w, b, r, ⟨rfl, hc, v, ex, now, hpc, hv⟩, ?_⟩
          rw [hr]; rfl
        · refine Or.inr ⟨hrows, ?_⟩
          show (match (wstep s.store s.clock s.nextTok i w).2.2.2 with | some c => s.log ++ [c] | none => s.log) = s.log
          rw [hnone]

/-- the accepted EXEC, as an equation -/
theorem Sys.step_commit (s : Sys) (i : Nat) (w : Writer) (hc : s.clients[i]? = some (.writer w))
    {v : Nat} {ex : Option Server} {now : Int} {b : Batch} {r : WResult}
    (hpc : w.pc = .exec v ex now b r) (hv : s.store.verOf w.key = v) : s.step (.step i) = s.commitBy i w b r := by
  rw [Sys.step_writer s i w hc]
  have hr : wstep s.store s.clock s.nextTok i w =
      (b.apply s.store, { w with pc := .unwatch (.finished r), committed := true }, false,
        some ⟨i, s.store.items[w.key]?, b⟩) := by
    simp only [wstep, hpc]
    rw [if_pos (show s.store.verOf w.op.svr.addr.key = v from hv)]
    rfl
  rw [hr]; rfl

/-- the logged batches applied in order -/
def replay (st : RStore) (cs : List Commit) : RStore := cs.foldl (fun st c => c.batch.apply st) st

theorem replay_rows_congr {x y : RStore} (h : x.RowsEq y) (cs : List Commit) : (replay x cs).RowsEq (replay y cs) := by
  induction cs generalizing x y with
  | nil => exact h
  | cons c cs ih => exact ih (c.batch.apply_rows_congr h)

theorem replay_append (st : RStore) (xs ys : List Commit) : replay st (xs ++ ys) = replay (replay st xs) ys := by
  simp [replay, List.foldl_append]

/-- the rows after any run are the logged commits replayed over the initial rows -/
theorem run_replay (s : Sys) (es : List Ev) :
    ∃ L : List Commit, (s.run es).log = s.log ++ L ∧ (s.run es).store.RowsEq (replay s.store L) := by
  induction es generalizing s with
  | nil => exact ⟨[], by simp [Sys.run], RStore.RowsEq.refl _⟩
  | cons e es ih =>
    obtain ⟨L, hL, hR⟩ := ih (s.step e)
    rcases step_frame s e with ⟨i, w, b, r, _, heq⟩ | ⟨hrows, hlog⟩
    · refine ⟨⟨i, s.store.items[w.key]?, b⟩ :: L, ?_, ?_⟩
      · show ((s.step e).run es).log = _
        rw [hL, heq]; simp [Sys.commitBy]
      · show ((s.step e).run es).store.RowsEq _
        rw [heq] at hR ⊢
        exact hR
    · refine ⟨L, ?_, ?_⟩
      · show ((s.step e).run es).log = _
        rw [hL, hlog]
      · show ((s.step e).run es).store.RowsEq _
        exact hR.trans (replay_rows_congr hrows L)

/-! ## bounded progress -/

def WPC.rank : WPC → Nat
  | .setnx => 11
  | .watch => 10
  | .ownGet _ => 9
  | .hget _ => 8
  | .exec _ _ _ _ _ => 7
  | .unwatch _ => 6
  | .relWatch _ => 5
  | .relGet _ => 4
  | .relDel _ => 3
  | .relUnwatch _ => 2
  | .done _ => 0

/-- termination measure of a registry write: attempts not yet started, then position in the attempt -/
def Writer.measure (w : Writer) : Nat := w.attemptsLeft * 16 + w.pc.rank

def Writer.finished (w : Writer) : Prop := ∃ r, w.pc = .done r

instance (w : Writer) : Decidable w.finished :=
  match h : w.pc with
  | .done r => isTrue ⟨r, h⟩
  | .setnx | .watch | .ownGet _ | .hget _ | .exec _ _ _ _ _ | .unwatch _ | .relWatch _ | .relGet _ | .relDel _
  | .relUnwatch _ => isFalse (by rintro ⟨r, hr⟩; rw [h] at hr; cases hr)

theorem Writer.measure_pos {w : Writer} (h : ¬ w.finished) : 0 < w.measure := by
  unfold Writer.measure
  cases hpc : w.pc <;> simp only [WPC.rank] <;> try omega
  exact absurd ⟨_, hpc⟩ h

/-- every storage command of an unfinished writer strictly decreases its measure, whatever the store holds -/
theorem wstep_measure (st : RStore) (clock : Int) (fresh i : Nat) (w : Writer) (h : ¬ w.finished) :
    (wstep st clock fresh i w).2.1.measure < w.measure := by
  unfold Writer.measure
  cases hpc : w.pc with
  | done r => exact absurd ⟨_, hpc⟩ h
  | setnx =>
    simp only [wstep, hpc]
    split
    · simp only [WPC.rank]; omega
    · split
      · rename_i h0; simp only [WPC.rank, h0]; omega
      · simp only [WPC.rank]; omega
  | watch => simp only [wstep, hpc, WPC.rank]; omega
  | ownGet v =>
    simp only [wstep, hpc]
    split
    · simp only [WPC.rank]; omega
    · split <;> (simp only [WPC.rank]; omega)
  | hget v =>
    simp only [wstep, hpc]
    split <;> (simp only [WPC.rank]; omega)
  | exec v ex now b r =>
    simp only [wstep, hpc]
    split <;> (simp only [WPC.rank]; omega)
  | unwatch a => simp only [wstep, hpc, WPC.rank]; omega
  | relWatch a => simp only [wstep, hpc, WPC.rank]; omega
  | relGet a =>
    simp only [wstep, hpc]
    split
    · simp only [WPC.rank]; omega
    · split <;> (simp only [WPC.rank]; omega)
  | relDel a => simp only [wstep, hpc, WPC.rank]; omega
  | relUnwatch a =>
    simp only [wstep, hpc]
    cases a with
    | finished r => simp only [WPC.rank]; omega
    | retry =>
      simp only
      split
      · rename_i h0; simp only [WPC.rank, h0]; omega
      · simp only [WPC.rank]; omega

theorem wstep_done (st : RStore) (clock : Int) (fresh i : Nat) (w : Writer) (h : w.finished) :
    (wstep st clock fresh i w).2.1 = w := by
  obtain ⟨r, hr⟩ := h
  simp only [wstep, hr]

/-- clients other than the stepped one are untouched -/
theorem Sys.step_clients_of_ne (s : Sys) (e : Ev) (i : Nat) (h : e ≠ .step i) :
    (s.step e).clients[i]? = s.clients[i]? := by
  cases e with
  | expire k => rfl
  | tick d => rfl
  | step j =>
    have hji : ¬ i = j := fun e => h (by rw [e])
    cases hc : s.clients[j]? with
    | none => rw [Sys.step_none s j hc]
    | some c =>
      cases c with
      | reader r => rw [Sys.step_reader s j r hc]; show (s.clients.set j _)[i]? = _; rw [getElem?_set_of_some hc]; simp [hji]
      | writer w => rw [Sys.step_writer s j w hc]; show (s.clients.set j _)[i]? = _; rw [getElem?_set_of_some hc]; simp [hji]

theorem Sys.step_clients_self_writer (s : Sys) (i : Nat) (w : Writer) (hc : s.clients[i]? = some (.writer w)) :
    (s.step (.step i)).clients[i]? = some (.writer (wstep s.store s.clock s.nextTok i w).2.1) := by
  rw [Sys.step_writer s i w hc]
  show (s.clients.set i _)[i]? = _
  rw [getElem?_set_of_some hc]; simp

/-- is client `i` an unfinished writer -/
def Sys.liveWriter (s : Sys) (i : Nat) : Bool :=
  match s.clients[i]? with
  | some (.writer w) => Decidable.decide (¬ w.finished)
  | _ => false

/-- number of `step i` events of a schedule that are executed while writer `i` is unfinished -/
def ownSteps (i : Nat) : Sys → List Ev → Nat
  | _, [] => 0
  | s, e :: es => (match e with | .step j => if j = i ∧ s.liveWriter i = true then 1 else 0 | _ => 0) + ownSteps i (s.step e) es

/-- in any schedule, writer `i` executes at most `measure` commands; afterwards its measure accounts for the rest -/
theorem ownSteps_le (i : Nat) (s : Sys) (w : Writer) (hc : s.clients[i]? = some (.writer w)) (es : List Ev) :
    ∃ w' : Writer, (s.run es).clients[i]? = some (.writer w') ∧ ownSteps i s es + w'.measure ≤ w.measure := by
  induction es generalizing s w with
  | nil => exact ⟨w, hc, by simp [ownSteps]⟩
  | cons e es ih =>
    by_cases he : e = .step i
    · subst he
      have hc' := Sys.step_clients_self_writer s i w hc
      obtain ⟨w', hw', hle⟩ := ih (s.step (.step i)) _ hc'
      refine ⟨w', hw', ?_⟩
      by_cases hf : w.finished
      · have hlive : s.liveWriter i = false := by simp [Sys.liveWriter, hc, hf]
        rw [wstep_done _ _ _ _ _ hf] at hle
        simp only [ownSteps, hlive]
        simpa using hle
      · have hlive : s.liveWriter i = true := by simp [Sys.liveWriter, hc, hf]
        have hm := wstep_measure s.store s.clock s.nextTok i w hf
        simp only [ownSteps, hlive]
        simp only [and_self, if_true]
        omega
    · have hc' : (s.step e).clients[i]? = some (.writer w) := by rw [Sys.step_clients_of_ne s e i he]; exact hc
      obtain ⟨w', hw', hle⟩ := ih (s.step e) w hc'
      refine ⟨w', hw', ?_⟩
      have h0 : (match e with | .step j => if j = i ∧ s.liveWriter i = true then 1 else 0 | _ => 0) = 0 := by
        cases e with
        | step j =>
          have : ¬ j = i := fun e => he (by rw [e])
          simp [this]
        | expire k => rfl
        | tick d => rfl
      simp only [ownSteps, h0]
      omega

/-- number of `step i` events in a schedule -/
def stepsOf (i : Nat) (es : List Ev) : Nat :=
  (es.filter fun e => match e with | .step j => j == i | _ => false).length

/-- a finished writer never moves again -/
theorem finished_stable (i : Nat) (s : Sys) (w : Writer) (hc : s.clients[i]? = some (.writer w)) (hf : w.finished)
    (es : List Ev) : (s.run es).clients[i]? = some (.writer w) := by
  induction es generalizing s with
  | nil => exact hc
  | cons e es ih =>
    apply ih (s.step e)
    by_cases he : e = .step i
    · subst he
      rw [Sys.step_clients_self_writer s i w hc, wstep_done _ _ _ _ _ hf]
    · rw [Sys.step_clients_of_ne s e i he]; exact hc

/-- a writer that is scheduled at least `measure` times has returned, whatever else happens in between -/
theorem finishes_of_stepsOf (i : Nat) (s : Sys) (w : Writer) (hc : s.clients[i]? = some (.writer w)) (es : List Ev)
    (hn : w.measure ≤ stepsOf i es) : ∃ w' : Writer, (s.run es).clients[i]? = some (.writer w') ∧ w'.finished := by
  induction es generalizing s w with
  | nil =>
    by_cases hf : w.finished
    · exact ⟨w, hc, hf⟩
    · have := Writer.measure_pos hf
      simp [stepsOf] at hn; omega
  | cons e es ih =>
    by_cases hf : w.finished
    · exact ⟨w, finished_stable i s w hc hf _, hf⟩
    by_cases he : e = .step i
    · subst he
      have hc' := Sys.step_clients_self_writer s i w hc
      have hcount : stepsOf i (Ev.step i :: es) = stepsOf i es + 1 := by simp [stepsOf]
      apply ih (s.step (.step i)) _ hc'
      have hm := wstep_measure s.store s.clock s.nextTok i w hf
      omega
    · have hc' : (s.step e).clients[i]? = some (.writer w) := by rw [Sys.step_clients_of_ne s e i he]; exact hc
      have hcount : stepsOf i (e :: es) = stepsOf i es := by
        cases e with
        | step j =>
          have : ¬ j = i := fun e => he (by rw [e])
          simp [stepsOf, this]
        | expire k => simp [stepsOf]
        | tick d => simp [stepsOf]
      exact ih (s.step e) w hc' (by omega)

theorem Writer.start_measure (op : WOp) (tok : Nat) : (Writer.start op tok).measure = 75 := rfl

/-! ## readers -/

theorem mem_hmgetItems {st : RStore} {keys : List Nat} {r : Server} (h : r ∈ st.hmgetItems keys) :
    ∃ k ∈ keys, st.items[k]? = some r := by
  unfold RStore.hmgetItems at h
  rw [List.mem_filterMap] at h
  exact h

theorem Sys.step_clients_self_reader (s : Sys) (i : Nat) (r : Reader) (hc : s.clients[i]? = some (.reader r)) :
    (s.step (.step i)).clients[i]? = some (.reader (rstep s.store r)) := by
  rw [Sys.step_reader s i r hc]
  show (s.clients.set i _)[i]? = _
  rw [getElem?_set_of_some hc]; simp

/-! ## the ghost log: every commit decided on the row of the sequential replay -/

/-- the result a writer is going to return, once its attempt has been decided -/
def WPC.fin? : WPC → Option WResult
  | .unwatch (.finished r) => some r
  | .relWatch (.finished r) => some r
  | .relGet (.finished r) => some r
  | .relDel (.finished r) => some r
  | .relUnwatch (.finished r) => some r
  | .done r => some r
  | _ => none

/-- a decided writer stays decided on the same result, keeps its call and its commit flag, and reports no commit -/
theorem wstep_fin (st : RStore) (clock : Int) (fresh i : Nat) (w : Writer) (r : WResult) (h : w.pc.fin? = some r) :
    (wstep st clock fresh i w).2.1.pc.fin? = some r ∧ (wstep st clock fresh i w).2.1.op = w.op ∧
      (wstep st clock fresh i w).2.1.committed = w.committed := by
  cases hpc : w.pc with
  | setnx => rw [hpc] at h; cases h
  | watch => rw [hpc] at h; cases h
  | ownGet v => rw [hpc] at h; cases h
  | hget v => rw [hpc] at h; cases h
  | exec v ex now b r' => rw [hpc] at h; cases h
  | unwatch a =>
    cases a with
    | retry => rw [hpc] at h; cases h
    | finished r' => rw [hpc] at h; cases h; simp [wstep, hpc, WPC.fin?]
  | relWatch a =>
    cases a with
    | retry => rw [hpc] at h; cases h
    | finished r' => rw [hpc] at h; cases h; simp [wstep, hpc, WPC.fin?]
  | relGet a =>
    cases a with
    | retry => rw [hpc] at h; cases h
    | finished r' =>
      rw [hpc] at h; cases h; simp only [wstep, hpc]
      split
      · simp [WPC.fin?]
      · split <;> simp [WPC.fin?]
  | relDel a =>
    cases a with
    | retry => rw [hpc] at h; cases h
    | finished r' => rw [hpc] at h; cases h; simp [wstep, hpc, WPC.fin?]
  | relUnwatch a =>
    cases a with
    | retry => rw [hpc] at h; cases h
    | finished r' => rw [hpc] at h; cases h; simp [wstep, hpc, WPC.fin?]
  | done r' => rw [hpc] at h; cases h; simp [wstep, hpc, WPC.fin?]

/-- a command that reports no commit leaves the commit flag alone -/
theorem wstep_committed (st : RStore) (clock : Int) (fresh i : Nat) (w : Writer)
    (h : (wstep st clock fresh i w).2.2.2 = none) : (wstep st clock fresh i w).2.1.committed = w.committed := by
  cases hpc : w.pc with
  | exec v ex now b r =>
    simp only [wstep, hpc] at h ⊢
    split
    · rename_i hv; rw [if_pos hv] at h; cases h
    · rfl
  | setnx =>
    simp only [wstep, hpc]
    split
    · rfl
    · split <;> rfl
  | watch => simp only [wstep, hpc]
  | ownGet v =>
    simp only [wstep, hpc]
    split
    · rfl
    · split <;> rfl
  | hget v => simp only [wstep, hpc]; split <;> rfl
  | unwatch a => simp only [wstep, hpc]
  | relWatch a => simp only [wstep, hpc]
  | relGet a =>
    simp only [wstep, hpc]
    split
    · rfl
    · split <;> rfl
  | relDel a => simp only [wstep, hpc]
  | relUnwatch a =>
    simp only [wstep, hpc]
    cases a with
    | finished r => rfl
    | retry => simp only; split <;> rfl
  | done r => simp only [wstep, hpc]

/-- any event keeps a decided writer decided -/
theorem Sys.step_fin_stable (s : Sys) (e : Ev) (j : Nat) (w : Writer) (r : WResult)
    (hc : s.clients[j]? = some (.writer w)) (hf : w.pc.fin? = some r) :
    ∃ w' : Writer, (s.step e).clients[j]? = some (.writer w') ∧ w'.op = w.op ∧ w'.committed = w.committed ∧
      w'.pc.fin? = some r := by
  by_cases he : e = .step j
  · subst he
    obtain ⟨h1, h2, h3⟩ := wstep_fin s.store s.clock s.nextTok j w r hf
    exact ⟨_, Sys.step_clients_self_writer s j w hc, h2, h3, h1⟩
  · exact ⟨w, by rw [Sys.step_clients_of_ne s e j he]; exact hc, rfl, rfl, hf⟩

/-- an event that logs nothing does not raise a commit flag -/
theorem Sys.step_committed_of_quiet (s : Sys) (e : Ev) (hlog : (s.step e).log = s.log) (j : Nat) (w' : Writer)
    (hc' : (s.step e).clients[j]? = some (.writer w')) (hcm : w'.committed = true) :
    ∃ w : Writer, s.clients[j]? = some (.writer w) ∧ w.committed = true := by
  by_cases he : e = .step j
  · subst he
    cases hc : s.clients[j]? with
    | none => rw [Sys.step_none s j hc, hc] at hc'; cases hc'
    | some c =>
      cases c with
      | reader r => rw [Sys.step_clients_self_reader s j r hc] at hc'; cases hc'
      | writer w =>
        rw [Sys.step_clients_self_writer s j w hc] at hc'
        cases hc'
        refine ⟨w, rfl, ?_⟩
        rw [← wstep_committed s.store s.clock s.nextTok j w ?_]; exact hcm
        rw [Sys.step_writer s j w hc] at hlog
        have hlog' : (match (wstep s.store s.clock s.nextTok j w).2.2.2 with | some c => s.log ++ [c] | none => s.log) = s.log := hlog
        cases hcmt : (wstep s.store s.clock s.nextTok j w).2.2.2 with
        | none => rfl
        | some c =>
          rw [hcmt] at hlog'
          have : (s.log ++ [c]).length = s.log.length := congrArg List.length hlog'
          simp at this
  · rw [Sys.step_clients_of_ne s e j he] at hc'
    exact ⟨w', hc', hcm⟩

/-- what the ghost log records about a run that started from store `st0` -/
structure LogInv (st0 : RStore) (s : Sys) : Prop where
  /-- the rows are the logged batches replayed over the initial rows -/
  rows : s.store.RowsEq (replay st0 s.log)
  /-- the `n`-th commit: its writer has decided, on the row the replay of the first `n` commits leaves at its
  address, exactly the logged batch and the result it returns; the batch writes that address -/
  entries : ∀ (n : Nat) (c : Commit), s.log[n]? = some c →
    ∃ (w : Writer) (now : Int) (r : WResult), s.clients[c.client]? = some (.writer w) ∧ w.committed = true ∧
      w.pc.fin? = some r ∧ c.before = (replay st0 (s.log.take n)).items[w.key]? ∧
      decideOp w.op c.before now = .inr (c.batch, r) ∧ c.batch.key = w.key
  /-- a writer whose commit flag is up has a log entry -/
  flagged : ∀ (i : Nat) (w : Writer), s.clients[i]? = some (.writer w) → w.committed = true →
    ∃ c ∈ s.log, c.client = i
  /-- every call commits at most once -/
  once : (s.log.map (·.client)).Nodup

theorem loginv_init {s : Sys} (h : Init s) : LogInv s.store s := by
  refine ⟨?_, ?_, ?_, ?_⟩
  · rw [h.logNil]; exact RStore.RowsEq.refl _
  · intro n c hn; rw [h.logNil] at hn; simp at hn
  · intro i w hc hcm; rw [(h.atStart i w hc).2] at hcm; cases hcm
  · rw [h.logNil]; simp

theorem loginv_step {st0 : RStore} {s : Sys} (h : Inv s) (hl : LogInv st0 s) (e : Ev) : LogInv st0 (s.step e) := by
  rcases step_frame s e with ⟨i, w, b, r, ⟨_, hc, v, ex, now, hpc, hv⟩, heq⟩ | ⟨hrows, hlog⟩
  · -- a commit by writer `i`
    have hw := h.winv i w hc
    have hbk : b.key = w.key := hw.execKey v ex now b r hpc
    have hdec : decideOp w.op (s.store.items[w.key]?) now = .inr (b, r) := by
      rw [← hw.readCur v ex now b r hpc hv.symm]; exact hw.execDecide v ex now b r hpc
    have hcl : ∀ j : Nat, (s.commitBy i w b r).clients[j]? =
        if j = i then some (.writer { w with pc := .unwatch (.finished r), committed := true }) else s.clients[j]? :=
      fun j => getElem?_set_of_some hc _ j
    have hnotin : ∀ c ∈ s.log, c.client ≠ i := by
      intro c hcmem hci
      obtain ⟨n, hn⟩ := List.getElem?_of_mem hcmem
      obtain ⟨w0, _, r0, hc0, _, hf0, _⟩ := hl.entries n c hn
      rw [hci, hc] at hc0; cases hc0
      rw [hpc] at hf0; cases hf0
    rw [heq]
    refine ⟨?_, ?_, ?_, ?_⟩
    · show (b.apply s.store).RowsEq (replay st0 (s.log ++ [(⟨i, s.store.items[w.key]?, b⟩ : Commit)]))
      rw [replay_append]
      exact b.apply_rows_congr hl.rows
    · intro n c hn
      have hn' : (s.log ++ [(⟨i, s.store.items[w.key]?, b⟩ : Commit)])[n]? = some c := hn
      show ∃ (w' : Writer) (now : Int) (r' : WResult), (s.commitBy i w b r).clients[c.client]? = some (.writer w') ∧ _ ∧ _ ∧
        c.before = (replay st0 ((s.log ++ [(⟨i, s.store.items[w.key]?, b⟩ : Commit)]).take n)).items[w'.key]? ∧ _ ∧ _
      by_cases hlt : n < s.log.length
      · rw [List.getElem?_append_left hlt] at hn'
        obtain ⟨w0, now0, r0, hc0, hcm0, hf0, hb0, hd0, hk0⟩ := hl.entries n c hn'
        have hne : c.client ≠ i := hnotin c (List.mem_of_getElem? hn')
        refine ⟨w0, now0, r0, ?_, hcm0, hf0, ?_, hd0, hk0⟩
        · rw [hcl]; simp [hne]; exact hc0
        · rw [List.take_append_of_le_length (Nat.le_of_lt hlt)]; exact hb0
      · have hge : s.log.length ≤ n := Nat.le_of_not_lt hlt
        rw [List.getElem?_append_right hge] at hn'
        have hn0 : n - s.log.length = 0 := by
          rcases Nat.eq_zero_or_pos (n - s.log.length) with h0 | hpos
          · exact h0
          · rw [List.getElem?_eq_none (by simp; omega)] at hn'; cases hn'
        rw [hn0] at hn'
        cases hn'
        have hn_eq : n = s.log.length := by omega
        subst hn_eq
        refine ⟨{ w with pc := .unwatch (.finished r), committed := true }, now, r, ?_, rfl, rfl, ?_, hdec, hbk⟩
        · rw [hcl]; simp
        · show s.store.items[w.key]? = _
          rw [List.take_left' rfl, hl.rows.1]
          rfl
    · intro j wj hj hcm
      rw [hcl] at hj
      by_cases hji : j = i
      · subst hji
        exact ⟨(⟨j, s.store.items[w.key]?, b⟩ : Commit), by simp [Sys.commitBy], rfl⟩
      · simp only [hji, if_false] at hj
        obtain ⟨c, hcmem, hcc⟩ := hl.flagged j wj hj hcm
        exact ⟨c, by simp [Sys.commitBy, hcmem], hcc⟩
    · show ((s.log ++ [(⟨i, s.store.items[w.key]?, b⟩ : Commit)]).map (·.client)).Nodup
      rw [List.map_append, List.nodup_append]
      refine ⟨hl.once, by simp, ?_⟩
      intro a ha b' hb'
      simp at hb'
      subst hb'
      obtain ⟨c, hcmem, hca⟩ := List.mem_map.mp ha
      intro hab
      exact hnotin c hcmem (hca.trans hab)
  · -- nothing logged, no row touched
    refine ⟨?_, ?_, ?_, ?_⟩
    · rw [hlog]; exact hrows.trans hl.rows
    · intro n c hn
      rw [hlog] at hn ⊢
      obtain ⟨w0, now0, r0, hc0, hcm0, hf0, hb0, hd0, hk0⟩ := hl.entries n c hn
      obtain ⟨w', hc', hop', hcm', hf'⟩ := Sys.step_fin_stable s e c.client w0 r0 hc0 hf0
      refine ⟨w', now0, r0, hc', hcm'.trans hcm0, hf', ?_, ?_, ?_⟩
      · show c.before = (replay st0 (s.log.take n)).items[w'.op.svr.addr.key]?
        rw [hop']; exact hb0
      · rw [hop']; exact hd0
      · show c.batch.key = w'.op.svr.addr.key
        rw [hop']; exact hk0
    · intro j wj hj hcm
      obtain ⟨w0, hc0, hcm0⟩ := Sys.step_committed_of_quiet s e hlog j wj hj hcm
      rw [hlog]
      exact hl.flagged j w0 hc0 hcm0
    · rw [hlog]; exact hl.once

theorem loginv_run {st0 : RStore} {s : Sys} (h : Inv s) (hl : LogInv st0 s) (es : List Ev) : LogInv st0 (s.run es) := by
  induction es generalizing s with
  | nil => exact hl
  | cons e es ih => exact ih (inv_step h e) (loginv_step h hl e)

end Swat4
