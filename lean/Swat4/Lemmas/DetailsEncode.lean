import Swat4.Lemmas.DetailsComplete
import Swat4.Lemmas.Decimal
/-!
# Every accepted details value is the reading of some response (C07, completeness made concrete)

`encodeDetails d` writes a details value as a decoded `gs1.Response`: each struct as the map from the
parameter names of its schema to the canonical spelling of the values (ints as plain decimals, bools `1`/`0`,
strings as they are).  `structReads_encode`: the struct is the field-by-field reading of its map, so the
hypotheses of `detailsOf_complete_of` hold and `detailsOf (encodeDetails d) = .ok d` for every well-shaped
accepted `d`.
-/
namespace Swat4.DetailsProbe
open Swat4 Swat4.Heartbeat Swat4.DetailsSpec

/-! ## `strconv.Atoi` reads back a plain decimal -/

theorem atoi_natDigits (n : Nat) (h : n < 2 ^ 63) : atoi (FilterSpec.natDigits n) = some (n : Int) := by
  have ⟨hne, hd, hv, _⟩ := Decimal.natDigits_spec n
  have hdig : ∀ c ∈ FilterSpec.natDigits n, isDigit c = true := by
    intro c hc
    have := hd c hc
    simp only [isDigit, Bool.and_eq_true, decide_eq_true_eq]
    exact ⟨UInt8.le_iff_toNat_le.mp this.1, UInt8.le_iff_toNat_le.mp this.2⟩
  have hval : decVal (FilterSpec.natDigits n) = n := hv
  cases hs : FilterSpec.natDigits n with
  | nil => exact absurd hs hne
  | cons c rest =>
    rw [hs] at hdig hval
    have hc := digit_not_sign (hdig c List.mem_cons_self)
    rw [atoi_nosign c rest hc.1 hc.2.1, natOf_of (by simp) hdig (by rw [hval]; exact h), hval]
    rfl

theorem atoi_neg_natDigits (n : Nat) (h : n ≤ 2 ^ 63) : atoi (0x2D :: FilterSpec.natDigits n) = some (-(n : Int)) := by
  have ⟨hne, hd, hv, _⟩ := Decimal.natDigits_spec n
  have hdig : ∀ c ∈ FilterSpec.natDigits n, isDigit c = true := by
    intro c hc
    have := hd c hc
    simp only [isDigit, Bool.and_eq_true, decide_eq_true_eq]
    exact ⟨UInt8.le_iff_toNat_le.mp this.1, UInt8.le_iff_toNat_le.mp this.2⟩
  have hval : decVal (FilterSpec.natDigits n) = n := hv
  rw [atoi_minus, natOf_of hne hdig (by rw [hval]; omega), hval]
  rfl

theorem atoi_renderInt (n : Int) (h1 : -(2 : Int) ^ 63 ≤ n) (h2 : n < (2 : Int) ^ 63) :
    atoi (FilterSpec.renderInt n) = some n := by
  unfold FilterSpec.renderInt
  split
  · rw [atoi_neg_natDigits _ (by omega)]; congr 1; omega
  · rw [atoi_natDigits _ (by omega)]; congr 1; omega

/-! ## the encoder -/

/-- canonical spelling of a field value -/
def renderVal : Val → Bytes
  | .int n => FilterSpec.renderInt n
  | .bool b => if b then [0x31] else [0x30]
  | .str s => s

/-- a struct as the map from its parameter names to the spelled values (fields without a name are not sent) -/
def encodeStruct : Schema → Fields → FieldMap
  | row :: rest, v :: vs =>
    match row.2.1 with
    | some name => (name, renderVal v) :: encodeStruct rest vs
    | none => encodeStruct rest vs
  | _, _ => []

/-- what can be sent for the struct field `row` and read back as `v`: a value of the field's kind, an int
within int64, and the zero value where the field has no parameter name -/
def Sendable (row : String × Option Bytes × Nat × List String) (v : Val) : Prop :=
  kindOf v = row.2.2.1 ∧ (∀ n, v = .int n → -(2 : Int) ^ 63 ≤ n ∧ n < (2 : Int) ^ 63) ∧
    (row.2.1 = none → zeroVal row.2.2.1 = some v)

theorem lookup_encode_not_mem (schema : Schema) (f : Fields) (pn : Bytes) (h : pn ∉ schema.filterMap (·.2.1)) :
    List.lookup pn (encodeStruct schema f) = none := by
  induction schema generalizing f with
  | nil => cases f <;> rfl
  | cons row rest ih =>
    cases f with
    | nil => rfl
    | cons v vs =>
      obtain ⟨name, p, k, tags⟩ := row
      cases p with
      | none =>
        simp only [encodeStruct]
        exact ih vs (by simpa [List.filterMap_cons] using h)
      | some p0 =>
        simp only [List.filterMap_cons, List.mem_cons, not_or] at h
        simp only [encodeStruct, List.lookup_cons]
        have : (pn == p0) = false := by simpa using h.1
        rw [this]
        exact ih vs h.2

theorem reads_encode_aux (full : FieldMap) (schema : Schema) (f : Fields)
    (hlook : ∀ pn, pn ∈ schema.filterMap (·.2.1) → List.lookup pn full = List.lookup pn (encodeStruct schema f))
    (hnd : (schema.filterMap (·.2.1)).Nodup) (hs : All2 Sendable schema f) : All2 (FieldReads full) schema f := by
  induction hs with
  | nil => exact .nil
  | @cons row v rest vs h1 _ ih =>
    obtain ⟨name, p, k, tags⟩ := row
    obtain ⟨hk, hrange, hzero⟩ := h1
    cases p with
    | none =>
      refine .cons ?_ (ih (fun pn hpn => by rw [hlook pn (by simpa [List.filterMap_cons] using hpn)]; rfl)
        (by simpa [List.filterMap_cons] using hnd))
      unfold FieldReads
      simp only [Option.bind_none]
      exact zeroVal_cases (hzero rfl)
    | some p0 =>
      simp only [List.filterMap_cons, List.nodup_cons] at hnd
      refine .cons ?_ (ih (fun pn hpn => ?_) hnd.2)
      · unfold FieldReads
        simp only [Option.bind_some]
        rw [hlook p0 (by simp)]
        simp only [encodeStruct, List.lookup_cons, BEq.rfl]
        cases v with
        | int n => exact .inl ⟨hk.symm, n, atoi_renderInt n (hrange n rfl).1 (hrange n rfl).2, rfl⟩
        | bool b => exact .inr (.inl ⟨hk.symm, b, by cases b <;> rfl, rfl⟩)
        | str s => exact .inr (.inr ⟨hk.symm, rfl⟩)
      · rw [hlook pn (by simp [hpn])]
        simp only [encodeStruct, List.lookup_cons]
        have : (pn == p0) = false := by
          have : pn ≠ p0 := fun e => hnd.1 (e ▸ hpn)
          simpa using this
        rw [this]

/-- a sendable struct is the reading of its encoding -/
theorem structReads_encode (schema : Schema) (f : Fields) (hnd : (schema.filterMap (·.2.1)).Nodup)
    (hs : All2 Sendable schema f) : StructReads schema (encodeStruct schema f) f :=
  reads_encode_aux _ schema f (fun _ _ => rfl) hnd hs

/-- an objective struct `[name, status]` as the pair of raw byte strings a `gs1.Response` holds -/
def encodeObjective (f : Fields) : Bytes × Bytes :=
  ((f[0]?.map renderVal).getD [], (f[1]?.map renderVal).getD [])

/-- a details value as a decoded response (dialect tag irrelevant to the stage) -/
def encodeDetails (d : Details) : GS1.Response :=
  ⟨encodeStruct infoSchema d.info, d.players.map (encodeStruct playerSchema), d.objectives.map encodeObjective, .gs1⟩

/-- every struct of `d` has the shape of its Go type -/
structure Shaped (d : Details) : Prop where
  info : All2 Sendable infoSchema d.info
  players : ∀ p ∈ d.players, All2 Sendable playerSchema p
  objectives : ∀ o ∈ d.objectives, All2 Sendable objectiveSchema o

/-- executable twin of `Sendable` / `All2 Sendable` (for checking concrete values) -/
def sendableB (row : String × Option Bytes × Nat × List String) (v : Val) : Bool :=
  kindOf v == row.2.2.1 &&
  (match v with | .int n => decide (-(2 : Int) ^ 63 ≤ n) && decide (n < (2 : Int) ^ 63) | _ => true) &&
  (row.2.1.isSome || zeroVal row.2.2.1 == some v)

def shapedB : Schema → Fields → Bool
  | [], [] => true
  | row :: rest, v :: vs => sendableB row v && shapedB rest vs
  | _, _ => false

theorem sendable_of_B {row : String × Option Bytes × Nat × List String} {v : Val} (h : sendableB row v = true) :
    Sendable row v := by
  simp only [sendableB, Bool.and_eq_true, Bool.or_eq_true, beq_iff_eq] at h
  refine ⟨h.1.1, ?_, ?_⟩
  · intro n hn; subst hn
    have := h.1.2
    simp only [Bool.and_eq_true, decide_eq_true_eq] at this
    exact this
  · intro hnone
    rcases h.2 with h2 | h2
    · rw [hnone] at h2; cases h2
    · exact h2

theorem all2_of_shapedB {schema : Schema} {f : Fields} (h : shapedB schema f = true) : All2 Sendable schema f := by
  induction schema generalizing f with
  | nil => cases f with
    | nil => exact .nil
    | cons _ _ => cases h
  | cons row rest ih =>
    cases f with
    | nil => cases h
    | cons v vs =>
      simp only [shapedB, Bool.and_eq_true] at h
      exact .cons (sendable_of_B h.1) (ih h.2)

theorem shaped_of_B {d : Details} (h : (shapedB infoSchema d.info && d.players.all (shapedB playerSchema) &&
    d.objectives.all (shapedB objectiveSchema)) = true) : Shaped d := by
  simp only [Bool.and_eq_true, List.all_eq_true] at h
  exact ⟨all2_of_shapedB h.1.1, fun p hp => all2_of_shapedB (h.1.2 p hp), fun o ho => all2_of_shapedB (h.2 o ho)⟩

theorem all2_map_right_self {α β : Type} {R : α → β → Prop} (g : β → α) (l : List β) (h : ∀ b ∈ l, R (g b) b) :
    All2 R (l.map g) l := by
  induction l with
  | nil => exact .nil
  | cons b t ih => exact .cons (h b List.mem_cons_self) (ih fun x hx => h x (List.mem_cons_of_mem _ hx))

theorem all2_len2 {R : (String × Option Bytes × Nat × List String) → Val → Prop} {r1 r2 : String × Option Bytes × Nat × List String}
    {o : Fields} (h : All2 R [r1, r2] o) : ∃ a b, o = [a, b] := by
  cases h with
  | cons _ h2 =>
    cases h2 with
    | cons _ h3 => cases h3; exact ⟨_, _, rfl⟩

theorem objMap_encode (o : Fields) (h : All2 Sendable objectiveSchema o) :
    objMap (encodeObjective o) = encodeStruct objectiveSchema o := by
  obtain ⟨a, b, rfl⟩ := all2_len2 (r1 := ("Name", some kName, 2, ["required"])) (r2 := ("Status", some kStatus, 0, ["oneof=0 1 2"])) h
  rfl

/-- the parameter names of each generated schema are pairwise different (decidable; `C07.details_params_nodup`) -/
structure ParamsNodup : Prop where
  info : (infoSchema.filterMap (·.2.1)).Nodup
  player : (playerSchema.filterMap (·.2.1)).Nodup
  objective : (objectiveSchema.filterMap (·.2.1)).Nodup

/-- **every accepted value is reached**: the stage maps the encoding of a well-shaped accepted `d` to `d` -/
theorem detailsOf_encode_of (hf : FactsOk) (hc : CoverOk) (hp : ParamsNodup) (d : Details) (hs : Shaped d)
    (ha : DetailsSpec.accepted d = true) : detailsOf (encodeDetails d) = .ok d := by
  refine detailsOf_complete_of hf hc (encodeDetails d) d (structReads_encode _ _ hp.info hs.info) ?_ ?_ ha
  · exact all2_map_right_self _ _ fun p hpm => structReads_encode _ _ hp.player (hs.players p hpm)
  · refine all2_map_right_self (R := fun o f => StructReads objectiveSchema (objMap o) f) _ _ fun o ho => ?_
    rw [objMap_encode o (hs.objectives o ho)]
    exact structReads_encode _ _ hp.objective (hs.objectives o ho)

end Swat4.DetailsProbe
