import Swat4.Lemmas.VerMono
import Swat4.Lemmas.CleanComplete
import Swat4.Lemmas.C13Bridge
/-!
# C14: the cleanup pass (`cleanServers2`: scan, fetch, guarded removals) inside the system model, any interleaving

`C14_race` assumed "every scanned copy of the key is older than the stored row".  Here that premise is **derived from the
run**: `Pending cutoff l s` — the copies `l` the cleaner still has to work through have pairwise different keys, none was
refreshed after the cutoff (the guard), and for each the store still holds a row under its key which is that very copy or a
newer version of it — is established by the cleaner's fetch (`fetch_pending`), kept by every event of the other clients as
long as they never `Remove` and pass stable conflict callbacks (`VerMono.Mono`), and by the cleaner's own removals
(`remove_step`).  Without the "never `Remove`" restriction it is false: remove + re-registration restarts the version
counter (ABA, `C13.aba_overwrites_fresh_registration`), and the cleaner's stale copy then wins over the fresh registration.
-/
namespace Swat4.CleanRace
open Swat4 Swat4.UC Std Swat4.VerMono Swat4.RowInv Swat4.USysInd Swat4.C13Run

/-- the guard of the pass: the copy was not refreshed after the cutoff -/
def Guarded (cutoff : Int) (sv : Server) : Prop := ∀ t, sv.refreshedAt = some t → t ≤ cutoff

/-- the repaired guard, as a list filter (`C14.guarded`) -/
def guarded (cutoff : Int) (svrs : List Server) : List Server :=
  svrs.filter fun s => match s.refreshedAt with | some t => !decide (t > cutoff) | none => true

theorem guarded_spec (cutoff : Int) (svrs : List Server) (sv : Server) (h : sv ∈ guarded cutoff svrs) :
    sv ∈ svrs ∧ Guarded cutoff sv := by
  unfold guarded at h
  obtain ⟨hm, hp⟩ := List.mem_filter.1 h
  refine ⟨hm, fun t ht => ?_⟩
  simp only [ht, Bool.not_eq_true', decide_eq_false_iff_not] at hp
  omega

/-- what the run guarantees about the copies the cleaner still has to work through -/
def Pending (cutoff : Int) (l : List Server) (s : AbsState) : Prop :=
  (l.map (·.addr.key)).Nodup ∧
  ∀ sv ∈ l, Guarded cutoff sv ∧
    ∃ row, s.servers[sv.addr.key]? = some row ∧ (row.svr.version > sv.version ∨ row.svr = sv)

theorem Pending.nil (cutoff : Int) (s : AbsState) : Pending cutoff [] s := ⟨List.nodup_nil, fun _ h => by simp at h⟩

/-- the others (no `Remove`, stable callbacks) keep it -/
theorem Pending.mono {cutoff : Int} {l : List Server} {s s' : AbsState} (h : Pending cutoff l s) (hm : Mono s s') :
    Pending cutoff l s' := by
  refine ⟨h.1, fun sv hsv => ?_⟩
  obtain ⟨hg, row, hrow, hrel⟩ := h.2 sv hsv
  obtain ⟨row', hrow', hrel'⟩ := hm sv.addr.key row hrow
  refine ⟨hg, row', hrow', ?_⟩
  rcases hrel' with rfl | h'
  · exact hrel
  · rcases hrel with h1 | h1
    · exact Or.inl (by omega)
    · exact Or.inl (by rw [h1] at h'; exact h')

/-- **C14_race's premise, derived**: a stored row refreshed after the cutoff is strictly newer than every pending copy of its
key -/
theorem Pending.premise {cutoff : Int} {l : List Server} {s : AbsState} (h : Pending cutoff l s) (k : Nat) (row : SRow) (t : Int)
    (hrow : s.servers[k]? = some row) (hr : row.svr.refreshedAt = some t) (ht : t > cutoff) :
    ∀ sv ∈ l, sv.addr.key = k → sv.version < row.svr.version := by
  intro sv hsv hk
  obtain ⟨hg, row', hrow', hrel⟩ := h.2 sv hsv
  rw [hk, hrow] at hrow'
  cases hrow'
  rcases hrel with h1 | h1
  · exact h1
  · exfalso
    have := hg t (h1 ▸ hr)
    omega

/-! ## one removal of the pass -/

theorem cleanResolver_addr (cutoff : Int) (x r : Server) (h : cleanResolver cutoff x = some r) : r = x := by
  unfold cleanResolver at h
  cases hr : x.refreshedAt with
  | none => simp [hr] at h; exact h.symm
  | some t =>
    simp only [hr] at h
    split at h
    · cases h
    · cases h; rfl

/-- the removal touches at most the row under the copy's key -/
theorem remove_other (s : AbsState) (hk : Keyed s) (cutoff : Int) (sv : Server) (k : Nat) (hne : k ≠ sv.addr.key) :
    (s.remove sv (cleanResolver cutoff)).1.servers[k]? = s.servers[k]? := by
  unfold AbsState.remove
  cases hrow : s.getRow sv.addr with
  | none => rfl
  | some ex =>
    have hrow' : s.servers[sv.addr.key]? = some ex := hrow
    simp only
    split
    · cases hx : cleanResolver cutoff ex.svr with
      | none => rfl
      | some r =>
        have := cleanResolver_addr cutoff _ _ hx
        subst this
        simp only [ExtTreeMap.getElem?_erase]
        rw [if_neg]
        simp only [compare_eq_iff_eq]
        rw [hk _ _ hrow']
        exact fun e => hne e.symm
    · simp only [ExtTreeMap.getElem?_erase]
      rw [if_neg]
      simp only [compare_eq_iff_eq]
      exact fun e => hne e.symm

/-- a newer record refreshed after the cutoff defends itself: the conflict callback refuses -/
theorem remove_refused (s : AbsState) (cutoff : Int) (sv : Server) (row : SRow) (t : Int)
    (hrow : s.servers[sv.addr.key]? = some row) (hnew : row.svr.version > sv.version)
    (hr : row.svr.refreshedAt = some t) (ht : t > cutoff) : (s.remove sv (cleanResolver cutoff)).1 = s := by
  have hrow' : s.getRow sv.addr = some row := hrow
  unfold AbsState.remove cleanResolver
  simp [hrow', hnew, hr, ht]

/-- the record one holds is erased -/
theorem remove_same (s : AbsState) (cutoff : Int) (sv : Server) (row : SRow)
    (hrow : s.servers[sv.addr.key]? = some row) (hsame : row.svr = sv) :
    (s.remove sv (cleanResolver cutoff)).1.servers[sv.addr.key]? = none := by
  have hrow' : s.getRow sv.addr = some row := hrow
  have : ¬ row.svr.version > sv.version := by rw [hsame]; omega
  simp [AbsState.remove, hrow', this]

theorem remove_keyed (s : AbsState) (hk : Keyed s) (sv : Server) (res : Resolver) : Keyed (s.remove sv res).1 :=
  (remove_inv (R := fun _ => True) hk (fun _ _ _ => trivial) sv res).1

/-- **the cleaner's own removal** keeps `Pending` for the remaining copies, and never removes a row that is refreshed
after the cutoff — under *any* key, in particular the head copy's (there: by the derived premise) -/
theorem remove_step (s : AbsState) (hk : Keyed s) (cutoff : Int) (sv : Server) (rest : List Server)
    (hp : Pending cutoff (sv :: rest) s) :
    Pending cutoff rest (s.remove sv (cleanResolver cutoff)).1 ∧
    (∀ (k : Nat) (row : SRow) (t : Int), s.servers[k]? = some row → row.svr.refreshedAt = some t → t > cutoff →
      (s.remove sv (cleanResolver cutoff)).1.servers[k]? = some row) := by
  have hnd : sv.addr.key ∉ rest.map (·.addr.key) ∧ (rest.map (·.addr.key)).Nodup := by
    have := hp.1
    simp only [List.map_cons, List.nodup_cons] at this
    exact this
  constructor
  · refine ⟨hnd.2, fun sv' hsv' => ?_⟩
    obtain ⟨hg, row, hrow, hrel⟩ := hp.2 sv' (List.mem_cons_of_mem _ hsv')
    have hne : sv'.addr.key ≠ sv.addr.key := by
      intro e
      exact hnd.1 (e ▸ List.mem_map.2 ⟨sv', hsv', rfl⟩)
    exact ⟨hg, row, by rw [remove_other s hk cutoff sv _ hne]; exact hrow, hrel⟩
  · intro k row t hrow hr ht
    by_cases hkk : k = sv.addr.key
    · subst hkk
      have hnew := hp.premise _ row t hrow hr ht sv (List.mem_cons_self ..) rfl
      rw [remove_refused s cutoff sv row t hrow hnew hr ht]
      exact hrow
    · rw [remove_other s hk cutoff sv k hkk]; exact hrow

/-! ## the fetch establishes `Pending` -/

theorem scanned_keys_nodup (s : AbsState) (hk : Keyed s) (fs : FilterSet) : ((s.filter fs).map (·.addr.key)).Nodup := by
  unfold AbsState.filter
  rw [List.map_map]
  have hd := (ExtTreeMap.distinct_keys_toList (t := s.servers)).filter (fun kv => fs.pred kv.2)
  rw [List.Nodup, List.pairwise_map]
  refine hd.imp_of_mem ?_
  intro a b ha hb hab
  have ha' := ExtTreeMap.mem_toList_iff_getElem?_eq_some.1 (List.mem_filter.1 ha).1
  have hb' := ExtTreeMap.mem_toList_iff_getElem?_eq_some.1 (List.mem_filter.1 hb).1
  simp only [Function.comp]
  rw [hk _ _ ha', hk _ _ hb']
  intro e
  exact hab (by simp [e])

theorem fetched_keys_nodup (s : AbsState) (hk : Keyed s) : ∀ (as : List Addr), (as.map Addr.key).Nodup →
    ((as.filterMap fun a => (s.getRow a).map (·.svr)).map (·.addr.key)).Nodup ∧
    ∀ sv ∈ as.filterMap (fun a => (s.getRow a).map (·.svr)), sv.addr.key ∈ as.map Addr.key := by
  intro as
  induction as with
  | nil => intro _; exact ⟨List.nodup_nil, fun _ h => by simp at h⟩
  | cons a as ih =>
    intro hnd
    simp only [List.map_cons, List.nodup_cons] at hnd
    obtain ⟨ih1, ih2⟩ := ih hnd.2
    cases hrow : s.getRow a with
    | none =>
      simp only [List.filterMap_cons, hrow, Option.map_none]
      exact ⟨ih1, fun sv hsv => List.mem_cons_of_mem _ (ih2 sv hsv)⟩
    | some row =>
      have hkey : row.svr.addr.key = a.key := hk a.key row hrow
      simp only [List.filterMap_cons, hrow, Option.map_some, List.map_cons, List.nodup_cons, List.mem_cons]
      refine ⟨⟨?_, ih1⟩, ?_⟩
      · intro hm
        obtain ⟨sv, hsv, he⟩ := List.mem_map.1 hm
        have := ih2 sv hsv
        rw [he, hkey] at this
        exact hnd.1 this
      · rintro sv (rfl | hsv)
        · exact Or.inl hkey
        · exact Or.inr (ih2 sv hsv)

/-- **the fetch establishes `Pending`**: the fetched records are the rows stored at that moment (each is its own latest
version), the guard drops those refreshed after the cutoff, and the keys are pairwise different because the scanned ones
were -/
theorem fetch_pending (s : AbsState) (hk : Keyed s) (cutoff : Int) (scanned : List Server)
    (hnd : (scanned.map (·.addr.key)).Nodup) :
    Pending cutoff (guarded cutoff ((scanned.map (·.addr)).filterMap fun a => (s.getRow a).map (·.svr))) s := by
  have hnd' : ((scanned.map (·.addr)).map Addr.key).Nodup := by rw [List.map_map]; exact hnd
  obtain ⟨h1, _⟩ := fetched_keys_nodup s hk (scanned.map (·.addr)) hnd'
  constructor
  · exact h1.sublist ((List.filter_sublist).map _)
  · intro sv hsv
    obtain ⟨hm, hg⟩ := guarded_spec cutoff _ sv hsv
    refine ⟨hg, ?_⟩
    obtain ⟨a, _, ha⟩ := List.mem_filterMap.1 hm
    cases hrow : s.getRow a with
    | none => rw [hrow] at ha; cases ha
    | some row =>
      rw [hrow] at ha
      cases ha
      have hkey : row.svr.addr.key = a.key := hk a.key row hrow
      exact ⟨row, by rw [hkey]; exact hrow, Or.inr rfl⟩

/-! ## the cleaner inside `USys` -/

/-- `ServerCleaner.Clean` after its clock read `now` -/
def afterScan (cutoff : Int) (scanned : List Server) : Prog (Nat × Nat) :=
  if scanned.isEmpty then pure (0, 0)
  else .call (.fetchServers (scanned.map (·.addr))) fun r =>
    match r with
    | .error _ => pure (0, 0)
    | .ok svrs => removeAll cutoff (guarded cutoff svrs) 0 0

def afterNow (cutoff : Int) : Prog (Nat × Nat) :=
  .call (.scanServers { updatedBefore := some cutoff }) fun r =>
    match r with
    | .error _ => pure (0, 0)
    | .ok scanned => afterScan cutoff scanned

theorem cleanServers2_eq (retention : Int) : cleanServers2 retention = .call .now fun now => afterNow (now - retention) := rfl

/-- a finished client does nothing when scheduled -/
theorem step_finished (u : USys) (i : Nat) (c : UClient) (hc : u.clients[i]? = some c) (hl : c.live = false) :
    u.step (.call i) = u := by
  simp only [USys.step, USys.stepT, hc, hl, Bool.not_false, if_true]

/-- the cleaner's **scan** -/
theorem usys_clean_scan (u : USys) (i : Nat) (c : UClient) (g : Nat × Nat → String) (cutoff : Int)
    (hc : u.clients[i]? = some c) (hp : c.prog = rendered (afterNow cutoff) g) (hs : c.started = true) (hd : c.dead = false) :
    u.step (.call i) =
      { u with clients := u.clients.set i { c with prog := rendered (afterScan cutoff (u.abs.filter { updatedBefore := some cutoff })) g, arrival := u.clock } } := by
  have hp' : c.prog = .call (.scanServers { updatedBefore := some cutoff }) fun r =>
      rendered (match r with
        | .error _ => pure (0, 0)
        | .ok scanned => afterScan cutoff scanned) g := by rw [hp]; rfl
  rw [step_call_started u i c hc (live_of_call c _ _ hp' hd) hs]
  simp only [hp', Prog.step1, Call.exec, UClient.settle]
  unfold afterScan
  cases hl : (u.abs.filter { updatedBefore := some cutoff }).isEmpty <;> simp only [hl, if_true, Bool.false_eq_true, if_false] <;> rfl

/-- the cleaner's **fetch** -/
theorem usys_clean_fetch (u : USys) (i : Nat) (c : UClient) (g : Nat × Nat → String) (cutoff : Int) (scanned : List Server)
    (hne : scanned.isEmpty = false)
    (hc : u.clients[i]? = some c) (hp : c.prog = rendered (afterScan cutoff scanned) g) (hs : c.started = true) (hd : c.dead = false) :
    u.step (.call i) =
      { u with clients := u.clients.set i { c with prog := rendered (removeAll cutoff (guarded cutoff ((scanned.map (·.addr)).filterMap fun a => (u.abs.getRow a).map (·.svr))) 0 0) g, arrival := u.clock } } := by
  have hp' : c.prog = .call (.fetchServers (scanned.map (·.addr))) fun r =>
      rendered (match r with
        | .error _ => pure (0, 0)
        | .ok svrs => removeAll cutoff (guarded cutoff svrs) 0 0) g := by
    rw [hp]; unfold afterScan; simp only [hne, Bool.false_eq_true, if_false]; rfl
  rw [step_call_started u i c hc (live_of_call c _ _ hp' hd) hs]
  simp only [hp', Prog.step1, Call.exec, UClient.settle]
  cases guarded cutoff ((scanned.map (·.addr)).filterMap fun a => (u.abs.getRow a).map (·.svr)) <;> rfl

/-- one of the cleaner's **removals** -/
theorem usys_clean_remove (u : USys) (i : Nat) (c : UClient) (g : Nat × Nat → String) (cutoff : Int) (sv : Server) (rest : List Server)
    (r e : Nat)
    (hc : u.clients[i]? = some c) (hp : c.prog = rendered (removeAll cutoff (sv :: rest) r e) g) (hs : c.started = true)
    (hd : c.dead = false) :
    u.step (.call i) =
      { u with abs := (u.abs.remove sv (cleanResolver cutoff)).1,
               clients := u.clients.set i { c with prog := rendered (removeAll cutoff rest (r + 1) e) g, arrival := u.clock } } := by
  have hp' : c.prog = .call (.removeServer sv (cleanResolver cutoff)) fun r' =>
      rendered (match r' with
        | .error _ => removeAll cutoff rest r (e + 1)
        | .ok _ => removeAll cutoff rest (r + 1) e) g := by rw [hp]; rfl
  rw [step_call_started u i c hc (live_of_call c _ _ hp' hd) hs]
  have hrem : (Call.removeServer sv (cleanResolver cutoff)).exec u.abs (c.callClock u.clock) =
      ((u.abs.remove sv (cleanResolver cutoff)).1, .ok ()) := by
    show u.abs.remove sv (cleanResolver cutoff) = _
    exact Prod.ext rfl (CleanComplete.remove_ok _ _ _)
  simp only [hp', Prog.step1, hrem, UClient.settle]
  cases rest <;> rfl

/-- the events of a run in which the cleaner (client `i`) is only ever *scheduled* (it neither crashes nor meets a storage
fault), everybody else does anything, and the clock never goes back -/
def EvC (i : Nat) : UEv → Prop
  | .tick d => 0 ≤ d
  | .call _ => True
  | .crash j _ => j ≠ i
  | .fault j _ => j ≠ i

/-- the system invariant of the removal phase: rows under their keys; every other client never removes and passes stable
callbacks; the cleaner is a started client working through a list `l` of copies that is `Pending` -/
structure Removing (i : Nat) (g : Nat × Nat → String) (cutoff : Int) (u : USys) : Prop where
  keyed : Keyed u.abs
  others : ∀ (j : Nat) (c' : UClient), j ≠ i → u.clients[j]? = some c' → ProgStable c'.prog
  cleaner : ∃ (c : UClient) (l : List Server) (r e : Nat), u.clients[i]? = some c ∧
    c.prog = rendered (removeAll cutoff l r e) g ∧ c.started = true ∧ c.dead = false ∧ Pending cutoff l u.abs

theorem set_other {l : List UClient} {i j : Nat} (c' : UClient) (h : j ≠ i) : (l.set i c')[j]? = l[j]? := by
  simp [List.getElem?_set, Ne.symm h]

theorem removing_step (i : Nat) (g : Nat × Nat → String) (cutoff : Int) (u : USys) (e : UEv) (he : EvC i e)
    (h : Removing i g cutoff u) : Removing i g cutoff (u.step e) := by
  obtain ⟨c, l, r, er, hc, hp, hs, hd, hpend⟩ := h.cleaner
  -- an event of the others
  have others : EvOK (NotMe i) e → Removing i g cutoff (u.step e) := by
    intro hev
    have m := usys_run_mono (NotMe i) u [e] (by intro e' he'; simp only [List.mem_singleton] at he'; subst he'; exact hev) h.keyed h.others
    have hrun : u.run [e] = u.step e := rfl
    rw [hrun] at m
    exact ⟨m.1, m.2.2.1, c, l, r, er, (m.2.2.2 i (fun hh => hh rfl)).trans hc, hp, hs, hd, hpend.mono m.2.1⟩
  -- the cleaner's own call
  have mine : Removing i g cutoff (u.step (.call i)) := by
    cases l with
    | nil =>
      have hl : c.live = false := by
        have : c.prog = .ret (g (r, er)) := by rw [hp]; rfl
        simp [UClient.live, this, Prog.result?]
      rw [step_finished u i c hc hl]
      exact h
    | cons sv rest =>
      rw [usys_clean_remove u i c g cutoff sv rest r er hc hp hs hd]
      obtain ⟨hp', _⟩ := remove_step u.abs h.keyed cutoff sv rest hpend
      refine ⟨remove_keyed _ h.keyed _ _, fun j c' hj hc' => h.others j c' hj (by rw [← hc']; exact (set_other _ hj).symm), ?_⟩
      exact ⟨_, rest, r + 1, er, set_self hc, rfl, hs, hd, hp'⟩
  cases e with
  | tick d => exact others he
  | call j =>
    by_cases hj : j = i
    · subst hj; exact mine
    · exact others hj
  | crash j eff => exact others he
  | fault j eff => exact others he

theorem removing_run (i : Nat) (g : Nat × Nat → String) (cutoff : Int) (es : List UEv) : ∀ (u : USys), (∀ e ∈ es, EvC i e) →
    Removing i g cutoff u → Removing i g cutoff (u.run es) := by
  induction es with
  | nil => intro u _ h; exact h
  | cons e es ih =>
    intro u hes h
    exact ih (u.step e) (fun e' he' => hes e' (List.mem_cons_of_mem _ he'))
      (removing_step i g cutoff u e (hes e (List.mem_cons_self ..)) h)

/-- **in the removal phase no step of the cleaner removes a row that is, at that moment, refreshed after the cutoff** —
and a pending copy that is still the stored record is removed when its turn comes -/
theorem removing_spares (i : Nat) (g : Nat × Nat → String) (cutoff : Int) (v : USys) (h : Removing i g cutoff v) :
    (∀ (k : Nat) (row : SRow) (t : Int), v.abs.servers[k]? = some row → row.svr.refreshedAt = some t → t > cutoff →
      (v.step (.call i)).abs.servers[k]? = some row) ∧
    (∀ (c : UClient) (sv : Server) (rest : List Server) (r e : Nat), v.clients[i]? = some c →
      c.prog = rendered (removeAll cutoff (sv :: rest) r e) g → c.started = true → c.dead = false →
      ∀ row, v.abs.servers[sv.addr.key]? = some row → row.svr = sv → (v.step (.call i)).abs.servers[sv.addr.key]? = none) := by
  constructor
  · intro k row t hrow hr ht
    obtain ⟨c, l, r, er, hc, hp, hs, hd, hpend⟩ := h.cleaner
    cases l with
    | nil =>
      have hl : c.live = false := by
        have : c.prog = .ret (g (r, er)) := by rw [hp]; rfl
        simp [UClient.live, this, Prog.result?]
      rw [step_finished v i c hc hl]; exact hrow
    | cons sv rest =>
      rw [usys_clean_remove v i c g cutoff sv rest r er hc hp hs hd]
      exact (remove_step v.abs h.keyed cutoff sv rest hpend).2 k row t hrow hr ht
  · intro c sv rest r e hc hp hs hd row hrow hsame
    rw [usys_clean_remove v i c g cutoff sv rest r e hc hp hs hd]
    exact remove_same v.abs cutoff sv row hrow hsame

/-- **from the scan to the removal phase.**  The cleaner (a started client that has read the clock: cutoff fixed) scans in
`u`; the others do anything (`es1`: their calls, crashes, faults; ticks) — never a `Remove`, stable callbacks; then the
cleaner fetches.  If the scan selected nothing the cleaner is finished; otherwise it now works through the guarded fetched
records — and the system is in the removal phase: `Pending` holds, derived from the run. -/
theorem removing_established (i : Nat) (g : Nat × Nat → String) (cutoff : Int) (u : USys) (c : UClient)
    (hc : u.clients[i]? = some c) (hp : c.prog = rendered (afterNow cutoff) g) (hs : c.started = true) (hd : c.dead = false)
    (hk : Keyed u.abs) (hcl : ∀ (j : Nat) (c' : UClient), j ≠ i → u.clients[j]? = some c' → ProgStable c'.prog)
    (es1 : List UEv) (hes1 : ∀ e ∈ es1, EvOK (NotMe i) e) :
    Removing i g cutoff (((u.step (.call i)).run es1).step (.call i)) := by
  have e1 := usys_clean_scan u i c g cutoff hc hp hs hd
  generalize hscan : u.abs.filter { updatedBefore := some cutoff } = scanned at e1
  have hnd : (scanned.map (·.addr.key)).Nodup := hscan ▸ scanned_keys_nodup u.abs hk _
  have hoth1 : ∀ (j : Nat) (c' : UClient), NotMe i j → (u.step (.call i)).clients[j]? = some c' → ProgStable c'.prog := by
    intro j c' hj hc'
    rw [e1] at hc'
    exact hcl j c' hj (by rw [← hc']; exact (set_other _ hj).symm)
  have hc1 : (u.step (.call i)).clients[i]? = some { c with prog := rendered (afterScan cutoff scanned) g, arrival := u.clock } := by
    rw [e1]; exact set_self hc
  have habs1 : (u.step (.call i)).abs = u.abs := by rw [e1]
  have m2 := usys_run_mono (NotMe i) (u.step (.call i)) es1 hes1 (habs1 ▸ hk) hoth1
  have hc2 := (m2.2.2.2 i (fun hh => hh rfl)).trans hc1
  generalize (u.step (.call i)).run es1 = u2 at m2 hc2
  cases hne : scanned.isEmpty with
  | true =>
    -- nothing selected: the cleaner is finished
    have hprog : rendered (afterScan cutoff scanned) g = rendered (removeAll cutoff [] 0 0) g := by
      unfold afterScan; simp only [hne, if_true]; rfl
    have hl : ({ c with prog := rendered (afterScan cutoff scanned) g, arrival := u.clock } : UClient).live = false := by
      have : rendered (afterScan cutoff scanned) g = .ret (g (0, 0)) := by rw [hprog]; rfl
      simp [UClient.live, this, Prog.result?]
    rw [step_finished u2 i _ hc2 hl]
    exact ⟨m2.1, m2.2.2.1, _, [], 0, 0, hc2, hprog, hs, hd, Pending.nil _ _⟩
  | false =>
    rw [usys_clean_fetch u2 i _ g cutoff scanned hne hc2 rfl hs hd]
    refine ⟨m2.1, fun j c' hj hc' => m2.2.2.1 j c' hj (by rw [← hc']; exact (set_other _ hj).symm), ?_⟩
    exact ⟨_, _, 0, 0, set_self hc2, rfl, hs, hd, fetch_pending u2.abs m2.1 cutoff scanned hnd⟩

/-- a lazily started client scheduled for the first time: it arrives (performs its leading silent calls at the current
clock) and then takes the step of a started client -/
theorem step_lazy (u : USys) (i : Nat) (c : UClient) (hc : u.clients[i]? = some c) (hl : c.live = true) (hs : c.started = false) :
    u.step (.call i) =
      ({ u with abs := (c.settle u.abs u.clock).1,
                clients := u.clients.set i { (c.settle u.abs u.clock).2.1 with started := true } } : USys).step (.call i) := by
  have hself : (u.clients.set i { (c.settle u.abs u.clock).2.1 with started := true })[i]? =
      some { (c.settle u.abs u.clock).2.1 with started := true } := set_self hc
  simp only [USys.step, USys.stepT, hc, hl, hs, hself, Bool.not_true, Bool.false_eq_true, if_false, if_true, List.set_set]
  split <;> rfl

/-- a lazily started cleaner (`ServerCleaner.Clean` not yet begun) scheduled for the first time: it reads the clock — the
cutoff is fixed at `u.clock − retention` — and scans, in the same step -/
theorem usys_clean_scan_lazy (u : USys) (i : Nat) (c : UClient) (g : Nat × Nat → String) (retention : Int)
    (hc : u.clients[i]? = some c) (hp : c.prog = rendered (cleanServers2 retention) g) (hs : c.started = false) (hd : c.dead = false) :
    u.step (.call i) =
      { u with clients := u.clients.set i { c with prog := rendered (afterScan (u.clock - retention) (u.abs.filter { updatedBefore := some (u.clock - retention) })) g, arrival := u.clock, started := true } } := by
  have hp' : c.prog = .call .now fun now => rendered (afterNow (now - retention)) g := by rw [hp]; rfl
  rw [step_lazy u i c hc (live_of_call c _ _ hp' hd) hs]
  have hsettle : c.settle u.abs u.clock = (u.abs, { c with prog := rendered (afterNow (u.clock - retention)) g, arrival := u.clock }, []) := by
    simp only [UClient.settle, hp']
    rfl
  rw [hsettle]
  rw [usys_clean_scan _ i { c with prog := rendered (afterNow (u.clock - retention)) g, arrival := u.clock, started := true } g
    (u.clock - retention) (set_self hc) rfl rfl hd]
  simp only [List.set_set]

/-- from a state right after the scan (the cleaner holds the scanned copies, pairwise different keys) to the removal phase -/
theorem removing_after_scan (i : Nat) (g : Nat × Nat → String) (cutoff : Int) (u1 : USys) (c1 : UClient) (scanned : List Server)
    (hc1 : u1.clients[i]? = some c1) (hp1 : c1.prog = rendered (afterScan cutoff scanned) g) (hs : c1.started = true)
    (hd : c1.dead = false) (hnd : (scanned.map (·.addr.key)).Nodup) (hk : Keyed u1.abs)
    (hcl : ∀ (j : Nat) (c' : UClient), j ≠ i → u1.clients[j]? = some c' → ProgStable c'.prog)
    (es1 : List UEv) (hes1 : ∀ e ∈ es1, EvOK (NotMe i) e) :
    Removing i g cutoff ((u1.run es1).step (.call i)) := by
  have m2 := usys_run_mono (NotMe i) u1 es1 hes1 hk hcl
  have hc2 := (m2.2.2.2 i (fun hh => hh rfl)).trans hc1
  generalize u1.run es1 = u2 at m2 hc2
  cases hne : scanned.isEmpty with
  | true =>
    have hprog : c1.prog = rendered (removeAll cutoff [] 0 0) g := by
      rw [hp1]; unfold afterScan; simp only [hne, if_true]; rfl
    have hl : c1.live = false := by
      have : c1.prog = .ret (g (0, 0)) := by rw [hprog]; rfl
      simp [UClient.live, this, Prog.result?]
    rw [step_finished u2 i _ hc2 hl]
    exact ⟨m2.1, m2.2.2.1, _, [], 0, 0, hc2, hprog, hs, hd, Pending.nil _ _⟩
  | false =>
    rw [usys_clean_fetch u2 i _ g cutoff scanned hne hc2 hp1 hs hd]
    refine ⟨m2.1, fun j c' hj hc' => m2.2.2.1 j c' hj (by rw [← hc']; exact (set_other _ hj).symm), ?_⟩
    exact ⟨_, _, 0, 0, set_self hc2, rfl, hs, hd, fetch_pending u2.abs m2.1 cutoff scanned hnd⟩

/-- `removing_established` for a cleaner that has not begun: its first scheduling reads the clock and scans -/
theorem removing_established_lazy (i : Nat) (g : Nat × Nat → String) (retention : Int) (u : USys) (c : UClient)
    (hc : u.clients[i]? = some c) (hp : c.prog = rendered (cleanServers2 retention) g) (hs : c.started = false) (hd : c.dead = false)
    (hk : Keyed u.abs) (hcl : ∀ (j : Nat) (c' : UClient), j ≠ i → u.clients[j]? = some c' → ProgStable c'.prog)
    (es1 : List UEv) (hes1 : ∀ e ∈ es1, EvOK (NotMe i) e) :
    Removing i g (u.clock - retention) (((u.step (.call i)).run es1).step (.call i)) := by
  have e1 := usys_clean_scan_lazy u i c g retention hc hp hs hd
  refine removing_after_scan i g (u.clock - retention) (u.step (.call i))
    { c with prog := rendered (afterScan (u.clock - retention) (u.abs.filter { updatedBefore := some (u.clock - retention) })) g, arrival := u.clock, started := true }
    (u.abs.filter { updatedBefore := some (u.clock - retention) }) (by rw [e1]; exact set_self hc) rfl rfl hd
    (scanned_keys_nodup u.abs hk _) (by rw [e1]; exact hk) ?_ es1 hes1
  intro j c' hj hc'
  rw [e1] at hc'
  exact hcl j c' hj (by rw [← hc']; exact (set_other _ hj).symm)

end Swat4.CleanRace
