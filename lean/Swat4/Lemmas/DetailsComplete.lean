import Swat4.Lemmas.Details
/-!
# Completeness of the details stage (C07)

`Lemmas/Details.lean` shows soundness: what `detailsOf` accepts satisfies `DetailsSpec.accepted`.
This file shows the converse, so that a stage which rejects everything is excluded:

* `validate_of_holds`: on a struct that `params.Unmarshal` produced, the constraints `accepted` states
  imply every `validate` tag of the schema — because every tag of the generated schemas is *covered* by one
  of those constraints (`covered`, decidable on the schema; `CoverOk`);
* `unmarshal_of_reads`: a map whose entries parse, field by field, is unmarshalled to exactly those readings;
* `detailsOf_complete_of`: both together.
-/
namespace Swat4.DetailsProbe
open Swat4 Swat4.Heartbeat Swat4.DetailsSpec

/-! ## `mapM` in `Option` as a pointwise relation -/

/-- `All2 R l r`: the lists have the same length and `R` relates them position by position -/
inductive All2 {α β : Type} (R : α → β → Prop) : List α → List β → Prop
  | nil : All2 R [] []
  | cons {a : α} {b : β} {l : List α} {r : List β} : R a b → All2 R l r → All2 R (a :: l) (b :: r)

theorem All2.map_left {α β γ : Type} {R : α → β → Prop} (g : γ → α) {l : List γ} {r : List β}
    (h : All2 (fun c b => R (g c) b) l r) : All2 R (l.map g) r := by
  induction h with
  | nil => exact .nil
  | cons h1 _ ih => exact .cons h1 ih

theorem mapM_eq_some_iff {α β : Type} (g : α → Option β) (l : List α) (r : List β) :
    l.mapM g = some r ↔ All2 (fun a b => g a = some b) l r := by
  induction l generalizing r with
  | nil =>
    simp only [List.mapM_nil, Option.pure_def, Option.some.injEq]
    constructor
    · intro h; subst h; exact .nil
    · intro h; cases h; rfl
  | cons a l ih =>
    rw [List.mapM_cons]
    constructor
    · intro h
      cases hg : g a with
      | none => simp [hg] at h
      | some b =>
        cases hl : l.mapM g with
        | none => simp [hg, hl] at h
        | some bs =>
          simp only [hg, hl, Option.pure_def, Option.bind_eq_bind, Option.bind_some, Option.some.injEq] at h
          subst h
          exact .cons hg ((ih bs).mp hl)
    · intro h
      cases h with
      | cons h1 h2 =>
        rw [h1, (ih _).mpr h2]
        rfl

theorem forall₂_getElem? {α β : Type} {R : α → β → Prop} {l : List α} {r : List β} (h : All2 R l r)
    (n : Nat) (a : α) (b : β) (ha : l[n]? = some a) (hb : r[n]? = some b) : R a b := by
  induction h generalizing n with
  | nil => simp at ha
  | cons h1 _ ih =>
    cases n with
    | zero => simp at ha hb; subst ha; subst hb; exact h1
    | succ n => simp at ha hb; exact ih n ha hb

/-! ## reading a struct field by name -/

theorem lookup_zip_nodup (names : List String) (f : Fields) (hn : names.Nodup) (n : Nat) (name : String) (v : Val)
    (h1 : names[n]? = some name) (h2 : f[n]? = some v) : (names.zip f).lookup name = some v := by
  induction names generalizing n f with
  | nil => simp at h1
  | cons x xs ih =>
    cases f with
    | nil => simp at h2
    | cons y ys =>
      simp only [List.zip_cons_cons, List.lookup_cons]
      cases n with
      | zero =>
        simp at h1 h2
        subst h1; subst h2
        simp
      | succ n =>
        simp at h1 h2
        have hx : name ≠ x := by
          intro e; subst e
          exact (List.nodup_cons.mp hn).1 (List.mem_of_getElem? h1)
        have : (name == x) = false := by simpa using hx
        rw [this]
        exact ih ys (List.nodup_cons.mp hn).2 n h1 h2

/-! ## the constraints of `DetailsSpec.accepted`, struct by struct -/

/-- the named constraints `DetailsSpec` puts on one struct -/
structure Cons where
  req : List String        -- non-empty strings
  gt0 : List String        -- ints ≥ 1
  nonneg : List String     -- ints ≥ 0
  ratios : List String     -- strings in the ratio format
  o012 : List String       -- ints in 0..2
  o01234 : List String     -- ints in 0..4

def infoCons : Cons := ⟨infoRequiredStrings, ["HostPort"], infoNonNegative, infoRatios, [], []⟩
def playerCons : Cons := ⟨["Name"], [], playerNonNegative, [], ["Team"], ["CoopStatus"]⟩
def objectiveCons : Cons := ⟨["Name"], [], [], [], ["Status"], []⟩

def Cons.holds (c : Cons) (names : List String) (f : Fields) : Prop :=
  (∀ n ∈ c.req, nonEmptyStr (field names f n) = true) ∧ (∀ n ∈ c.gt0, intAtLeast 1 (field names f n) = true) ∧
  (∀ n ∈ c.nonneg, intAtLeast 0 (field names f n) = true) ∧ (∀ n ∈ c.ratios, ratioStr (field names f n) = true) ∧
  (∀ n ∈ c.o012, intIn 0 2 (field names f n) = true) ∧ (∀ n ∈ c.o01234, intIn 0 4 (field names f n) = true)

theorem infoAccepted_holds {i : Fields} (h : infoAccepted i = true) : infoCons.holds infoNames i := by
  simp only [infoAccepted, Bool.and_eq_true, List.all_eq_true] at h
  refine ⟨h.1.1.1, ?_, h.1.2, h.2, by simp [infoCons], by simp [infoCons]⟩
  intro n hn
  simp only [infoCons, List.mem_singleton] at hn
  subst hn
  exact h.1.1.2

theorem playerAccepted_holds {p : Fields} (h : playerAccepted p = true) : playerCons.holds playerNames p := by
  simp only [playerAccepted, Bool.and_eq_true, List.all_eq_true] at h
  refine ⟨?_, by simp [playerCons], h.2, by simp [playerCons], ?_, ?_⟩
  · intro n hn; simp only [playerCons, List.mem_singleton] at hn; subst hn; exact h.1.1.1
  · intro n hn; simp only [playerCons, List.mem_singleton] at hn; subst hn; exact h.1.1.2
  · intro n hn; simp only [playerCons, List.mem_singleton] at hn; subst hn; exact h.1.2

theorem objectiveAccepted_holds {o : Fields} (h : objectiveAccepted o = true) : objectiveCons.holds objectiveNames o := by
  simp only [objectiveAccepted, Bool.and_eq_true] at h
  refine ⟨?_, by simp [objectiveCons], by simp [objectiveCons], by simp [objectiveCons], ?_, by simp [objectiveCons]⟩
  · intro n hn; simp only [objectiveCons, List.mem_singleton] at hn; subst hn; exact h.1
  · intro n hn; simp only [objectiveCons, List.mem_singleton] at hn; subst hn; exact h.2

/-- every tag of the row is backed by a constraint of `c` on that very field (and kind) -/
def covered (c : Cons) (row : String × Option Bytes × Nat × List String) : Bool :=
  row.2.2.2.all fun t =>
    (t == "required" && ((row.2.2.1 == 2 && c.req.contains row.1) || (row.2.2.1 == 0 && c.gt0.contains row.1))) ||
    (t == "gt=0" && row.2.2.1 == 0 && c.gt0.contains row.1) ||
    (t == "gte=0" && row.2.2.1 == 0 && c.nonneg.contains row.1) ||
    (t == "ratio" && row.2.2.1 == 2 && c.ratios.contains row.1) ||
    (t == "oneof=0 1 2" && row.2.2.1 == 0 && c.o012.contains row.1) ||
    (t == "oneof=0 1 2 3 4" && row.2.2.1 == 0 && c.o01234.contains row.1)

/-- the second half of what is assumed about the generated schemas: the validator asks for nothing that
`DetailsSpec.accepted` does not state (decidable; `C07.details_cover_ok`) -/
structure CoverOk : Prop where
  info : infoSchema.all (covered infoCons) = true
  player : playerSchema.all (covered playerCons) = true
  objective : objectiveSchema.all (covered objectiveCons) = true
  infoNodup : DetailsSpec.infoNames.Nodup
  playerNodup : DetailsSpec.playerNames.Nodup
  objectiveNodup : DetailsSpec.objectiveNames.Nodup

theorem checkTag_required_str {s : Bytes} (h : s.isEmpty = false) : checkTag (.str s) "required" = true := by
  simp [checkTag, oneof_required, Heartbeat.checkTag, h]

theorem checkTag_required_int {n : Int} (h : 1 ≤ n) : checkTag (.int n) "required" = true := by
  have : n ≠ 0 := by omega
  simp [checkTag, oneof_required, Heartbeat.checkTag, this]

theorem checkTag_gt0 {n : Int} (h : 1 ≤ n) : checkTag (.int n) "gt=0" = true := by
  have : 0 < n := by omega
  simp [checkTag, oneof_gt0, Heartbeat.checkTag, this]

theorem checkTag_gte0 {n : Int} (h : 0 ≤ n) : checkTag (.int n) "gte=0" = true := by
  simp [checkTag, oneof_gte0, Heartbeat.checkTag, h]

theorem checkTag_ratio {s : Bytes} (h : ratioOk s = true) : checkTag (.str s) "ratio" = true := by
  simp [checkTag, oneof_ratio, Heartbeat.checkTag, h]

theorem checkTag_oneof {n : Int} {tag : String} {vals : List Int} (ho : oneofVals tag = some vals) (h : n ∈ vals) :
    checkTag (.int n) tag = true := by
  simp [checkTag, ho, h]

/-- one covered tag on one field passes when the constraints hold for the field -/
theorem tag_of_holds (c : Cons) (names : List String) (f : Fields) (hh : c.holds names f)
    (name : String) (k : Nat) (v : Val) (hv : field names f name = some v) (hk : kindOf v = k) (t : String)
    (hc : ((t == "required" && ((k == 2 && c.req.contains name) || (k == 0 && c.gt0.contains name))) ||
      (t == "gt=0" && k == 0 && c.gt0.contains name) ||
      (t == "gte=0" && k == 0 && c.nonneg.contains name) ||
      (t == "ratio" && k == 2 && c.ratios.contains name) ||
      (t == "oneof=0 1 2" && k == 0 && c.o012.contains name) ||
      (t == "oneof=0 1 2 3 4" && k == 0 && c.o01234.contains name)) = true) :
    checkTag v t = true := by
  obtain ⟨h1, h2, h3, h4, h5, h6⟩ := hh
  simp only [Bool.or_eq_true, Bool.and_eq_true, beq_iff_eq, List.contains_iff_mem] at hc
  rcases hc with ((((hc | hc) | hc) | hc) | hc) | hc
  · obtain ⟨rfl, hc⟩ := hc
    rcases hc with ⟨rfl, hm⟩ | ⟨rfl, hm⟩
    · obtain ⟨s, rfl⟩ := kind_str hk
      have := h1 name hm
      rw [hv] at this
      exact checkTag_required_str (by simpa [nonEmptyStr] using this)
    · obtain ⟨n, rfl⟩ := kind_int hk
      have := h2 name hm
      rw [hv] at this
      exact checkTag_required_int (by simpa [intAtLeast] using this)
  · obtain ⟨⟨rfl, rfl⟩, hm⟩ := hc
    obtain ⟨n, rfl⟩ := kind_int hk
    have := h2 name hm
    rw [hv] at this
    exact checkTag_gt0 (by simpa [intAtLeast] using this)
  · obtain ⟨⟨rfl, rfl⟩, hm⟩ := hc
    obtain ⟨n, rfl⟩ := kind_int hk
    have := h3 name hm
    rw [hv] at this
    exact checkTag_gte0 (by simpa [intAtLeast] using this)
  · obtain ⟨⟨rfl, rfl⟩, hm⟩ := hc
    obtain ⟨s, rfl⟩ := kind_str hk
    have := h4 name hm
    rw [hv] at this
    exact checkTag_ratio ((ratioOk_iff s).mpr ((ratioSpec_iff s).mp this))
  · obtain ⟨⟨rfl, rfl⟩, hm⟩ := hc
    obtain ⟨n, rfl⟩ := kind_int hk
    have := h5 name hm
    rw [hv] at this
    simp only [intIn, Bool.and_eq_true, decide_eq_true_eq] at this
    refine checkTag_oneof oneof_012 ?_
    have : n = 0 ∨ n = 1 ∨ n = 2 := by omega
    rcases this with rfl | rfl | rfl <;> simp
  · obtain ⟨⟨rfl, rfl⟩, hm⟩ := hc
    obtain ⟨n, rfl⟩ := kind_int hk
    have := h6 name hm
    rw [hv] at this
    simp only [intIn, Bool.and_eq_true, decide_eq_true_eq] at this
    refine checkTag_oneof oneof_01234 ?_
    have : n = 0 ∨ n = 1 ∨ n = 2 ∨ n = 3 ∨ n = 4 := by omega
    rcases this with rfl | rfl | rfl | rfl | rfl <;> simp

/-- **completeness of `validate.Struct` on one struct**: an unmarshalled struct on which the constraints
hold passes every tag, when every tag of the schema is covered -/
theorem validate_of_holds (c : Cons) (schema : Schema) (m : FieldMap) (f : Fields) (hu : unmarshal schema m = some f)
    (hcov : schema.all (covered c) = true) (hnd : (schema.map (·.1)).Nodup)
    (hh : c.holds (schema.map (·.1)) f) : validate schema f = true := by
  rw [unmarshal_eq, mapM_eq_some_iff] at hu
  unfold validate
  rw [List.all_eq_true]
  rintro ⟨row, v⟩ hmem
  obtain ⟨n, hn⟩ := List.mem_iff_getElem?.mp hmem
  rw [List.getElem?_zip_eq_some] at hn
  have hcell : cell m row = some v := forall₂_getElem? hu n row v hn.1 hn.2
  have hk := cell_kind hcell
  have hrow := List.all_eq_true.mp hcov row (List.mem_of_getElem? hn.1)
  obtain ⟨name, p, k, tags⟩ := row
  have hname : (schema.map (·.1))[n]? = some name := by rw [List.getElem?_map, hn.1]; rfl
  have hv : field (schema.map (·.1)) f name = some v := lookup_zip_nodup _ f hnd n name v hname hn.2
  simp only [List.all_eq_true]
  intro t ht
  unfold covered at hrow
  exact tag_of_holds c _ f hh name k v hv hk t (List.all_eq_true.mp hrow t ht)

/-- **completeness of `Details.Validate`**: a details value built by `NewDetailsFromParams` that satisfies
`DetailsSpec.accepted` passes validation -/
theorem validateDetails_of_accepted (hf : FactsOk) (hc : CoverOk) {r : GS1.Response} {d : Details}
    (hd : newDetailsFromParams r = some d) (ha : DetailsSpec.accepted d = true) : validateDetails d = true := by
  unfold newDetailsFromParams at hd
  split at hd
  · cases hd
  · rename_i ps hps
    split at hd
    · cases hd
    · rename_i os hos
      split at hd
      · cases hd
      · rename_i i hi
        cases hd
        simp only [DetailsSpec.accepted, Bool.and_eq_true, List.all_eq_true] at ha
        simp only [validateDetails, hf.top.1, hf.top.2.1, hf.top.2.2, Bool.not_true, Bool.false_or, Bool.and_eq_true,
          List.all_eq_true]
        refine ⟨⟨?_, ?_⟩, ?_⟩
        · exact validate_of_holds infoCons infoSchema _ i hi hc.info (by rw [hf.infoNames]; exact hc.infoNodup)
            (by rw [hf.infoNames]; exact infoAccepted_holds ha.1.1)
        · intro p hp
          obtain ⟨m, _, hm⟩ := mapM_mem hps p hp
          exact validate_of_holds playerCons playerSchema m p hm hc.player (by rw [hf.playerNames]; exact hc.playerNodup)
            (by rw [hf.playerNames]; exact playerAccepted_holds (ha.1.2 p hp))
        · intro o ho
          obtain ⟨m, _, hm⟩ := mapM_mem hos o ho
          exact validate_of_holds objectiveCons objectiveSchema m o hm hc.objective
            (by rw [hf.objectiveNames]; exact hc.objectiveNodup)
            (by rw [hf.objectiveNames]; exact objectiveAccepted_holds (ha.2 o ho))

/-- the stage accepts exactly the parsed values that satisfy the specification -/
theorem detailsOf_ok_iff (hf : FactsOk) (hc : CoverOk) (r : GS1.Response) (d : Details) :
    detailsOf r = .ok d ↔ newDetailsFromParams r = some d ∧ DetailsSpec.accepted d = true := by
  constructor
  · intro h
    refine ⟨?_, detailsOf_sound hf h⟩
    unfold detailsOf at h
    split at h
    · cases h
    · rename_i d' hd
      split at h
      · cases h; exact hd
      · cases h
  · rintro ⟨hd, ha⟩
    unfold detailsOf
    rw [hd]
    simp only [validateDetails_of_accepted hf hc hd ha, if_true]

/-! ## completeness of `NewDetailsFromParams`: maps whose entries parse -/

/-- `v` is what the struct field `row` reads from the map `m` (spelled out: core `List.lookup`; a field
without a parameter name or with no entry keeps the zero value of its kind; an int entry is read by
`strconv.Atoi`, a bool entry is one of `1 true 0 false`, a string entry is taken as it is) -/
def FieldReads (m : FieldMap) (row : String × Option Bytes × Nat × List String) (v : Val) : Prop :=
  match row.2.1.bind (fun name => List.lookup name m) with
  | none => (row.2.2.1 = 0 ∧ v = .int 0) ∨ (row.2.2.1 = 1 ∧ v = .bool false) ∨ (row.2.2.1 = 2 ∧ v = .str [])
  | some b =>
    (row.2.2.1 = 0 ∧ ∃ n, atoi b = some n ∧ v = .int n) ∨ (row.2.2.1 = 1 ∧ ∃ x, parseBool b = some x ∧ v = .bool x) ∨
    (row.2.2.1 = 2 ∧ v = .str b)

/-- the struct `f` is the field-by-field reading of the map `m` -/
def StructReads (schema : Schema) (m : FieldMap) (f : Fields) : Prop := All2 (FieldReads m) schema f

theorem cell_of_reads {m : FieldMap} {row : String × Option Bytes × Nat × List String} {v : Val}
    (h : FieldReads m row v) : cell m row = some v := by
  obtain ⟨name, p, k, tags⟩ := row
  unfold FieldReads at h
  unfold cell
  cases p with
  | none =>
    simp only [Option.bind_none] at h ⊢
    rcases h with ⟨rfl, rfl⟩ | ⟨rfl, rfl⟩ | ⟨rfl, rfl⟩ <;> rfl
  | some pn =>
    simp only [Option.bind_some, FieldMap.get?] at h ⊢
    cases hl : List.lookup pn m with
    | none =>
      rw [hl] at h
      simp only at h ⊢
      rcases h with ⟨rfl, rfl⟩ | ⟨rfl, rfl⟩ | ⟨rfl, rfl⟩ <;> rfl
    | some b =>
      rw [hl] at h
      simp only at h ⊢
      rcases h with ⟨rfl, n, hn, rfl⟩ | ⟨rfl, x, hx, rfl⟩ | ⟨rfl, rfl⟩
      · simp [parseVal, hn]
      · simp [parseVal, hx]
      · simp [parseVal]

theorem unmarshal_of_reads {schema : Schema} {m : FieldMap} {f : Fields} (h : StructReads schema m f) :
    unmarshal schema m = some f := by
  rw [unmarshal_eq, mapM_eq_some_iff]
  unfold StructReads at h
  induction h with
  | nil => exact .nil
  | cons h1 _ ih => exact .cons (cell_of_reads h1) ih

theorem zeroVal_cases {k : Nat} {v : Val} (h : zeroVal k = some v) :
    (k = 0 ∧ v = .int 0) ∨ (k = 1 ∧ v = .bool false) ∨ (k = 2 ∧ v = .str []) := by
  unfold zeroVal at h
  split at h
  · cases h; exact .inl ⟨by assumption, rfl⟩
  · split at h
    · cases h; exact .inr (.inl ⟨by assumption, rfl⟩)
    · split at h
      · cases h; exact .inr (.inr ⟨by assumption, rfl⟩)
      · cases h

theorem reads_of_cell {m : FieldMap} {row : String × Option Bytes × Nat × List String} {v : Val}
    (h : cell m row = some v) : FieldReads m row v := by
  obtain ⟨name, p, k, tags⟩ := row
  unfold cell at h
  unfold FieldReads
  cases p with
  | none => simp only [Option.bind_none] at h ⊢; exact zeroVal_cases h
  | some pn =>
    simp only [Option.bind_some, FieldMap.get?] at h ⊢
    cases hl : List.lookup pn m with
    | none => rw [hl] at h; exact zeroVal_cases h
    | some b =>
      rw [hl] at h
      simp only at h ⊢
      unfold parseVal at h
      split at h
      · obtain ⟨n, hn, rfl⟩ := Option.map_eq_some_iff.mp h
        exact .inl ⟨by assumption, n, hn, rfl⟩
      · split at h
        · obtain ⟨x, hx, rfl⟩ := Option.map_eq_some_iff.mp h
          exact .inr (.inl ⟨by assumption, x, hx, rfl⟩)
        · split at h
          · cases h; exact .inr (.inr ⟨by assumption, rfl⟩)
          · cases h

/-- `params.Unmarshal` succeeds with `f` exactly when `f` is the field-by-field reading of the map -/
theorem unmarshal_iff_reads (schema : Schema) (m : FieldMap) (f : Fields) :
    unmarshal schema m = some f ↔ StructReads schema m f := by
  constructor
  · intro h
    rw [unmarshal_eq, mapM_eq_some_iff] at h
    unfold StructReads
    induction h with
    | nil => exact .nil
    | cons h1 _ ih => exact .cons (reads_of_cell h1) ih
  · exact unmarshal_of_reads

theorem mapM_of_forall₂ {α β : Type} {g : α → Option β} {R : α → β → Prop} (hR : ∀ a b, R a b → g a = some b)
    {l : List α} {r : List β} (h : All2 R l r) : l.mapM g = some r := by
  rw [mapM_eq_some_iff]
  induction h with
  | nil => exact .nil
  | cons h1 _ ih => exact .cons (hR _ _ h1) ih

/-- **completeness of the whole stage** -/
theorem detailsOf_complete_of (hf : FactsOk) (hc : CoverOk) (r : GS1.Response) (d : Details)
    (hi : StructReads infoSchema r.fields d.info)
    (hp : All2 (StructReads playerSchema) r.players d.players)
    (ho : All2 (fun o f => StructReads objectiveSchema (objMap o) f) r.objectives d.objectives)
    (ha : DetailsSpec.accepted d = true) : detailsOf r = .ok d := by
  refine (detailsOf_ok_iff hf hc r d).mpr ⟨?_, ha⟩
  unfold newDetailsFromParams
  rw [mapM_of_forall₂ (fun _ _ h => unmarshal_of_reads h) hp]
  simp only
  have : (r.objectives.map objMap).mapM (unmarshal objectiveSchema) = some d.objectives := by
    apply mapM_of_forall₂ (R := fun m f => StructReads objectiveSchema m f) (fun _ _ h => unmarshal_of_reads h)
    exact All2.map_left objMap ho
  rw [this]
  simp only
  rw [unmarshal_of_reads hi]

end Swat4.DetailsProbe
