import Swat4.Model.Rest
import Swat4.Model.Styles
import Swat4.Spec.RestSpec
import Swat4.Lemmas.Rest
/-!
Helper lemmas for C17, body part: what the use-case level functions `viewExecute` / `addExecute`
put into `Resp.body`, and the bit arithmetic linking the model's `hasBit` with the two tests of
`server.go` (`HasDiscoveryStatus`: `(w & s) == s`, `HasAnyDiscoveryStatus`: `(w & s) > 0`).
-/
namespace Swat4.Rest
open Swat4

/-- `w & 2ⁿ` is `2ⁿ` or `0` -/
theorem and_two_pow_eq (w n : Nat) : w &&& 2 ^ n = if w.testBit n then 2 ^ n else 0 := by
  apply Nat.eq_of_testBit_eq
  intro i
  rw [Nat.testBit_and, Nat.testBit_two_pow]
  by_cases h : n = i
  · subst h; cases hw : w.testBit n <;> simp
  · cases hw : w.testBit n <;> simp [h]

/-- for a single bit `HasDiscoveryStatus` (`(w & s) == s`) and "the bit is not clear" coincide -/
theorem and_two_pow_eq_self_iff (w n : Nat) : w &&& 2 ^ n = 2 ^ n ↔ w &&& 2 ^ n ≠ 0 := by
  rw [and_two_pow_eq]
  have : 2 ^ n ≠ 0 := Nat.ne_of_gt (Nat.two_pow_pos n)
  cases w.testBit n with
  | false =>
    simp only [Bool.false_eq_true, if_false]
    exact ⟨fun h => absurd h.symm this, fun h => absurd rfl h⟩
  | true =>
    simp only [if_true]
    exact ⟨fun _ => this, fun _ => trivial⟩

/-- `HasAnyDiscoveryStatus(a | b)` (`(w & (a|b)) > 0`) is "one of the two is not clear" -/
theorem and_or_pos_iff (w a b : Nat) : w &&& (a ||| b) > 0 ↔ (w &&& a ≠ 0 ∨ w &&& b ≠ 0) := by
  show 0 < _ ↔ _
  rw [Nat.and_or_distrib_left, Nat.pos_iff_ne_zero, Ne, Nat.or_eq_zero_iff]
  omega

theorem hasBit_iff (w bit : Nat) : hasBit w bit = true ↔ w &&& bit ≠ 0 := by
  simp [hasBit]

theorem hasBit_false_iff (w bit : Nat) : hasBit w bit = false ↔ w &&& bit = 0 := by
  simp [hasBit]

/-- a record with only the hostname set, stored under 1.1.1.1:10480 (for the examples) -/
def hostRec (h : List Char) : Stored := { addr := ⟨⟨1, 1, 1, 1⟩, 10480⟩, info := { hostname := h } }

/-- the two hostname members of the bodies `serverBody` / `detailBody` make -/
theorem serverBody_hostnames (rec : Stored) :
    (serverBody rec).bind RespBody.hostnames = some (Styles.toHTML rec.info.hostname, Styles.clean rec.info.hostname) := rfl

theorem detailBody_hostnames (rec : Stored) :
    (detailBody rec).bind RespBody.hostnames = some (Styles.toHTML rec.info.hostname, Styles.clean rec.info.hostname) := rfl

/-- `getserver.Execute` + `api.ViewServer`: a 200 comes only from a stored record with the details
bit, and its body is `model.ServerDetail` made from the stored record; every other answer has no
server data -/
theorem viewExecute_full (st : SrvState) :
    ((viewExecute st).status = 200 →
      ∃ w qp rec, st = .present w qp rec ∧ w &&& 8 ≠ 0 ∧
        (viewExecute st).body = some (.detail (serverDetailJsonOf rec)) ∧ (viewExecute st).effect = .none) ∧
    ((viewExecute st).status ≠ 200 → (viewExecute st).body = none) := by
  cases st with
  | absent => simp [viewExecute]
  | present w qp rec =>
    by_cases h1 : hasBit w dsDetails = true
    · have hb : w &&& 8 ≠ 0 := (hasBit_iff w 8).mp h1
      have e : viewExecute (.present w qp rec) = ⟨200, detailBody rec, .none⟩ := by
        simp only [viewExecute, h1, if_true]
      rw [e]
      exact ⟨fun _ => ⟨w, qp, rec, rfl, hb, rfl, rfl⟩, fun hne => absurd rfl hne⟩
    · simp only [viewExecute, h1]
      simp

/-- `addserver.Execute` + `api.AddServer`: the same with `model.Server`, and a 200 stores and queues
nothing -/
theorem addExecute_full (a : Addr) (st : SrvState) :
    ((addExecute a st).status = 200 →
      ∃ w qp rec, st = .present w qp rec ∧ w &&& 8 ≠ 0 ∧
        (addExecute a st).body = some (.server (serverJsonOf rec)) ∧ (addExecute a st).effect = .none) ∧
    ((addExecute a st).status ≠ 200 → (addExecute a st).body = none) := by
  cases st with
  | absent => simp [addExecute]
  | present w qp rec =>
    by_cases h1 : hasBit w dsDetails = true
    · have hb : w &&& 8 ≠ 0 := (hasBit_iff w 8).mp h1
      have e : addExecute a (.present w qp rec) = ⟨200, serverBody rec, .none⟩ := by
        simp only [addExecute, h1, if_true]
      rw [e]
      exact ⟨fun _ => ⟨w, qp, rec, rfl, hb, rfl, rfl⟩, fun hne => absurd rfl hne⟩
    · by_cases h2 : (hasBit w dsPortRetry || hasBit w dsDetailsRetry) = true
      · simp only [addExecute, h1, h2]
        simp
      · by_cases h3 : hasBit w dsNoPort = true
        · simp only [addExecute, h1, h2, h3]
          simp
        · simp only [addExecute, h1, h2, h3]
          simp

/-- the two hostname members of a 200 of `viewExecute` are made from the stored hostname -/
theorem viewExecute_body (st : SrvState) :
    ((viewExecute st).status = 200 →
      ∃ w qp rec, st = .present w qp rec ∧ w &&& 8 ≠ 0 ∧
        (viewExecute st).hostnames = some (Styles.toHTML rec.info.hostname, Styles.clean rec.info.hostname) ∧
        (viewExecute st).effect = .none) ∧
    ((viewExecute st).status ≠ 200 → (viewExecute st).body = none) := by
  refine ⟨fun h => ?_, (viewExecute_full st).2⟩
  obtain ⟨w, qp, rec, hst, hw, hb, he⟩ := (viewExecute_full st).1 h
  exact ⟨w, qp, rec, hst, hw, by simp only [Resp.hostnames, hb]; rfl, he⟩

/-- the same for `addExecute` -/
theorem addExecute_body (a : Addr) (st : SrvState) :
    ((addExecute a st).status = 200 →
      ∃ w qp rec, st = .present w qp rec ∧ w &&& 8 ≠ 0 ∧
        (addExecute a st).hostnames = some (Styles.toHTML rec.info.hostname, Styles.clean rec.info.hostname) ∧
        (addExecute a st).effect = .none) ∧
    ((addExecute a st).status ≠ 200 → (addExecute a st).body = none) := by
  refine ⟨fun h => ?_, (addExecute_full a st).2⟩
  obtain ⟨w, qp, rec, hst, hw, hb, he⟩ := (addExecute_full a st).1 h
  exact ⟨w, qp, rec, hst, hw, by simp only [Resp.hostnames, hb]; rfl, he⟩

/-- `boolToInt` as a JSON number -/
theorem atom_boolToInt (b : Bool) : JAtom.int ↑(boolToInt b) = JAtom.int (if b then 1 else 0) := by
  cases b <;> rfl

end Swat4.Rest
