import Swat4.Model.Rest
import Swat4.Model.Styles
import Swat4.Spec.RestSpec
import Swat4.Lemmas.Rest
/-!
Helper lemmas for C17, body part: what the use-case level functions `viewExecute` / `addExecute`
put into `Resp.body`, and the bit arithmetic linking the model's `hasBit` with the two tests of
`server.go` (`HasDiscoveryStatus`: `(w & s) == s`, `HasAnyDiscoveryStatus`: `(w & s) > 0`).
-/
namespace Swat4.Rest
open Swat4

/-- `w & 2ⁿ` is `2ⁿ` or `0` -/
theorem and_two_pow_eq (w n : Nat) : w &&& 2 ^ n = if w.testBit n then 2 ^ n else 0 := by
  apply Nat.eq_of_testBit_eq
  intro i
  rw [Nat.testBit_and, Nat.testBit_two_pow]
  by_cases h : n = i
  · subst h; cases hw : w.testBit n <;> simp
  · cases hw : w.testBit n <;> simp [h]

/-- for a single bit `HasDiscoveryStatus` (`(w & s) == s`) and "the bit is not clear" coincide -/
theorem and_two_pow_eq_self_iff (w n : Nat) : w &&& 2 ^ n = 2 ^ n ↔ w &&& 2 ^ n ≠ 0 := by
  rw [and_two_pow_eq]
  have : 2 ^ n ≠ 0 := Nat.ne_of_gt (Nat.two_pow_pos n)
  cases w.testBit n with
  | false =>
    simp only [Bool.false_eq_true, if_false]
    exact ⟨fun h => absurd h.symm this, fun h => absurd rfl h⟩
  | true =>
    simp only [if_true]
    exact ⟨fun _ => this, fun _ => trivial⟩

/-- `HasAnyDiscoveryStatus(a | b)` (`(w & (a|b)) > 0`) is "one of the two is not clear" -/
theorem and_or_pos_iff (w a b : Nat) : w &&& (a ||| b) > 0 ↔ (w &&& a ≠ 0 ∨ w &&& b ≠ 0) := by
  show 0 < _ ↔ _
  rw [Nat.and_or_distrib_left, Nat.pos_iff_ne_zero, Ne, Nat.or_eq_zero_iff]
  omega

theorem hasBit_iff (w bit : Nat) : hasBit w bit = true ↔ w &&& bit ≠ 0 := by
  simp [hasBit]

theorem hasBit_false_iff (w bit : Nat) : hasBit w bit = false ↔ w &&& bit = 0 := by
  simp [hasBit]

/-- `getserver.Execute` + `api.ViewServer`: a 200 comes only from a stored record with the details
bit, and its body is made from the stored hostname; every other answer has no server data -/
theorem viewExecute_body (st : SrvState) :
    ((viewExecute st).status = 200 →
      ∃ w qp h, st = .present w qp h ∧ w &&& 8 ≠ 0 ∧
        (viewExecute st).body = some (Styles.toHTML h, Styles.clean h) ∧ (viewExecute st).effect = .none) ∧
    ((viewExecute st).status ≠ 200 → (viewExecute st).body = none) := by
  cases st with
  | absent => simp [viewExecute]
  | present w qp h =>
    by_cases h1 : hasBit w dsDetails = true
    · have hb : w &&& 8 ≠ 0 := (hasBit_iff w 8).mp h1
      have e : viewExecute (.present w qp h) = ⟨200, serverBody h, .none⟩ := by
        simp only [viewExecute, h1, if_true]
      rw [e]
      exact ⟨fun _ => ⟨w, qp, h, rfl, hb, rfl, rfl⟩, fun hne => absurd rfl hne⟩
    · simp only [viewExecute, h1]
      simp

/-- `addserver.Execute` + `api.AddServer`: the same, and a 200 stores and queues nothing -/
theorem addExecute_body (a : Addr) (st : SrvState) :
    ((addExecute a st).status = 200 →
      ∃ w qp h, st = .present w qp h ∧ w &&& 8 ≠ 0 ∧
        (addExecute a st).body = some (Styles.toHTML h, Styles.clean h) ∧ (addExecute a st).effect = .none) ∧
    ((addExecute a st).status ≠ 200 → (addExecute a st).body = none) := by
  cases st with
  | absent => simp [addExecute]
  | present w qp h =>
    by_cases h1 : hasBit w dsDetails = true
    · have hb : w &&& 8 ≠ 0 := (hasBit_iff w 8).mp h1
      have e : addExecute a (.present w qp h) = ⟨200, serverBody h, .none⟩ := by
        simp only [addExecute, h1, if_true]
      rw [e]
      exact ⟨fun _ => ⟨w, qp, h, rfl, hb, rfl, rfl⟩, fun hne => absurd rfl hne⟩
    · by_cases h2 : (hasBit w dsPortRetry || hasBit w dsDetailsRetry) = true
      · simp only [addExecute, h1, h2]
        simp
      · by_cases h3 : hasBit w dsNoPort = true
        · simp only [addExecute, h1, h2, h3]
          simp
        · simp only [addExecute, h1, h2, h3]
          simp

end Swat4.Rest
