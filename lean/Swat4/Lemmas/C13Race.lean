import Swat4.Lemmas.C13Run
import Swat4.Lemmas.VerMono
/-!
# C13 race theorems without `hmono`, at every placement of the concurrent activity

* `raceRunL`: a history in which client A performs some of its calls, the *others* do something (`F`, any function on
  the store), A performs some more calls, … and finally runs to completion.  `C13Run.raceRun pA k t0 W tW now` is the
  instance with one slot `(k, t0, W.exec · tW)`.
* `probe_retry_slots` / `probe_failure_slots` / `probe_success_slots`: `probeserver.Execute` with an activity of the
  others after **each** of its calls (`Get`, `clock.Now()`, `AddBetween`) — the only hypotheses on the others are
  `Keyed` and `VerMono.Mono` of the state in which the probe's `Update` finally runs, which `VerMono` derives for every
  call / program / `USys` run without `Remove` whose conflict callbacks are stable.  No `hmono`.
-/
namespace Swat4.C13Run
open Swat4 Swat4.UC Std Swat4.VerMono Swat4.RowInv

/-! ## key-level forms of the `Update` equations (the address of the stored record is only known up to its key) -/

/-- `Update (f stale)` with conflict callback `g` (both leave address and version alone) when the stored record `latest` is
`stale` itself or newer: the callback's result on `latest` if it is newer, `f latest` otherwise, one version up -/
theorem update_eq2_key (s : AbsState) (now : Int) (f g : Server → Server) (stale latest : Server) (u : Int)
    (hf : Keeps f) (hg : Keeps g)
    (hrow : s.getRow stale.addr = some ⟨latest, u⟩) (hkey : latest.addr.key = stale.addr.key)
    (hmono : latest.version > stale.version ∨ latest = stale) :
    s.update now (f stale) (fun x => some (g x)) =
      ({ s with servers := s.servers.insert stale.addr.key ⟨{ (if latest.version > stale.version then g latest else f latest) with version := latest.version + 1 }, now⟩ },
       .ok { (if latest.version > stale.version then g latest else f latest) with version := latest.version + 1 }) := by
  have hfa := (hf stale).1
  have hfv := (hf stale).2
  have hga := (hg latest).1
  have hgv := (hg latest).2
  unfold AbsState.update
  rw [hfa, hrow]
  simp only
  by_cases hnew : latest.version > (f stale).version
  · have hnew' : latest.version > stale.version := by rw [hfv] at hnew; exact hnew
    simp only [hnew, hnew', if_true, AbsState.save, hga, hgv, hkey]
  · simp only [hnew, if_false]
    rcases hmono with h | h
    · rw [hfv] at hnew; exact absurd h hnew
    · subst h
      have : ¬ latest.version > latest.version := by omega
      simp only [AbsState.save, hfa, hfv, this, if_false]

theorem update_eq_key (s : AbsState) (now : Int) (f : Server → Server) (stale latest : Server) (u : Int)
    (hf : Keeps f)
    (hrow : s.getRow stale.addr = some ⟨latest, u⟩) (hkey : latest.addr.key = stale.addr.key)
    (hmono : latest.version > stale.version ∨ latest = stale) :
    s.update now (f stale) (fun x => some (f x)) =
      ({ s with servers := s.servers.insert stale.addr.key ⟨{ f latest with version := latest.version + 1 }, now⟩ },
       .ok { f latest with version := latest.version + 1 }) := by
  rw [update_eq2_key s now f f stale latest u hf hf hrow hkey hmono]
  simp only [ite_self]

/-! ## `stepN` algebra -/

theorem stepN_add {α : Type} (a b : Nat) (p : Prog α) (s : AbsState) (t : Int) :
    stepN (a + b) p s t = stepN b (stepN a p s t).2 (stepN a p s t).1 t := by
  induction a generalizing p s with
  | zero => simp
  | succ a ih =>
    have : a + 1 + b = (a + b) + 1 := by omega
    rw [this, stepN_succ, ih, stepN_succ]

theorem run_step1 {α : Type} (p : Prog α) (s : AbsState) (t : Int) : (p.step1 s t).2.run (p.step1 s t).1 t = p.run s t := by
  cases p <;> rfl

/-- performing some calls and then running on at the same clock is the sequential run -/
theorem run_stepN {α : Type} (k : Nat) (p : Prog α) (s : AbsState) (t : Int) :
    (stepN k p s t).2.run (stepN k p s t).1 t = p.run s t := by
  induction k generalizing p s with
  | zero => rfl
  | succ k ih => rw [stepN_succ, ih, run_step1]

/-! ## histories with several slots -/

/-- client A performs `k` calls at clock `t`, then the others transform the store by `F`; … ; finally A runs to
completion at clock `now` -/
def raceRunL {α : Type} : Prog α → List (Nat × Int × (AbsState → AbsState)) → Int → AbsState → AbsState × α
  | p, [], now, s => p.run s now
  | p, (k, t, F) :: rest, now, s => raceRunL (stepN k p s t).2 rest now (F (stepN k p s t).1)

theorem raceRun_eq_raceRunL {α β : Type} (pA : Prog α) (k : Nat) (t0 : Int) (W : Call β) (tW now : Int) (s : AbsState) :
    raceRun pA k t0 W tW now s = raceRunL pA [(k, t0, fun x => (W.exec x tW).1)] now s := rfl

/-- an empty slot at the final clock value can be dropped at the end … -/
theorem raceRunL_snoc_id {α : Type} (l : List (Nat × Int × (AbsState → AbsState))) (k : Nat) (now : Int) :
    ∀ (p : Prog α) (s : AbsState), raceRunL p (l ++ [(k, now, id)]) now s = raceRunL p l now s := by
  induction l with
  | nil => intro p s; exact run_stepN k p s now
  | cons x rest ih =>
    intro p s
    obtain ⟨k', t', F'⟩ := x
    exact ih _ _

/-- … and an empty slot merges with the next slot at the same clock value -/
theorem raceRunL_merge {α : Type} (k1 k2 : Nat) (t : Int) (F : AbsState → AbsState)
    (rest : List (Nat × Int × (AbsState → AbsState))) (now : Int) (p : Prog α) (s : AbsState) :
    raceRunL p ((k1, t, id) :: (k2, t, F) :: rest) now s = raceRunL p ((k1 + k2, t, F) :: rest) now s := by
  simp only [raceRunL, id, stepN_add]

/-! ## `probeserver.Execute`, call by call -/

/-- the retry branch after its clock read at `tn` -/
def retryAfterNow (prb : Probe) (svr : Server) (tn : Int) : Prog ProbeEnd :=
  .call (.enqueue { prb with retries := prb.retries + 1 } (some (tn + second * expFloor (prb.retries + 1))) none) fun r =>
    match r with
    | .error e => pure (.error (.repo e))
    | .ok _ => probeRetryUpdate prb svr
where
  /-- … and after its `AddBetween` -/
  probeRetryUpdate (prb : Probe) (svr : Server) : Prog ProbeEnd :=
    .call (.updateServer (handleRetry prb.goal svr) fun s => some (handleRetry prb.goal s)) fun r =>
      match r with
      | .error e => pure (.error (.repo e))
      | .ok _ => pure .retried

theorem probeRetry_step_now (prb : Probe) (svr : Server) (h : prb.retries < prb.maxRetries) (s : AbsState) (tn : Int) :
    stepN 1 (probeRetry prb svr) s tn = (s, retryAfterNow prb svr tn) := by
  rw [probeRetry_unfold prb svr h]
  rfl

theorem retryAfterNow_step (prb : Probe) (svr : Server) (tn : Int) (s : AbsState) (te : Int) :
    stepN 1 (retryAfterNow prb svr tn) s te =
      (queued s { prb with retries := prb.retries + 1 } (tn + second * expFloor (prb.retries + 1)),
       retryAfterNow.probeRetryUpdate prb svr) := rfl

/-- the state in which the probe's final `Update` runs holds, under the probe's key, a record that is the one the probe's
`Get` returned or a newer one — given only `RowLe` under that key from the `Get`'s state -/
theorem latest_of_mono {s0 s2 : AbsState} (hk0 : Keyed s0) (hk2 : Keyed s2) (a : Addr)
    (hm : RowLe (s0.servers[a.key]?) (s2.servers[a.key]?)) (r0 : Server) (u0 : Int)
    (hrow0 : s0.getRow a = some ⟨r0, u0⟩) :
    ∃ (w : Server) (uw : Int), s2.getRow a = some ⟨w, uw⟩ ∧ (w.version > r0.version ∨ w = r0) ∧
      r0.addr.key = a.key ∧ w.addr.key = a.key := by
  have h0 : s0.servers[a.key]? = some ⟨r0, u0⟩ := hrow0
  obtain ⟨row', hrow', hrel⟩ := hm ⟨r0, u0⟩ h0
  have hk0' : r0.addr.key = a.key := hk0 a.key ⟨r0, u0⟩ h0
  have hk2' : row'.svr.addr.key = a.key := hk2 a.key row' hrow'
  have hrel' : row'.svr.version > r0.version ∨ row'.svr = r0 := by
    rcases hrel with h | h
    · exact Or.inr (by rw [h])
    · exact Or.inl h
  exact ⟨row'.svr, row'.updatedAt, hrow', hrel', hk0', hk2'⟩

theorem getRow_key {s : AbsState} {a b : Addr} (h : a.key = b.key) : s.getRow a = s.getRow b := by
  unfold AbsState.getRow; rw [h]

/-- **retry, any activity of the others after each of the probe's calls.**  The probe's `Get` returned `r0` (state `s0`,
clock `t0`); the others act (`F0`); the probe reads the clock (`tn`); the others act (`F1`); the probe re-queues itself;
the others act (`F2`); the probe's `Update` commits at clock `tu`.  If the state `s2` in which that `Update` runs is `Keyed`
and the row under the probe's key is `RowLe` from `s0` (still there, unchanged or newer — what every activity without
`Remove` guarantees, `VerMono.Mono`), then
it holds some record `w` under the probe's key, `w` is `r0` or newer, and the final state is `s2` with `handleRetry goal w`
— the retry transformation of the **latest** record — stored one version up; everything else, including whatever the
others did to `w`, to other rows, to the queue and the instances, is as they left it.  The re-queued probe is ready
`⌊e^(retries+1)⌋` s after the clock value `tn` the probe read. -/
theorem probe_retry_slots (s0 : AbsState) (t0 tn te tu : Int) (prb : Probe) (r0 : Server) (u0 : Int)
    (F0 F1 F2 : AbsState → AbsState)
    (hk0 : Keyed s0) (hrow0 : s0.getRow prb.addr = some ⟨r0, u0⟩) (h : prb.retries < prb.maxRetries)
    (hk2 : Keyed (F2 (queued (F1 (F0 s0)) { prb with retries := prb.retries + 1 } (tn + second * expFloor (prb.retries + 1)))))
    (hm : RowLe (s0.servers[prb.addr.key]?)
      ((F2 (queued (F1 (F0 s0)) { prb with retries := prb.retries + 1 } (tn + second * expFloor (prb.retries + 1)))).servers[prb.addr.key]?)) :
    ∃ (w : Server) (uw : Int),
      (F2 (queued (F1 (F0 s0)) { prb with retries := prb.retries + 1 } (tn + second * expFloor (prb.retries + 1)))).getRow prb.addr
        = some ⟨w, uw⟩ ∧
      (w.version > r0.version ∨ w = r0) ∧
      raceRunL (probe prb none) [(1, t0, F0), (1, tn, F1), (1, te, F2)] tu s0 =
        ({ (F2 (queued (F1 (F0 s0)) { prb with retries := prb.retries + 1 } (tn + second * expFloor (prb.retries + 1)))) with
            servers := (F2 (queued (F1 (F0 s0)) { prb with retries := prb.retries + 1 } (tn + second * expFloor (prb.retries + 1)))).servers.insert prb.addr.key ⟨{ handleRetry prb.goal w with version := w.version + 1 }, tu⟩ }, .retried) := by
  obtain ⟨w, uw, hw, hmono, hkr, hkw⟩ := latest_of_mono hk0 hk2 prb.addr hm r0 u0 hrow0
  refine ⟨w, uw, hw, hmono, ?_⟩
  simp only [raceRunL]
  rw [probe_step_get s0 t0 prb none r0 u0 hrow0]
  simp only
  rw [probeRetry_step_now prb r0 h]
  simp only
  rw [retryAfterNow_step]
  simp only [retryAfterNow.probeRetryUpdate, Prog.run_call, exec_updateServer]
  rw [update_eq_key _ tu (handleRetry prb.goal) r0 w uw (handleRetry_keeps _) (by rw [getRow_key hkr]; exact hw)
    (hkw.trans hkr.symm) hmono, hkr]
  rfl

/-- **final failure** (`retries ≥ max`): `Get`, activity of the others, `Update` at clock `tu` -/
theorem probe_failure_slots (s0 : AbsState) (t0 tu : Int) (prb : Probe) (r0 : Server) (u0 : Int) (F0 : AbsState → AbsState)
    (hk0 : Keyed s0) (hrow0 : s0.getRow prb.addr = some ⟨r0, u0⟩) (h : prb.retries ≥ prb.maxRetries)
    (hk2 : Keyed (F0 s0)) (hm : RowLe (s0.servers[prb.addr.key]?) ((F0 s0).servers[prb.addr.key]?)) :
    ∃ (w : Server) (uw : Int), (F0 s0).getRow prb.addr = some ⟨w, uw⟩ ∧ (w.version > r0.version ∨ w = r0) ∧
      raceRunL (probe prb none) [(1, t0, F0)] tu s0 =
        ({ (F0 s0) with servers := (F0 s0).servers.insert prb.addr.key ⟨{ handleFailure prb.goal w with version := w.version + 1 }, tu⟩ }, .outOfRetries) := by
  obtain ⟨w, uw, hw, hmono, hkr, hkw⟩ := latest_of_mono hk0 hk2 prb.addr hm r0 u0 hrow0
  refine ⟨w, uw, hw, hmono, ?_⟩
  simp only [raceRunL]
  rw [probe_step_get s0 t0 prb none r0 u0 hrow0]
  simp only
  rw [probeRetry_final prb r0 h]
  unfold probeFail
  simp only [Prog.run_call, exec_updateServer]
  rw [update_eq_key _ tu (handleFailure prb.goal) r0 w uw (handleFailure_keeps _) (by rw [getRow_key hkr]; exact hw)
    (hkw.trans hkr.symm) hmono, hkr]
  rfl

/-- **success**: `Get`, the others (`F0`), clock read `tn`, the others (`F1`), `Update` at clock `tu`.  The stored record is
`HandleSuccess` of the latest record `w`; its refresh time is the clock value read by whichever `HandleSuccess` call
produced it: `tu` (the conflict callback, at commit) if `w` is newer than `r0`, the probe's own read `tn` otherwise. -/
theorem probe_success_slots (s0 : AbsState) (t0 tn tu : Int) (prb : Probe) (res : ProbeResult) (r0 : Server) (u0 : Int)
    (F0 F1 : AbsState → AbsState)
    (hk0 : Keyed s0) (hrow0 : s0.getRow prb.addr = some ⟨r0, u0⟩)
    (hk2 : Keyed (F1 (F0 s0))) (hm : RowLe (s0.servers[prb.addr.key]?) ((F1 (F0 s0)).servers[prb.addr.key]?)) :
    ∃ (w : Server) (uw : Int), (F1 (F0 s0)).getRow prb.addr = some ⟨w, uw⟩ ∧ (w.version > r0.version ∨ w = r0) ∧
      raceRunL (probe prb (some res)) [(1, t0, F0), (1, tn, F1)] tu s0 =
        ({ (F1 (F0 s0)) with servers := (F1 (F0 s0)).servers.insert prb.addr.key ⟨{ handleSuccess prb.goal res (if w.version > r0.version then tu else tn) w with version := w.version + 1 }, tu⟩ },
         .success) := by
  obtain ⟨w, uw, hw, hmono, hkr, hkw⟩ := latest_of_mono hk0 hk2 prb.addr hm r0 u0 hrow0
  refine ⟨w, uw, hw, hmono, ?_⟩
  simp only [raceRunL]
  rw [probe_step_get s0 t0 prb (some res) r0 u0 hrow0]
  simp only [probeSuccessRest, stepN_succ, stepN_zero, step1_call, exec_now, Prog.run_call, exec_updateServerT]
  rw [update_eq2_key _ tu (handleSuccess prb.goal res tn) (handleSuccess prb.goal res tu) r0 w uw
    (handleSuccess_keeps _ _ _) (handleSuccess_keeps _ _ _) (by rw [getRow_key hkr]; exact hw) (hkw.trans hkr.symm) hmono, hkr]
  by_cases hv : w.version > r0.version <;> simp only [hv, if_true, if_false] <;> rfl

end Swat4.C13Run

namespace Swat4.C13Run
open Swat4 Swat4.UC Std Swat4.VerMono Swat4.RowInv

/-! ## what "the others" may be -/

/-- an activity of other components, as a function on the store: it keeps rows under their keys and keeps every row,
unchanged or with a strictly larger version.  Every call that is not a `Remove`, every program without `Remove`, every
`USys` run of such clients, and every composition of these is one. -/
def Others (F : AbsState → AbsState) : Prop := ∀ s, Keyed s → Keyed (F s) ∧ Mono s (F s)

theorem Others.id : Others id := fun s hk => ⟨hk, Mono.refl s⟩

theorem Others.comp {F G : AbsState → AbsState} (hF : Others F) (hG : Others G) : Others (fun s => G (F s)) :=
  fun s hk => ⟨(hG _ (hF s hk).1).1, (hF s hk).2.trans (hG _ (hF s hk).1).2⟩

/-- one call, at any clock value -/
theorem others_call {β : Type} (c : Call β) (hc : CallStable c) (hn : NoRemove c) (t : Int) : Others fun s => (c.exec s t).1 :=
  fun s hk => ⟨exec_keyed c s t hk, exec_mono c hc hn s hk t⟩

/-- one program run to completion, at any clock value -/
theorem others_run {α : Type} (p : Prog α) (hp : ProgStable p) (t : Int) : Others fun s => (p.run s t).1 :=
  fun s hk => run_mono hp s t hk

/-- any interleaving of any number of clients (calls, crashes, faults, ticks) in the system model -/
theorem others_usys (A : Nat → Prop) (u : USys) (es : List UEv) (hes : ∀ e ∈ es, USysInd.EvOK A e)
    (hcl : ∀ (j : Nat) (c : UClient), A j → u.clients[j]? = some c → ProgStable c.prog) :
    Others fun s => (({ u with abs := s } : USys).run es).abs :=
  fun s hk => let h := usys_run_mono A { u with abs := s } es hes hk hcl; ⟨h.1, h.2.1⟩

theorem keyed_queued {s : AbsState} (h : Keyed s) (p : Probe) (r : Int) : Keyed (queued s p r) :=
  keyed_of_servers (s := s) rfl h

theorem raceRunL_split2 {α : Type} (t : Int) (F : AbsState → AbsState) (now : Int) (p : Prog α) (s : AbsState) :
    raceRunL p [(2, t, F)] now s = raceRunL p [(1, t, id), (1, t, F)] now s :=
  (raceRunL_merge 1 1 t F [] now p s).symm

theorem raceRunL_split3 {α : Type} (t : Int) (F : AbsState → AbsState) (now : Int) (p : Prog α) (s : AbsState) :
    raceRunL p [(3, t, F)] now s = raceRunL p [(1, t, id), (1, t, id), (1, t, F)] now s := by
  simp only [raceRunL, id, show (3 : Nat) = 1 + (1 + 1) from rfl, stepN_add]

end Swat4.C13Run
