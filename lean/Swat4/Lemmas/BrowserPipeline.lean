import Swat4.Model.BrowserPipeline
import Swat4.Lemmas.Browsing
/-!
# `packServersChecked` is `Browsing.packServers` (lemmas for `C06.tcp_pipeline_total`)
-/
namespace Swat4.BrowserPipeline
open Swat4 Swat4.Browsing
open Swat4.HeartbeatChecked (Go goSet goCopy withSlice putUint16)

theorem serverAddrChecked_eq (svr : Browsing.Server) :
    serverAddrChecked svr = .ok (0x51 :: (svr.ip.toBytes ++ u16be (toU16 svr.queryPort))) := by
  simp only [serverAddrChecked, withSlice, putUint16, goSlice, goCopy, goSet, goIndex, IPv4.toBytes, u16be,
    List.replicate, List.length_cons, List.length_nil, List.take, List.drop, orPanic_some, ok_bind, pure_eq_ok,
    List.cons_append, List.nil_append, List.append_nil, Nat.reduceLeDiff, Nat.reduceAdd, and_self, if_true, List.set,
    List.getElem?_cons_succ, List.getElem?_cons_zero, Nat.le_refl, Nat.lt_add_one, Nat.zero_lt_succ]

theorem packLoop_eq (schema : Schema) (fields : List Bytes) (servers : List Browsing.Server) :
    ∀ (payload : Bytes), packLoop schema fields servers payload = .ok (payload ++ servers.flatMap (packServer schema fields)) := by
  induction servers with
  | nil => intro payload; simp [packLoop]
  | cons svr rest ih =>
    intro payload
    unfold packLoop
    cases hm : marshalInfo schema svr.info with
    | none =>
      dsimp only
      rw [ih]
      simp [packServer, hm]
    | some ps =>
      dsimp only
      rw [serverAddrChecked_eq]
      simp only [ok_bind]
      rw [ih]
      simp [packServer, hm]

theorem goSliceL_take {α : Type} (xs : List α) (n : Nat) (h : n ≤ xs.length) : goSliceL xs 0 n = some (xs.take n) := by
  simp [goSliceL, h]

/-- every slice expression of `packServers` succeeds, and the bytes are those of `Browsing.packServers` (the
function C01's theorems are about) -/
theorem packServersChecked_eq (schema : Schema) (client : Client) (fields : List Bytes) (servers : List Browsing.Server) :
    packServersChecked schema client fields servers = .ok (packServers schema client fields servers) := by
  unfold packServersChecked packServers
  have hdr : (withSlice (List.replicate 6 0) 0 4 fun w => pure (goCopy w client.ip.toBytes)) =
      .ok (client.ip.toBytes ++ [0, 0]) := by
    simp only [withSlice, goSlice, goCopy, IPv4.toBytes, List.replicate, List.length_cons, List.length_nil, List.take,
      List.drop, orPanic_some, ok_bind, pure_eq_ok, List.cons_append, List.nil_append, List.append_nil,
      Nat.reduceLeDiff, Nat.reduceAdd, and_self, if_true, Nat.zero_le]
  have hport : (withSlice (client.ip.toBytes ++ [0, 0]) 4 6 fun w => putUint16 w (client.port % 65536)) =
      .ok (client.ip.toBytes ++ u16be (client.port % 65536)) := by
    simp only [withSlice, putUint16, goSlice, goSet, goIndex, IPv4.toBytes, u16be, List.length_cons, List.length_nil,
      List.take, List.drop, orPanic_some, ok_bind, pure_eq_ok, List.cons_append, List.nil_append, List.append_nil,
      Nat.reduceLeDiff, Nat.reduceAdd, and_self, if_true, List.set, List.getElem?_cons_succ, List.getElem?_cons_zero,
      Nat.le_refl, Nat.lt_add_one, Nat.zero_lt_succ]
  dsimp only
  rw [hdr]
  simp only [ok_bind]
  rw [hport]
  simp only [ok_bind]
  by_cases hl : fields.length > 255
  · rw [if_pos hl, if_pos hl, goSliceL_take fields 255 (by omega)]
    simp only [orPanic_some, ok_bind, packLoop_eq, pure_eq_ok, List.append_assoc]
  · rw [if_neg hl, if_neg hl]
    simp only [pure_eq_ok, ok_bind, packLoop_eq, List.append_assoc]

end Swat4.BrowserPipeline
