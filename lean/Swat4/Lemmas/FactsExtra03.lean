import Swat4.Gen.Facts
/-!
# C03 — finer regenerated facts: what the two list frontends ask `listservers` for
-/
namespace Swat4.C03
open Swat4

/-- **The discovery status each frontend requires.**  Supports `FilterSpec.selected now liveness status` / `listServers … status` (C03_main: only servers with the frontend's status bit are listed).
The REST handler (`internal/rest/api/servers_list.go`) asks for `ds.Info`, the GameSpy browser
(`internal/browser/browser.go`) for `ds.Master`; the use case turns that argument, unchanged, into
`WithStatus(req.discoveryStatus)`; the numeric values are read from the compiled package.
*Edit detected:* `listservers.NewRequest(q, liveness, ds.Master|ds.Info)`, swapping the two constants, or
`WithStatus` replaced by `NoStatus` / dropped in `Execute`. -/
theorem facts_frontend_status :
    Facts.frontendListRequests.map (fun r => (r.1, r.2.1, r.2.2.2.2)) =
      [("internal/rest/api/servers_list.go", "ListServers", "ds.Info"),
       ("internal/browser/browser.go", "process", "ds.Master")] ∧
    Facts.statusMaster = 2 ∧ Facts.statusInfo = 4 ∧
    Facts.listUseCaseFilter =
      [("NewRequest", "Request.query", "query"),
       ("NewRequest", "Request.recentness", "recentness"),
       ("NewRequest", "Request.discoveryStatus", "discoveryStatus"),
       ("Execute", "WithStatus", "req.discoveryStatus"),
       ("Execute", "ActiveAfter", "uc.clock.Now().Add(-req.recentness)")] := by
  decide

/-- **The liveness window each frontend passes.**  Supports the `liveness` parameter of `FilterSpec.selected` / `keeps` (C03_main: only servers refreshed within `liveness` are listed).
REST passes `a.settings.ServerLiveness`, the browser `h.opts.Liveness`, which the browser component fills with
`settings.ServerLiveness` (`configWiring`), itself the `--browsing-server-liveness` flag; `Execute` uses it as
`ActiveAfter(uc.clock.Now().Add(-req.recentness))`.
*Edit detected:* `listservers.NewRequest(q, a.settings.ServerLiveness*2, ds.Info)` (or a constant, or `0`) at
servers_list.go:45 / browser.go:131 — neither is a configuration literal. -/
theorem facts_frontend_liveness :
    Facts.frontendListRequests.map (fun r => (r.1, r.2.2.1, r.2.2.2.1)) =
      [("internal/rest/api/servers_list.go", "q", "a.settings.ServerLiveness"),
       ("internal/browser/browser.go", "q", "h.opts.Liveness")] ∧
    ("Execute", "ActiveAfter", "uc.clock.Now().Add(-req.recentness)") ∈ Facts.listUseCaseFilter ∧
    ("components/browser/browser.go", "var Module", "browser.HandlerOpts", "Liveness", "settings.ServerLiveness") ∈ Facts.configWiring ∧
    ("main.go", "main", "settings.Settings", "ServerLiveness", "cli.Globals.BrowsingServerLiveness") ∈ Facts.configWiring := by
  decide

end Swat4.C03
