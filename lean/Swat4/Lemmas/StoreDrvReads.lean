import Swat4.Lemmas.StoreDrv
/-!
# The read arms of the store drivers' `runCall` are the model's reads (C11, review section 3 item 7)

`Drv/StoreRun.lean` `runCall` inlines the four registry reads: `Get` as `items[a.key]?`, `Filter` as
`hmgetItems ∘ filterKeys`, `Count` as `items.size`, `CountByStatus` as the per-bit member counts of `statusSet`.
`C11_main` / `get_refines` / `filter_eq_pred` / `count_refines` / `countByStatus_refines` speak about `getM`,
`hmgetItems (filterKeys ·)`, `items.size` and `countByM`.  The lemmas below say the inlined expressions *are* those
functions (each by `rfl` or one `cases`), so the string the driver renders for a read is a rendering of the model's
read — and, under `Rel` / `Consistent`, of the specification's.  Reads change nothing and ignore the crash argument.
-/
namespace Swat4.Drv
open Swat4 Swat4.RStore Std

/-- how the driver renders the reply of `Get` -/
def renderGet : Except RErr Server → String
  | .ok r => s!"ok:{renderServer r}"
  | .error _ => "err:notfound"

/-- how the driver renders the reply of `CountByStatus`: the nine counts, decimal, comma-separated -/
def renderCounts (ns : List Nat) : String := "ok:" ++ ",".intercalate (ns.map toString)

/-- `Get`: the driver's inlined `items[a.key]?` match is `getM`, rendered -/
theorem runCall_get (s : SeqState) (a : Addr) (crash : Crash) :
    runCall s (.get a) crash = (s, renderGet (getM s.st a), ["0:hget"]) := by
  show (s, (match s.st.items[a.key]? with | some r => s!"ok:{renderServer r}" | Option.none => "err:notfound"),
    ["0:hget"]) = _
  unfold getM
  cases s.st.items[a.key]? <;> rfl

/-- `Filter`: the driver renders `hmgetItems (filterKeys fs)` — literally the list of `filter_eq_pred` -/
theorem runCall_filter (s : SeqState) (fs : FilterSet) (crash : Crash) :
    runCall s (.filter fs) crash = (s, s!"ok:{renderServers (s.st.hmgetItems (s.st.filterKeys fs))}", ["0:pipe"]) := rfl

/-- `Count`: the driver renders `items.size` (`HLEN servers:items`), the left-hand side of `count_refines` -/
theorem runCall_count (s : SeqState) (crash : Crash) :
    runCall s .count crash = (s, s!"ok:{s.st.items.size}", ["0:hlen"]) := rfl

/-- `CountByStatus`: the nine inlined per-bit counts are `countByM`, rendered -/
theorem runCall_countby (s : SeqState) (crash : Crash) :
    runCall s .countby crash = (s, renderCounts (countByM s.st), ["0:exec"]) := by
  unfold runCall renderCounts countByM
  rw [List.map_map]
  rfl

/-- a read leaves the driver's state alone -/
theorem runCall_read_state (s : SeqState) (crash : Crash) (a : Addr) (fs : FilterSet) :
    (runCall s (.get a) crash).1 = s ∧ (runCall s (.filter fs) crash).1 = s ∧
    (runCall s .count crash).1 = s ∧ (runCall s .countby crash).1 = s := by
  refine ⟨?_, rfl, rfl, ?_⟩
  · rw [runCall_get]
  · rw [runCall_countby]

/-- **the driver's reads are the specification's reads**: on a consistent store related to `a`, the driver renders
`a.get`, a permutation of `a.filter fs` (the rendering sorts by key), `a.count`, and the per-member `a.countByStatus` -/
theorem runCall_reads_refine {s : SeqState} {a : AbsState} (hc : Consistent s.st) (hrel : Rel s.st a) (crash : Crash) :
    (∀ ad : Addr, (runCall s (.get ad) crash).2.1 = renderGet (a.get ad)) ∧
    (∀ fs : FilterSet, ∃ l : List Server, l.Perm (a.filter fs) ∧ (runCall s (.filter fs) crash).2.1 = s!"ok:{renderServers l}") ∧
    (runCall s .count crash).2.1 = s!"ok:{a.count}" ∧
    (runCall s .countby crash).2.1 = renderCounts (Status.members.map a.countByStatus) := by
  refine ⟨fun ad => ?_, fun fs => ?_, ?_, ?_⟩
  · rw [runCall_get, get_refines hrel]
  · exact ⟨_, filter_eq_pred hc hrel fs, rfl⟩
  · rw [runCall_count, count_refines hrel]
  · rw [runCall_countby, countByStatus_refines hc hrel]

end Swat4.Drv
