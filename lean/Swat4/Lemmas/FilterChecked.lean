import Swat4.Lemmas.Filter
/-!
# The checked form of the filter parser never panics and equals the total form (C03, C06)

`Swat4.Filter.scanFilterChecked`, `parseChecked`, `parseValueChecked`, `newFromStringChecked` mirror the
Go code with every index / slice expression explicit (outcome `panic` when out of range).  This file
proves each of them equal to `Chk.ofExcept` of the total function the rest of C03 is stated about —
so no byte string makes the Go expressions go out of range, and the fuelled loop never runs dry.
-/
namespace Swat4.Filter
open Swat4

@[simp] theorem Chk.ok_bind {α β : Type} (a : α) (f : α → Chk β) : (Chk.ok a >>= f) = f a := rfl
@[simp] theorem Chk.err_bind {α β : Type} (e : ParseErr) (f : α → Chk β) : ((Chk.err e : Chk α) >>= f) = .err e := rfl
@[simp] theorem Chk.pure_eq {α : Type} (a : α) : (pure a : Chk α) = .ok a := rfl

/-! ## `scanFilter` -/

theorem isPrefixOf_length_le {p l : Bytes} (h : p.isPrefixOf l = true) : p.length ≤ l.length :=
  (List.isPrefixOf_iff_prefix.1 h).length_le

/-- what `strings.Index(s, " and ")` returns, in terms of the total scanner: `-1` and the scanner
returns `(s, "")`, or an index `k` with `k + 5 ≤ len(s)` and the scanner returns `(s[:k], s[k+5:])` -/
theorem stringsIndex_spec (s : Bytes) :
    (stringsIndex andSep s = -1 ∧ scanFilter s = (s, [])) ∨
    (∃ k : Nat, stringsIndex andSep s = (k : Int) ∧ k + 5 ≤ s.length ∧ scanFilter s = (s.take k, s.drop (k + 5))) := by
  induction s with
  | nil => left; exact ⟨rfl, rfl⟩
  | cons b r ih =>
    by_cases hp : andSep.isPrefixOf (b :: r) = true
    · right
      refine ⟨0, ?_, ?_, ?_⟩
      · simp [stringsIndex, hp]
      · have := isPrefixOf_length_le hp
        simpa [andSep] using this
      · simp [scanFilter, hp]
    · have hp' : andSep.isPrefixOf (b :: r) = false := Bool.eq_false_iff.2 hp
      rcases ih with ⟨h1, h2⟩ | ⟨k, h1, h2, h3⟩
      · left
        constructor
        · simp [stringsIndex, hp', h1]
        · simp [scanFilter, hp', h2]
      · right
        refine ⟨k + 1, ?_, ?_, ?_⟩
        · have : ¬ ((k : Int) < 0) := by omega
          simp [stringsIndex, hp', h1, this]
        · simp only [List.length_cons]; omega
        · simp [scanFilter, hp', h3]

/-- **`scanFilter` never panics**: the index `strings.Index` returns for the 5-byte separator, computed on
`s`, is in range for `s[:i]` and `s[i+5:]` taken of the same `s`; the result is the total scanner's -/
theorem scanFilterChecked_eq (s : Bytes) : scanFilterChecked s = .ok (scanFilter s) := by
  unfold scanFilterChecked
  rcases stringsIndex_spec s with ⟨h1, h2⟩ | ⟨k, h1, h2, h3⟩
  · simp [h1, h2]
  · have hne : ¬ ((k : Int) = -1) := by omega
    have hk : (k : Int) ≤ (s.length : Int) := by omega
    have hk5 : (k : Int) + 5 ≤ (s.length : Int) := by omega
    have hk0 : (0 : Int) ≤ (k : Int) + 5 := by omega
    have e5 : ((k : Int) + 5).toNat = k + 5 := by omega
    simp only [h1, hne, if_false, goSliceTo, goSliceFrom, goSlice, Int.le_refl, Int.natCast_nonneg, hk, hk5, hk0,
      and_self, if_true, Chk.ok_bind, Chk.pure_eq, h3, Int.toNat_natCast, e5, List.take_length]
    rfl

/-! ## `parseRawFilterValue` -/

theorem goIdx_zero (b : UInt8) (r : Bytes) : goIdx (b :: r) 0 = .ok b := by
  simp [goIdx]

theorem goIdx_last (s : Bytes) (h : s ≠ []) : ∃ x, s.getLast? = some x ∧ goIdx s ((s.length : Int) - 1) = .ok x := by
  have hl : 0 < s.length := List.length_pos_iff.2 h
  refine ⟨s.getLast h, List.getLast?_eq_some_getLast h, ?_⟩
  have h0 : (0 : Int) ≤ (s.length : Int) - 1 := by omega
  have e : ((s.length : Int) - 1).toNat = s.length - 1 := by omega
  have hlt : s.length - 1 < s.length := by omega
  simp only [goIdx, h0, if_true, e, List.getElem?_eq_getElem hlt]
  rw [List.getLast_eq_getElem]

theorem goSlice_inner (s : Bytes) (h : 2 ≤ s.length) :
    goSlice s 1 ((s.length : Int) - 1) = .ok (s.drop 1).dropLast := by
  have h1 : (1 : Int) ≤ (s.length : Int) - 1 := by omega
  have h2 : (s.length : Int) - 1 ≤ (s.length : Int) := by omega
  have e : ((s.length : Int) - 1).toNat = s.length - 1 := by omega
  simp only [goSlice, h1, h2, and_self, if_true, e, Int.toNat_one, Int.zero_le_ofNat]
  congr 1
  rw [List.dropLast_eq_take, List.drop_take, List.length_drop]

/-- **`parseRawFilterValue` never panics**: `rawVal[0]`, `rawVal[len-1]` and `rawVal[1:len-1]` are only
evaluated behind `len(rawVal) > 2`; the result is the total `parseValue`'s -/
theorem parseValueChecked_eq (raw : Bytes) : parseValueChecked raw = Chk.ofExcept (parseValue raw) := by
  unfold parseValueChecked parseValue
  cases atoi raw with
  | some n => rfl
  | none =>
    simp only
    by_cases hlen : raw.length > 2
    · cases raw with
      | nil => simp at hlen
      | cons b r =>
        obtain ⟨x, hx1, hx2⟩ := goIdx_last (b :: r) (by simp)
        simp only [hlen, if_true, decide_true, Bool.true_and, goIdx_zero, Chk.ok_bind, List.head?_cons, hx1, hx2]
        by_cases hb : b = 0x27
        · subst hb
          by_cases hxq : x = 0x27
          · subst hxq
            simp only [beq_self_eq_true, if_true, Chk.ok_bind, Chk.pure_eq, Bool.and_self]
            rw [goSlice_inner _ (by omega)]
            rfl
          · have : (x == 0x27) = false := by simpa using hxq
            have h2 : ((some x : Option UInt8) == some 0x27) = false := by simpa using hxq
            simp only [beq_self_eq_true, if_true, Chk.ok_bind, Chk.pure_eq, this, h2, Bool.and_false,
              Bool.false_eq_true, if_false]
            split <;> rfl
        · have : (b == 0x27) = false := by simpa using hb
          have h2 : ((some b : Option UInt8) == some 0x27) = false := by simpa using hb
          simp only [this, h2, Bool.false_eq_true, if_false, Chk.ok_bind, Chk.pure_eq, Bool.false_and]
          split <;> rfl
    · have : decide (raw.length > 2) = false := by simpa using hlen
      simp only [hlen, if_false, Chk.ok_bind, Chk.pure_eq, Bool.false_eq_true]
      split <;> rfl

/-! ## `filter.Parse` -/

/-- stage *name*, bytes other than `! = < >`: only `j` advances -/
theorem parseLoop_name (fb a rest : Bytes) (i j : Int) (fn op : Bytes) (ha : ∀ x ∈ a, isOpByte x = false) :
    parseLoop fb (a ++ rest) ⟨i, j, .name, fn, op⟩ = parseLoop fb rest ⟨i, j + a.length, .name, fn, op⟩ := by
  induction a generalizing j with
  | nil => simp
  | cons x a ih =>
    have hx : isOpByte x = false := ha x (by simp)
    simp only [List.cons_append, parseLoop, parseStep, hx, Bool.false_eq_true, if_false, reduceCtorEq, Chk.pure_eq,
      Chk.ok_bind]
    rw [ih (j + 1) (fun y hy => ha y (by simp [hy]))]
    simp only [List.length_cons, Int.natCast_add, Int.natCast_one]
    congr 2
    omega

/-- stage *op*, bytes among `! = < >`: only `j` advances -/
theorem parseLoop_op (fb a rest : Bytes) (i j : Int) (fn op : Bytes) (ha : ∀ x ∈ a, isOpByte x = true) :
    parseLoop fb (a ++ rest) ⟨i, j, .op, fn, op⟩ = parseLoop fb rest ⟨i, j + a.length, .op, fn, op⟩ := by
  induction a generalizing j with
  | nil => simp
  | cons x a ih =>
    have hx : isOpByte x = true := ha x (by simp)
    simp only [List.cons_append, parseLoop, parseStep, hx, if_true, reduceCtorEq, if_false, Chk.pure_eq, Chk.ok_bind]
    rw [ih (j + 1) (fun y hy => ha y (by simp [hy]))]
    simp only [List.length_cons, Int.natCast_add, Int.natCast_one]
    congr 2
    omega

/-- stage *value*, any bytes: only `j` advances -/
theorem parseLoop_value (fb a : Bytes) (i j : Int) (fn op : Bytes) :
    parseLoop fb a ⟨i, j, .value, fn, op⟩ = .ok ⟨i, j + a.length, .value, fn, op⟩ := by
  induction a generalizing j with
  | nil => simp [parseLoop]
  | cons x a ih =>
    have : parseStep fb ⟨i, j, .value, fn, op⟩ x = .ok ⟨i, j + 1, .value, fn, op⟩ := by
      unfold parseStep
      by_cases hx : isOpByte x = true <;> simp [hx]
    simp only [parseLoop, this, Chk.ok_bind]
    rw [ih (j + 1)]
    simp only [List.length_cons, Int.natCast_add, Int.natCast_one]
    congr 2
    omega

theorem mem_takeWhile_imp {α : Type} {p : α → Bool} {l : List α} {x : α} (h : x ∈ l.takeWhile p) : p x = true := by
  induction l with
  | nil => simp at h
  | cons y l ih =>
    rw [List.takeWhile_cons] at h
    by_cases hy : p y = true
    · simp only [hy, if_true, List.mem_cons] at h
      rcases h with rfl | h
      · exact hy
      · exact ih h
    · simp [hy] at h

theorem goSlice_mid (a b c : Bytes) :
    goSlice (a ++ (b ++ c)) (a.length : Int) ((a.length : Int) + (b.length : Int)) = .ok b := by
  have h1 : (a.length : Int) ≤ (a.length : Int) + (b.length : Int) := by omega
  have h2 : (a.length : Int) + (b.length : Int) ≤ ((a ++ (b ++ c)).length : Int) := by
    simp only [List.length_append, Int.natCast_add]; omega
  have e : ((a.length : Int) + (b.length : Int)).toNat = a.length + b.length := by omega
  simp only [goSlice, Int.natCast_nonneg, h1, h2, and_self, if_true, e, Int.toNat_natCast]
  congr 1
  rw [← List.append_assoc, List.take_append_of_le_length (by simp)]
  rw [List.take_of_length_le (by simp), List.drop_left]

/-- the state in which the loop of `filter.Parse` ends, for `filterBytes = name ++ ops ++ rest` where `name`
is the longest prefix free of `! = < >`, `ops` the run of such bytes that follows and `rest` what
remains — and no slice expression on the way is out of range -/
theorem parseLoop_eq (bs : Bytes) :
    let name := bs.takeWhile (fun b => !isOpByte b)
    let r1 := bs.dropWhile (fun b => !isOpByte b)
    let ops := r1.takeWhile isOpByte
    let r2 := r1.dropWhile isOpByte
    parseLoop bs bs ⟨0, 0, .name, [], []⟩ =
      .ok (if r1.isEmpty then ⟨0, bs.length, .name, [], []⟩
        else if r2.isEmpty then ⟨name.length, bs.length, .op, name, []⟩
        else ⟨(name.length : Int) + ops.length, bs.length, .value, name, ops⟩) := by
  intro name r1 ops r2
  have hbs : bs = name ++ (ops ++ r2) := by
    simp only [name, ops, r2, r1, List.takeWhile_append_dropWhile]
  have hname : ∀ x ∈ name, isOpByte x = false := by
    intro x hx
    have := mem_takeWhile_imp hx
    simpa using this
  have hops : ∀ x ∈ ops, isOpByte x = true := fun x hx => mem_takeWhile_imp hx
  have hr1 : r1 = ops ++ r2 := by simp only [ops, r2, List.takeWhile_append_dropWhile]
  have hlen : (bs.length : Int) = (name.length : Int) + ops.length + r2.length := by
    rw [hbs]; simp only [List.length_append, Int.natCast_add]; omega
  -- phase 1: the name
  have p1 : parseLoop bs bs ⟨0, 0, .name, [], []⟩ = parseLoop bs r1 ⟨0, (name.length : Int), .name, [], []⟩ := by
    have := parseLoop_name bs name r1 0 0 [] [] hname
    rw [hr1, ← hbs] at this
    rw [this, hr1]
    simp
  rw [p1]
  cases hr1c : r1 with
  | nil => simp only [List.isEmpty_nil, if_true, parseLoop]; rw [hlen]; rw [hr1c] at hr1; have := List.append_eq_nil_iff.1 hr1.symm; simp [this.1, this.2]
  | cons c r1' =>
    -- the head of `r1` is an operator byte
    have hc : isOpByte c = true := by
      have hne : bs.dropWhile (fun b => !isOpByte b) ≠ [] := by simp only [r1] at hr1c; rw [hr1c]; simp
      have := List.head_dropWhile_not (fun b => !isOpByte b) hne
      simp only [r1] at hr1c
      simp only [hr1c, List.head_cons] at this
      simpa using this
    -- so `ops = c :: ops'`
    have hops_c : ops = c :: r1'.takeWhile isOpByte := by
      simp only [ops, hr1c, List.takeWhile_cons, hc, if_true]
    have hr2 : r2 = r1'.dropWhile isOpByte := by
      simp only [r2, hr1c, List.dropWhile_cons, hc, if_true]
    have hs1 : goSlice bs 0 (name.length : Int) = .ok name := by
      have := goSlice_mid [] name (ops ++ r2)
      simpa [← hbs] using this
    have step1 : parseStep bs ⟨0, (name.length : Int), .name, [], []⟩ c =
        .ok ⟨(name.length : Int), (name.length : Int) + 1, .op, name, []⟩ := by
      simp only [parseStep, hc, if_true, hs1, Chk.ok_bind, Chk.pure_eq]
    have hr1' : r1' = r1'.takeWhile isOpByte ++ r2 := by rw [hr2, List.takeWhile_append_dropWhile]
    have p2 : parseLoop bs (c :: r1') ⟨0, (name.length : Int), .name, [], []⟩ =
        parseLoop bs r2 ⟨(name.length : Int), (name.length : Int) + ops.length, .op, name, []⟩ := by
      simp only [parseLoop, step1, Chk.ok_bind]
      rw [hr1', parseLoop_op bs _ r2 _ _ _ _ (fun x hx => mem_takeWhile_imp hx), hops_c]
      simp only [List.length_cons, Int.natCast_add, Int.natCast_one]
      congr 2
      omega
    rw [p2]
    simp only [List.isEmpty_cons, Bool.false_eq_true, if_false]
    cases hr2c : r2 with
    | nil =>
      simp only [List.isEmpty_nil, if_true, parseLoop]
      rw [hlen, hr2c]; simp
    | cons d r2' =>
      have hd : isOpByte d = false := by
        have hne : r1.dropWhile isOpByte ≠ [] := by simp only [r2] at hr2c; rw [hr2c]; simp
        have := List.head_dropWhile_not isOpByte hne
        simp only [r2] at hr2c
        simp only [hr2c, List.head_cons] at this
        exact this
      have hs2 : goSlice bs (name.length : Int) ((name.length : Int) + ops.length) = .ok ops := by
        have := goSlice_mid name ops r2
        rwa [← hbs] at this
      have step2 : parseStep bs ⟨(name.length : Int), (name.length : Int) + ops.length, .op, name, []⟩ d =
          .ok ⟨(name.length : Int) + ops.length, (name.length : Int) + ops.length + 1, .value, name, ops⟩ := by
        simp only [parseStep, hd, Bool.false_eq_true, if_false, if_true, hs2, Chk.ok_bind, Chk.pure_eq]
      simp only [parseLoop, step2, Chk.ok_bind, parseLoop_value, List.isEmpty_cons, Bool.false_eq_true, if_false]
      rw [hlen, hr2c]
      simp only [List.length_cons, Int.natCast_add, Int.natCast_one]
      congr 2
      omega

/-- **`filter.Parse` never panics**: `filterBytes[i:j]` (twice) and `filterBytes[i:]` are in range on
every input, and the result is the total `parse`'s -/
theorem parseChecked_eq (bs : Bytes) : parseChecked bs = Chk.ofExcept (parse bs) := by
  have hloop := parseLoop_eq bs
  simp only at hloop
  unfold parseChecked parse
  rw [hloop]
  simp only [Chk.ok_bind]
  generalize hname : bs.takeWhile (fun b => !isOpByte b) = name at *
  generalize hr1 : bs.dropWhile (fun b => !isOpByte b) = r1 at *
  generalize hops : r1.takeWhile isOpByte = ops at *
  generalize hr2 : r1.dropWhile isOpByte = r2 at *
  have hbs : bs = name ++ (ops ++ r2) := by
    rw [← hname, ← hops, ← hr2, ← hr1]
    simp only [List.takeWhile_append_dropWhile]
  by_cases e1 : r1.isEmpty = true
  · have : r2.isEmpty = true := by
      have : r1 = [] := by simpa using e1
      subst this
      simp at hr2
      simp [← hr2]
    simp [e1, this, Chk.ofExcept]
  · by_cases e2 : r2.isEmpty = true
    · simp [e1, e2, Chk.ofExcept]
    · simp only [e1, e2, Bool.false_eq_true, if_false, bne_self_eq_false, Bool.or_false]
      by_cases e3 : name.isEmpty = true
      · simp [e3, Chk.ofExcept]
      · simp only [e3, Bool.false_eq_true, if_false]
        have hsl : goSliceFrom bs ((name.length : Int) + ops.length) = .ok r2 := by
          have := goSlice_mid (name ++ ops) r2 []
          simp only [List.append_nil, List.length_append, Int.natCast_add, List.append_assoc] at this
          unfold goSliceFrom
          rw [hbs]
          simp only [List.length_append, Int.natCast_add]
          rw [← this]
          congr 1
          omega
        rw [hsl]
        simp only [Chk.ok_bind, parseValueChecked_eq]
        cases parseValue r2 with
        | error e => rfl
        | ok v => rfl

/-! ## `query.NewFromString` -/

/-- the interleaved scan-and-parse loop of `NewFromString` with enough fuel is `parseAll ∘ rawFilters`
(the filters parsed so far in front): no panic, no exhausted fuel -/
theorem newFromStringLoop_eq (fuel : Nat) (s : Bytes) (acc : List Filter) (h : s.length < fuel) :
    newFromStringLoop fuel s acc =
      Chk.ofExcept (match parseAll (rawFilters s) with
        | .error e => .error e
        | .ok fs => .ok (acc ++ fs)) := by
  induction fuel generalizing s acc with
  | zero => omega
  | succ fuel ih =>
    unfold newFromStringLoop
    rw [rawFilters_eq]
    cases s with
    | nil => simp [parseAll, Chk.ofExcept]
    | cons b r =>
      have hlt := scanFilter_snd_lt (b :: r) (by simp)
      simp only [List.length_cons, Nat.zero_lt_succ, if_true, scanFilterChecked_eq, Chk.ok_bind, parseChecked_eq,
        List.isEmpty_cons, Bool.false_eq_true, if_false, parseAll]
      cases parse (scanFilter (b :: r)).1 with
      | error e => rfl
      | ok f =>
        simp only [Chk.ofExcept, Chk.ok_bind]
        rw [ih _ _ (by simp only [List.length_cons] at h hlt; omega)]
        cases parseAll (rawFilters (scanFilter (b :: r)).2) with
        | error e => rfl
        | ok fs => simp [Chk.ofExcept]

/-- **`query.NewFromString` never panics and always terminates**: the checked form — every index / slice
expression of `scanFilter`, `filter.Parse` and `parseRawFilterValue` explicit, the loop on fuel — equals
the total form on every byte string; in particular its outcome is never `panic` or `hang` -/
theorem newFromStringChecked_eq (s : Bytes) : newFromStringChecked s = Chk.ofExcept (newFromString s) := by
  unfold newFromStringChecked newFromString
  rw [newFromStringLoop_eq _ _ _ (Nat.lt_succ_self _)]
  cases parseAll (rawFilters s) with
  | error e => rfl
  | ok fs =>
    cases fs with
    | nil => rfl
    | cons f fs => simp [Chk.ofExcept]

end Swat4.Filter
