import Swat4.Lemmas.GS1
import Swat4.Spec.GS1Spec
/-! Lemmas about `parseParams` on rendered field sequences (`\f₁\f₂…`). -/
namespace Swat4.GS1
open Swat4 Swat4.GS1Spec

theorem indexByte_eq_none {b : Bytes} {c : UInt8} (h : c ∉ b) : indexByte b c = none := by
  induction b with
  | nil => rfl
  | cons x xs ih =>
    simp only [List.mem_cons, not_or] at h
    simp only [indexByte]
    rw [if_neg (fun e => h.1 e.symm), ih h.2]; rfl

theorem indexByte_append {f r : Bytes} {c : UInt8} (h : c ∉ f) : indexByte (f ++ c :: r) c = some f.length := by
  induction f with
  | nil => simp [indexByte]
  | cons x xs ih =>
    simp only [List.mem_cons, not_or] at h
    simp only [List.cons_append, indexByte]
    rw [if_neg (fun e => h.1 e.symm), ih h.2]; rfl

theorem cfPure_last (f : Bytes) (h : bsl ∉ f) : cfPure (bsl :: f) = (f, none) := by
  simp [cfPure, indexByte_eq_none h]

theorem cfPure_more (f r : Bytes) (h : bsl ∉ f) : cfPure (bsl :: (f ++ bsl :: r)) = (f, some (bsl :: r)) := by
  simp [cfPure, indexByte_append h]

theorem body_cons (f : Bytes) (fs : List Bytes) : body (f :: fs) = bsl :: (f ++ body fs) := by
  simp [body]

theorem body_append (a b : List Bytes) : body (a ++ b) = body a ++ body b := by
  simp [body]

theorem body_nil : body [] = [] := rfl

theorem body_eq_nil_or_bsl (fs : List Bytes) : body fs = [] ∨ ∃ r, body fs = bsl :: r := by
  cases fs with
  | nil => exact .inl rfl
  | cons f t => exact .inr ⟨_, body_cons f t⟩

/-- the scan loop of `parseParams` recovers the rendered fields -/
theorem parseFieldsLoop_body (f : Bytes) (fs : List Bytes) (h : ∀ g ∈ f :: fs, bsl ∉ g) (fuel : Nat)
    (hf : (body (f :: fs)).length < fuel) :
    parseFieldsLoop fuel (some (body (f :: fs))) = .ok (f :: fs) := by
  induction fs generalizing f fuel with
  | nil =>
    cases fuel with
    | zero => omega
    | succ n =>
      have hb : body [f] = bsl :: f := by simp [body]
      simp only [parseFieldsLoop, consumeField_eq, Res.ok_bind, hb, cfPure_last f (h f (by simp)), Res.pure_eq]
  | cons g t ih =>
    cases fuel with
    | zero => omega
    | succ n =>
      have hb : body (f :: g :: t) = bsl :: (f ++ bsl :: (g ++ body t)) := by rw [body_cons, body_cons]
      have hlen : (body (g :: t)).length < n := by
        rw [hb] at hf; rw [body_cons]; simp only [List.length_cons, List.length_append] at hf ⊢; omega
      have := ih g (fun x hx => h x (List.mem_cons_of_mem _ hx)) n hlen
      rw [body_cons] at this
      simp only [parseFieldsLoop, consumeField_eq, Res.ok_bind, hb, cfPure_more f _ (h f (by simp)), this, Res.pure_eq]

theorem pairUp_flat (kvs : List (Bytes × Bytes)) :
    pairUp (kvs.flatMap fun kv => [kv.1, kv.2]) = kvs.map fun kv => ⟨kv.1, kv.2⟩ := by
  induction kvs with
  | nil => rfl
  | cons kv t ih => simp only [List.flatMap_cons, List.cons_append, List.nil_append, pairUp, ih, List.map_cons]

/-- `parseParams` of a rendered field sequence pairs the fields up (an odd trailing field is dropped) -/
theorem parseParams_body (fs : List Bytes) (h : ∀ g ∈ fs, bsl ∉ g) : parseParams (body fs) = .ok (pairUp fs) := by
  unfold parseParams
  cases fs with
  | nil =>
    simp only [body_nil, List.length_nil, parseFieldsLoop, consumeField, Res.pure_eq]
    rfl
  | cons f t =>
    rw [parseFieldsLoop_body f t h _ (by omega)]
    simp only [Res.ok_bind]
    exact pairFieldsLoop_eq _ _ 1 (by omega) (by omega)

end Swat4.GS1
