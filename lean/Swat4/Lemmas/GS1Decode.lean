import Swat4.Lemmas.GS1Chunks
import Swat4.Lemmas.GS1Reassemble
/-! From the encoded fragment list to the query result, for any delivery. -/
namespace Swat4.GS1
open Swat4 Swat4.GS1Spec

/-! ## the fragments the decoder should see -/

/-- expected inspection results of `fragmentsFrom d n k chs` -/
def expFrags (d : Dialect) (n : Nat) : Nat → List (List Bytes) → List Fragment
  | _, [] => []
  | k, ch :: rest => ⟨decide (k + 1 = n), ((k + 1 : Nat) : Int), d.ver, fragData d n k ch⟩ :: expFrags d n (k + 1) rest

theorem expFrags_length (d : Dialect) (n k : Nat) (chs : List (List Bytes)) : (expFrags d n k chs).length = chs.length := by
  induction chs generalizing k with
  | nil => rfl
  | cons c t ih => simp [expFrags, ih]

theorem expFrags_getElem (d : Dialect) (n k : Nat) (chs : List (List Bytes)) (i : Nat) (h : i < chs.length) :
    (expFrags d n k chs)[i]'(by rw [expFrags_length]; exact h) =
      ⟨decide (k + i + 1 = n), ((k + i + 1 : Nat) : Int), d.ver, fragData d n (k + i) chs[i]⟩ := by
  induction chs generalizing k i with
  | nil => cases h
  | cons c t ih =>
    cases i with
    | zero => simp [expFrags]
    | succ j =>
      simp only [expFrags, List.getElem_cons_succ]
      rw [ih (k + 1) j (by simpa using h)]
      have : k + 1 + j = k + (j + 1) := by omega
      simp only [this]

theorem insp_fragment (d : Dialect) (hd : d.fragmenting = true) (n i : Nat) (ch : List Bytes) (ok : ChunkOK ch)
    (hi : i + 1 < 9223372036854775808) :
    insp (fragment d n i ch) = some ⟨decide (i + 1 = n), ((i + 1 : Nat) : Int), d.ver, fragData d n i ch⟩ := by
  unfold insp
  rw [inspect_fragment d hd n i ch ok hi]
  simp only
  rw [if_neg (by omega)]

theorem map_insp_fragmentsFrom (d : Dialect) (hd : d.fragmenting = true) (n k : Nat) (chs : List (List Bytes))
    (ok : ∀ ch ∈ chs, ChunkOK ch) (hk : k + chs.length < 9223372036854775808) :
    (fragmentsFrom d n k chs).map insp = (expFrags d n k chs).map some := by
  induction chs generalizing k with
  | nil => rfl
  | cons c t ih =>
    simp only [List.length_cons] at hk
    simp only [fragmentsFrom, expFrags, List.map_cons]
    rw [insp_fragment d hd n k c (ok c (by simp)) (by omega),
      ih (k + 1) (fun ch hch => ok ch (List.mem_cons_of_mem _ hch)) (by omega)]

theorem numbered_expFrags (d : Dialect) (chs : List (List Bytes)) (hne : chs ≠ []) :
    Numbered (expFrags d chs.length 0 chs) d.ver := by
  refine ⟨?_, ?_⟩
  · intro e
    have := congrArg List.length e
    rw [expFrags_length] at this
    exact hne (List.length_eq_zero_iff.mp this)
  · intro i h
    have h' : i < chs.length := by rwa [expFrags_length] at h
    rw [expFrags_getElem d chs.length 0 chs i h']
    simp only [Nat.zero_add, expFrags_length, and_self]

theorem expFrags_data (d : Dialect) (n k : Nat) (chs : List (List Bytes)) (hne : chs ≠ []) (hn : k + chs.length = n) :
    ((expFrags d n k chs).map (·.data)).flatten = (chs.map body).flatten ++ framingBytes d := by
  induction chs generalizing k with
  | nil => exact absurd rfl hne
  | cons c t ih =>
    cases t with
    | nil =>
      simp only [List.length_cons, List.length_nil] at hn
      simp [expFrags, fragData, hn]
    | cons c' t' =>
      simp only [List.length_cons] at hn
      have hk : ¬ k + 1 = n := by omega
      have := ih (k + 1) (by simp) (by simp only [List.length_cons]; omega)
      simp only [expFrags, List.map_cons, List.flatten_cons, fragData, hk, if_false, List.append_nil] at this ⊢
      rw [this]
      simp [List.append_assoc]

/-! ## any delivery of the expected datagrams -/

theorem insp_nil : insp [] = none := by decide

section delivery
variable {E : List Bytes} {Fs : List Fragment} {v : Ver}

theorem insp_of_mem (hE : E.map insp = Fs.map some) {x : Bytes} (hx : x ∈ E) : ∃ F ∈ Fs, insp x = some F := by
  have : insp x ∈ E.map insp := List.mem_map.mpr ⟨x, hx, rfl⟩
  rw [hE] at this
  obtain ⟨F, hF, h⟩ := List.mem_map.mp this
  exact ⟨F, hF, h.symm⟩

theorem exists_of_frag (hE : E.map insp = Fs.map some) {F : Fragment} (hF : F ∈ Fs) : ∃ x ∈ E, insp x = some F := by
  have : some F ∈ Fs.map some := List.mem_map.mpr ⟨F, hF, rfl⟩
  rw [← hE] at this
  obtain ⟨x, hx, h⟩ := List.mem_map.mp this
  exact ⟨x, hx, h⟩

/-- two expected datagrams that inspect to the same fragment are the same datagram -/
theorem datagram_inj (hE : E.map insp = Fs.map some) (N : Numbered Fs v) {x y : Bytes} (hx : x ∈ E) (hy : y ∈ E)
    (h : insp x = insp y) : x = y := by
  obtain ⟨i, hi, rfl⟩ := List.mem_iff_getElem.mp hx
  obtain ⟨j, hj, rfl⟩ := List.mem_iff_getElem.mp hy
  have hl : E.length = Fs.length := by simpa using congrArg List.length hE
  have gi : insp E[i] = some Fs[i] := by
    have := congrArg (fun l => l[i]?) hE
    simpa [List.getElem?_map, List.getElem?_eq_getElem hi, List.getElem?_eq_getElem (hl ▸ hi)] using this
  have gj : insp E[j] = some Fs[j] := by
    have := congrArg (fun l => l[j]?) hE
    simpa [List.getElem?_map, List.getElem?_eq_getElem hj, List.getElem?_eq_getElem (hl ▸ hj)] using this
  rw [gi, gj] at h
  have h' : Fs[i].order = Fs[j].order := by rw [Option.some.inj h]
  rw [(N.at_ i (hl ▸ hi)).1, (N.at_ j (hl ▸ hj)).1] at h'
  have : i = j := by omega
  subst this; rfl

/-- **reassembly of any delivery**: drawn from the expected datagrams, in any order, with
duplicates — complete exactly when every expected datagram has arrived -/
theorem collect_of_numbered (hE : E.map insp = Fs.map some) (N : Numbered Fs v) (dl : List Bytes)
    (hsub : ∀ x ∈ dl, x ∈ E) :
    ((∀ x ∈ E, x ∈ dl) → ∃ cap, collectPayload dl = .ok ⟨(Fs.map (·.data)).flatten, cap, v⟩) ∧
    (¬ (∀ x ∈ E, x ∈ dl) → collectPayload dl = .err .incomplete) := by
  have hall : dl.all (fun r => (insp r).isSome) = true := by
    rw [List.all_eq_true]
    intro x hx
    obtain ⟨F, _, h⟩ := insp_of_mem hE (hsub x hx)
    rw [h]; rfl
  have hfs : ∀ f ∈ dl.filterMap insp, f ∈ Fs := by
    intro f hf
    obtain ⟨x, hx, h⟩ := List.mem_filterMap.mp hf
    obtain ⟨F, hF, h'⟩ := insp_of_mem hE (hsub x hx)
    rw [h'] at h; cases h; exact hF
  have hcov : (∀ x ∈ E, x ∈ dl) ↔ ∀ F ∈ Fs, F ∈ dl.filterMap insp := by
    constructor
    · intro h F hF
      obtain ⟨x, hx, hi⟩ := exists_of_frag hE hF
      exact List.mem_filterMap.mpr ⟨x, h x hx, hi⟩
    · intro h x hx
      obtain ⟨F, hF, hi⟩ := insp_of_mem hE hx
      obtain ⟨y, hy, hi'⟩ := List.mem_filterMap.mp (h F hF)
      rw [datagram_inj hE N hx (hsub y hy) (by rw [hi, hi'])]
      exact hy
  unfold collectPayload
  rw [collectLoop_eq, hall]
  simp only [if_true, Res.ok_bind]
  obtain ⟨h1, h2⟩ := N.finish (dl.filterMap insp) hfs
  exact ⟨fun h => h1 (hcov.mp h), fun h => h2 (fun h' => h (hcov.mpr h'))⟩

/-- **the query**: what `getResponse` returns for any delivery of the expected datagrams -/
theorem runQuery_of_numbered (hE : E.map insp = Fs.map some) (N : Numbered Fs v) (R : Response)
    (hexp : expandPayload (Fs.map (·.data)).flatten v = .ok R) (hsz : ∀ x ∈ E, x.length ≤ bufferSize)
    (frs ds : List Bytes) (hsub : ∀ x ∈ frs ++ ds, x ∈ E) (hnc : ¬ (∀ x ∈ E, x ∈ frs)) :
    ((∀ x ∈ E, x ∈ frs ++ ds) → runQueryFrom frs ds = .response R) ∧
    (¬ (∀ x ∈ E, x ∈ frs ++ ds) → runQueryFrom frs ds = .timeout) := by
  induction ds generalizing frs with
  | nil =>
    simp only [List.append_nil] at *
    exact ⟨fun h => absurd h hnc, fun _ => rfl⟩
  | cons d ds ih =>
    have hd : d ∈ E := hsub d (by simp)
    have htake : d.take bufferSize = d := List.take_of_length_le (hsz d hd)
    have hdne : ¬ d.length = 0 := by
      intro h0
      have : d = [] := List.length_eq_zero_iff.mp h0
      obtain ⟨F, _, hi⟩ := insp_of_mem hE hd
      rw [this, insp_nil] at hi; cases hi
    have hsub' : ∀ x ∈ frs ++ [d], x ∈ E := by
      intro x hx
      exact hsub x (by simp only [List.mem_append, List.mem_cons, List.not_mem_nil, or_false] at hx ⊢; rcases hx with h | h; exact .inl h; exact .inr (.inl h))
    obtain ⟨c1, c2⟩ := collect_of_numbered hE N (frs ++ [d]) hsub'
    have happ : frs ++ d :: ds = (frs ++ [d]) ++ ds := by simp
    by_cases hc : ∀ x ∈ E, x ∈ frs ++ [d]
    · obtain ⟨cap, hcol⟩ := c1 hc
      have hf : feed frs d = .response R := by
        unfold feed
        simp only [htake, hdne, if_false, hcol, hexp]
      constructor
      · intro _; simp only [runQueryFrom, hf]
      · intro hn
        exfalso; apply hn
        intro x hx
        have := hc x hx
        rw [happ]; exact List.mem_append_left _ this
    · have hcol := c2 hc
      have hf : feed frs d = .incomplete := by
        unfold feed
        simp only [htake, hdne, if_false, hcol]
      simp only [runQueryFrom, hf, htake]
      rw [happ]
      exact ih (frs ++ [d]) (by rw [← happ]; exact hsub) hc

end delivery

/-! ## the encoded datagram lists -/

theorem chunksFrom_length (fl : List Bytes) (prev : Nat) (cuts : List Nat) :
    (chunksFrom fl prev cuts).length = cuts.length + 1 := by
  induction cuts generalizing fl prev with
  | nil => rfl
  | cons c cs ih => simp [chunksFrom, ih]

theorem inspect_vanillaq (ch : List Bytes) (ok : ChunkOK ch) :
    inspectFragment (body ch ++ bsl :: kQueryid ++ bsl :: vGs1 ++ FINAL) = .ok ⟨true, 1, .vanilla, body ch⟩ := by
  have e : body ch ++ bsl :: kQueryid ++ bsl :: vGs1 ++ FINAL = ((body ch ++ bsl :: kQueryid) ++ bsl :: vGs1) ++ FINAL := by
    simp [List.append_assoc]
  have hF : FINAL.getLast? = some bsl := by decide
  have h1 : hasSuffix (((body ch ++ bsl :: kQueryid) ++ bsl :: vGs1) ++ FINAL) sfxVanilla = false :=
    hasSuffix_false_of_last (c := bsl) (c' := 0x31) (by rw [List.getLast?_append, hF]; rfl) (by decide) (by decide)
  have h2 : hasPrefix (((body ch ++ bsl :: kQueryid) ++ bsl :: vGs1) ++ FINAL) pfxAM = false := by
    have : ((body ch ++ bsl :: kQueryid) ++ bsl :: vGs1) ++ FINAL =
        body ch ++ bsl :: 0x71 :: ([0x75, 0x65, 0x72, 0x79, 0x69, 0x64] ++ bsl :: vGs1 ++ FINAL) := by
      simp [kQueryid, List.append_assoc]
    rw [this]
    exact not_hasPrefix_pfxAM ch ok _ _ (by decide)
  have h5 := cprPure_split (body ch) kQueryid vGs1 (by decide) (by decide) (by decide)
  have h6 : inspectQueryID vGs1 = .ok (1, .vanilla) := by
    have : atoi vGs1 = none := by decide
    simp only [inspectQueryID, this]
  rw [e]
  unfold inspectFragment
  rw [h1, h2]
  simp only [Bool.false_eq_true, if_false]
  unfold inspectGS1Fragment
  simp only [hasSuffix_append, if_true, trimSuffix_append, consumeParamFromRight_eq, Res.ok_bind, h5, ne_eq,
    not_true_eq_false, if_false, h6, Res.pure_eq, nilEmpty]

/-- the fragments the decoder should see in `encodeFlat d fl cuts` -/
def expected (d : Dialect) (fl : List Bytes) (cuts : List Nat) : List Fragment :=
  match d with
  | .vanilla => [⟨true, 1, .vanilla, body fl ++ FINAL ++ sfxVanilla⟩]
  | .vanillaq => [⟨true, 1, .vanilla, body fl⟩]
  | _ => expFrags d (chunks fl cuts).length 0 (chunks fl cuts)

theorem numbered_singleton (v : Ver) (data : Bytes) : Numbered [⟨true, 1, v, data⟩] v := by
  refine ⟨by simp, ?_⟩
  intro i h
  have : i = 0 := by simpa using h
  subst this
  simp

theorem expected_numbered (d : Dialect) (fl : List Bytes) (cuts : List Nat) : Numbered (expected d fl cuts) d.ver := by
  cases d with
  | vanilla => exact numbered_singleton _ _
  | vanillaq => exact numbered_singleton _ _
  | gs1 => exact numbered_expFrags _ _ (chunksFrom_ne_nil _ _ _)
  | am => exact numbered_expFrags _ _ (chunksFrom_ne_nil _ _ _)
  | amq => exact numbered_expFrags _ _ (chunksFrom_ne_nil _ _ _)
  | amn => exact numbered_expFrags _ _ (chunksFrom_ne_nil _ _ _)

theorem framingBytes_eq (d : Dialect) (fl : List Bytes) :
    body fl ++ framingBytes d = body (fl ++ (framingFields d).flatMap fun kv => [kv.1, kv.2]) := by
  rw [body_append]; rfl

/-- concatenating the expected fragment data gives the rendered field sequence plus the framing fields -/
theorem expected_data (d : Dialect) (fl : List Bytes) (cuts : List Nat) :
    ((expected d fl cuts).map (·.data)).flatten =
      body (fl ++ (framingFields d).flatMap fun kv => [kv.1, kv.2]) := by
  have hfrag : ∀ d' : Dialect, ((expFrags d' (chunks fl cuts).length 0 (chunks fl cuts)).map (·.data)).flatten =
      body (fl ++ (framingFields d').flatMap fun kv => [kv.1, kv.2]) := by
    intro d'
    have hne : chunks fl cuts ≠ [] := chunksFrom_ne_nil _ _ _
    rw [expFrags_data d' _ 0 (chunks fl cuts) hne (by omega), ← framingBytes_eq]
    congr 1
    have : ∀ chs : List (List Bytes), (chs.map body).flatten = body chs.flatten := by
      intro chs
      induction chs with
      | nil => rfl
      | cons c t ih => simp only [List.map_cons, List.flatten_cons, body_append, ih]
    rw [this, chunks_flatten]
  cases d with
  | vanilla =>
    simp only [expected, List.map_cons, List.map_nil, List.flatten_cons, List.flatten_nil, List.append_nil]
    rw [body_append, List.append_assoc]
    rfl
  | vanillaq =>
    simp [expected, framingFields]
  | gs1 => exact hfrag _
  | am => exact hfrag _
  | amq => exact hfrag _
  | amn => exact hfrag _

/-- the decoder sees exactly the expected fragments in the encoded datagrams -/
theorem encode_insp (d : Dialect) (fl : List Bytes) (ok : FlatOK fl) (cuts : List Nat)
    (hc : cuts.length + 1 < 9223372036854775808) :
    (encodeFlat d fl cuts).map insp = (expected d fl cuts).map some := by
  have hfrag : ∀ d' : Dialect, d'.fragmenting = true →
      (fragmentsFrom d' (chunks fl cuts).length 0 (chunks fl cuts)).map insp =
        (expFrags d' (chunks fl cuts).length 0 (chunks fl cuts)).map some := by
    intro d' hd'
    apply map_insp_fragmentsFrom d' hd'
    · exact fun ch hch => ChunkOK_of_mem_chunks fl ok cuts ch hch
    · rw [show (chunks fl cuts).length = cuts.length + 1 from chunksFrom_length _ _ _]; omega
  cases d with
  | vanilla =>
    have : inspectFragment (body fl ++ FINAL ++ sfxVanilla) =
        .ok ⟨true, 1, .vanilla, body fl ++ FINAL ++ sfxVanilla⟩ := by
      unfold inspectFragment
      rw [hasSuffix_append, if_pos rfl]
    simp only [encodeFlat, expected, List.map_cons, List.map_nil, insp, this]
    rfl
  | vanillaq =>
    have ok : ChunkOK fl := ChunkOK_of_infix fl ok _ List.infix_rfl
    simp only [encodeFlat, expected, List.map_cons, List.map_nil, insp, inspect_vanillaq _ ok]
    rfl
  | gs1 => exact hfrag _ rfl
  | am => exact hfrag _ rfl
  | amq => exact hfrag _ rfl
  | amn => exact hfrag _ rfl

theorem encode_ne_nil (d : Dialect) (fl : List Bytes) (ok : FlatOK fl) (cuts : List Nat)
    (hc : cuts.length + 1 < 9223372036854775808) : encodeFlat d fl cuts ≠ [] := by
  intro e
  have := congrArg List.length (encode_insp d fl ok cuts hc)
  rw [e] at this
  simp only [List.map_nil, List.length_nil, List.length_map] at this
  exact (expected_numbered d fl cuts).ne (List.length_eq_zero_iff.mp this.symm)

end Swat4.GS1
