import Swat4.Gen.Facts
/-!
# C09 — finer regenerated facts about `servers.go` / `redislock.go`

`facts_writes_fenced` (Properties/C09) lists write commands by name.  The theorems here pin, from the same go/ast
pass over the current source (`harness/internal/facts/finer_store.go`), the three things the model `Sys`
(Model/StoreMachine) takes for granted and that list does not see: WHERE the stored record is read, the fencing
comparison itself, and the KEY each command of a batch is sent to.
-/
namespace Swat4.C09
open Swat4

/-- **The record is read under the lock.**  Supports `Sys`' step order `setnx → watch → ownGet → hget → exec`
(`WPC.hget` comes after `WPC.ownGet`; used by `C09_commit_atomic`, `C09_linearizable`): the optimistic check is only
sound if the record the resolver sees is read AFTER `WATCH key` on the connection that sends `EXEC`.  Every call of
the accessor `r.get` in `servers.go`, with whether a `*redis.Tx` is in scope: the three writers `add` / `update` /
`remove` call it inside the function that received `tx` (which `facts_tx_provenance` shows is only ever called from
the closure handed to `Guard` → `Watch`); the only call without a `tx` is the plain reader `Get`.  The record hash is
read by nothing else than `get`'s `HGET` and `Filter`'s `HMGET`.
*Edit detected:* hoisting `existing, err := r.get(ctx, svr.Addr)` out of `add` into `Add` before
`r.updateExclusive(…)` (read before the lock is taken: a concurrent commit between read and `WATCH` is lost). -/
theorem facts_record_reads_fenced :
    Facts.storeRecordReads =
      [("Get", "r.get", "ctx, addr", "no *redis.Tx in scope"),
       ("add", "r.get", "ctx, svr.Addr", "in function with parameter tx *redis.Tx"),
       ("update", "r.get", "ctx, svr.Addr", "in function with parameter tx *redis.Tx"),
       ("remove", "r.get", "ctx, svr.Addr", "in function with parameter tx *redis.Tx")] ∧
    (∀ x ∈ Facts.storeRecordReads, x.1 ≠ "Get" → x.2.2.2 = "in function with parameter tx *redis.Tx") ∧
    (Facts.storeCmdSites.filter fun x => x.1 == "servers" && x.2.2.2.2.1 == "read" &&
        ["HGet", "HMGet", "HGetAll", "HLen", "HKeys", "HVals", "HExists", "HScan", "HRandField", "HStrLen"].contains x.2.2.2.1) =
      [("servers", "Filter", "r.client", "HMGet", "read", "bare"),
       ("servers", "Count", "r.client", "HLen", "read", "bare"),
       ("servers", "get", "r.client", "HGet", "read", "bare")] := by
  decide

/-- **The fencing comparison.**  Supports `WPC.ownGet` (Model/StoreMachine: the writer proceeds to `hget` only if the
lock cell holds ITS token, else `ErrNotAcquired`) and `relGet` (release deletes only its own token) — the premise of
`LockFencing` / `inv_step`.  `Guard`'s `Watch` closure is, statement by statement: read the lock cell on `tx`, fail
on error, `if currToken != token { return ErrNotAcquired }`, and only then `return op(tx)`; `release`'s closure
deletes under `if currToken == token`.  No other comparison with `token` exists in `redislock.go`.
*Edit detected:* deleting the `currToken != token` check (or moving `op(tx)` before it): a writer whose lease expired
between `SET NX` and `WATCH` would run under somebody else's lock. -/
theorem facts_fence_check :
    Facts.lockFenceChecks =
      [("Guard", "in the closure passed to m.client.Watch", "currToken != token"),
       ("release", "in the closure passed to m.client.Watch", "currToken == token")] ∧
    Facts.lockWatchClosures =
      [("Guard", ["currToken, err := tx.Get(ctx, key).Result()", "if err != nil { return fmt.Errorf(\"…\", err) }", "if currToken != token { return ErrNotAcquired }", "return op(tx)"]),
       ("release", ["currToken, err := tx.Get(ctx, key).Result()", "if err != nil { return fmt.Errorf(\"…\", err) }", "if currToken == token { tx.Del(ctx, key) }", "return nil"])] := by
  decide

/-- **Which key each command of the two write batches is sent to.**  Supports `AStep.save` / `AStep.remove`
(Model/Store: `saveBatch` writes `items[a]`, `updated[a]`, `refreshed[a]`, `status:*[a]`; `removeBatch` deletes
exactly these) — the batches of `C09_commit_atomic` and of C10's `Consistent`.  For every Redis command of `save`,
`remove`, `get` in `servers.go` and of `redislock.go`: the key expression and the remaining arguments, as source text
(the key constants' values are pinned by `facts_ok` of C10 / `Facts.serversKey_*`).
*Edit detected:* `pipe.ZRem(ctx, updatesKey, svrAddr)` in `remove` sent to `refreshesKey` instead (the address stays in
`servers:updated` for ever: every later `Filter` returns a `nil` item for it). -/
theorem facts_write_keys :
    (Facts.storeCmdKeys.filter fun x =>
        (x.1 == "servers" && (x.2.1 == "save" || x.2.1 == "remove" || x.2.1 == "get")) || x.1 == "redislock") =
      [("servers", "remove", "HDel", "itemsKey", "svrAddr"),
       ("servers", "remove", "ZRem", "updatesKey", "svrAddr"),
       ("servers", "remove", "ZRem", "refreshesKey", "svrAddr"),
       ("servers", "remove", "SRem", "fmt.Sprintf(statusKeyFmt, status)", "svrAddr"),
       ("servers", "get", "HGet", "itemsKey", "svrAddr.String()"),
       ("servers", "save", "HSet", "itemsKey", "svrAddr, item"),
       ("servers", "save", "ZAdd", "updatesKey", "redis.Z{ Score: float64(r.clock.Now().UnixNano()), Member: svrAddr, }"),
       ("servers", "save", "ZRem", "refreshesKey", "svrAddr"),
       ("servers", "save", "ZAdd", "refreshesKey", "redis.Z{ Score: float64(svr.RefreshedAt.UnixNano()), Member: svrAddr, }"),
       ("servers", "save", "SAdd", "fmt.Sprintf(statusKeyFmt, status)", "svrAddr"),
       ("servers", "save", "SRem", "fmt.Sprintf(statusKeyFmt, status)", "svrAddr"),
       ("redislock", "Guard", "SetNX", "key", "token, ttl"),
       ("redislock", "Guard", "Get", "key", ""),
       ("redislock", "release", "Get", "key", ""),
       ("redislock", "release", "Del", "key", "")] := by
  decide

/-- **A stored record is decoded with a plain `json.Unmarshal`, and a decoding error is returned.**  The registry model
treats what is read as what was written (`C11_main`, `C09_listing_committed`): that needs the decoder to accept every
record any release of the program has written (members it does not know are ignored — the `F` items of the C11
histories plant such records) and not to turn an undecodable record into a zero-valued one (a swallowed type error would
hand a writer version 0 of a record that is at version n: a lost update).  *Edit detected:* `json.NewDecoder` with
`DisallowUnknownFields()`, swallowing `*json.UnmarshalTypeError`, decoding into a reused value. -/
theorem facts_decode_plain :
    Facts.storeJsonCalls =
      [("servers", "save", "json.Marshal", "svr"),
       ("servers", "decodeServer", "json.Unmarshal", "[]byte(encoded), &svr"),
       ("instances", "encodeInstance", "json.Marshal", "storedInstance{ ID: ins.ID, IP: ins.Addr.GetIP(), Port: ins.Addr.Port, }"),
       ("instances", "decodeInstance", "json.Unmarshal", "[]byte(encoded), &decoded"),
       ("probes", "enqueue", "json.Marshal", "qItem{ Probe: prb, Expires: before, }"),
       ("probes", "asQueuedItem", "json.Unmarshal", "[]byte(encoded), &item")] ∧
    Facts.storeDecodeServerBody =
      [("servers", "decodeServer", "var svr server.Server"),
       ("servers", "decodeServer", "encoded, ok := val.(string)"),
       ("servers", "decodeServer", "if !ok { return server.Blank, fmt.Errorf(\"unmashal: unexpected type: %T\", val) }"),
       ("servers", "decodeServer", "if err := json.Unmarshal([]byte(encoded), &svr); err != nil { return server.Blank, fmt.Errorf(\"unmashal: %w\", err) }"),
       ("servers", "decodeServer", "return svr, nil")] := by
  exact ⟨rfl, rfl⟩

end Swat4.C09
