import Swat4.Model.StoreMachine
import Swat4.Model.QueueMachine
/-!
# Index consistency of the Redis-level store (helper lemmas of C10)

`RStore.Consistent` is preserved by every atomic step of `Model/Store.lean`, by every storage
command of the writer / reader / queue machines, and hence along every event list.
-/
namespace Swat4
open Std

namespace RStore

/-! ## status-set encoding -/

theorem mem_bitIdx {b : Nat} : b ∈ bitIdx ↔ b < 9 := by
  simp [bitIdx]; omega

/-- `stKey` is injective as long as the bit index stays below 16 -/
theorem stKey_inj {k k' b b' : Nat} (hb : b < 16) (hb' : b' < 16) :
    stKey k b = stKey k' b' ↔ k = k' ∧ b = b' := by
  unfold stKey; omega

theorem stKey_inj_right {k b b' : Nat} : stKey k b = stKey k b' ↔ b = b' := by
  unfold stKey; omega

theorem stKey_div {k b : Nat} (hb : b < 16) : stKey k b / 16 = k := by
  unfold stKey; omega

theorem stKey_mod {k b : Nat} (hb : b < 16) : stKey k b % 16 = b := by
  unfold stKey; omega

theorem stKey_div_mod (e : Nat) : stKey (e / 16) (e % 16) = e := by
  unfold stKey; omega

/-- fold of `SADD|SREM` over an arbitrary list of bit indexes -/
theorem mem_setStatus_fold (k : Nat) (s : Status) (x : Nat) (bs : List Nat) (ss : ExtTreeSet Nat) :
    x ∈ bs.foldl (fun acc b => if hasBit s b then acc.insert (stKey k b) else acc.erase (stKey k b)) ss ↔
      (∃ b, b ∈ bs ∧ x = stKey k b ∧ hasBit s b = true) ∨ ((∀ b, b ∈ bs → x ≠ stKey k b) ∧ x ∈ ss) := by
  induction bs generalizing ss with
  | nil => simp
  | cons b bs ih =>
    rw [List.foldl_cons, ih]
    by_cases hx : x = stKey k b
    · subst hx
      by_cases hb : hasBit s b = true
      · simp only [hb, if_true, ExtTreeSet.mem_insert, compare_eq_iff_eq, true_or, and_true,
          List.mem_cons, stKey_inj_right, ne_eq]
        constructor
        · intro _; exact Or.inl ⟨b, Or.inl rfl, rfl, hb⟩
        · intro _
          by_cases h : ∃ b', b' ∈ bs ∧ b = b' ∧ hasBit s b' = true
          · exact Or.inl h
          · refine Or.inr ?_
            intro b' hb' hbb'; subst hbb'; exact h ⟨b, hb', rfl, hb⟩
      · simp only [hb, Bool.false_eq_true, if_false, ExtTreeSet.mem_erase, compare_eq_iff_eq, ne_eq,
          not_true_eq_false, false_and, and_false, or_false, List.mem_cons, stKey_inj_right]
        constructor
        · rintro ⟨b', hb', rfl, h⟩; exact absurd h hb
        · rintro (⟨b', _, rfl, h⟩ | ⟨h, _⟩)
          · exact absurd h hb
          · exact absurd rfl (h b (Or.inl rfl))
    · have hx' : ¬ stKey k b = x := fun h => hx h.symm
      by_cases hb : hasBit s b = true
      · simp only [hb, if_true, ExtTreeSet.mem_insert, compare_eq_iff_eq, hx', false_or, List.mem_cons]
        constructor
        · rintro (⟨b', hb', h⟩ | ⟨h1, h2⟩)
          · exact Or.inl ⟨b', Or.inr hb', h⟩
          · refine Or.inr ⟨?_, h2⟩
            rintro b' (rfl | hb')
            · exact hx
            · exact h1 b' hb'
        · rintro (⟨b', (rfl | hb'), h⟩ | ⟨h1, h2⟩)
          · exact absurd h.1 hx
          · exact Or.inl ⟨b', hb', h⟩
          · exact Or.inr ⟨fun b' hb' => h1 b' (Or.inr hb'), h2⟩
      · simp only [hb, Bool.false_eq_true, if_false, ExtTreeSet.mem_erase, compare_eq_iff_eq, ne_eq, hx',
          not_false_eq_true, true_and, List.mem_cons]
        constructor
        · rintro (⟨b', hb', h⟩ | ⟨h1, h2⟩)
          · exact Or.inl ⟨b', Or.inr hb', h⟩
          · refine Or.inr ⟨?_, h2⟩
            rintro b' (rfl | hb')
            · exact hx
            · exact h1 b' hb'
        · rintro (⟨b', (rfl | hb'), h⟩ | ⟨h1, h2⟩)
          · exact absurd h.1 hx
          · exact Or.inl ⟨b', hb', h⟩
          · exact Or.inr ⟨fun b' hb' => h1 b' (Or.inr hb'), h2⟩

theorem mem_clearStatus_fold (k : Nat) (x : Nat) (bs : List Nat) (ss : ExtTreeSet Nat) :
    x ∈ bs.foldl (fun acc b => acc.erase (stKey k b)) ss ↔ (∀ b, b ∈ bs → x ≠ stKey k b) ∧ x ∈ ss := by
  induction bs generalizing ss with
  | nil => simp
  | cons b bs ih =>
    rw [List.foldl_cons, ih]
    simp only [ExtTreeSet.mem_erase, compare_eq_iff_eq, ne_eq, List.mem_cons, forall_eq_or_imp]
    constructor
    · rintro ⟨h1, h2, h3⟩; exact ⟨⟨fun h => h2 h.symm, h1⟩, h3⟩
    · rintro ⟨⟨h1, h2⟩, h3⟩; exact ⟨h2, fun h => h1 h.symm, h3⟩

/-- membership after the nine `SADD|SREM` of a `save` batch -/
theorem mem_setStatus {ss : ExtTreeSet Nat} {k : Nat} {s : Status} {x : Nat} :
    x ∈ setStatus ss k s ↔
      (∃ b, b < 9 ∧ x = stKey k b ∧ hasBit s b = true) ∨ ((∀ b, b < 9 → x ≠ stKey k b) ∧ x ∈ ss) := by
  unfold setStatus
  rw [mem_setStatus_fold]
  simp only [mem_bitIdx]

/-- membership after the nine `SREM` of a `remove` batch -/
theorem mem_clearStatus {ss : ExtTreeSet Nat} {k : Nat} {x : Nat} :
    x ∈ clearStatus ss k ↔ (∀ b, b < 9 → x ≠ stKey k b) ∧ x ∈ ss := by
  unfold clearStatus
  rw [mem_clearStatus_fold]
  simp only [mem_bitIdx]

/-- the status-set cell `(k', b')` after `setStatus … k s` -/
theorem stKey_mem_setStatus {ss : ExtTreeSet Nat} {k k' b' : Nat} {s : Status} (hb' : b' < 9) :
    stKey k' b' ∈ setStatus ss k s ↔ if k' = k then hasBit s b' = true else stKey k' b' ∈ ss := by
  rw [mem_setStatus]
  by_cases hk : k' = k
  · subst hk
    simp only [if_true, stKey_inj_right]
    constructor
    · rintro (⟨b, _, rfl, h⟩ | ⟨h, _⟩)
      · exact h
      · exact absurd rfl (h b' hb')
    · intro h; exact Or.inl ⟨b', hb', rfl, h⟩
  · simp only [hk, if_false]
    constructor
    · rintro (⟨b, hb, h, _⟩ | ⟨_, h⟩)
      · exact absurd ((stKey_inj (by omega) (by omega)).1 h).1 hk
      · exact h
    · intro h
      exact Or.inr ⟨fun b hb he => hk ((stKey_inj (by omega) (by omega)).1 he).1, h⟩

/-- the status-set cell `(k', b')` after `clearStatus … k` -/
theorem stKey_mem_clearStatus {ss : ExtTreeSet Nat} {k k' b' : Nat} (hb' : b' < 9) :
    stKey k' b' ∈ clearStatus ss k ↔ k' ≠ k ∧ stKey k' b' ∈ ss := by
  rw [mem_clearStatus]
  constructor
  · rintro ⟨h1, h2⟩
    refine ⟨?_, h2⟩
    rintro rfl
    exact h1 b' hb' rfl
  · rintro ⟨hk, h⟩
    exact ⟨fun b hb he => hk ((stKey_inj (by omega) (by omega)).1 he).1, h⟩

/-! ## every atomic step preserves `Consistent` -/

theorem consistent_empty : Consistent {} := by
  refine ⟨?_, ?_, ?_, ?_, ?_, ?_, ?_⟩ <;> intros <;> simp_all

/-- `save`'s MULTI/EXEC -/
theorem saveBatch_consistent {st : RStore} (h : Consistent st) (svr : Server) (now : Int) :
    Consistent (st.saveBatch svr now) := by
  refine ⟨?_, ?_, ?_, ?_, h.ins, h.prb, h.ttl⟩
  · intro k
    simp only [saveBatch, ExtTreeMap.mem_insert, h.upd k]
  · intro k t
    by_cases hk : svr.addr.key = k
    · subst hk
      cases hr : svr.refreshedAt with
      | none => simp [saveBatch, hr]
      | some t' => simp [saveBatch, hr]
    · have := h.ref k t
      cases hr : svr.refreshedAt <;>
        simp [saveBatch, hr, ExtTreeMap.getElem?_insert, ExtTreeMap.getElem?_erase, hk, this]
  · intro k b hb
    show stKey k b ∈ setStatus st.statusSet svr.addr.key svr.status ↔
      ∃ r : Server, (st.items.insert svr.addr.key svr)[k]? = some r ∧ hasBit r.status b = true
    rw [stKey_mem_setStatus hb]
    by_cases hk : k = svr.addr.key
    · subst hk; simp
    · have hk' : ¬ svr.addr.key = k := fun e => hk e.symm
      simp only [hk, if_false, ExtTreeMap.getElem?_insert, compare_eq_iff_eq, hk']
      exact h.sts k b hb
  · intro k r
    show (st.items.insert svr.addr.key svr)[k]? = some r → r.addr.key = k
    rw [ExtTreeMap.getElem?_insert]
    by_cases hk : svr.addr.key = k
    · simp only [compare_eq_iff_eq, hk, if_true, Option.some.injEq]
      rintro rfl; exact hk
    · simp only [compare_eq_iff_eq, hk, if_false]
      exact h.keyed k r

/-- `remove`'s MULTI/EXEC -/
theorem removeBatch_consistent {st : RStore} (h : Consistent st) (k : Nat) :
    Consistent (st.removeBatch k) := by
  refine ⟨?_, ?_, ?_, ?_, h.ins, h.prb, h.ttl⟩
  · intro k'
    simp only [removeBatch, ExtTreeMap.mem_erase, h.upd k']
  · intro k' t
    by_cases hk : k = k'
    · subst hk; simp [removeBatch]
    · have := h.ref k' t
      simp [removeBatch, ExtTreeMap.getElem?_erase, hk, this]
  · intro k' b hb
    show stKey k' b ∈ clearStatus st.statusSet k ↔
      ∃ r : Server, (st.items.erase k)[k']? = some r ∧ hasBit r.status b = true
    rw [stKey_mem_clearStatus hb, ExtTreeMap.getElem?_erase]
    by_cases hk : k = k'
    · subst hk; simp
    · have hk' : k' ≠ k := fun e => hk e.symm
      simp only [ne_eq, hk', not_false_eq_true, true_and, compare_eq_iff_eq, hk, if_false]
      exact h.sts k' b hb
  · intro k' r
    show (st.items.erase k)[k']? = some r → r.addr.key = k'
    rw [ExtTreeMap.getElem?_erase]
    by_cases hk : k = k'
    · simp [hk]
    · simp only [compare_eq_iff_eq, hk, if_false]
      exact h.keyed k' r

theorem touchLock_consistent {st : RStore} (h : Consistent st) (k : Nat) (w : Option Nat) :
    Consistent (st.touchLock k w) :=
  ⟨h.upd, h.ref, h.sts, h.keyed, h.ins, h.prb, h.ttl⟩

/-- `SET key token NX EX` -/
theorem lockSetNX_consistent {st : RStore} (h : Consistent st) (k tok : Nat) :
    Consistent (st.lockSetNX k tok).1 := by
  unfold lockSetNX
  split
  · exact h
  · refine ⟨h.upd, h.ref, h.sts, h.keyed, h.ins, h.prb, ?_⟩
    intro k' c
    show (st.locks.insert k ⟨tok, leaseHasTTL⟩)[k']? = some c → c.ttl = true
    rw [ExtTreeMap.getElem?_insert]
    split
    · rintro ⟨rfl⟩; exact leaseHasTTL_eq
    · exact h.ttl k' c

theorem ttl_erase {st : RStore} (h : Consistent st) (k : Nat) :
    ∀ (k' : Nat) (c : LockCell), (st.locks.erase k)[k']? = some c → c.ttl = true := by
  intro k' c
  rw [ExtTreeMap.getElem?_erase]
  split
  · intro hc; cases hc
  · exact h.ttl k' c

/-- `DEL key` -/
theorem lockDel_consistent {st : RStore} (h : Consistent st) (k : Nat) :
    Consistent (st.lockDel k) := by
  unfold lockDel
  split
  · exact h
  · exact ⟨h.upd, h.ref, h.sts, h.keyed, h.ins, h.prb, ttl_erase h k⟩

/-- lease expiry, whether or not it invalidates watchers -/
theorem lockExpire_consistent {st : RStore} (h : Consistent st) (k : Nat) (dirties : Bool) :
    Consistent (st.lockExpire k dirties) := by
  unfold lockExpire
  split
  · exact h
  · split
    · split
      · exact ⟨h.upd, h.ref, h.sts, h.keyed, h.ins, h.prb, ttl_erase h k⟩
      · exact ⟨h.upd, h.ref, h.sts, h.keyed, h.ins, h.prb, ttl_erase h k⟩
    · exact h

/-- instances `Add` -/
theorem insAddBatch_consistent {st : RStore} (h : Consistent st) (id : Nat) (a : Addr) (now : Int) :
    Consistent (st.insAddBatch id a now) := by
  refine ⟨h.upd, h.ref, h.sts, h.keyed, ?_, h.prb, h.ttl⟩
  intro id'
  simp only [insAddBatch, ExtTreeMap.mem_insert, h.ins id']

/-- instances `Remove` -/
theorem insRemoveBatch_consistent {st : RStore} (h : Consistent st) (id : Nat) :
    Consistent (st.insRemoveBatch id) := by
  refine ⟨h.upd, h.ref, h.sts, h.keyed, ?_, h.prb, h.ttl⟩
  intro id'
  simp only [insRemoveBatch, ExtTreeMap.mem_erase, h.ins id']

/-- instances `Clear` (one batch over any id list) -/
theorem insClearBatch_consistent {st : RStore} (h : Consistent st) (ids : List Nat) :
    Consistent (st.insClearBatch ids) := by
  unfold insClearBatch
  induction ids generalizing st with
  | nil => exact h
  | cons id ids ih => exact ih (insRemoveBatch_consistent h id)

/-- probes `enqueue` -/
theorem enqueueBatch_consistent {st : RStore} (h : Consistent st) (id : Nat) (p : Probe) (expires : GoTime)
    (ready : Int) : Consistent (st.enqueueBatch id p expires ready) := by
  refine ⟨h.upd, h.ref, h.sts, h.keyed, h.ins, ?_, h.ttl⟩
  intro id'
  simp only [enqueueBatch, ExtTreeMap.mem_insert, h.prb id']

theorem popOne_consistent {st : RStore} (h : Consistent st) (id : Nat) :
    Consistent { st with pItems := st.pItems.erase id, pQueue := st.pQueue.erase id } := by
  refine ⟨h.upd, h.ref, h.sts, h.keyed, h.ins, ?_, h.ttl⟩
  intro id'
  simp only [ExtTreeMap.mem_erase, h.prb id']

/-- probes `pop` (one batch over any id list) -/
theorem popBatch_consistent {st : RStore} (h : Consistent st) (ids : List Nat) :
    Consistent (st.popBatch ids).1 := by
  unfold popBatch
  show Consistent (ids.foldl (fun s id => { s with pItems := s.pItems.erase id, pQueue := s.pQueue.erase id }) st)
  induction ids generalizing st with
  | nil => exact h
  | cons id ids ih => exact ih (popOne_consistent h id)

/-! ## the executable oracle -/

theorem all_toList_iff {β : Type} (m : ExtTreeMap Nat β) (p : Nat × β → Bool) :
    m.toList.all p = true ↔ ∀ (k : Nat) (v : β), m[k]? = some v → p (k, v) = true := by
  rw [List.all_eq_true]
  constructor
  · intro h k v hv; exact h (k, v) ((ExtTreeMap.mem_toList_iff_getElem?_eq_some).2 hv)
  · rintro h ⟨k, v⟩ hm; exact h k v ((ExtTreeMap.mem_toList_iff_getElem?_eq_some).1 hm)

theorem all_set_toList_iff (m : ExtTreeSet Nat) (p : Nat → Bool) :
    m.toList.all p = true ↔ ∀ e : Nat, e ∈ m → p e = true := by
  rw [List.all_eq_true]
  constructor
  · intro h e he; exact h e (ExtTreeSet.mem_toList.2 he)
  · intro h e he; exact h e (ExtTreeSet.mem_toList.1 he)

theorem keys_subset_of_all {β γ : Type} {m : ExtTreeMap Nat β} {m' : ExtTreeMap Nat γ}
    (h : (m.toList.all fun kv => m'.contains kv.1) = true) (k : Nat) (hk : k ∈ m) : k ∈ m' := by
  rw [all_toList_iff] at h
  rw [ExtTreeMap.mem_iff_isSome_getElem?] at hk
  cases hv : m[k]? with
  | none => rw [hv] at hk; cases hk
  | some v => exact ExtTreeMap.mem_iff_contains.2 (h k v hv)

/-- the driver's oracle `consistentB` (evaluated on the implementation's raw keyspace dump) implies the invariant -/
theorem consistentB_sound {st : RStore} (h : st.consistentB = true) : Consistent st := by
  simp only [consistentB, Bool.and_eq_true] at h
  obtain ⟨⟨⟨⟨⟨⟨⟨⟨⟨⟨⟨h1, h2⟩, h3⟩, h4⟩, h5⟩, h6⟩, h7⟩, h8⟩, h9⟩, h10⟩, h11⟩, h12⟩ := h
  rw [all_toList_iff] at h3 h4 h5 h7 h12
  rw [all_set_toList_iff] at h6
  refine ⟨?_, ?_, ?_, ?_, ?_, ?_, ?_⟩
  · intro k; exact ⟨keys_subset_of_all h1 k, keys_subset_of_all h2 k⟩
  · intro k t
    constructor
    · intro hk
      have := h4 k t hk
      simp only at this
      cases hr : st.items[k]? with
      | none => rw [hr] at this; cases this
      | some r =>
        rw [hr] at this
        exact ⟨r, rfl, by simpa using this⟩
    · rintro ⟨r, hr, hrt⟩
      have := h5 k r hr
      simp only [hrt] at this
      simpa using this
  · intro k b hb
    constructor
    · intro hmem
      have := h6 _ hmem
      rw [stKey_div (by omega), stKey_mod (by omega)] at this
      cases hr : st.items[k]? with
      | none => rw [hr] at this; cases this
      | some r =>
        rw [hr] at this
        simp only [Bool.and_eq_true] at this
        exact ⟨r, rfl, this.2⟩
    · rintro ⟨r, hr, hbit⟩
      have := h7 k r hr
      simp only [List.all_eq_true, mem_bitIdx, beq_iff_eq] at this
      rw [ExtTreeSet.mem_iff_contains, ← this b hb]; exact hbit
  · intro k r hr
    have := h3 k r hr
    simpa using this
  · intro k; exact ⟨keys_subset_of_all h8 k, keys_subset_of_all h9 k⟩
  · intro k; exact ⟨keys_subset_of_all h10 k, keys_subset_of_all h11 k⟩
  · intro k c hc
    exact h12 k c hc

theorem all_contains_of_subset {β γ : Type} {m : ExtTreeMap Nat β} {m' : ExtTreeMap Nat γ}
    (h : ∀ k, k ∈ m → k ∈ m') : (m.toList.all fun kv => m'.contains kv.1) = true := by
  rw [all_toList_iff]
  intro k v hv
  apply ExtTreeMap.mem_iff_contains.1
  apply h
  rw [ExtTreeMap.mem_iff_isSome_getElem?, hv]; rfl

/-- the oracle is exactly the invariant plus "no status-set member outside bit range 0..8"
(`Consistent` does not constrain junk members with bit index ≥ 9; the oracle rejects them) -/
theorem consistentB_iff {st : RStore} :
    st.consistentB = true ↔ Consistent st ∧ ∀ e : Nat, e ∈ st.statusSet → e % 16 < 9 := by
  constructor
  · intro h
    refine ⟨consistentB_sound h, ?_⟩
    simp only [consistentB, Bool.and_eq_true] at h
    have h6 := h.1.1.1.1.1.1.2
    rw [all_set_toList_iff] at h6
    intro e he
    have := h6 e he
    cases hr : st.items[e / 16]? with
    | none => rw [hr] at this; cases this
    | some r => rw [hr] at this; simp only [Bool.and_eq_true, decide_eq_true_eq] at this; exact this.1
  · rintro ⟨hc, hjunk⟩
    simp only [consistentB, Bool.and_eq_true]
    refine ⟨⟨⟨⟨⟨⟨⟨⟨⟨⟨⟨?_, ?_⟩, ?_⟩, ?_⟩, ?_⟩, ?_⟩, ?_⟩, ?_⟩, ?_⟩, ?_⟩, ?_⟩, ?_⟩
    · exact all_contains_of_subset fun k => (hc.upd k).1
    · exact all_contains_of_subset fun k => (hc.upd k).2
    · rw [all_toList_iff]; intro k r hr; simpa using hc.keyed k r hr
    · rw [all_toList_iff]; intro k t ht
      obtain ⟨r, hr, hrt⟩ := (hc.ref k t).1 ht
      simp [hr, hrt]
    · rw [all_toList_iff]; intro k r hr
      cases hrt : r.refreshedAt with
      | some t => simpa using (hc.ref k t).2 ⟨r, hr, hrt⟩
      | none =>
        simp only [Bool.not_eq_true']
        cases hcn : st.refreshed.contains k with
        | false => rfl
        | true =>
          have hm : k ∈ st.refreshed := ExtTreeMap.mem_iff_contains.2 hcn
          rw [ExtTreeMap.mem_iff_isSome_getElem?] at hm
          cases ht : st.refreshed[k]? with
          | none => rw [ht] at hm; cases hm
          | some t =>
            obtain ⟨r', hr', hrt'⟩ := (hc.ref k t).1 ht
            rw [hr] at hr'; cases hr'; rw [hrt] at hrt'; cases hrt'
    · rw [all_set_toList_iff]; intro e he
      have hb := hjunk e he
      have he' : stKey (e / 16) (e % 16) ∈ st.statusSet := by rw [stKey_div_mod]; exact he
      obtain ⟨r, hr, hbit⟩ := (hc.sts (e / 16) (e % 16) hb).1 he'
      simp [hr, hb, hbit]
    · rw [all_toList_iff]; intro k r hr
      simp only [List.all_eq_true, mem_bitIdx, beq_iff_eq]
      intro b hb
      rw [Bool.eq_iff_iff, ← ExtTreeSet.mem_iff_contains, hc.sts k b hb]
      constructor
      · intro h; exact ⟨r, hr, h⟩
      · rintro ⟨r', hr', h⟩; rw [hr] at hr'; cases hr'; exact h
    · exact all_contains_of_subset fun k => (hc.ins k).1
    · exact all_contains_of_subset fun k => (hc.ins k).2
    · exact all_contains_of_subset fun k => (hc.prb k).1
    · exact all_contains_of_subset fun k => (hc.prb k).2
    · rw [all_toList_iff]; intro k c hcell; exact hc.ttl k c hcell

end RStore

open RStore

/-! ## the machines -/

theorem Batch.apply_consistent {st : RStore} (h : Consistent st) (b : Batch) : Consistent (b.apply st) := by
  cases b with
  | save svr now => exact saveBatch_consistent h svr now
  | remove k => exact removeBatch_consistent h k

/-- every storage command of a registry write preserves `Consistent`, whatever the writer's state -/
theorem wstep_consistent {st : RStore} (h : Consistent st) (clock : Int) (fresh i : Nat) (c : Writer) :
    Consistent (wstep st clock fresh i c).1 := by
  unfold wstep
  cases hpc : c.pc with
  | setnx =>
    simp only
    have := lockSetNX_consistent h c.op.svr.addr.key c.tok
    split
    · exact this
    · exact h
  | watch => exact h
  | ownGet v =>
    simp only
    split
    · exact h
    · split <;> exact h
  | hget v =>
    simp only
    split <;> exact h
  | exec v ex now b r =>
    simp only
    split
    · exact Batch.apply_consistent h b
    · exact h
  | unwatch a => exact h
  | relWatch a => exact h
  | relGet a =>
    simp only
    split
    · exact h
    · split <;> exact h
  | relDel a => exact lockDel_consistent h _
  | relUnwatch a => exact h
  | done r => exact h

/-- every storage command of an instance-table / probe-queue call preserves `Consistent`, whatever the pc -/
theorem qstep_consistent {st : RStore} (h : Consistent st) (clock : Int) (fresh : Nat) (op : QOp) (pc : QPC) :
    Consistent (qstep st clock fresh op pc).1 := by
  unfold qstep
  split
  · exact insAddBatch_consistent h _ _ _
  · exact insRemoveBatch_consistent h _
  · simp only; split <;> exact h
  · exact insClearBatch_consistent h _
  · exact enqueueBatch_consistent h _ _ _ _
  · simp only; split <;> exact h
  · simp only
    have := popBatch_consistent h ‹List Nat›
    split
    · exact this
    · split <;> exact this
  · exact h

theorem runQ_consistent {st : RStore} (h : Consistent st) (clock : Int) (fresh : Nat) (op : QOp) (pc : QPC)
    (fuel : Nat) : Consistent (runQ st clock fresh op pc fuel).1 := by
  induction fuel generalizing st fresh pc with
  | zero => exact h
  | succ n ih =>
    unfold runQ
    split
    · exact ih (qstep_consistent h clock fresh op pc) _ _
    · exact h

theorem runWriter_consistent {st : RStore} (h : Consistent st) (clock : Int) (w : Writer) (fresh fuel : Nat) :
    Consistent (runWriter st clock w fresh fuel).1 := by
  induction fuel generalizing st w fresh with
  | zero => exact h
  | succ n ih =>
    unfold runWriter
    split
    · exact h
    · exact ih (wstep_consistent h clock fresh 0 w) _ _

theorem Sys.step_consistent {s : Sys} (h : Consistent s.store) (e : Ev) : Consistent (s.step e).store := by
  cases e with
  | expire k => exact lockExpire_consistent h k s.dirties
  | tick d => exact h
  | step i =>
    simp only [Sys.step]
    cases hc : s.clients[i]? with
    | none => exact h
    | some c =>
      cases c with
      | reader r => exact h
      | writer w => exact wstep_consistent h s.clock s.nextTok i w

theorem Sys.run_consistent {s : Sys} (h : Consistent s.store) (es : List Ev) : Consistent (s.run es).store := by
  unfold Sys.run
  induction es generalizing s with
  | nil => exact h
  | cons e es ih => exact ih (Sys.step_consistent h e)

/-! ## vocabulary of the C10 statements -/

/-- every atomic step (single command or one `MULTI…EXEC`) any repository can issue, with arbitrary arguments -/
inductive AStep where
  | save (svr : Server) (now : Int)
  | remove (k : Nat)
  | insAdd (id : Nat) (a : Addr) (now : Int)
  | insRemove (id : Nat)
  | insClear (ids : List Nat)
  | enqueue (id : Nat) (p : Probe) (expires : GoTime) (ready : Int)
  | pop (ids : List Nat)
  | lockSetNX (k tok : Nat)
  | lockDel (k : Nat)
  | lockExpire (k : Nat) (dirties : Bool)
  | touchLock (k : Nat) (w : Option Nat)

def AStep.apply (st : RStore) : AStep → RStore
  | .save svr now => st.saveBatch svr now
  | .remove k => st.removeBatch k
  | .insAdd id a now => st.insAddBatch id a now
  | .insRemove id => st.insRemoveBatch id
  | .insClear ids => st.insClearBatch ids
  | .enqueue id p e r => st.enqueueBatch id p e r
  | .pop ids => (st.popBatch ids).1
  | .lockSetNX k tok => (st.lockSetNX k tok).1
  | .lockDel k => st.lockDel k
  | .lockExpire k d => st.lockExpire k d
  | .touchLock k w => st.touchLock k w

/-- one command of some queue / instance call in flight: any call, any pc, any clock, any fresh id -/
structure QEv where
  clock : Int
  fresh : Nat
  op : QOp
  pc : QPC

/-- commands of any number of queue / instance calls, interleaved in any order -/
def runQs (st : RStore) (qs : List QEv) : RStore :=
  qs.foldl (fun st q => (qstep st q.clock q.fresh q.op q.pc).1) st

/-- events of the whole storage layer: registry clients' events and queue / instance commands -/
inductive WEv where
  | sys (e : Ev)
  | q (q : QEv)

def worldStep (s : Sys) : WEv → Sys
  | .sys e => s.step e
  | .q q => { s with store := (qstep s.store q.clock q.fresh q.op q.pc).1 }


end Swat4
