import Swat4.Lemmas.GS1Chunks
/-!
Players by index: the ascending arrangement `sortById`, wire orders (`WireOf`) of a well-formed
status, and `expandPayload` over any wire order — `playersByID`, read out in key order, is the list
of the players' maps in ascending order of index.
-/
namespace Swat4.GS1
open Swat4 Swat4.GS1Spec

/-! ## `sortById` is the ascending arrangement -/

theorem insertById_perm {α : Type} (p : Nat × α) (l : List (Nat × α)) : (insertById p l).Perm (p :: l) := by
  induction l with
  | nil => exact List.Perm.refl _
  | cons q t ih =>
    simp only [insertById]
    split
    · exact List.Perm.refl _
    · exact (ih.cons q).trans (List.Perm.swap p q t)

/-- `sortById` only rearranges -/
theorem sortById_perm {α : Type} (l : List (Nat × α)) : (sortById l).Perm l := by
  induction l with
  | nil => exact List.Perm.refl _
  | cons p t ih =>
    show (insertById p (sortById t)).Perm (p :: t)
    exact (insertById_perm p _).trans (ih.cons p)

theorem insertById_sorted {α : Type} (p : Nat × α) (l : List (Nat × α)) (hs : l.Pairwise (fun a b => a.1 < b.1))
    (hne : ∀ q ∈ l, q.1 ≠ p.1) : (insertById p l).Pairwise (fun a b => a.1 < b.1) := by
  induction l with
  | nil => simp [insertById]
  | cons q t ih =>
    simp only [List.pairwise_cons] at hs
    simp only [insertById]
    split
    · rename_i hle
      have hq := hne q (by simp)
      simp only [List.pairwise_cons]
      refine ⟨?_, hs⟩
      intro x hx
      rcases List.mem_cons.mp hx with rfl | hx
      · omega
      · have := hs.1 x hx; omega
    · rename_i hle
      simp only [List.pairwise_cons]
      refine ⟨?_, ih hs.2 (fun q' hq' => hne q' (List.mem_cons_of_mem _ hq'))⟩
      intro x hx
      rcases List.mem_cons.mp ((insertById_perm p t).mem_iff.mp hx) with rfl | hx
      · omega
      · exact hs.1 x hx

/-- with pairwise different indexes, `sortById` is strictly ascending by index -/
theorem sortById_sorted {α : Type} (l : List (Nat × α)) (hn : (l.map (·.1)).Nodup) :
    (sortById l).Pairwise (fun a b => a.1 < b.1) := by
  induction l with
  | nil => simp [sortById]
  | cons p t ih =>
    simp only [List.map_cons, List.nodup_cons] at hn
    show (insertById p (sortById t)).Pairwise _
    apply insertById_sorted p _ (ih hn.2)
    intro q hq hqp
    exact hn.1 (List.mem_map.mpr ⟨q, (sortById_perm t).mem_iff.mp hq, hqp⟩)

/-- the ascending arrangement is unique: any strictly ascending rearrangement is `sortById` -/
theorem sortById_unique {α : Type} (l l' : List (Nat × α)) (hp : l'.Perm l) (hs : l'.Pairwise (fun a b => a.1 < b.1)) :
    sortById l = l' := by
  have hn : (l.map (·.1)).Nodup := by
    have : (l'.map (·.1)).Nodup := by
      rw [List.Nodup, List.pairwise_map]
      exact hs.imp (fun h => by omega)
    exact (hp.map _).nodup_iff.mp this
  exact List.Perm.eq_of_pairwise (le := fun a b => a.1 < b.1) (fun a b _ _ h1 h2 => by omega)
    (sortById_sorted l hn) hs ((sortById_perm l).trans hp.symm)

/-! ## `pairsFor` -/

theorem pairsFor_of_mem (ps : List (Nat × List (Bytes × Bytes))) (hn : (ps.map (·.1)).Nodup)
    (p : Nat × List (Bytes × Bytes)) (hp : p ∈ ps) : pairsFor ps p.1 = p.2 := by
  induction ps with
  | nil => cases hp
  | cons q t ih =>
    simp only [List.map_cons, List.nodup_cons] at hn
    rcases List.mem_cons.mp hp with rfl | hp
    · simp [pairsFor]
    · have : q.1 ≠ p.1 := fun e => hn.1 (List.mem_map.mpr ⟨p, hp, e.symm⟩)
      simp only [pairsFor, if_neg this]
      exact ih hn.2 hp

theorem pairsFor_not_mem (ps : List (Nat × List (Bytes × Bytes))) (id : Nat) (h : ∀ p ∈ ps, p.1 ≠ id) :
    pairsFor ps id = [] := by
  induction ps with
  | nil => rfl
  | cons q t ih =>
    simp only [pairsFor, if_neg (h q (by simp))]
    exact ih (fun p hp => h p (List.mem_cons_of_mem _ hp))

theorem pairsFor_ne_nil (ps : List (Nat × List (Bytes × Bytes))) (id : Nat) (h : pairsFor ps id ≠ []) :
    ∃ p ∈ ps, p.1 = id ∧ pairsFor ps id = p.2 := by
  induction ps with
  | nil => exact absurd rfl h
  | cons q t ih =>
    simp only [pairsFor] at h ⊢
    split
    · rename_i hq; exact ⟨q, by simp, hq, rfl⟩
    · rename_i hq
      rw [if_neg hq] at h
      obtain ⟨p, hp, h1, h2⟩ := ih h
      exact ⟨p, List.mem_cons_of_mem _ hp, h1, h2⟩

/-! ## wire orders of a well-formed status -/

theorem mem_fieldsOf {w : List Item} {k v : Bytes} (h : Item.field k v ∈ w) : (k, v) ∈ fieldsOf w :=
  List.mem_filterMap.mpr ⟨_, h, rfl⟩

theorem mem_objectivesOf {w : List Item} {n v : Bytes} (h : Item.objective n v ∈ w) : (n, v) ∈ objectivesOf w :=
  List.mem_filterMap.mpr ⟨_, h, rfl⟩

theorem mem_pairsOf {w : List Item} {id : Nat} {k v : Bytes} (h : Item.player id k v ∈ w) : (k, v) ∈ pairsOf id w :=
  List.mem_filterMap.mpr ⟨_, h, by simp⟩

/-- every pair of a wire order of a well-formed status is a well-formed pair -/
theorem wireOf_wfItem {s : Status} {w : List Item} (hw : WireOf s w) (wf : WfStatus s) : ∀ it ∈ w, WfItem it := by
  intro it hit
  cases it with
  | field k v =>
    have hm : (k, v) ∈ s.fields := by rw [← hw.fields]; exact mem_fieldsOf hit
    exact ⟨wf.fields_bsl _ hm, wf.field_names _ hm,
      wf.values v (by simp only [List.mem_append, List.mem_map]; exact .inl (.inl ⟨_, hm, rfl⟩))⟩
  | objective n v =>
    have hm : (n, v) ∈ s.objectives := by rw [← hw.objectives]; exact mem_objectivesOf hit
    exact ⟨wf.objectives_bsl _ hm, wf.objective_names _ hm,
      wf.values v (by simp only [List.mem_append, List.mem_map]; exact .inr ⟨_, hm, rfl⟩)⟩
  | player id k v =>
    have hm : (k, v) ∈ pairsFor s.players id := by rw [← hw.players]; exact mem_pairsOf hit
    obtain ⟨p, hp, hid, he⟩ := pairsFor_ne_nil s.players id (List.ne_nil_of_mem hm)
    rw [he] at hm
    subst hid
    exact ⟨wf.players_bsl p hp _ hm, (wf.player_keys p hp).2 _ hm, wf.player_ids_int p hp,
      wf.values v (by
        simp only [List.mem_append, List.mem_map, List.mem_flatMap]
        exact .inl (.inr ⟨p, hp, _, hm, rfl⟩))⟩

theorem fieldsOf_append (a b : List Item) : fieldsOf (a ++ b) = fieldsOf a ++ fieldsOf b := by
  simp [fieldsOf, List.filterMap_append]

theorem objectivesOf_append (a b : List Item) : objectivesOf (a ++ b) = objectivesOf a ++ objectivesOf b := by
  simp [objectivesOf, List.filterMap_append]

theorem pairsOf_append (id : Nat) (a b : List Item) : pairsOf id (a ++ b) = pairsOf id a ++ pairsOf id b := by
  simp [pairsOf, List.filterMap_append]

theorem proj_fieldItems (kvs : List (Bytes × Bytes)) :
    fieldsOf (kvs.map fun kv => Item.field kv.1 kv.2) = kvs ∧
    objectivesOf (kvs.map fun kv => Item.field kv.1 kv.2) = [] ∧
    ∀ id, pairsOf id (kvs.map fun kv => Item.field kv.1 kv.2) = [] := by
  induction kvs with
  | nil => exact ⟨rfl, rfl, fun _ => rfl⟩
  | cons kv t ih =>
    refine ⟨?_, ?_, fun id => ?_⟩
    · simpa [fieldsOf] using ih.1
    · simp [objectivesOf]
    · simp [pairsOf]

theorem proj_objectiveItems (kvs : List (Bytes × Bytes)) :
    fieldsOf (kvs.map fun kv => Item.objective kv.1 kv.2) = [] ∧
    objectivesOf (kvs.map fun kv => Item.objective kv.1 kv.2) = kvs ∧
    ∀ id, pairsOf id (kvs.map fun kv => Item.objective kv.1 kv.2) = [] := by
  induction kvs with
  | nil => exact ⟨rfl, rfl, fun _ => rfl⟩
  | cons kv t ih =>
    refine ⟨?_, ?_, fun id => ?_⟩
    · simp [fieldsOf]
    · simpa [objectivesOf] using ih.2.1
    · simp [pairsOf]

theorem proj_onePlayer (i : Nat) (kvs : List (Bytes × Bytes)) :
    fieldsOf (kvs.map fun kv => Item.player i kv.1 kv.2) = [] ∧
    objectivesOf (kvs.map fun kv => Item.player i kv.1 kv.2) = [] ∧
    ∀ id, pairsOf id (kvs.map fun kv => Item.player i kv.1 kv.2) = if i = id then kvs else [] := by
  induction kvs with
  | nil => exact ⟨rfl, rfl, fun _ => by simp [pairsOf]⟩
  | cons kv t ih =>
    refine ⟨?_, ?_, fun id => ?_⟩
    · simp [fieldsOf]
    · simp [objectivesOf]
    · have := ih.2.2 id
      by_cases h : i = id
      · simp only [h, if_true] at this ⊢
        simp only [pairsOf, List.map_cons, List.filterMap_cons, if_true] at this ⊢
        rw [this]
      · simp only [h, if_false] at this ⊢
        simp only [pairsOf, List.map_cons, List.filterMap_cons, h, if_false] at this ⊢
        exact this

theorem proj_playerItems (ps : List (Nat × List (Bytes × Bytes))) (hn : (ps.map (·.1)).Nodup) :
    fieldsOf (ps.flatMap fun p => p.2.map fun kv => Item.player p.1 kv.1 kv.2) = [] ∧
    objectivesOf (ps.flatMap fun p => p.2.map fun kv => Item.player p.1 kv.1 kv.2) = [] ∧
    ∀ id, pairsOf id (ps.flatMap fun p => p.2.map fun kv => Item.player p.1 kv.1 kv.2) = pairsFor ps id := by
  induction ps with
  | nil => exact ⟨rfl, rfl, fun _ => rfl⟩
  | cons p t ih =>
    simp only [List.map_cons, List.nodup_cons] at hn
    have ih' := ih hn.2
    have h1 := proj_onePlayer p.1 p.2
    refine ⟨?_, ?_, fun id => ?_⟩
    · rw [List.flatMap_cons, fieldsOf_append, h1.1, ih'.1]; rfl
    · rw [List.flatMap_cons, objectivesOf_append, h1.2.1, ih'.2.1]; rfl
    · rw [List.flatMap_cons, pairsOf_append, h1.2.2 id, ih'.2.2 id]
      simp only [pairsFor]
      by_cases h : p.1 = id
      · simp only [h, if_true]
        rw [pairsFor_not_mem t id (fun q hq e => hn.1 (List.mem_map.mpr ⟨q, hq, by rw [e, h]⟩))]
        simp
      · simp [h]

/-- the servers' own order is a wire order -/
theorem wireOf_items (s : Status) (hn : (s.players.map (·.1)).Nodup) : WireOf s (items s) := by
  have hf := proj_fieldItems s.fields
  have hp := proj_playerItems s.players hn
  have ho := proj_objectiveItems s.objectives
  refine ⟨?_, ?_, fun id => ?_⟩
  · simp only [items, fieldsOf_append, hf.1, hp.1, ho.1, List.append_nil]
  · simp only [items, objectivesOf_append, hf.2.1, hp.2.1, ho.2.1, List.nil_append]
  · simp only [items, pairsOf_append, hf.2.2 id, hp.2.2 id, ho.2.2 id, List.nil_append, List.append_nil]

theorem pairsOf_not_mem (id : Nat) (w : List Item) (h : id ∉ idsOf w) : pairsOf id w = [] := by
  unfold pairsOf
  rw [List.filterMap_eq_nil_iff]
  intro it hit
  cases it with
  | player i k v =>
    have : i ≠ id := by
      rintro rfl
      exact h (List.mem_filterMap.mpr ⟨_, hit, rfl⟩)
    simp [this]
  | _ => rfl

/-- the executable check decides `WireOf` -/
theorem wireOfB_iff (s : Status) (w : List Item) : wireOfB s w = true ↔ WireOf s w := by
  simp only [wireOfB, Bool.and_eq_true, beq_iff_eq, List.all_eq_true, List.mem_append]
  constructor
  · rintro ⟨⟨h1, h2⟩, h3⟩
    refine ⟨h1, h2, fun id => ?_⟩
    by_cases hm : id ∈ s.players.map (·.1) ∨ id ∈ idsOf w
    · exact h3 id hm
    · simp only [not_or] at hm
      rw [pairsOf_not_mem id w hm.2, pairsFor_not_mem s.players id]
      intro p hp e
      exact hm.1 (List.mem_map.mpr ⟨p, hp, e⟩)
  · intro hw
    exact ⟨⟨hw.fields, hw.objectives⟩, fun id _ => hw.players id⟩

/-! ## maps: a Go map does not depend on the order of insertion of different keys -/

theorem foldl_insField_sorted (kvs m : List (Bytes × Bytes)) (h : (keysG m).Pairwise (· < ·)) :
    (keysG (kvs.foldl insField m)).Pairwise (· < ·) := by
  induction kvs generalizing m with
  | nil => exact h
  | cons kv t ih => exact ih _ (insertKV_sorted_g strictTotal_bytes _ _ _ h)

theorem lookup_foldl_insField_not_mem (kvs m : List (Bytes × Bytes)) (k : Bytes) (h : k ∉ kvs.map (·.1)) :
    lookupKV k (kvs.foldl insField m) = lookupKV k m := by
  induction kvs generalizing m with
  | nil => rfl
  | cons kv t ih =>
    simp only [List.map_cons, List.mem_cons, not_or] at h
    rw [List.foldl_cons, ih _ h.2]
    simp only [insField, lookupKV_insertKV_g, if_neg h.1]

theorem lookup_foldl_insField_mem (kvs m : List (Bytes × Bytes)) (hn : (kvs.map (·.1)).Nodup) (k v : Bytes)
    (h : (k, v) ∈ kvs) : lookupKV k (kvs.foldl insField m) = some (latin1 v) := by
  induction kvs generalizing m with
  | nil => cases h
  | cons kv t ih =>
    simp only [List.map_cons, List.nodup_cons] at hn
    rw [List.foldl_cons]
    rcases List.mem_cons.mp h with h | h
    · subst h
      rw [lookup_foldl_insField_not_mem _ _ _ hn.1]
      simp only [insField, lookupKV_insertKV_g, if_true]
    · exact ih _ hn.2 h

/-- with pairwise different keys, the map does not depend on the order of the pairs -/
theorem mkMap_perm (a b : List (Bytes × Bytes)) (hp : a.Perm b) (hn : (a.map (·.1)).Nodup) : mkMap a = mkMap b := by
  have hn' : (b.map (·.1)).Nodup := (hp.map _).nodup_iff.mp hn
  rw [mkMap_eq, mkMap_eq]
  apply assoc_ext strictTotal_bytes _ _ (foldl_insField_sorted a [] (by simp [keysG]))
    (foldl_insField_sorted b [] (by simp [keysG]))
  intro k
  by_cases hk : k ∈ a.map (·.1)
  · obtain ⟨kv, hkv, rfl⟩ := List.mem_map.mp hk
    rw [lookup_foldl_insField_mem a [] hn kv.1 kv.2 hkv, lookup_foldl_insField_mem b [] hn' kv.1 kv.2 (hp.mem_iff.mp hkv)]
  · have hk' : k ∉ b.map (·.1) := fun h => hk ((hp.map _).mem_iff.mpr h)
    rw [lookup_foldl_insField_not_mem a [] k hk, lookup_foldl_insField_not_mem b [] k hk']

/-! ## `playersByID`, read out in key order, is the ascending list of the players' maps -/

/-- what `playersByID` should be: index ↦ map, ascending by index -/
def playerTable (ps : List (Nat × List (Bytes × Bytes))) : List (Int × List (Bytes × Bytes)) :=
  (sortById ps).map fun p => ((p.1 : Int), mkMap p.2)

theorem playerTable_sorted (ps : List (Nat × List (Bytes × Bytes))) (hn : (ps.map (·.1)).Nodup) :
    (keysG (playerTable ps)).Pairwise (· < ·) := by
  simp only [keysG, playerTable, List.map_map, List.pairwise_map]
  exact (sortById_sorted ps hn).imp (fun h => by simpa using h)

theorem lookup_playerTable_mem (ps : List (Nat × List (Bytes × Bytes))) (hn : (ps.map (·.1)).Nodup)
    (p : Nat × List (Bytes × Bytes)) (hp : p ∈ ps) : lookupKV (p.1 : Int) (playerTable ps) = some (mkMap p.2) := by
  apply lookupKV_of_mem strictTotal_int _ _ _ (playerTable_sorted ps hn)
  exact List.mem_map.mpr ⟨p, (sortById_perm ps).mem_iff.mpr hp, rfl⟩

theorem lookup_playerTable_not_mem (ps : List (Nat × List (Bytes × Bytes))) (k : Int)
    (h : ∀ p ∈ ps, (p.1 : Int) ≠ k) : lookupKV k (playerTable ps) = none := by
  apply lookupKV_none_of_not_mem
  intro hk
  simp only [keysG, playerTable, List.map_map, List.mem_map] at hk
  obtain ⟨p, hp, he⟩ := hk
  exact h p ((sortById_perm ps).mem_iff.mp hp) he

/-- after `expandPayload`'s loop over any wire order of a well-formed status, `playersByID` is the player table -/
theorem foldl_stepP_wire (s : Status) (wf : WfStatus s) (w : List Item) (hw : WireOf s w) :
    w.foldl stepP [] = playerTable s.players := by
  apply assoc_ext strictTotal_int _ _ (foldl_stepP_sorted w [] (by simp [keysG])) (playerTable_sorted _ wf.player_ids)
  intro k
  rw [lookup_foldl_stepP]
  simp only [lookupKV, Option.getD_none, ← mkMap_eq]
  by_cases hex : ∃ p ∈ s.players, (p.1 : Int) = k
  · obtain ⟨p, hp, rfl⟩ := hex
    rw [pairsOfI_nat, hw.players, pairsFor_of_mem _ wf.player_ids p hp, if_neg (wf.player_keys p hp).1,
      lookup_playerTable_mem _ wf.player_ids p hp]
  · have hno : ∀ p ∈ s.players, (p.1 : Int) ≠ k := fun p hp e => hex ⟨p, hp, e⟩
    rw [lookup_playerTable_not_mem _ k hno]
    have : pairsOfI k w = [] := by
      by_cases hk : k < 0
      · exact pairsOfI_neg k hk w
      · obtain ⟨n, rfl⟩ := Int.eq_ofNat_of_zero_le (by omega : 0 ≤ k)
        rw [pairsOfI_nat, hw.players]
        exact pairsFor_not_mem _ _ (fun p hp e => hno p hp (by rw [e]))
    rw [if_pos this]

theorem foldl_stepP_fieldItems (fr : List (Bytes × Bytes)) (P : List (Int × List (Bytes × Bytes))) :
    (fr.map fun kv => Item.field kv.1 kv.2).foldl stepP P = P := by
  induction fr with
  | nil => rfl
  | cons kv t ih => simpa only [List.map_cons, List.foldl_cons, stepP] using ih

/-- **`expandPayload` over any wire order.**  For a well-formed status `s` and any wire order `w` of
it, followed by framing fields `fr`, the expansion is: server fields (later duplicates win), the
players' maps in ascending order of index, the objectives in order. -/
theorem expandPayload_wire (s : Status) (wf : WfStatus s) (w : List Item) (hw : WireOf s w)
    (fr : List (Bytes × Bytes)) (hfr : ∀ kv ∈ fr, usc ∉ kv.1 ∧ bsl ∉ kv.1 ∧ bsl ∉ kv.2) (v : Ver) :
    expandPayload (body (flatItems w ++ fr.flatMap fun kv => [kv.1, kv.2])) v =
      .ok ⟨mkMap (s.fields ++ fr), (sortById s.players).map (fun p => mkMap p.2), s.objectives, v⟩ := by
  have hfl : flatItems w ++ (fr.flatMap fun kv => [kv.1, kv.2]) =
      flatItems (w ++ fr.map fun kv => Item.field kv.1 kv.2) := by
    simp [flatItems, List.flatMap_append, List.flatMap_map, Item.name, Item.value]
  have hwf := wireOf_wfItem hw wf
  have hpr := proj_fieldItems fr
  rw [hfl, expandPayload_items]
  · rw [fieldsOf_append, objectivesOf_append, hpr.1, hpr.2.1, hw.fields, hw.objectives, List.append_nil,
      List.foldl_append]
    rw [foldl_stepP_fieldItems, foldl_stepP_wire s wf w hw]
    simp [playerTable, List.map_map, Function.comp_def]
  · intro it hit
    rcases List.mem_append.mp hit with h | h
    · exact (hwf it h).expOK
    · obtain ⟨kv, hkv, rfl⟩ := List.mem_map.mp h
      exact (hfr kv hkv).1
  · rw [← hfl]
    intro g hg
    rcases List.mem_append.mp hg with hg | hg
    · exact (FlatOK_flatItems w hwf).nobsl g hg
    · simp only [List.mem_flatMap, List.mem_cons, List.not_mem_nil, or_false] at hg
      obtain ⟨kv, hkv, h⟩ := hg
      rcases h with rfl | rfl
      · exact (hfr kv hkv).2.1
      · exact (hfr kv hkv).2.2

/-! ## the same players listed or sent in another order -/

/-- the player table depends only on which pairs each index has — not on the order in which the
players are listed, nor (keys being pairwise different) on the order of a player's pairs -/
theorem playerTable_perm (ps ps' : List (Nat × List (Bytes × Bytes)))
    (hn : (ps.map (·.1)).Nodup) (hn' : (ps'.map (·.1)).Nodup)
    (hne : ∀ p ∈ ps, p.2 ≠ []) (hne' : ∀ p ∈ ps', p.2 ≠ [])
    (hk : ∀ p ∈ ps, (p.2.map (·.1)).Nodup)
    (h : ∀ id, (pairsFor ps id).Perm (pairsFor ps' id)) : playerTable ps = playerTable ps' := by
  apply assoc_ext strictTotal_int _ _ (playerTable_sorted ps hn) (playerTable_sorted ps' hn')
  intro k
  by_cases hex : ∃ p ∈ ps, (p.1 : Int) = k
  · obtain ⟨p, hp, rfl⟩ := hex
    have e := pairsFor_of_mem ps hn p hp
    have hperm := h p.1
    rw [e] at hperm
    have hne2 : pairsFor ps' p.1 ≠ [] := by
      intro e0; rw [e0] at hperm; exact hne p hp hperm.eq_nil
    obtain ⟨p', hp', hid, he'⟩ := pairsFor_ne_nil ps' p.1 hne2
    rw [lookup_playerTable_mem ps hn p hp, ← hid, lookup_playerTable_mem ps' hn' p' hp', ← he']
    exact congrArg some (mkMap_perm _ _ hperm (hk p hp))
  · have hno : ∀ p ∈ ps, (p.1 : Int) ≠ k := fun p hp e => hex ⟨p, hp, e⟩
    rw [lookup_playerTable_not_mem ps k hno, lookup_playerTable_not_mem ps' k]
    intro p' hp' e
    have e' := pairsFor_of_mem ps' hn' p' hp'
    have hperm := h p'.1
    rw [e'] at hperm
    have : pairsFor ps p'.1 ≠ [] := by
      intro e0; rw [e0] at hperm; exact hne' p' hp' hperm.symm.eq_nil
    obtain ⟨p, hp, hid, _⟩ := pairsFor_ne_nil ps p'.1 this
    exact hno p hp (by rw [hid]; exact e)

end Swat4.GS1
