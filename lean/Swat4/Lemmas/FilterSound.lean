import Swat4.Lemmas.Filter
/-!
# The converse of `parse_render`: what `NewFromString` accepts is a spelling of what it returns (C03)

`FilterSpec.QueryText s q` is the declarative "s spells q" relation of the specification (lenient
grammar: signs, leading zeros, quotes inside quoted values, a trailing separator).  This file proves
`newFromString s = .ok fs → QueryText s (fs.map ofFilter)`.
-/
namespace Swat4.Filter
open Swat4 Swat4.FilterSpec

/-! ## integers -/

theorem isDigit_eq_isDec (b : UInt8) : isDigit b = isDec b := by
  unfold isDigit isDec
  simp [Bool.decide_and]

theorem digitsAcc_sound (ds : Bytes) (acc m : Nat) (h : digitsAcc acc ds = some m) :
    (∀ d ∈ ds, isDec d = true) ∧ m = ds.foldl (fun a d => a * 10 + (d.toNat - 48)) acc := by
  induction ds generalizing acc with
  | nil => simp [digitsAcc] at h; simp [h]
  | cons d ds ih =>
    unfold digitsAcc at h
    by_cases hd : isDigit d = true
    · simp only [hd, if_true] at h
      obtain ⟨h1, h2⟩ := ih _ h
      refine ⟨?_, by simpa using h2⟩
      intro x hx
      rcases List.mem_cons.1 hx with rfl | hx
      · rw [← isDigit_eq_isDec]; exact hd
      · exact h1 x hx
    · simp [hd] at h

/-- whatever `strconv.Atoi` accepts is a decimal literal of the result -/
theorem atoi_sound (t : Bytes) (n : Int) (h : atoi t = some n) : IntLit t n := by
  cases t with
  | nil => simp [atoi] at h
  | cons b r =>
    unfold atoi at h
    simp only at h
    by_cases hm : b = 0x2d
    · subst hm
      simp only [beq_self_eq_true, Bool.true_or, if_true] at h
      cases hr : r.isEmpty with
      | true => simp [hr] at h
      | false =>
        simp only [hr, Bool.false_eq_true, if_false] at h
        cases hd : digitsAcc 0 r with
        | none => simp [hd] at h
        | some m =>
          simp only [hd] at h
          by_cases hle : m ≤ 2 ^ 63
          · simp only [hle, if_true, Option.some.injEq] at h
            obtain ⟨h1, h2⟩ := digitsAcc_sound r 0 m hd
            refine ⟨[0x2d], r, rfl, .inr (.inr rfl), by intro e; simp [e] at hr, h1, ?_, ?_, ?_⟩
            · simp only [if_true, decVal, ← h2, ← h]
            · omega
            · omega
          · simp [hle] at h
    · by_cases hp : b = 0x2b
      · subst hp
        simp only [beq_self_eq_true, Bool.or_true, if_true] at h
        cases hr : r.isEmpty with
        | true => simp [hr] at h
        | false =>
          simp only [hr, Bool.false_eq_true, if_false] at h
          cases hd : digitsAcc 0 r with
          | none => simp [hd] at h
          | some m =>
            have hne : ((0x2b : UInt8) == 0x2d) = false := by decide
            simp only [hd, hne, Bool.false_eq_true, if_false] at h
            by_cases hlt : m < 2 ^ 63
            · simp only [hlt, if_true, Option.some.injEq] at h
              obtain ⟨h1, h2⟩ := digitsAcc_sound r 0 m hd
              refine ⟨[0x2b], r, rfl, .inr (.inl rfl), by intro e; simp [e] at hr, h1, ?_, ?_, ?_⟩
              · have : ¬ ([0x2b] : Bytes) = [0x2d] := by decide
                simp only [this, if_false, decVal, ← h2, ← h]
              · omega
              · omega
            · simp [hlt] at h
      · have e1 : (b == 0x2d) = false := by simpa using hm
        have e2 : (b == 0x2b) = false := by simpa using hp
        simp only [e1, e2, Bool.or_self, Bool.false_eq_true, if_false, List.isEmpty_cons] at h
        cases hd : digitsAcc 0 (b :: r) with
        | none => simp [hd] at h
        | some m =>
          simp only [hd] at h
          by_cases hlt : m < 2 ^ 63
          · simp only [hlt, if_true, Option.some.injEq] at h
            obtain ⟨h1, h2⟩ := digitsAcc_sound (b :: r) 0 m hd
            refine ⟨[], b :: r, rfl, .inl rfl, by simp, h1, ?_, ?_, ?_⟩
            · have : ¬ ([] : Bytes) = [0x2d] := by decide
              simp only [this, if_false, decVal, ← h2, ← h]
            · omega
            · omega
          · simp [hlt] at h

/-! ## values -/

theorem quoted_shape (t : Bytes) (q : UInt8) (hlen : t.length > 2) (hh : t.head? = some q) (hl : t.getLast? = some q) :
    t = [q] ++ (t.drop 1).dropLast ++ [q] ∧ (t.drop 1).dropLast ≠ [] := by
  cases t with
  | nil => simp at hlen
  | cons x r =>
    simp only [List.head?_cons, Option.some.injEq] at hh
    subst hh
    have hr : r ≠ [] := by intro e; subst e; simp at hlen
    have hl' : r.getLast? = some x := by
      cases r with
      | nil => exact absurd rfl hr
      | cons y r' => rwa [List.getLast?_cons_cons] at hl
    obtain ⟨ys, rfl⟩ := List.getLast?_eq_some_iff.1 hl'
    simp only [List.drop_one, List.tail_cons, List.dropLast_concat, List.cons_append, List.nil_append, true_and]
    intro e
    subst e
    simp at hlen

/-- whatever `parseRawFilterValue` accepts is a spelling of the value it returns -/
theorem parseValue_sound (t : Bytes) (v : FVal) (h : parseValue t = .ok v) : ValText t (ofFVal v) := by
  unfold parseValue at h
  cases ha : atoi t with
  | some n =>
    simp only [ha, Except.ok.injEq] at h
    subst h
    exact atoi_sound t n ha
  | none =>
    simp only [ha] at h
    by_cases hq : (decide (t.length > 2) && t.head? == some 0x27 && t.getLast? == some 0x27) = true
    · simp only [hq, if_true, Except.ok.injEq] at h
      subst h
      simp only [Bool.and_eq_true, decide_eq_true_iff, beq_iff_eq] at hq
      obtain ⟨h1, h2⟩ := quoted_shape t 0x27 hq.1.1 hq.1.2 hq.2
      exact ⟨h1, h2⟩
    · simp only [hq, Bool.false_eq_true, if_false] at h
      by_cases hf : isQueryField t = true
      · simp only [hf, if_true, Except.ok.injEq] at h
        subst h
        exact ⟨rfl, List.contains_iff_mem.1 hf⟩
      · simp [hf] at h

/-! ## clauses -/

theorem opOfRaw_sound (raw : Bytes) (o : Op) (h : opOfRaw raw = some o) : raw = renderOp o := by
  unfold opOfRaw at h
  split at h
  · cases h; assumption
  · split at h
    · cases h; assumption
    · split at h
      · cases h; assumption
      · split at h
        · cases h; assumption
        · cases h

/-- whatever `filter.Parse` accepts is a spelling of the clause it returns -/
theorem parse_sound1 (r : Bytes) (f : Filter) (h : parse r = .ok f) : ClauseText r (ofFilter f) := by
  unfold parse at h
  simp only at h
  split at h
  · cases h
  · split at h
    · cases h
    · rename_i v hv
      unfold newFilter at h
      split at h
      · cases h
      · rename_i hfield
        split at h
        · cases h
        · rename_i o ho
          simp only [Except.ok.injEq] at h
          subst h
          have hfield' : isQueryField (r.takeWhile fun b => !isOpByte b) = true := by simpa using hfield
          refine ⟨List.contains_iff_mem.1 hfield', _, ?_, parseValue_sound _ _ hv⟩
          simp only [ofFilter]
          rw [← opOfRaw_sound _ _ ho, List.append_assoc, List.takeWhile_append_dropWhile,
            List.takeWhile_append_dropWhile]

/-! ## the scanner -/

theorem scanFilter_split (s : Bytes) :
    (s = (scanFilter s).1 ∧ (scanFilter s).2 = []) ∨ s = (scanFilter s).1 ++ andSep ++ (scanFilter s).2 := by
  induction s with
  | nil => left; exact ⟨rfl, rfl⟩
  | cons b rest ih =>
    unfold scanFilter
    by_cases hp : andSep.isPrefixOf (b :: rest) = true
    · right
      obtain ⟨t, ht⟩ := List.isPrefixOf_iff_prefix.1 hp
      simp only [hp, if_true, List.nil_append]
      rw [← ht]
      simp [andSep]
    · simp only [hp, Bool.false_eq_true, if_false]
      rcases ih with ⟨h1, h2⟩ | h
      · left
        exact ⟨by rw [← h1], h2⟩
      · right
        simp only [List.cons_append]
        rw [← h]

theorem scanFilter_fst_prefix (s : Bytes) : (scanFilter s).1 <+: s := by
  rcases scanFilter_split s with ⟨h, _⟩ | h
  · rw [← h]; exact List.prefix_refl _
  · exact ⟨andSep ++ (scanFilter s).2, by rw [← List.append_assoc]; exact h.symm⟩

/-- the raw filter the scanner cuts off does not contain the separator -/
theorem scanFilter_fst_noSep (s : Bytes) : NoSep (scanFilter s).1 := by
  induction s with
  | nil =>
    rintro ⟨p, q, h⟩
    have := congrArg List.length h
    simp [scanFilter, andSep] at this
  | cons b rest ih =>
    by_cases hp : andSep.isPrefixOf (b :: rest) = true
    · rintro ⟨p, q, h⟩
      have hfst : (scanFilter (b :: rest)).1 = [] := by simp only [scanFilter, hp, if_true]
      rw [hfst] at h
      have := congrArg List.length h
      simp [andSep] at this
    · rintro ⟨p, q, h⟩
      have hfst : (scanFilter (b :: rest)).1 = b :: (scanFilter rest).1 := by
        simp [scanFilter, hp]
      rw [hfst] at h
      cases p with
      | nil =>
        apply hp
        apply List.isPrefixOf_iff_prefix.2
        obtain ⟨u, hu⟩ := scanFilter_fst_prefix rest
        refine ⟨q ++ u, ?_⟩
        rw [← hu, ← List.cons_append, h]
        simp
      | cons x p' =>
        simp only [List.cons_append, List.cons.injEq] at h
        exact ih ⟨p', q, by simpa using h.2⟩

theorem rawFilters_nil : rawFilters [] = [] := rfl

theorem rawFilters_ne_nil (s : Bytes) (h : s ≠ []) : rawFilters s ≠ [] := by
  rw [rawFilters_eq]
  cases s with
  | nil => exact absurd rfl h
  | cons b r => simp

def AllNoSep : List Bytes → Prop
  | [] => True
  | r :: rs => NoSep r ∧ AllNoSep rs

/-- the raw filters of `s`, joined by the separator, are `s` again — up to one trailing separator —
and none of them contains the separator -/
theorem rawFilters_join (s : Bytes) (hne : s ≠ []) :
    (s = joinAnd (rawFilters s) ∨ s = joinAnd (rawFilters s) ++ andSep) ∧ AllNoSep (rawFilters s) := by
  generalize hn : s.length = n
  induction n using Nat.strongRecOn generalizing s with
  | _ n ih =>
    have hlt := scanFilter_snd_lt s hne
    have hns := scanFilter_fst_noSep s
    have heq : rawFilters s = (scanFilter s).1 :: rawFilters (scanFilter s).2 := by
      rw [rawFilters_eq]
      cases s with
      | nil => exact absurd rfl hne
      | cons b r => simp
    rw [heq]
    by_cases hb : (scanFilter s).2 = []
    · rw [hb, rawFilters_nil]
      refine ⟨?_, hns, trivial⟩
      rcases scanFilter_split s with ⟨h1, _⟩ | h
      · left; exact h1
      · right; rw [hb] at h; simpa [joinAnd] using h
    · obtain ⟨hj, hall⟩ := ih _ (by omega) (scanFilter s).2 hb rfl
      refine ⟨?_, hns, hall⟩
      have hs : s = (scanFilter s).1 ++ andSep ++ (scanFilter s).2 := by
        rcases scanFilter_split s with ⟨_, h2⟩ | h
        · exact absurd h2 hb
        · exact h
      have hrs := rawFilters_ne_nil _ hb
      cases hrf : rawFilters (scanFilter s).2 with
      | nil => exact absurd hrf hrs
      | cons r' rs' =>
        rw [hrf] at hj
        simp only [joinAnd]
        rcases hj with hj | hj
        · left; rw [← hj]; exact hs
        · right; rw [List.append_assoc, ← hj]; exact hs

/-! ## the whole query -/

theorem parseAll_sound (rs : List Bytes) (fs : List Filter) (hns : AllNoSep rs) (h : parseAll rs = .ok fs) :
    ClausesText rs (fs.map ofFilter) := by
  induction rs generalizing fs with
  | nil =>
    simp only [parseAll, Except.ok.injEq] at h
    subst h
    trivial
  | cons r rs ih =>
    unfold parseAll at h
    split at h
    · cases h
    · rename_i f hf
      split at h
      · cases h
      · rename_i fs' hfs
        simp only [Except.ok.injEq] at h
        subst h
        exact ⟨hns.1, parse_sound1 r f hf, ih fs' hns.2 hfs⟩

/-- **Soundness of the parser** (converse of `parse_render`): a string `NewFromString` accepts is a
spelling — in the lenient grammar `QueryText` — of exactly the clauses it returns -/
theorem newFromString_sound (s : Bytes) (fs : List Filter) (h : newFromString s = .ok fs) :
    QueryText s (fs.map ofFilter) := by
  unfold newFromString at h
  split at h
  · cases h
  · cases h
  · rename_i fs' hne hp
    simp only [Except.ok.injEq] at h
    subst h
    have hs : s ≠ [] := by
      intro e
      subst e
      simp only [rawFilters_nil, parseAll, Except.ok.injEq] at hp
      exact hne hp.symm
    obtain ⟨hj, hall⟩ := rawFilters_join s hs
    refine ⟨?_, rawFilters s, parseAll_sound _ _ hall hp, hj⟩
    intro e
    cases fs' with
    | nil => exact hne rfl
    | cons f fs => simp at e

end Swat4.Filter
