import Swat4.Model.Styles
import Swat4.Spec.RestSpec
/-!
Helper lemmas for C17, markup part.

`Inertp` is the inductive counterpart of the tokenizer `RestSpec.Inert`: a text is a sequence of
*plain* characters (anything but `< > & " '`) and *atoms* (the five entities, the opening span tag
with six hex digits, the closing span tag).  Brackets are plain characters and occur in no atom, so
a text can always be cut at a bracket (`cut_at_bracket`); every replacement `ToHTML` makes removes a
stretch that starts with `[` and ends with `]`, or rewrites one that starts with `[` and ends just
before the next `[` (or at the end), so it never splits an atom.
-/
namespace Swat4.Styles
open Swat4

def Plain (c : Char) : Prop := c ≠ '<' ∧ c ≠ '>' ∧ c ≠ '&' ∧ c ≠ '"' ∧ c ≠ '\''

inductive Atom : List Char → Prop
  | lt : Atom ['&', 'l', 't', ';']
  | gt : Atom ['&', 'g', 't', ';']
  | amp : Atom ['&', 'a', 'm', 'p', ';']
  | apos : Atom ['&', '#', '3', '9', ';']
  | quot : Atom ['&', '#', '3', '4', ';']
  | spanOpen (h1 h2 h3 h4 h5 h6 : Char) :
      isHex h1 = true → isHex h2 = true → isHex h3 = true → isHex h4 = true → isHex h5 = true → isHex h6 = true →
      Atom (spanOpen [h1, h2, h3, h4, h5, h6])
  | spanClose : Atom spanClose

inductive Inertp : List Char → Prop
  | nil : Inertp []
  | plain (c : Char) (t : List Char) : Plain c → Inertp t → Inertp (c :: t)
  | atom (a t : List Char) : Atom a → Inertp t → Inertp (a ++ t)

def IsBracket (c : Char) : Prop := c = '[' ∨ c = ']'

theorem isHex_not_bracket (c : Char) (h : isHex c = true) : ¬ IsBracket c := by
  rintro (rfl | rfl) <;> simp [isHex] at h

theorem bracket_plain (c : Char) (h : IsBracket c) : Plain c := by
  rcases h with rfl | rfl <;> simp [Plain]

theorem atom_no_bracket (a : List Char) (ha : Atom a) (c : Char) (hc : c ∈ a) : ¬ IsBracket c := by
  intro hb
  cases ha with
  | spanOpen h1 h2 h3 h4 h5 h6 e1 e2 e3 e4 e5 e6 =>
    simp only [Styles.spanOpen, List.mem_append, List.mem_cons, List.not_mem_nil, or_false] at hc
    rcases hc with (hc | hc) | hc
    · rcases hb with rfl | rfl <;> simp at hc
    · rcases hc with rfl | rfl | rfl | rfl | rfl | rfl
      · exact isHex_not_bracket _ e1 hb
      · exact isHex_not_bracket _ e2 hb
      · exact isHex_not_bracket _ e3 hb
      · exact isHex_not_bracket _ e4 hb
      · exact isHex_not_bracket _ e5 hb
      · exact isHex_not_bracket _ e6 hb
    · rcases hb with rfl | rfl <;> simp at hc
  | _ => rcases hb with rfl | rfl <;> simp [Styles.spanClose] at hc

theorem atom_ne_nil (a : List Char) (ha : Atom a) : a ≠ [] := by
  cases ha <;> simp [Styles.spanOpen, Styles.spanClose]

theorem Inertp.append {a b : List Char} (ha : Inertp a) (hb : Inertp b) : Inertp (a ++ b) := by
  induction ha with
  | nil => simpa using hb
  | plain c t hc _ ih => exact Inertp.plain c _ hc ih
  | atom x t hx _ ih => rw [List.append_assoc]; exact Inertp.atom x _ hx ih

theorem Inertp.of_atom {a : List Char} (ha : Atom a) : Inertp a := by
  have := Inertp.atom a [] ha Inertp.nil
  simpa using this

/-- a text can be cut at any bracket: what precedes it and what follows it are inert -/
theorem cut_at_bracket (xs : List Char) (h : Inertp xs) :
    ∀ (pre : List Char) (c : Char) (suf : List Char), xs = pre ++ c :: suf → IsBracket c →
      Inertp pre ∧ Inertp suf := by
  induction h with
  | nil => intro pre c suf e; simp at e
  | plain x t hx ht ih =>
    intro pre c suf e hb
    cases pre with
    | nil =>
      simp only [List.nil_append, List.cons.injEq] at e
      obtain ⟨rfl, rfl⟩ := e
      exact ⟨Inertp.nil, ht⟩
    | cons p pre' =>
      simp only [List.cons_append, List.cons.injEq] at e
      obtain ⟨rfl, rfl⟩ := e
      have := ih pre' c suf rfl hb
      exact ⟨Inertp.plain _ _ hx this.1, this.2⟩
  | atom a t ha ht ih =>
    intro pre c suf e hb
    rcases List.append_eq_append_iff.mp e with ⟨a', rfl, e2⟩ | ⟨c', e1, e2⟩
    · -- a ++ a' = pre,  t = a' ++ c :: suf
      have := ih a' c suf e2 hb
      exact ⟨Inertp.atom a a' ha this.1, this.2⟩
    · -- a = pre ++ c', c :: suf = c' ++ t
      cases c' with
      | nil =>
        simp only [List.nil_append] at e2
        simp only [List.append_nil] at e1
        have := ih [] c suf (by simpa using e2.symm) hb
        subst e1
        exact ⟨Inertp.of_atom ha, this.2⟩
      | cons y c'' =>
        simp only [List.cons_append, List.cons.injEq] at e2
        obtain ⟨rfl, _⟩ := e2
        exact absurd hb (atom_no_bracket a ha c (by rw [e1]; simp))

/-! ## escaping -/

theorem escape_inert (h : List Char) : Inertp (escape h) := by
  induction h with
  | nil => exact Inertp.nil
  | cons c t ih =>
    unfold escape escapeChar
    split
    · exact Inertp.atom _ _ Atom.lt ih
    · split
      · exact Inertp.atom _ _ Atom.gt ih
      · split
        · exact Inertp.atom _ _ Atom.amp ih
        · split
          · exact Inertp.atom _ _ Atom.apos ih
          · split
            · exact Inertp.atom _ _ Atom.quot ih
            · next h1 h2 h3 h4 h5 => exact Inertp.plain c _ ⟨h1, h2, h3, h5, h4⟩ ih

/-! ## deleting passes -/

/-- a deleting scanner only ever matches a stretch `[ … ]` at the head -/
def DelSpec (m : List Char → Nat) : Prop :=
  ∀ xs, m xs ≠ 0 → ∃ mid rest, xs = '[' :: (mid ++ ']' :: rest) ∧ m xs = mid.length + 2

theorem drop_of_delSpec {xs mid rest : List Char} {n : Nat}
    (e : xs = '[' :: (mid ++ ']' :: rest)) (hn : n = mid.length + 2) : xs.drop n = rest := by
  subst e hn
  simp

theorem delAll_inert (m : List Char → Nat) (hm : DelSpec m) :
    ∀ (fuel : Nat) (pre xs : List Char), Inertp (pre ++ xs) → Inertp (pre ++ delAll m fuel xs) := by
  intro fuel
  induction fuel with
  | zero => intro pre xs h; simpa [delAll] using h
  | succ f ih =>
    intro pre xs h
    cases xs with
    | nil => simpa [delAll] using h
    | cons c t =>
      unfold delAll
      split
      · have := ih (pre ++ [c]) t (by simpa using h)
        simpa using this
      · next hne =>
        obtain ⟨mid, rest, e, hn⟩ := hm (c :: t) hne
        rw [drop_of_delSpec e hn]
        apply ih
        rw [e] at h
        have h1 := cut_at_bracket _ h pre '[' (mid ++ ']' :: rest) rfl (.inl rfl)
        have h2 := cut_at_bracket _ h1.2 mid ']' rest rfl (.inr rfl)
        exact h1.1.append h2.2

theorem split_at_getElem? {α : Type} (l : List α) (k : Nat) (y : α) (h : l[k]? = some y) :
    ∃ mid rest, l = mid ++ y :: rest ∧ mid.length = k := by
  induction l generalizing k with
  | nil => simp at h
  | cons x t ih =>
    cases k with
    | zero => simp at h; exact ⟨[], t, by simp [h], rfl⟩
    | succ k =>
      simp at h
      obtain ⟨mid, rest, e, hl⟩ := ih k h
      exact ⟨x :: mid, rest, by simp [e], by simp [hl]⟩

theorem tailGroup_spec (u : List Char) (h : tailGroup u ≠ 0) :
    ∃ mid rest, u = mid ++ ']' :: rest ∧ tailGroup u = mid.length + 1 := by
  cases u with
  | nil => simp [tailGroup] at h
  | cons x t =>
    simp only [tailGroup] at h ⊢
    by_cases hw : isWordFold x = true
    · simp [hw] at h
    · by_cases hg : t[runLen t]? = some ']'
      · obtain ⟨mid, rest, e, hl⟩ := split_at_getElem? t (runLen t) ']' hg
        refine ⟨x :: mid, rest, by simp [e], ?_⟩
        simp [hw, hg, hl]
      · simp [hw, hg] at h

theorem m1_spec : DelSpec m1 := by
  intro xs h
  unfold m1 at h ⊢
  split at h
  · next a b c t =>
    split at h
    · next ha =>
      subst ha
      split at h
      · next hb =>
        subst hb
        split at h
        · next d t' =>
          split at h
          · next hcd =>
            simp only [Bool.and_eq_true, beq_iff_eq] at hcd
            refine ⟨['\\', c], t', by simp [hcd.2], by simp [hcd]⟩
          · exact absurd rfl h
        · exact absurd rfl h
      · next hb =>
        split at h
        · next hcd =>
          simp only [Bool.and_eq_true, beq_iff_eq] at hcd
          refine ⟨[b], t, by simp [hcd.2], by simp [hb, hcd]⟩
        · exact absurd rfl h
    · exact absurd rfl h
  · exact absurd rfl h

theorem afterC3_spec (u : List Char) (h : afterC3 u ≠ 0) :
    ∃ mid rest, u = mid ++ ']' :: rest ∧ afterC3 u = mid.length + 1 := by
  unfold afterC3 at h ⊢
  by_cases hg : tailGroup u > 0
  · simp only [hg, if_true] at h ⊢
    exact tailGroup_spec u (by omega)
  · simp only [hg, if_false] at h ⊢
    cases u with
    | nil => simp at h
    | cons d t =>
      simp only at h ⊢
      by_cases hd : d = ']'
      · subst hd; exact ⟨[], t, by simp, by simp⟩
      · simp [hd] at h

theorem fromC3_spec (u : List Char) (h : fromC3 u ≠ 0) :
    ∃ mid rest, u = mid ++ ']' :: rest ∧ fromC3 u = mid.length + 1 := by
  cases u with
  | nil => simp [fromC3] at h
  | cons c t =>
    simp only [fromC3] at h ⊢
    by_cases hc : (isC c && decide (afterC3 t > 0)) = true
    · simp only [hc, if_true] at h ⊢
      simp only [Bool.and_eq_true, decide_eq_true_eq] at hc
      obtain ⟨mid, rest, e, hl⟩ := afterC3_spec t (by omega)
      exact ⟨c :: mid, rest, by simp [e], by simp [hl]⟩
    · simp [hc] at h

theorem m3_spec : DelSpec m3 := by
  intro xs h
  cases xs with
  | nil => simp [m3] at h
  | cons a t1 =>
    cases t1 with
    | nil => simp [m3] at h
    | cons b t =>
      simp only [m3] at h ⊢
      by_cases ha : a = '['
      · subst ha
        simp only [if_true] at h ⊢
        by_cases hb : b = '\\'
        · subst hb
          simp only [if_true] at h ⊢
          by_cases hf : fromC3 t > 0
          · simp only [hf, if_true] at h ⊢
            obtain ⟨mid, rest, e, hl⟩ := fromC3_spec t (by omega)
            exact ⟨'\\' :: mid, rest, by simp [e], by simp [hl]⟩
          · simp [hf] at h
        · simp only [hb, if_false] at h ⊢
          by_cases hf : fromC3 (b :: t) > 0
          · simp only [hf, if_true] at h ⊢
            obtain ⟨mid, rest, e, hl⟩ := fromC3_spec (b :: t) (by omega)
            exact ⟨mid, rest, by simp [e], by simp [hl]⟩
          · simp [hf] at h
      · simp [ha] at h

/-! ## the span pass -/

theorem length6 (l : List Char) (h : l.length = 6) : ∃ a b c d e f, l = [a, b, c, d, e, f] := by
  match l, h with
  | [a, b, c, d, e, f], _ => exact ⟨a, b, c, d, e, f, rfl⟩

theorem dropWhile_head_false {α : Type} (p : α → Bool) (l : List α) (y : α) (r : List α)
    (h : l.dropWhile p = y :: r) : p y = false := by
  induction l with
  | nil => simp at h
  | cons x t ih =>
    rw [List.dropWhile_cons] at h
    split at h
    · exact ih h
    · next hx => cases h; simpa using hx

theorem m2_spec (xs hex body rest : List Char) (h : m2 xs = some (hex, body, rest)) :
    ∃ c x, xs = '[' :: c :: x :: (hex ++ ']' :: (body ++ rest)) ∧ hex.length = 6 ∧
      hex.all isHex = true ∧ (rest = [] ∨ ∃ r, rest = '[' :: r) := by
  unfold m2 at h
  split at h
  · next a c x t =>
    split at h
    · next hc =>
      simp only [Bool.and_eq_true, beq_iff_eq, Bool.not_eq_true'] at hc
      obtain ⟨⟨⟨⟨⟨⟨ha, _⟩, _⟩, hlen⟩, hhex⟩, hget⟩, _⟩ := hc
      simp only [Option.some.injEq, Prod.mk.injEq] at h
      obtain ⟨rfl, rfl, rfl⟩ := h
      subst ha
      refine ⟨c, x, ?_, hlen, hhex, ?_⟩
      · obtain ⟨mid, rest', rfl, hl⟩ := split_at_getElem? t 6 ']' hget
        obtain ⟨h1, h2, h3, h4, h5, h6, rfl⟩ := length6 mid hl
        simp [List.takeWhile_append_dropWhile]
      · cases hd : (t.drop 7).dropWhile (· != '[') with
        | nil => exact .inl rfl
        | cons y r =>
          right
          have := dropWhile_head_false _ _ _ _ hd
          simp at this
          exact ⟨r, by rw [this]⟩
    · cases h
  · cases h

theorem spanOpen_atom (hex : List Char) (hl : hex.length = 6) (hh : hex.all isHex = true) :
    Atom (spanOpen hex) := by
  obtain ⟨a, b, c, d, e, f, rfl⟩ := length6 hex hl
  simp only [List.all_cons, List.all_nil, Bool.and_true, Bool.and_eq_true] at hh
  exact Atom.spanOpen a b c d e f hh.1 hh.2.1 hh.2.2.1 hh.2.2.2.1 hh.2.2.2.2.1 hh.2.2.2.2.2

theorem spanAll_inert :
    ∀ (fuel : Nat) (pre xs : List Char), Inertp (pre ++ xs) → Inertp (pre ++ spanAll fuel xs) := by
  intro fuel
  induction fuel with
  | zero => intro pre xs h; simpa [spanAll] using h
  | succ f ih =>
    intro pre xs h
    cases xs with
    | nil => simpa [spanAll] using h
    | cons c t =>
      unfold spanAll
      split
      · next hex body rest hm =>
        obtain ⟨c', x, e, hl, hh, hrest⟩ := m2_spec _ _ _ _ hm
        rw [e] at h
        have h1 := cut_at_bracket _ h pre '[' _ rfl (.inl rfl)
        have h2 := cut_at_bracket _ h (pre ++ '[' :: c' :: x :: hex) ']' (body ++ rest) (by simp) (.inr rfl)
        have hbody : Inertp body ∧ Inertp rest := by
          rcases hrest with rfl | ⟨r, rfl⟩
          · exact ⟨by simpa using h2.2, Inertp.nil⟩
          · have := cut_at_bracket _ h2.2 body '[' r rfl (.inl rfl)
            exact ⟨this.1, Inertp.plain _ _ (bracket_plain _ (.inl rfl)) this.2⟩
        have hpre' : Inertp (pre ++ (spanOpen hex ++ body ++ spanClose)) :=
          h1.1.append (((Inertp.of_atom (spanOpen_atom hex hl hh)).append hbody.1).append (Inertp.of_atom Atom.spanClose))
        have := ih (pre ++ (spanOpen hex ++ body ++ spanClose)) rest (hpre'.append hbody.2)
        simpa [List.append_assoc] using this
      · have := ih (pre ++ [c]) t (by simpa using h)
        simpa using this

/-- **the markup `ToHTML` produces is a sequence of plain characters and atoms** -/
theorem toHTML_inertp (h : List Char) : Inertp (toHTML h) := by
  unfold toHTML pass3 pass2 pass1
  have h0 := escape_inert h
  have h1 := delAll_inert m1 m1_spec ((escape h).length + 1) [] (escape h) (by simpa using h0)
  simp only [List.nil_append] at h1
  have h2 := spanAll_inert ((delAll m1 ((escape h).length + 1) (escape h)).length + 1) [] _ (by simpa using h1)
  simp only [List.nil_append] at h2
  have h3 := delAll_inert m3 m3_spec ((spanAll ((delAll m1 ((escape h).length + 1) (escape h)).length + 1)
    (delAll m1 ((escape h).length + 1) (escape h))).length + 1) [] _ (by simpa using h2)
  simpa using h3

/-! ## from `Inertp` to the reference tokenizer -/

theorem isHex_hexDigit (c : Char) (h : isHex c = true) : RestSpec.hexDigit c = true := by
  unfold isHex at h
  unfold RestSpec.hexDigit
  simp only [Bool.or_eq_true, Bool.and_eq_true, decide_eq_true_eq, Char.le_def, UInt32.le_iff_toNat_le] at h ⊢
  exact h

theorem token_plain (c : Char) (t : List Char) (hc : Plain c) : RestSpec.token (c :: t) = some t := by
  obtain ⟨h1, h2, h3, h4, h5⟩ := hc
  simp [RestSpec.token, h1, h2, h3, h4, h5]

theorem token_atom (a t : List Char) (ha : Atom a) : RestSpec.token (a ++ t) = some t := by
  cases ha with
  | spanOpen h1 h2 h3 h4 h5 h6 e1 e2 e3 e4 e5 e6 =>
    have := isHex_hexDigit _ e1
    have := isHex_hexDigit _ e2
    have := isHex_hexDigit _ e3
    have := isHex_hexDigit _ e4
    have := isHex_hexDigit _ e5
    have := isHex_hexDigit _ e6
    simp [Styles.spanOpen, RestSpec.token, RestSpec.strip, RestSpec.closeTag, RestSpec.openHead, RestSpec.openTail,
      List.isPrefixOf, *]
  | _ =>
    simp [Styles.spanClose, RestSpec.token, RestSpec.strip, RestSpec.entities, RestSpec.closeTag, List.isPrefixOf]

theorem inertFuel_of_inertp (t : List Char) (h : Inertp t) :
    ∀ f, t.length ≤ f → RestSpec.inertFuel f t = true := by
  induction h with
  | nil => intro f _; cases f <;> rfl
  | plain c t hc _ ih =>
    intro f hf
    cases f with
    | zero => simp at hf
    | succ f =>
      simp only [RestSpec.inertFuel, token_plain c t hc]
      exact ih f (by simpa using hf)
  | atom a t ha _ ih =>
    intro f hf
    have hne := atom_ne_nil a ha
    cases hat : a ++ t with
    | nil => cases f <;> rfl
    | cons x r =>
      cases f with
      | zero =>
        have : (a ++ t).length = 0 := by omega
        rw [hat] at this; simp at this
      | succ f =>
        have htok := token_atom a t ha
        rw [hat] at htok
        simp only [RestSpec.inertFuel, htok]
        apply ih
        have : a.length ≥ 1 := by
          cases a with
          | nil => exact absurd rfl hne
          | cons _ _ => simp
        simp only [List.length_append] at hf
        omega

theorem inert_of_inertp (t : List Char) (h : Inertp t) : RestSpec.Inert t = true :=
  inertFuel_of_inertp t h t.length (Nat.le_refl _)

end Swat4.Styles
